module verif/regen

go 1.18
