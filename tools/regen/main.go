// Command regen transcribes the classification tables of /repo/characterize.go
// (invokeRegistry, handlerRegistry) into coq/model/Registry.v.  It recognises a fixed set of
// statement shapes in the mutate functions and fails (exit 1) on anything else, so a change to
// the tables it cannot faithfully transcribe breaks the build instead of being ignored.
//
//	regen /repo/characterize.go out/Registry.v
package main

import (
	"bytes"
	"fmt"
	"go/ast"
	"go/parser"
	"go/printer"
	"go/token"
	"os"
	"strings"
)

var fset = token.NewFileSet()

func src(n ast.Node) string {
	var b bytes.Buffer
	printer.Fprint(&b, fset, n)
	return strings.Join(strings.Fields(b.String()), " ")
}

func fail(format string, a ...any) {
	fmt.Fprintf(os.Stderr, "regen: "+format+"\n", a...)
	os.Exit(1)
}

var predNames = map[string]bool{
	"notNil": true, "notFunc": true, "isFunc": true, "isLast": true, "notLast": true, "unstaticOkay": true,
	"inStatic": true, "hasOutputs": true, "mustNotMemoize": true, "markedMemoized": true, "markedCacheable": true,
	"markedSingleton": true, "notMarkedReorder": true, "notMarkedSingleton": true, "notMarkedNoCache": true,
	"mappableInputs": true, "possibleMapKey": true, "returnsTerminalError": true, "noAnonymousFuncs": true,
	"noAnonymousExceptFirstInput": true, "hasInner": true, "isFuncPointer": true, "isNotFuncPointer": true,
}

// the predicate definitions themselves are part of what is transcribed by hand (Classify.v); pin their source
var predSources = map[string]string{
	"notNil":               `predicate("is nil", func(a testArgs) bool { return !a.isNil })`,
	"notFunc":              `predicate("is a function", func(a testArgs) bool { return a.t.Kind() != reflect.Func })`,
	"isFunc":               `predicate("is not a function", func(a testArgs) bool { return a.t.Kind() == reflect.Func })`,
	"isLast":               `predicate("is not the final item in the provider chain", func(a testArgs) bool { return a.cc.isLast })`,
	"notLast":              `predicate("must not be last", func(a testArgs) bool { return !a.cc.isLast })`,
	"unstaticOkay":         `predicate("is marked MustCache", func(a testArgs) bool { return !a.fm.mustCache })`,
	"inStatic":             `predicate("is after invoke", func(a testArgs) bool { return a.cc.inputsAreStatic })`,
	"hasOutputs":           `predicate("does not have outputs", func(a testArgs) bool { return len(stripUnused(typesOut(a.t))) != 0 })`,
	"mustNotMemoize":       `predicate("is marked Memoized", func(a testArgs) bool { return !a.fm.memoize })`,
	"markedMemoized":       `predicate("is not marked Memoized", func(a testArgs) bool { return a.fm.memoize })`,
	"markedCacheable":      `predicate("is not marked Cacheable", func(a testArgs) bool { return a.fm.cacheable })`,
	"markedSingleton":      `predicate("is not marked Singleton", func(a testArgs) bool { return a.fm.singleton })`,
	"notMarkedReorder":     `predicate("is marked Reorder", func(a testArgs) bool { return !a.fm.reorder })`,
	"notMarkedSingleton":   `predicate("is marked Singleton", func(a testArgs) bool { return !a.fm.singleton })`,
	"notMarkedNoCache":     `predicate("is marked NotCacheable", func(a testArgs) bool { return !a.fm.notCacheable })`,
	"mappableInputs":       `predicate("has inputs that cannot be map keys", func(a testArgs) bool { return mappable(typesIn(a.t)...) })`,
	"possibleMapKey":       `predicate("type is not cacheable", func(a testArgs) bool { p, _ := canBeMapKey(typesIn(a.t)); return p })`,
	"returnsTerminalError": `predicate("does not return TerminalError", func(a testArgs) bool { for _, out := range typesOut(a.t) { if out == terminalErrorType { return true } } return false })`,
}

var classMap = map[string]string{
	"fallibleInjectorFunc": "ClFallible", "fallibleStaticInjectorFunc": "ClFallibleStatic", "injectorFunc": "ClInjector",
	"wrapperFunc": "ClWrapper", "finalFunc": "ClFinal", "staticInjectorFunc": "ClStatic", "literalValue": "ClLiteral",
	"initFunc": "ClInit", "invokeFunc": "ClInvoke",
}
var groupMap = map[string]string{
	"invokeGroup": "GInvoke", "literalGroup": "GLiteral", "staticGroup": "GStatic", "runGroup": "GRun", "finalGroup": "GFinal",
}
var flowExpr = map[string]string{
	"toTypeCodes(typesIn(a.t))":                              "FE_typesIn",
	"toTypeCodes(typesOut(a.t))":                             "FE_typesOut",
	"toTypeCodes(remapTerminalError(typesOut(a.t)))":         "FE_remapTE_typesOut",
	"toTypeCodes(redactTerminalError(typesOut(a.t)))":        "FE_redactTE_typesOut",
	"toTypeCodes([]reflect.Type{errorType})":                 "FE_errorOnly",
	"toTypeCodes([]reflect.Type{a.t.(reflect.Type)})":        "FE_self",
	"toTypeCodes(in)":                                        "FE_wrapperIn",
	"toTypeCodes(typesIn(inner))":                            "FE_innerIn",
	"toTypeCodes(typesOut(inner))":                           "FE_innerOut",
	"toTypeCodes(typesIn(a.t.Elem()))":                       "FE_elemIn",
	"toTypeCodes(typesOut(a.t.Elem()))":                      "FE_elemOut",
}

type entry struct {
	name                          string
	tests                         []string
	group, class                  string
	in, out, ret, recv, bypass    string
	memoized, required, synthetic bool
}

func boolS(b bool) string {
	if b {
		return "true"
	}
	return "false"
}

// statements that are bookkeeping of the wrapper / reflective cases and carry no table content
var ignorable = map[string]bool{
	"in := typesIn(a.t)":                                 true,
	"in[0] = reflect.TypeOf(noTypeExampleValue)":         true,
	"var inner reflectType":                              true,
	"_, a.fm.mapKeyCheck = canBeMapKey(typesIn(a.t))":    true,
}

func (e *entry) stmt(s ast.Stmt, reflectiveBranch bool) {
	text := src(s)
	if ignorable[text] {
		return
	}
	switch st := s.(type) {
	case *ast.AssignStmt:
		if len(st.Lhs) != 1 || len(st.Rhs) != 1 {
			fail("entry %q: unrecognised assignment %s", e.name, text)
		}
		lhs, rhs := src(st.Lhs[0]), src(st.Rhs[0])
		switch {
		case lhs == "a.fm.group":
			g, ok := groupMap[rhs]
			if !ok {
				fail("entry %q: unknown group %s", e.name, rhs)
			}
			e.group = g
		case lhs == "a.fm.class":
			c, ok := classMap[rhs]
			if !ok {
				fail("entry %q: unknown class %s", e.name, rhs)
			}
			e.class = c
		case lhs == "a.fm.memoized" && rhs == "true":
			e.memoized = true
		case lhs == "a.fm.required" && rhs == "true":
			e.required = true
		case lhs == "a.fm.isSynthetic" && rhs == "true":
			e.synthetic = true
		case strings.HasPrefix(lhs, "a.fm.flows["):
			k := strings.TrimSuffix(strings.TrimPrefix(lhs, "a.fm.flows["), "]")
			if reflectiveBranch {
				// the ReflectiveInvoker branch must be the pointer branch without Elem()
				rhs = strings.Replace(rhs, "(a.t))", "(a.t.Elem()))", 1)
			}
			fe, ok := flowExpr[rhs]
			if !ok {
				fail("entry %q: unrecognised flow expression %s", e.name, rhs)
			}
			var dst *string
			switch k {
			case "inputParams":
				dst = &e.in
			case "outputParams":
				dst = &e.out
			case "returnParams":
				dst = &e.ret
			case "receivedParams":
				dst = &e.recv
			case "bypassParams":
				dst = &e.bypass
			default:
				fail("entry %q: unknown flow %s", e.name, k)
			}
			if *dst != "FE_none" && *dst != fe {
				fail("entry %q: flow %s assigned twice with different expressions (%s, %s)", e.name, k, *dst, fe)
			}
			*dst = fe
		default:
			fail("entry %q: unrecognised assignment %s", e.name, text)
		}
	case *ast.IfStmt:
		cond := src(st.Cond)
		init := ""
		if st.Init != nil {
			init = src(st.Init)
		}
		switch {
		case init == "_, ok := a.fm.fn.(ReflectiveInvoker)" && cond == "ok":
			for _, x := range st.Body.List {
				e.stmt(x, true)
			}
			if eb, ok := st.Else.(*ast.BlockStmt); ok {
				for _, x := range eb.List {
					e.stmt(x, false)
				}
			} else {
				fail("entry %q: ReflectiveInvoker branch without else", e.name)
			}
		case init == "w, ok := a.fm.fn.(ReflectiveWrapper)" && cond == "ok":
			want := "{ inner = wrappedReflective{w.Inner()} } else { inner = a.t.In(0) }"
			got := src(st.Body) + " else " + src(st.Else)
			if strings.Join(strings.Fields(got), " ") != want {
				fail("entry %q: unrecognised inner selection %s", e.name, got)
			}
		default:
			fail("entry %q: unrecognised if statement %s", e.name, text)
		}
	case *ast.DeclStmt:
		fail("entry %q: unrecognised declaration %s", e.name, text)
	default:
		fail("entry %q: unrecognised statement %s", e.name, text)
	}
}

func parseRegistry(lit *ast.CompositeLit) []*entry {
	var out []*entry
	for _, el := range lit.Elts {
		cl, ok := el.(*ast.CompositeLit)
		if !ok {
			fail("registry element is not a composite literal: %s", src(el))
		}
		e := &entry{in: "FE_none", out: "FE_none", ret: "FE_none", recv: "FE_none", bypass: "FE_none"}
		for _, f := range cl.Elts {
			kv, ok := f.(*ast.KeyValueExpr)
			if !ok {
				fail("registry entry field without key: %s", src(f))
			}
			switch src(kv.Key) {
			case "name":
				e.name = strings.Trim(src(kv.Value), `"`)
			case "tests":
				tl, ok := kv.Value.(*ast.CompositeLit)
				if !ok {
					fail("entry %q: tests is not a literal", e.name)
				}
				for _, t := range tl.Elts {
					n := src(t)
					if !predNames[n] {
						fail("entry %q: unknown predicate %s", e.name, n)
					}
					e.tests = append(e.tests, "P_"+n)
				}
			case "mutate":
				fl, ok := kv.Value.(*ast.FuncLit)
				if !ok {
					fail("entry %q: mutate is not a function literal", e.name)
				}
				for _, s := range fl.Body.List {
					e.stmt(s, false)
				}
			default:
				fail("entry %q: unknown field %s", e.name, src(kv.Key))
			}
		}
		if e.group == "" || e.class == "" {
			fail("entry %q: group or class not set", e.name)
		}
		out = append(out, e)
	}
	return out
}

func render(name string, es []*entry) string {
	var b strings.Builder
	fmt.Fprintf(&b, "Definition %s : list entry := [\n", name)
	for i, e := range es {
		fmt.Fprintf(&b, "  (* %s *)\n", e.name)
		fmt.Fprintf(&b, "  mkEntry %d [%s] %s %s %s %s %s %s %s %s %s %s", i, strings.Join(e.tests, "; "), e.group, e.class,
			e.in, e.out, e.ret, e.recv, e.bypass, boolS(e.memoized), boolS(e.required), boolS(e.synthetic))
		if i < len(es)-1 {
			b.WriteString(";")
		}
		b.WriteString("\n")
	}
	b.WriteString("].\n")
	return b.String()
}

const header = `(* GENERATED by tools/regen from /repo/characterize.go — do not edit.
   The classification tables of nject: for each prototype, in order, the predicates that must
   hold and what the matching provider becomes. *)
From Coq Require Import List.
Import ListNotations.
From NJ Require Import Base.

Inductive predT :=
| P_notNil | P_notFunc | P_isFunc | P_isLast | P_notLast | P_unstaticOkay | P_inStatic | P_hasOutputs
| P_mustNotMemoize | P_markedMemoized | P_markedCacheable | P_markedSingleton | P_notMarkedReorder
| P_notMarkedSingleton | P_notMarkedNoCache | P_mappableInputs | P_possibleMapKey | P_returnsTerminalError
| P_noAnonymousFuncs | P_noAnonymousExceptFirstInput | P_hasInner | P_isFuncPointer | P_isNotFuncPointer.

(* expressions assigned to a flow by a mutate function *)
Inductive flowE :=
| FE_none
| FE_typesIn | FE_typesOut | FE_remapTE_typesOut | FE_redactTE_typesOut
| FE_errorOnly | FE_self | FE_wrapperIn | FE_innerIn | FE_innerOut
| FE_elemIn | FE_elemOut.

Record entry := mkEntry {
  e_idx : nat;
  e_tests : list predT;
  e_group : groupT;
  e_class : classT;
  e_in : flowE; e_out : flowE; e_ret : flowE; e_recv : flowE; e_bypass : flowE;
  e_memoized : bool;
  e_required : bool;
  e_synthetic : bool
}.

`

func main() {
	if len(os.Args) != 3 {
		fail("usage: regen characterize.go Registry.v")
	}
	f, err := parser.ParseFile(fset, os.Args[1], nil, 0)
	if err != nil {
		fail("%v", err)
	}
	regs := map[string][]*entry{}
	preds := map[string]string{}
	for _, d := range f.Decls {
		gd, ok := d.(*ast.GenDecl)
		if !ok || gd.Tok != token.VAR {
			continue
		}
		for _, sp := range gd.Specs {
			vs := sp.(*ast.ValueSpec)
			for i, n := range vs.Names {
				if i >= len(vs.Values) {
					continue
				}
				switch n.Name {
				case "invokeRegistry", "handlerRegistry":
					lit, ok := vs.Values[i].(*ast.CompositeLit)
					if !ok {
						fail("%s is not a composite literal", n.Name)
					}
					regs[n.Name] = parseRegistry(lit)
				default:
					if _, pinned := predSources[n.Name]; pinned {
						preds[n.Name] = src(vs.Values[i])
					}
				}
			}
		}
	}
	for _, r := range []string{"invokeRegistry", "handlerRegistry"} {
		if regs[r] == nil {
			fail("%s not found", r)
		}
	}
	// the simple predicates whose meaning Classify.v transcribes by hand must not have changed
	for n, want := range predSources {
		got, ok := preds[n]
		if !ok {
			fail("predicate %s not found", n)
		}
		if strings.Join(strings.Fields(got), " ") != strings.Join(strings.Fields(want), " ") {
			fail("predicate %s changed:\n  have %s\n  want %s", n, got, want)
		}
	}
	out := header + render("invokeRegistry", regs["invokeRegistry"]) + "\n" + render("handlerRegistry", regs["handlerRegistry"])
	if err := os.WriteFile(os.Args[2], []byte(out), 0o644); err != nil {
		fail("%v", err)
	}
}
