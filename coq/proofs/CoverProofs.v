(* No parameter of an included provider is read from an unallocated slot: for every working list
   that Bind's selection accepts and every position of the invoke function, each (remapped)
   parameter type of an included provider has a down slot, and each received type of an included
   provider listed from the invoke function on has an up slot.  (Defects D29 and D30 were failures
   of exactly this statement.) *)
From Coq Require Import List Arith Bool Lia.
Import ListNotations.
From NJ Require Import Base Registry Classify Select Reorder Machine Spec Bind SelectProofs AllocProofs WiringProofs.

(* cannotInclude only ever goes from false to true while the flows are checked *)
Lemma check_one_cannot_mono te crd st i k :
  flagp p_cannot (cf_funcs st) k = true -> flagp p_cannot (cf_funcs (check_one te crd st i)) k = true.
Proof.
  intros H. unfold check_one. destruct (cf_err st); [exact H|].
  destruct (memb i (cf_seen st)); [exact H|]. cbn [cf_funcs].
  destruct (getp (cf_funcs st) i) as [p|] eqn:Hp; [|exact H].
  assert (Hu : forall f, (forall q, p_cannot q = true -> p_cannot (f q) = true) -> flagp p_cannot (updp i f (cf_funcs st)) k = true).
  { intros f Hf. unfold flagp in *. rewrite getp_updp. destruct (getp (cf_funcs st) k) as [q|]; simpl; [|exact H].
    destruct (i =? k); [apply Hf, H|exact H]. }
  destruct (p_cannot p).
  - destruct (p_required p); [exact H|].
    destruct ((p_wanted p || p_desired p) && negb crd && negb (p_excluded p)); [exact H|].
    destruct (p_include p); [|exact H]. cbn [cf_funcs]. apply Hu. intros q Hq. exact Hq.
  - destruct (checks_ok te (cf_funcs st) p); [exact H|]. cbn [cf_funcs]. apply Hu. intros q _. reflexivity.
Qed.

Lemma check_fold_cannot_mono te crd k : forall todo st,
  flagp p_cannot (cf_funcs st) k = true -> flagp p_cannot (cf_funcs (fold_left (check_one te crd) todo st)) k = true.
Proof.
  induction todo as [|i r IH]; intros st H; cbn [fold_left]; [exact H|]. apply IH, check_one_cannot_mono, H.
Qed.

Lemma check_passes_cannot_mono te crd k : forall fuel funcs todo funcs' e,
  check_passes te crd fuel funcs todo = (funcs', e) -> flagp p_cannot funcs k = true -> flagp p_cannot funcs' k = true.
Proof.
  induction fuel as [|fuel IH]; intros funcs todo funcs' e H Hc; destruct todo as [|i r]; cbn [check_passes] in H;
    try (injection H as <- <-; exact Hc).
  set (st := fold_left (check_one te crd) (i :: r) (mkCf funcs [] [] None)) in *.
  assert (Hst : flagp p_cannot (cf_funcs st) k = true) by (apply check_fold_cannot_mono; exact Hc).
  destruct (cf_err st); [injection H as <- <-; exact Hst|]. apply (IH _ _ _ _ H Hst).
Qed.

Lemma getp_in {A} (l : list A) k x : nth_opt k l = Some x -> In x l.
Proof.
  revert k. induction l as [|y l IH]; intros k H; destruct k; simpl in *; try discriminate; [left; congruence|right; eauto].
Qed.
Lemma getp_firstn {A} (l : list A) k n x : nth_opt k l = Some x -> k < n -> In x (firstn n l).
Proof.
  revert k n. induction l as [|y l IH]; intros k n H Hk; destruct k; simpl in *; try discriminate.
  - destruct n; [lia|]. left. congruence.
  - destruct n; [lia|]. right. apply (IH k n H). lia.
Qed.
Lemma getp_skipn {A} (l : list A) k n x : nth_opt k l = Some x -> n <= k -> In x (skipn n l).
Proof.
  revert k n. induction l as [|y l IH]; intros k n H Hk; destruct k; simpl in *; try discriminate.
  - destruct n; [|lia]. left. congruence.
  - destruct n; [right; apply (getp_in _ _ _ H)|]. apply (IH k n H). lia.
Qed.

Section Covers.
  Variable te : tyenv.
  Variable F f10 : list prov.
  Hypothesis HF : forall p, In p F -> p_cannot p = p_excluded p.
  Hypothesis Hv : validate_chain te true (provides_returns te F) = (f10, None).

  Let PR := provides_returns te F.
  Let fs0 := map (set_deps no_deps) F.

  Lemma covers_setup k p :
    getp f10 k = Some p -> p_include p = true ->
    checks_ok te f10 p = true /\
    wired te fs0 (fun d => d < k) FIn FOut p /\ wired te fs0 (fun d => k < d) FRecv FRet p /\
    (forall d k', pflow_at fs0 d k' = pflow_at f10 d k').
  Proof.
    intros Hp Hi.
    destruct (provides_returns_wired te F) as (Ws & Wpc & Wd & Wu). fold PR fs0 in Ws, Wpc, Wd, Wu.
    destruct (validate_sound te true PR f10 (provides_returns_closed te F) Hv) as [Hm Hgood].
    destruct (Hgood k p Hp Hi) as [Hc Hchk].
    pose proof (Hm k) as Hmk. rewrite Hp in Hmk. destruct (getp PR k) as [q|] eqn:Hq; [|contradiction].
    destruct Hmk as (M1 & M2 & _ & _ & M5 & _ & M7 & M8 & M9).
    (* the provider was not excluded, hence not skipped by providesReturns *)
    assert (Hex : p_excluded q = false).
    { destruct (p_excluded q) eqn:Ex; [|reflexivity]. exfalso.
      pose proof Hv as Hv'. unfold validate_chain in Hv'. fold PR in Hv'.
      destruct (mark_loop PR 0 PR []) as [[fs rem] [e|]] eqn:Em; [discriminate Hv'|].
      destruct (mark_loop_spec PR [] [] fs rem Em) as [Efs _]. simpl in Efs. subst fs.
      assert (Hk : flagp p_cannot (map mark PR) k = true).
      { unfold flagp, getp. rewrite nth_opt_map. unfold getp in Hq. rewrite Hq. simpl. unfold mark. rewrite Ex. reflexivity. }
      pose proof (check_passes_cannot_mono te true k _ _ _ _ _ Hv' Hk) as Hfin.
      unfold flagp in Hfin. rewrite Hp in Hfin. congruence. }
    assert (Hcq : p_cannot q = false).
    { pose proof (Wpc k) as Hpc. pose proof (provides_returns_px te F k) as Hpx. fold PR in Hpx.
      unfold pc_at, px_at in *. rewrite Hq in Hpc, Hpx. unfold fs0, getp in Hpc. rewrite nth_opt_map in Hpc.
      unfold getp in Hpx. destruct (nth_opt k F) as [f|] eqn:Hf; [|discriminate]. simpl in *.
      injection Hpc as Hpc. injection Hpx as Hpx. rewrite Hpc, (HF f (getp_in _ _ _ Hf)), <- Hpx. exact Hex. }
    assert (Wv : wv p = wv q) by (unfold wv; rewrite M1, M2, M7, M8, M9; reflexivity).
    split; [exact Hchk|].
    split; [apply (wired_wv te fs0 _ FIn FOut q p Wv), (Wd k q I Hq Hcq)|].
    split; [apply (wired_wv te fs0 _ FRecv FRet q p Wv), (Wu k q I Hq Hcq)|].
    intros d k'. rewrite <- (pflow_at_same_s PR fs0 d k' Ws).
    unfold pflow_at. pose proof (Hm d) as Hmd. destruct (getp PR d) as [a|], (getp f10 d) as [b|]; try contradiction; [|reflexivity].
    destruct Hmd as (E & _). unfold pflow. rewrite E. reflexivity.
  Qed.

  (* an included dependency that puts the remapped type out *)
  Lemma included_source p param outParam (lim : nat -> Prop) t :
    checks_ok te f10 p = true -> wired te fs0 lim param outParam p ->
    (forall d k', pflow_at fs0 d k' = pflow_at f10 d k') ->
    In t (pflow p param) -> t <> te_noT te ->
    exists found d r, alookup t (rmap_of param p) = Some found /\ lim d /\
      getp f10 d = Some r /\ p_include r = true /\ In found (pflow r outParam).
  Proof.
    intros Hchk Hw Hfl Ht Hn. unfold checks_ok in Hchk.
    destruct (usesError (p_deps p)) as [|e0 er] eqn:Ee; [|discriminate].
    apply andb_prop in Hchk. destruct Hchk as [Hchk _]. apply andb_prop in Hchk. destruct Hchk as [Hdet _].
    destruct (Hw t Ht Hn) as [Hl|(found & Ha & Hne & Hdeps)]; [rewrite Ee in Hl; destruct Hl|].
    destruct (detail_get (flowk_code param) t (usesDetail (p_deps p))) as [|x l] eqn:El; [congruence|].
    destruct (detail_get_in (flowk_code param) t (usesDetail (p_deps p)) x) as (l' & Hin & _ & Heq); [rewrite El; left; reflexivity|].
    rewrite forallb_forall in Hdet. specialize (Hdet _ Hin). cbn [snd] in Hdet.
    unfold any_included in Hdet. apply existsb_exists in Hdet. destruct Hdet as (d & Hd & Hinc).
    rewrite <- Heq, El in Hd. destruct (Hdeps d Hd) as [Hlim Hout].
    unfold flagp in Hinc. destruct (getp f10 d) as [r|] eqn:Hr; [|discriminate].
    exists found, d, r. repeat split; auto. rewrite Hfl in Hout. unfold pflow_at in Hout. rewrite Hr in Hout. exact Hout.
  Qed.

  Theorem covers ii :
    let sl := allocate_slots f10 ii in
    (forall k p t, getp f10 k = Some p -> p_include p = true -> In t (pflow p FIn) -> t <> te_noT te ->
       assigned (sl_down sl) (remap (p_downR p) t)) /\
    (forall k p t, ii <= k -> getp f10 k = Some p -> p_include p = true -> In t (pflow p FRecv) -> t <> te_noT te ->
       assigned (sl_up sl) (remap (p_upR p) t)).
  Proof.
    cbv zeta. destruct (allocate_slots_covers f10 ii) as (C1 & C2 & C3). cbv zeta in C1, C2, C3. split.
    - intros k p t Hp Hi Ht Hn.
      destruct (covers_setup k p Hp Hi) as (Hchk & Wd & _ & Hfl).
      destruct (included_source p FIn FOut _ t Hchk Wd Hfl Ht Hn) as (found & d & r & Ha & Hlim & Hr & Hri & Hout).
      cbn [rmap_of] in Ha. assert (Er : remap (p_downR p) t = found) by (unfold remap; rewrite Ha; reflexivity).
      assert (Hkey : is_key (vm_keys f10) found).
      { apply (vm_keys_is_key f10 r found (getp_in _ _ _ Hr) Hri). apply in_or_app. right. apply in_or_app. left. exact Hout. }
      rewrite Er. destruct (Nat.lt_ge_cases k ii) as [Hlt|Hge].
      + apply (C1 r found); [apply (getp_firstn _ d ii r Hr); lia|exact Hout|exact Hkey].
      + rewrite <- Er. apply (C2 p t); [apply (getp_skipn _ k ii p Hp Hge)|exact Ht|rewrite Er; exact Hkey].
    - intros k p t Hk Hp Hi Ht Hn.
      destruct (covers_setup k p Hp Hi) as (Hchk & _ & Wu & Hfl).
      destruct (included_source p FRecv FRet _ t Hchk Wu Hfl Ht Hn) as (found & d & r & Ha & Hlim & Hr & Hri & Hout).
      cbn [rmap_of] in Ha. assert (Er : remap (p_upR p) t = found) by (unfold remap; rewrite Ha; reflexivity).
      rewrite Er. apply (C3 r found); [apply (getp_skipn _ d ii r Hr); lia|exact Hout|].
      apply (vm_keys_is_key f10 r found (getp_in _ _ _ Hr) Hri). apply in_or_app. left. exact Hout.
  Qed.

  (* where the values come from: an included provider listed before (parameters) / after (received
     values) the consumer that puts out exactly the remapped type *)
  Theorem sources :
    (forall k p t, getp f10 k = Some p -> p_include p = true -> In t (pflow p FIn) -> t <> te_noT te ->
       exists d r, d < k /\ getp f10 d = Some r /\ p_include r = true /\ In (remap (p_downR p) t) (pflow r FOut)) /\
    (forall k p t, getp f10 k = Some p -> p_include p = true -> In t (pflow p FRecv) -> t <> te_noT te ->
       exists d r, k < d /\ getp f10 d = Some r /\ p_include r = true /\ In (remap (p_upR p) t) (pflow r FRet)).
  Proof.
    split.
    - intros k p t Hp Hi Ht Hn.
      destruct (covers_setup k p Hp Hi) as (Hchk & Wd & _ & Hfl).
      destruct (included_source p FIn FOut _ t Hchk Wd Hfl Ht Hn) as (found & d & r & Ha & Hlim & Hr & Hri & Hout).
      cbn [rmap_of] in Ha. exists d, r. unfold remap. rewrite Ha. repeat split; assumption.
    - intros k p t Hp Hi Ht Hn.
      destruct (covers_setup k p Hp Hi) as (Hchk & _ & Wu & Hfl).
      destruct (included_source p FRecv FRet _ t Hchk Wu Hfl Ht Hn) as (found & d & r & Ha & Hlim & Hr & Hri & Hout).
      cbn [rmap_of] in Ha. exists d, r. unfold remap. rewrite Ha. repeat split; assumption.
  Qed.
End Covers.

(* for whatever Bind's selection accepts *)
Theorem select_covers te funcs1 funcs ii :
  select te funcs1 = Ok funcs ->
  let sl := allocate_slots funcs ii in
  (forall k p t, getp funcs k = Some p -> p_include p = true -> In t (pflow p FIn) -> t <> te_noT te ->
     assigned (sl_down sl) (remap (p_downR p) t)) /\
  (forall k p t, ii <= k -> getp funcs k = Some p -> p_include p = true -> In t (pflow p FRecv) -> t <> te_noT te ->
     assigned (sl_up sl) (remap (p_upR p) t)).
Proof.
  unfold select. intros H.
  destruct (validate_chain te true (provides_returns te (map (init_marks te) funcs1))) as [f3 [e|]]; [discriminate|].
  match type of H with
  | match validate_chain te true (provides_returns te ?F8) with _ => _ end = _ =>
    destruct (validate_chain te true (provides_returns te F8)) as [f10 [e|]] eqn:Ev; [discriminate|];
    injection H as <-;
    apply (covers te F8 f10); [|exact Ev]
  end.
  intros p Hp. apply in_map_iff in Hp. destruct Hp as (p0 & <- & _).
  destruct (negb (p_excluded p0)) eqn:E; simpl; [apply negb_true_iff in E|apply negb_false_iff in E]; rewrite E; reflexivity.
Qed.

(* ... and so for every plan Bind arrives at *)
Theorem plan_covers c pl :
  plan_of c = Ok pl ->
  (forall k p t, getp (pl_funcs pl) k = Some p -> p_include p = true -> In t (pflow p FIn) -> t <> te_noT (bc_te c) ->
     exists i, sd_of (pl_slots pl) (remap (p_downR p) t) = Some i) /\
  (forall k p t, pl_invokeIndex pl <= k -> getp (pl_funcs pl) k = Some p -> p_include p = true ->
     In t (pflow p FRecv) -> t <> te_noT (bc_te c) ->
     exists i, su_of (pl_slots pl) (remap (p_upR p) t) = Some i).
Proof.
  unfold plan_of. intros H.
  destruct (assemble c) as [f0|e|e]; cbn [bindr] in H; try discriminate.
  destruct (reorder_funcs (bc_te c) f0) as [f1|e|e]; cbn [bindr] in H; try discriminate.
  destruct (select (bc_te c) f1) as [funcs|e|e] eqn:Es; cbn [bindr] in H; try discriminate.
  destruct (opt_res (find_class ClInvoke funcs 0) EB_INTERNAL) as [ii|e|e]; cbn [bindr] in H; try discriminate.
  destruct (negb (check_shadowing (bc_te c) funcs)); [discriminate|].
  destruct (negb (init_bypass_ok funcs (sl_down0 (allocate_slots funcs ii)))); [discriminate|].
  injection H as <-. cbn [pl_funcs pl_slots pl_invokeIndex].
  destruct (select_covers (bc_te c) f1 funcs ii Es) as [A B]. cbv zeta in A, B. split.
  - intros k p t Hp Hi Ht Hn. destruct (A k p t Hp Hi Ht Hn) as [i Hi']. exists i. unfold sd_of. rewrite Hi'. reflexivity.
  - intros k p t Hk Hp Hi Ht Hn. destruct (B k p t Hk Hp Hi Ht Hn) as [i Hi']. exists i. unfold su_of. rewrite Hi'. reflexivity.
Qed.

Theorem select_sources te funcs1 funcs :
  select te funcs1 = Ok funcs ->
  (forall k p t, getp funcs k = Some p -> p_include p = true -> In t (pflow p FIn) -> t <> te_noT te ->
     exists d r, d < k /\ getp funcs d = Some r /\ p_include r = true /\ In (remap (p_downR p) t) (pflow r FOut)) /\
  (forall k p t, getp funcs k = Some p -> p_include p = true -> In t (pflow p FRecv) -> t <> te_noT te ->
     exists d r, k < d /\ getp funcs d = Some r /\ p_include r = true /\ In (remap (p_upR p) t) (pflow r FRet)).
Proof.
  unfold select. intros H.
  destruct (validate_chain te true (provides_returns te (map (init_marks te) funcs1))) as [f3 [e|]]; [discriminate|].
  match type of H with
  | match validate_chain te true (provides_returns te ?F8) with _ => _ end = _ =>
    destruct (validate_chain te true (provides_returns te F8)) as [f10 [e|]] eqn:Ev; [discriminate|];
    injection H as <-;
    apply (sources te F8 f10); [|exact Ev]
  end.
  intros p Hp. apply in_map_iff in Hp. destruct Hp as (p0 & <- & _).
  destruct (negb (p_excluded p0)) eqn:E; simpl; [apply negb_true_iff in E|apply negb_false_iff in E]; rewrite E; reflexivity.
Qed.
