(* The slot machine refines the reference (environment) semantics: for every program, every
   behaviour of every provider (wrappers as arbitrary interaction trees), every world. *)
From Coq Require Import List Arith Bool Lia.
Import ListNotations.
From NJ Require Import Base Registry Classify Select Machine Spec.

(* ---------- arrays ---------- *)
Lemma aget_aput_same i v a : i < length a -> aget i (aput i v a) = v.
Proof.
  revert i; induction a as [|x r IH]; intros i H; simpl in *; [lia|].
  destruct i; simpl; [reflexivity|]. apply IH. lia.
Qed.

Lemma aget_aput_other i j v a : i <> j -> aget i (aput j v a) = aget i a.
Proof.
  revert i j; induction a as [|x r IH]; intros i j H; simpl; [destruct j; reflexivity|].
  destruct j; destruct i; simpl; try reflexivity; try lia. apply IH. lia.
Qed.

Lemma length_aput i v a : length (aput i v a) = length a.
Proof. revert i; induction a as [|x r IH]; intros i; simpl; [destruct i; reflexivity|]. destruct i; simpl; auto. Qed.

Lemma norm_idem t v : norm t (norm t v) = norm t v.
Proof. destruct v; reflexivity. Qed.

Lemma norm_not_invalid t v : norm t v <> VInvalid.
Proof. destruct v; discriminate. Qed.

Ltac mkpost := split; [reflexivity | split; [reflexivity | intros _; split]].
Ltac mkfail := split; [reflexivity | split; [reflexivity | let Hc := fresh in intros Hc; discriminate]].

Section Refine.
  Variable W : Type.
  Variable beh_fn : nat -> W -> list val -> W * list val.
  Variable beh_wrap : nat -> W -> list val -> wtree W.
  Variable sd su : nat -> option nat.     (* down / up slot of a type *)
  Variable errT : nat.
  Variable n : nat.                        (* length of a value collection *)

  (* what slot allocation guarantees (proved for allocate_slots in proofs/SlotsOk.v) *)
  Hypothesis sd_inj : forall t t' i, sd t = Some i -> sd t' = Some i -> t = t'.
  Hypothesis su_inj : forall t t' i, su t = Some i -> su t' = Some i -> t = t'.
  Hypothesis disj : forall t t' i j, sd t = Some i -> su t' = Some j -> i <> j.
  Hypothesis sd_bound : forall t i, sd t = Some i -> i < n.
  Hypothesis su_bound : forall t i, su t = Some i -> i < n.

  (* the array represents a down / an up environment (reads normalise unset slots to zero) *)
  Definition Rd (a : list val) (d : nat -> val) : Prop :=
    forall t i, sd t = Some i -> norm t (aget i a) = norm t (d t).
  Definition Ru (a : list val) (u : nat -> val) : Prop :=
    forall t i, su t = Some i -> norm t (aget i a) = norm t (u t).

  Lemma write_down tys : forall vs a d u, length a = n -> Rd a d -> Ru a u ->
    length (write_params (map (fun t => (sd t, t)) tys) vs a) = n /\
    Rd (write_params (map (fun t => (sd t, t)) tys) vs a) (upd_list d tys vs) /\
    Ru (write_params (map (fun t => (sd t, t)) tys) vs a) u.
  Proof.
    induction tys as [|t ts IH]; intros vs a d u Hl Hd Hu; simpl.
    - repeat split; assumption.
    - destruct vs as [|v vs'].
      + destruct (sd t); repeat split; assumption.
      + destruct (sd t) as [i|] eqn:Es.
        * apply IH.
          -- rewrite length_aput. exact Hl.
          -- intros t0 i0 H0. unfold upd. destruct (t0 =? t) eqn:Et.
             ++ apply Nat.eqb_eq in Et. subst t0. rewrite Es in H0. inversion H0; subst i0.
                rewrite aget_aput_same by (rewrite Hl; eapply sd_bound; eauto). reflexivity.
             ++ apply Nat.eqb_neq in Et.
                assert (i0 <> i) by (intro; subst i0; apply Et; eapply sd_inj; eauto).
                rewrite aget_aput_other by assumption. apply Hd. exact H0.
          -- intros t0 j H0. assert (i <> j) by (eapply disj; eauto).
             rewrite aget_aput_other by (intro; subst; contradiction). apply Hu. exact H0.
        * apply IH; [exact Hl | | exact Hu].
          intros t0 i0 H0. unfold upd. destruct (t0 =? t) eqn:Et.
          -- apply Nat.eqb_eq in Et. subst t0. rewrite Es in H0. discriminate.
          -- apply Hd. exact H0.
  Qed.

  Lemma write_up tys : forall vs a d u, length a = n -> Rd a d -> Ru a u ->
    length (write_params (map (fun t => (su t, t)) tys) vs a) = n /\
    Rd (write_params (map (fun t => (su t, t)) tys) vs a) d /\
    Ru (write_params (map (fun t => (su t, t)) tys) vs a) (upd_list u tys vs).
  Proof.
    induction tys as [|t ts IH]; intros vs a d u Hl Hd Hu; simpl.
    - repeat split; assumption.
    - destruct vs as [|v vs'].
      + destruct (su t); repeat split; assumption.
      + destruct (su t) as [i|] eqn:Es.
        * apply IH.
          -- rewrite length_aput. exact Hl.
          -- intros t0 j H0. assert (j <> i) by (eapply disj; eauto).
             rewrite aget_aput_other by assumption. apply Hd. exact H0.
          -- intros t0 i0 H0. unfold upd. destruct (t0 =? t) eqn:Et.
             ++ apply Nat.eqb_eq in Et. subst t0. rewrite Es in H0. inversion H0; subst i0.
                rewrite aget_aput_same by (rewrite Hl; eapply su_bound; eauto). reflexivity.
             ++ apply Nat.eqb_neq in Et.
                assert (i0 <> i) by (intro; subst i0; apply Et; eapply su_inj; eauto).
                rewrite aget_aput_other by assumption. apply Hu. exact H0.
        * apply IH; [exact Hl | exact Hd |].
          intros t0 i0 H0. unfold upd. destruct (t0 =? t) eqn:Et.
          -- apply Nat.eqb_eq in Et. subst t0. rewrite Es in H0. discriminate.
          -- apply Hu. exact H0.
  Qed.

  Lemma read_down tys a d : Rd a d -> (forall t, In t tys -> sd t <> None) ->
    read_params (map (fun t => (sd t, t)) tys) a = look d tys.
  Proof.
    intros Hd. induction tys as [|t ts IH]; intros Hc; simpl; [reflexivity|].
    f_equal.
    - destruct (sd t) as [i|] eqn:Es; [apply Hd; exact Es|].
      exfalso. apply (Hc t); [left; reflexivity | exact Es].
    - apply IH. intros t0 H0. apply Hc. right. exact H0.
  Qed.

  Lemma read_up tys a u : Ru a u -> (forall t, In t tys -> su t <> None) ->
    read_params (map (fun t => (su t, t)) tys) a = look u tys.
  Proof.
    intros Hu. induction tys as [|t ts IH]; intros Hc; simpl; [reflexivity|].
    f_equal.
    - destruct (su t) as [i|] eqn:Es; [apply Hu; exact Es|].
      exfalso. apply (Hc t); [left; reflexivity | exact Es].
    - apply IH. intros t0 H0. apply Hc. right. exact H0.
  Qed.

  Lemma look_valid d tys : has_invalid (look d tys) = false.
  Proof.
    unfold has_invalid, look. induction tys as [|t ts IH]; simpl; [reflexivity|].
    rewrite IH. destruct (d t); reflexivity.
  Qed.

  (* zeroing up slots keeps a clean array clean and does not touch down slots *)
  Lemma zero_clean tys : forall a d, length a = n -> Rd a d -> Ru a zero_env ->
    length (zero_arr (zlist su tys) a) = n /\ Rd (zero_arr (zlist su tys) a) d /\
    Ru (zero_arr (zlist su tys) a) zero_env.
  Proof.
    unfold zero_arr. induction tys as [|t ts IH]; intros a d Hl Hd Hu; simpl; [repeat split; assumption|].
    destruct (su t) as [i|] eqn:Es; simpl; [|apply IH; assumption].
    apply IH.
    - rewrite length_aput. exact Hl.
    - intros t0 j H0. assert (j <> i) by (eapply disj; eauto).
      rewrite aget_aput_other by assumption. apply Hd. exact H0.
    - intros t0 i0 H0. destruct (Nat.eq_dec i0 i) as [E|E].
      + subst i0. assert (t0 = t) by (eapply su_inj; eauto). subst t0.
        rewrite aget_aput_same by (rewrite Hl; eapply su_bound; eauto). reflexivity.
      + rewrite aget_aput_other by assumption. apply Hu. exact H0.
  Qed.

  Definition covered (r : rp) : Prop :=
    (forall t, In t (r_ins r) -> sd t <> None) /\
    (forall t, In t (r_recv r) -> su t <> None) /\
    (r_class r = ClFallible -> su errT <> None).

  (* result relation *)
  Definition post (m : xres W) (s : W * (nat -> val) * bool) : Prop :=
    match m, s with
    | (w1, a1, ok1), (w2, u2, ok2) => w1 = w2 /\ ok1 = ok2 /\ (ok1 = true -> length a1 = n /\ Ru a1 u2)
    end.

  (* wrapper runner, given that the remainder refines *)
  Lemma run_refines (r : rp) (mrest : W -> list val -> xres W)
        (srest : W -> (nat -> val) -> W * (nat -> val) * bool) (a : list val) (d : nat -> val) :
    covered r ->
    (forall w a' d', length a' = n -> Rd a' d' -> Ru a' zero_env -> post (mrest w a') (srest w d')) ->
    length a = n -> Rd a d -> Ru a zero_env ->
    forall t cur lastu count,
      length cur = n ->
      (count = 0 -> cur = a) ->
      (r_parallel r = true -> cur = a) ->
      (r_parallel r = false -> count <> 0 -> Ru cur lastu) ->
      (r_parallel r = true -> forall t0, lastu t0 = VInvalid) ->
      post (run_wrap W (cp_of sd su errT r) mrest a t cur count) (run_sem W r srest d t lastu count).
  Proof.
    intros Hcov Hrest Hl Hd Hclean.
    induction t as [w1 rets | w1 iargs k IHk]; intros cur lastu count Hlc H0 Hp Hnp Hpz; simpl.
    - (* WRet *)
      destruct (count =? 0) eqn:Ec.
      + apply Nat.eqb_eq in Ec. rewrite (H0 Ec).
        destruct (zero_clean (r_zero r) a d Hl Hd Hclean) as (Hzl & Hzd & Hzu).
        destruct (write_up (r_rets r) rets _ d zero_env Hzl Hzd Hzu) as (Hwl & _ & Hwu).
        mkpost; [exact Hwl | exact Hwu].
      + apply Nat.eqb_neq in Ec.
        destruct (r_parallel r) eqn:Epar.
        * (* parallel: cur = a, clean; lastu is all-invalid *)
          rewrite (Hp eq_refl).
          assert (Hu0 : Ru a lastu).
          { intros t0 i0 Hs. rewrite (Hpz eq_refl t0). apply Hclean. exact Hs. }
          destruct (write_up (r_rets r) rets a d lastu Hl Hd Hu0) as (Hwl & _ & Hwu).
          mkpost; [exact Hwl | exact Hwu].
        * assert (Hu0 : Ru cur lastu) by (apply Hnp; [reflexivity | exact Ec]).
          assert (Hdd : Rd cur (fun t0 => match sd t0 with Some i => aget i cur | None => VInvalid end)).
          { intros t0 i0 Hs. rewrite Hs. reflexivity. }
          destruct (write_up (r_rets r) rets cur _ lastu Hlc Hdd Hu0) as (Hwl & _ & Hwu).
          mkpost; [exact Hwl | exact Hwu].
    - (* WInner *)
      assert (Hstart : (if r_parallel r then a else if count =? 0 then cur else a) = a).
      { destruct (r_parallel r); [reflexivity|]. destruct (count =? 0) eqn:Ec; [|reflexivity].
        apply Nat.eqb_eq in Ec. apply H0. exact Ec. }
      cbn [cp_of cp_parallel cp_out cp_recv]. rewrite Hstart.
      destruct (write_down (r_outs r) iargs a d zero_env Hl Hd Hclean) as (Hwl & Hwd & Hwu).
      specialize (Hrest w1 _ _ Hwl Hwd Hwu).
      destruct (mrest w1 (write_params (map (fun t0 => (sd t0, t0)) (r_outs r)) iargs a)) as [[w2 a2] ok] eqn:Em.
      destruct (srest w1 (upd_list d (r_outs r) iargs)) as [[w2' u2] ok'] eqn:Es.
      destruct Hrest as (Hw & Hok & Hpost). subst w2' ok'.
      destruct ok; simpl.
      + destruct (Hpost eq_refl) as (Hl2 & Hu2).
        destruct Hcov as (_ & Hcr & _).
        rewrite (read_up (r_recv r) a2 u2 Hu2 Hcr).
        apply IHk.
        * destruct (r_parallel r); assumption.
        * intros Hc; discriminate.
        * intros Epar. rewrite Epar. apply Hp. exact Epar.
        * intros Epar _. rewrite Epar. exact Hu2.
        * intros Epar. rewrite Epar. apply Hpz. exact Epar.
      + mkfail.
  Qed.

  (* Main theorem: the slot machine and the reference semantics agree on the final world, on
     whether the run completed, and the final array represents the reference up environment. *)
  Theorem exec_refines_sem : forall prog, Forall covered prog -> forall w a d,
    length a = n -> Rd a d -> Ru a zero_env ->
    post (exec W beh_fn beh_wrap (map (cp_of sd su errT) prog) w a)
         (sem W beh_fn beh_wrap errT prog w d).
  Proof.
    induction prog as [|r rest IH]; intros Hcov w a d Hl Hd Hclean.
    - simpl. mkpost; assumption.
    - inversion Hcov as [|? ? Hc Hcr]; subst.
      specialize (IH Hcr).
      pose proof Hc as Hc0.
      destruct Hc as (Hci & Hcrecv & Hcerr).
      cbn [map exec sem]. cbn [cp_of cp_in cp_class cp_pid cp_out cp_tepos cp_zero cp_errslot cp_ret].
      rewrite (read_down (r_ins r) a d Hd Hci). rewrite look_valid.
      destruct (r_class r) eqn:Ecl; try mkfail.
      + (* fallible *)
        destruct (beh_fn (r_pid r) w (look d (r_ins r))) as [w1 outs].
        destruct (negb (is_nil (nth (r_tepos r) outs VInvalid))) eqn:Efail.
        * destruct (zero_clean (r_zero r) a d Hl Hd Hclean) as (Hzl & Hzd & Hzu).
          destruct (su errT) as [ei|] eqn:Ee; [|exfalso; apply Hcerr; reflexivity].
          mkpost.
          -- rewrite length_aput. exact Hzl.
          -- intros t0 i0 Hs. unfold upd. destruct (t0 =? errT) eqn:Et.
             ++ apply Nat.eqb_eq in Et. subst t0. rewrite Ee in Hs. inversion Hs; subst i0.
                rewrite aget_aput_same by (rewrite Hzl; eapply su_bound; eauto). reflexivity.
             ++ apply Nat.eqb_neq in Et.
                assert (i0 <> ei) by (intro; subst i0; apply Et; eapply su_inj; eauto).
                rewrite aget_aput_other by assumption. apply Hzu. exact Hs.
        * destruct (write_down (r_outs r) (remove_nth (r_tepos r) outs) a d zero_env Hl Hd Hclean) as (Hwl & Hwd & Hwu).
          apply IH; assumption.
      + (* injector *)
        destruct (beh_fn (r_pid r) w (look d (r_ins r))) as [w1 outs].
        destruct (write_down (r_outs r) outs a d zero_env Hl Hd Hclean) as (Hwl & Hwd & Hwu).
        apply IH; assumption.
      + (* wrapper *)
        apply (run_refines r _ _ a d); try assumption.
        * intros _. reflexivity.
        * intros _. reflexivity.
        * intros _ Hc. exfalso. apply Hc. reflexivity.
        * intros _ t0. reflexivity.
      + (* final *)
        destruct (beh_fn (r_pid r) w (look d (r_ins r))) as [w1 rets].
        destruct (write_up (r_rets r) rets a d zero_env Hl Hd Hclean) as (Hwl & _ & Hwu).
        mkpost; assumption.
  Qed.

  (* ---------- static part ---------- *)
  Lemma zero_down tys : forall a d u, length a = n -> Rd a d -> Ru a u ->
    length (zero_arr (zlist_d sd tys) a) = n /\ Rd (zero_arr (zlist_d sd tys) a) (zero_types d tys) /\
    Ru (zero_arr (zlist_d sd tys) a) u.
  Proof.
    unfold zero_arr. induction tys as [|t ts IH]; intros a d u Hl Hd Hu; simpl; [repeat split; assumption|].
    destruct (sd t) as [i|] eqn:Es; simpl.
    - apply IH.
      + rewrite length_aput. exact Hl.
      + intros t0 i0 H0. unfold upd. destruct (t0 =? t) eqn:Et.
        * apply Nat.eqb_eq in Et. subst t0. rewrite Es in H0. inversion H0; subst i0.
          rewrite aget_aput_same by (rewrite Hl; eapply sd_bound; eauto). reflexivity.
        * apply Nat.eqb_neq in Et.
          assert (i0 <> i) by (intro; subst i0; apply Et; eapply sd_inj; eauto).
          rewrite aget_aput_other by assumption. apply Hd. exact H0.
      + intros t0 j H0. assert (i <> j) by (eapply disj; eauto).
        rewrite aget_aput_other by (intro; subst; contradiction). apply Hu. exact H0.
    - apply IH; [exact Hl | | exact Hu].
      intros t0 i0 H0. unfold upd. destruct (t0 =? t) eqn:Et.
      + apply Nat.eqb_eq in Et. subst t0. rewrite Es in H0. discriminate.
      + apply Hd. exact H0.
  Qed.

  Definition covered_s (r : rp) : Prop := forall t, In t (r_ins r) -> sd t <> None.

  Definition post_s (m : xres W) (s : W * (nat -> val) * bool) : Prop :=
    match m, s with
    | (w1, a1, ok1), (w2, d2, ok2) =>
      w1 = w2 /\ ok1 = ok2 /\ (ok1 = true -> length a1 = n /\ Rd a1 d2 /\ Ru a1 zero_env)
    end.

  Lemma literal_refines r a d : length a = n -> Rd a d -> Ru a zero_env ->
    length (apply_literal (cp_of_static sd r) a) = n /\
    Rd (apply_literal (cp_of_static sd r) a) (match r_outs r with t :: _ => upd d t (VTag t (r_pid r) 0) | [] => d end) /\
    Ru (apply_literal (cp_of_static sd r) a) zero_env.
  Proof.
    intros Hl Hd Hu. unfold apply_literal, lit_value, cp_of_static. cbn [cp_out cp_pid].
    destruct (r_outs r) as [|t ts]; simpl; [repeat split; assumption|].
    destruct (sd t) as [i|] eqn:Es.
    - split; [rewrite length_aput; exact Hl|]. split.
      + intros t0 i0 H0. unfold upd. destruct (t0 =? t) eqn:Et.
        * apply Nat.eqb_eq in Et. subst t0. rewrite Es in H0. inversion H0; subst i0.
          rewrite aget_aput_same by (rewrite Hl; eapply sd_bound; eauto). reflexivity.
        * apply Nat.eqb_neq in Et.
          assert (i0 <> i) by (intro; subst i0; apply Et; eapply sd_inj; eauto).
          rewrite aget_aput_other by assumption. apply Hd. exact H0.
      + intros t0 j H0. assert (i <> j) by (eapply disj; eauto).
        rewrite aget_aput_other by (intro; subst; contradiction). apply Hu. exact H0.
    - split; [exact Hl|]. split; [|exact Hu].
      intros t0 i0 H0. unfold upd. destruct (t0 =? t) eqn:Et.
      + apply Nat.eqb_eq in Et. subst t0. rewrite Es in H0. discriminate.
      + apply Hd. exact H0.
  Qed.

  Theorem static_refines : forall prog, Forall covered_s prog -> forall failed w a d,
    length a = n -> Rd a d -> Ru a zero_env ->
    post_s (exec_static W beh_fn (map (cp_of_static sd) prog) failed w a)
           (sem_static W beh_fn prog failed w d).
  Proof.
    induction prog as [|r rest IH]; intros Hcov failed w a d Hl Hd Hu.
    - simpl. split; [reflexivity|]. split; [reflexivity|]. intros _. repeat split; assumption.
    - inversion Hcov as [|? ? Hc Hcr]; subst. specialize (IH Hcr).
      cbn [map exec_static sem_static].
      assert (Hcls : cp_class (cp_of_static sd r) = r_class r) by reflexivity.
      rewrite Hcls.
      destruct (r_class r) eqn:Ecl;
        try (destruct (literal_refines r a d Hl Hd Hu) as (Hll & Hld & Hlu); apply IH; assumption);
        (destruct failed; [apply IH; assumption|]);
        cbn [cp_of_static cp_in cp_pid cp_out cp_tepos cp_zero];
        rewrite (read_down (r_ins r) a d Hd Hc); rewrite look_valid;
        destruct (beh_fn (r_pid r) w (look d (r_ins r))) as [w1 outs];
        destruct (write_down (r_outs r) outs a d zero_env Hl Hd Hu) as (Hwl & Hwd & Hwu);
        try (apply IH; assumption).
      (* fallible static *)
      destruct (negb (is_nil (nth (r_tepos r) outs VInvalid))); [|apply IH; assumption].
      destruct (zero_down (r_zero r) _ _ zero_env Hwl Hwd Hwu) as (Hzl & Hzd & Hzu).
      destruct (write_down (r_outs r) outs _ _ zero_env Hzl Hzd Hzu) as (Hl2 & Hd2 & Hu2).
      apply IH; assumption.
  Qed.

  (* ---------- sessions ---------- *)
  Definition wf_splan (p : splan) : Prop :=
    Forall covered (sp_run p) /\ Forall covered_s (sp_static p) /\
    (match sp_init p with Some ir => forall t, In t (r_ins ir) -> sd t <> None | None => True end) /\
    (forall t, In t (r_recv (sp_invoke p)) -> su t <> None).

  Definition Rs (m : sess W) (s : ssess W) : Prop :=
    ss_w W m = sq_w W s /\ ss_done W m = sq_done W s /\ ss_ok W m = sq_ok W s /\
    (ss_ok W m = true -> length (ss_base W m) = n /\ Rd (ss_base W m) (sq_base W s) /\ Ru (ss_base W m) zero_env).

  Lemma mkRs w base done ok w' base' : w = w' ->
    (ok = true -> length base = n /\ Rd base base' /\ Ru base zero_env) ->
    Rs (mkSess W w base done ok) (mkSsess W w' base' done ok).
  Proof. intros Hw Hb. unfold Rs. simpl. repeat split; try assumption; apply Hb; assumption. Qed.

  Lemma invoke_tail (p : splan) : Forall covered (sp_run p) ->
    (forall t, In t (r_recv (sp_invoke p)) -> su t <> None) ->
    forall w1 a1 d1 done args, length a1 = n -> Rd a1 d1 -> Ru a1 zero_env ->
    let mres := match exec W beh_fn beh_wrap (map (cp_of sd su errT) (sp_run p)) w1
                        (write_params (map (fun t => (sd t, t)) (r_outs (sp_invoke p))) args a1) with
                | (w2, a2, ok2) => (mkSess W w2 a1 done ok2,
                    if ok2 then RInvoke (read_params (map (fun t => (su t, t)) (r_recv (sp_invoke p))) a2) else RPanic)
                end in
    let sres := match sem W beh_fn beh_wrap errT (sp_run p) w1 (upd_list d1 (r_outs (sp_invoke p)) args) with
                | (w2, u2, ok2) => (mkSsess W w2 d1 done ok2,
                    if ok2 then RInvoke (look u2 (r_recv (sp_invoke p))) else RPanic)
                end in
    Rs (fst mres) (fst sres) /\ snd mres = snd sres.
  Proof.
    intros Hrun Hinv w1 a1 d1 done args Hl1 Hd1 Hu1.
    destruct (write_down (r_outs (sp_invoke p)) args _ _ zero_env Hl1 Hd1 Hu1) as (Hwl & Hwd & Hwu).
    pose proof (exec_refines_sem (sp_run p) Hrun w1 _ _ Hwl Hwd Hwu) as Hr.
    destruct (exec W beh_fn beh_wrap (map (cp_of sd su errT) (sp_run p)) w1
                (write_params (map (fun t => (sd t, t)) (r_outs (sp_invoke p))) args a1)) as [[w2 a2] ok2].
    destruct (sem W beh_fn beh_wrap errT (sp_run p) w1 (upd_list d1 (r_outs (sp_invoke p)) args)) as [[w2' u2] ok2'].
    destruct Hr as (Hw2 & Hok2 & Hp2). subst w2' ok2'. cbn [fst snd].
    destruct ok2.
    - destruct (Hp2 eq_refl) as (Hl2 & Hu2).
      rewrite (read_up (r_recv (sp_invoke p)) _ _ Hu2 Hinv).
      split; [|reflexivity]. apply mkRs; [reflexivity|]. intros _. repeat split; assumption.
    - split; [|reflexivity]. apply mkRs; [reflexivity|]. intros Hc; discriminate.
  Qed.

  Lemma step_refines base0 p : wf_splan p -> forall m s st, Rs m s ->
    let b := bound_of sd su errT base0 p in
    Rs (fst (run_step W beh_fn beh_wrap b m st)) (fst (sem_step W beh_fn beh_wrap errT p s st)) /\
    snd (run_step W beh_fn beh_wrap b m st) = snd (sem_step W beh_fn beh_wrap errT p s st).
  Proof.
    intros (Hrun & Hst & Hinit & Hinv) m s st HR b.
    pose proof HR as (Hw & Hdone & Hok & Hbase).
    unfold run_step, sem_step. rewrite <- Hok.
    destruct (ss_ok W m) eqn:Eok; simpl.
    2:{ split; [exact HR | reflexivity]. }
    destruct (Hbase eq_refl) as (Hl & Hd & Hu).
    destruct st.
    - (* init *)
      unfold b, bound_of. cbn [bd_init bd_static].
      destruct (sp_init p) as [ir|] eqn:Ei.
      2:{ split; [exact HR | reflexivity]. }
      cbn [cp_of_init cp_pid cp_out cp_in]. rewrite Hw.
      destruct (beh_fn (r_pid ir) (sq_w W s) []) as [w0 args].
      rewrite <- Hdone.
      destruct (ss_done W m) eqn:Ed.
      + cbn [fst snd]. rewrite (read_down (r_ins ir) _ _ Hd Hinit).
        split; [|reflexivity]. apply mkRs; [reflexivity|]. intros _. repeat split; assumption.
      + destruct (write_down (r_outs ir) args _ _ zero_env Hl Hd Hu) as (Hwl & Hwd & Hwu).
        pose proof (static_refines (sp_static p) Hst false w0 _ _ Hwl Hwd Hwu) as Hs.
        destruct (exec_static W beh_fn (map (cp_of_static sd) (sp_static p)) false w0
                   (write_params (map (fun t => (sd t, t)) (r_outs ir)) args (ss_base W m))) as [[w1 a1] ok1].
        destruct (sem_static W beh_fn (sp_static p) false w0 (upd_list (sq_base W s) (r_outs ir) args)) as [[w1' d1] ok1'].
        destruct Hs as (Hw1 & Hok1 & Hp1). subst w1' ok1'. cbn [fst snd].
        destruct ok1.
        * destruct (Hp1 eq_refl) as (Hl1 & Hd1 & Hu1).
          rewrite (read_down (r_ins ir) _ _ Hd1 Hinit).
          split; [|reflexivity]. apply mkRs; [reflexivity|]. intros _. repeat split; assumption.
        * split; [|reflexivity]. apply mkRs; [reflexivity|]. intros Hc; discriminate.
    - (* invoke *)
      unfold b, bound_of. cbn [bd_init bd_static bd_invoke bd_run].
      cbn [cp_of_invoke cp_pid cp_out cp_recv]. rewrite Hw.
      destruct (beh_fn (r_pid (sp_invoke p)) (sq_w W s) []) as [w0 args].
      rewrite <- Hdone.
      destruct (sp_init p) as [ir|] eqn:Ei.
      + cbn [negb]. apply (invoke_tail p Hrun Hinv w0 _ _ (ss_done W m) args Hl Hd Hu).
      + destruct (ss_done W m) eqn:Ed.
        * cbn [negb]. apply (invoke_tail p Hrun Hinv w0 _ _ true args Hl Hd Hu).
        * pose proof (static_refines (sp_static p) Hst false w0 _ _ Hl Hd Hu) as Hs.
          destruct (exec_static W beh_fn (map (cp_of_static sd) (sp_static p)) false w0 (ss_base W m)) as [[w1 a1] ok1].
          destruct (sem_static W beh_fn (sp_static p) false w0 (sq_base W s)) as [[w1' d1] ok1'].
          destruct Hs as (Hw1 & Hok1 & Hp1). subst w1' ok1'.
          destruct ok1; cbn [negb].
          -- destruct (Hp1 eq_refl) as (Hl1 & Hd1 & Hu1).
             apply (invoke_tail p Hrun Hinv w1 _ _ true args Hl1 Hd1 Hu1).
          -- cbn [fst snd]. split; [|reflexivity]. apply mkRs; [reflexivity|]. intros Hc; discriminate.
  Qed.

  (* Sessions: any sequence of init / invoke calls gives the same results and the same final
     world on the slot machine and in the reference semantics. *)
  Theorem session_refines base0 p : wf_splan p -> forall steps m s, Rs m s ->
    snd (run_session W beh_fn beh_wrap (bound_of sd su errT base0 p) m steps)
      = snd (sem_session W beh_fn beh_wrap errT p s steps) /\
    ss_w W (fst (run_session W beh_fn beh_wrap (bound_of sd su errT base0 p) m steps))
      = sq_w W (fst (sem_session W beh_fn beh_wrap errT p s steps)).
  Proof.
    intros Hwf. induction steps as [|st r IH]; intros m s HR.
    - simpl. split; [reflexivity|]. destruct HR as (Hw & _). exact Hw.
    - cbn [run_session sem_session].
      destruct (step_refines base0 p Hwf m s st HR) as (HR1 & Hres). cbv zeta in HR1, Hres.
      destruct (run_step W beh_fn beh_wrap (bound_of sd su errT base0 p) m st) as [m1 r1].
      destruct (sem_step W beh_fn beh_wrap errT p s st) as [s1 r1'].
      cbn [fst snd] in HR1, Hres. subst r1'.
      pose proof (IH m1 s1 HR1) as IH1.
      destruct (run_session W beh_fn beh_wrap (bound_of sd su errT base0 p) m1 r) as [m2 rs].
      destruct (sem_session W beh_fn beh_wrap errT p s1 r) as [s2 rs'].
      cbn [fst snd] in *. destruct IH1 as (Hrs & Hw2). subst rs'. split; [reflexivity | exact Hw2].
  Qed.
End Refine.
