(* Characteristic lemmas of the reference semantics (Spec.v) and of interface matching: the
   readable content of C01, C02, C05 and C07. *)
From Coq Require Import List Arith Bool Lia.
Import ListNotations.
From NJ Require Import Base Registry Classify Select Machine Spec.

(* ---------- environments: "most recently supplied" ---------- *)
Lemma upd_list_other d tys : forall vs t, ~ In t tys -> upd_list d tys vs t = d t.
Proof.
  revert d. induction tys as [|x r IH]; intros d vs t Hn; simpl; [reflexivity|].
  destruct vs as [|v vs']; [reflexivity|].
  rewrite IH by (intro H; apply Hn; right; exact H).
  unfold upd. destruct (t =? x) eqn:E; [|reflexivity].
  apply Nat.eqb_eq in E. subst. exfalso. apply Hn. left. reflexivity.
Qed.

(* the value of type t after writing results [vs] for types [pre ++ t :: post], t not in post,
   is the result at t's (last) position: later results of the same type win *)
Lemma upd_list_last d pre t post vs v :
  ~ In t post -> nth_error vs (length pre) = Some v -> length vs = length (pre ++ t :: post) ->
  upd_list d (pre ++ t :: post) vs t = norm t v.
Proof.
  revert d vs. induction pre as [|x r IH]; intros d vs Hn Hv Hl; simpl in *.
  - destruct vs as [|v0 vs']; [discriminate|]. inversion Hv; subst.
    rewrite upd_list_other by exact Hn. unfold upd. rewrite Nat.eqb_refl. reflexivity.
  - destruct vs as [|v0 vs']; [discriminate|]. simpl in Hv. apply IH; [exact Hn | exact Hv | simpl in Hl; lia].
Qed.

Section SemLemmas.
  Variable W : Type.
  Variable beh_fn : nat -> W -> list val -> W * list val.
  Variable beh_wrap : nat -> W -> list val -> wtree W.
  Variable errT : nat.
  Notation sem := (sem W beh_fn beh_wrap errT).

  (* C01: a provider is called with the lookups of its (remapped) parameter types in the down
     environment of that point; an injector extends the environment for the rest *)
  Lemma sem_injector r rest w d : r_class r = ClInjector ->
    sem (r :: rest) w d =
    let (w1, outs) := beh_fn (r_pid r) w (look d (r_ins r)) in sem rest w1 (upd_list d (r_outs r) outs).
  Proof. intros H. simpl. rewrite H. reflexivity. Qed.

  Lemma sem_final r rest w d : r_class r = ClFinal ->
    sem (r :: rest) w d =
    let (w1, rets) := beh_fn (r_pid r) w (look d (r_ins r)) in (w1, upd_list zero_env (r_rets r) rets, true).
  Proof. intros H. simpl. rewrite H. reflexivity. Qed.

  (* C07: a failing fallible injector cuts the chain: the rest is irrelevant, the up environment
     is all zero except error *)
  Lemma sem_fallible_cut r rest rest' w d : r_class r = ClFallible ->
    is_nil (nth (r_tepos r) (snd (beh_fn (r_pid r) w (look d (r_ins r)))) VInvalid) = false ->
    sem (r :: rest) w d = sem (r :: rest') w d /\
    sem (r :: rest) w d = (fst (beh_fn (r_pid r) w (look d (r_ins r))),
                           upd zero_env errT (nth (r_tepos r) (snd (beh_fn (r_pid r) w (look d (r_ins r)))) VInvalid), true).
  Proof.
    intros H Hf. simpl. rewrite H. destruct (beh_fn (r_pid r) w (look d (r_ins r))) as [w1 outs]. simpl in *.
    rewrite Hf. simpl. split; reflexivity.
  Qed.

  (* C07: a nil TerminalError only makes the other results available *)
  Lemma sem_fallible_pass r rest w d : r_class r = ClFallible ->
    is_nil (nth (r_tepos r) (snd (beh_fn (r_pid r) w (look d (r_ins r)))) VInvalid) = true ->
    sem (r :: rest) w d =
    sem rest (fst (beh_fn (r_pid r) w (look d (r_ins r))))
        (upd_list d (r_outs r) (remove_nth (r_tepos r) (snd (beh_fn (r_pid r) w (look d (r_ins r)))))).
  Proof.
    intros H Hf. simpl. rewrite H. destruct (beh_fn (r_pid r) w (look d (r_ins r))) as [w1 outs]. simpl in *.
    rewrite Hf. reflexivity.
  Qed.

  (* C02: a wrapper that never calls inner() returns zeros for everything but its own returns *)
  Lemma run_sem_no_call r srest d w1 rets lastu :
    run_sem W r srest d (WRet w1 rets) lastu 0 = (w1, upd_list zero_env (r_rets r) rets, true).
  Proof. reflexivity. Qed.

  (* C02: what a wrapper returns is what its caller sees, after any number of inner() calls *)
  Lemma run_sem_returns r srest d w1 rets lastu count t v pre post :
    r_rets r = pre ++ t :: post -> ~ In t post -> nth_error rets (length pre) = Some v ->
    length rets = length (r_rets r) ->
    match run_sem W r srest d (WRet w1 rets) lastu count with
    | (_, u, _) => u t = norm t v
    end.
  Proof.
    intros Hr Hn Hv Hl. simpl. rewrite Hr in *. apply upd_list_last; assumption.
  Qed.

  (* C02: the values a wrapper receives from inner() are the lookups in the up environment the
     remainder produced during that same call *)
  Lemma run_sem_inner r srest d w1 iargs k lastu count :
    run_sem W r srest d (WInner w1 iargs k) lastu count =
    match srest w1 (upd_list d (r_outs r) iargs) with
    | (w2, u2, ok) =>
      if negb ok then (w2, u2, false)
      else run_sem W r srest d (k w2 (look u2 (r_recv r))) (if r_parallel r then lastu else u2) (S count)
    end.
  Proof. reflexivity. Qed.
End SemLemmas.

(* ---------- C05: order and multiplicity in the reference semantics ---------- *)
(* World = log of provider ids; every function logs itself; wrapper [pid] calls inner()
   [ncalls pid] times.  Fallible injectors never fail here. *)
Section Order.
  Variable ncalls : nat -> nat.

  Definition o_fn (pid : nat) (w : list nat) (args : list val) : list nat * list val := (w ++ [pid], []).
  Fixpoint o_tree (n : nat) (w : list nat) : wtree (list nat) :=
    match n with
    | 0 => WRet w []
    | S n' => WInner w [] (fun w2 _ => o_tree n' w2)
    end.
  Definition o_wrap (pid : nat) (w : list nat) (args : list val) : wtree (list nat) := o_tree (ncalls pid) (w ++ [pid]).

  Fixpoint repeat_app (n : nat) (l : list nat) : list nat :=
    match n with 0 => [] | S n' => l ++ repeat_app n' l end.

  (* the expected log: list order, each once per traversal, the remainder once per inner() call *)
  Fixpoint expected (prog : list rp) : list nat :=
    match prog with
    | [] => []
    | r :: rest =>
      match r_class r with
      | ClInjector | ClFallible => r_pid r :: expected rest
      | ClFinal => [r_pid r]
      | ClWrapper => r_pid r :: repeat_app (ncalls (r_pid r)) (expected rest)
      | _ => []
      end
    end.

  Lemma o_run r rest (IH : forall w d, fst (fst (sem (list nat) o_fn o_wrap 0 rest w d)) = w ++ expected rest /\
                                     snd (sem (list nat) o_fn o_wrap 0 rest w d) = true) d :
    forall n w lastu count,
      fst (fst (run_sem (list nat) r (sem (list nat) o_fn o_wrap 0 rest) d (o_tree n w) lastu count))
        = w ++ repeat_app n (expected rest) /\
      snd (run_sem (list nat) r (sem (list nat) o_fn o_wrap 0 rest) d (o_tree n w) lastu count) = true.
  Proof.
    induction n as [|n' IHn]; intros w lastu count; simpl.
    - rewrite app_nil_r. split; reflexivity.
    - destruct (IH w (upd_list d (r_outs r) [])) as [Hw Hok].
      destruct (sem (list nat) o_fn o_wrap 0 rest w (upd_list d (r_outs r) [])) as [[w2 u2] ok].
      simpl in Hw, Hok. subst. simpl.
      destruct (IHn (w ++ expected rest) (if r_parallel r then lastu else u2) (S count)) as [H1 H2].
      rewrite H1, H2. rewrite app_assoc. split; reflexivity.
  Qed.

  Theorem sem_order : forall prog, forallb well_classed prog = true -> forall w d,
    fst (fst (sem (list nat) o_fn o_wrap 0 prog w d)) = w ++ expected prog /\
    snd (sem (list nat) o_fn o_wrap 0 prog w d) = true.
  Proof.
    induction prog as [|r rest IH]; intros Hwc w d; simpl.
    - rewrite app_nil_r. split; reflexivity.
    - simpl in Hwc. apply andb_true_iff in Hwc. destruct Hwc as [Hr Hrest]. specialize (IH Hrest).
      unfold well_classed in Hr.
      destruct (r_class r) eqn:Ec; try discriminate; simpl.
      + (* fallible, never failing: TerminalError result is absent = nil *)
        destruct (r_tepos r); simpl;
        destruct (IH (w ++ [r_pid r]) (upd_list d (r_outs r) [])) as [H1 H2];
        rewrite H1, H2; rewrite <- app_assoc; split; reflexivity.
      + destruct (IH (w ++ [r_pid r]) (upd_list d (r_outs r) [])) as [H1 H2].
        rewrite H1, H2. rewrite <- app_assoc. split; reflexivity.
      + destruct (o_run r rest IH d (ncalls (r_pid r)) (w ++ [r_pid r]) zero_env 0) as [H1 H2].
        split; [etransitivity; [exact H1|] | exact H2]. rewrite <- app_assoc. reflexivity.
      + split; reflexivity.
  Qed.
End Order.

(* ---------- C01: interface matching only through Loose ---------- *)
Lemma best_entry_implements te wanted m : forall best b,
  (match best with Some e => implements te (im_tc e) wanted = true | None => True end) ->
  best_entry te wanted m best = Some b -> implements te (im_tc b) wanted = true.
Proof.
  induction m as [|e r IH]; intros best b Hb H; cbn [best_entry] in H.
  - subst. exact Hb.
  - destruct (implements te (im_tc e) wanted) eqn:Ei.
    + destruct best as [b0|].
      * destruct (ge_lex (score te wanted e) (score te wanted b0)).
        -- apply (IH (Some e) b); [simpl; exact Ei | exact H].
        -- apply (IH (Some b0) b); [exact Hb | exact H].
      * apply (IH (Some e) b); [simpl; exact Ei | exact H].
    + apply (IH best b); [exact Hb | exact H].
Qed.

Theorem best_match_sound te funcs m wanted found deps :
  best_match te funcs m wanted = Some (found, deps) ->
  found = wanted \/
  (is_iface te wanted = true /\ implements te found wanted = true /\
   forall dep, In dep deps -> flagp (fun p => memb wanted (p_loose p)) funcs dep = true).
Proof.
  unfold best_match. destruct (im_find wanted m) as [e|].
  - intros H. inversion H; subst. left. reflexivity.
  - destruct (is_iface te wanted) eqn:Ei; simpl; [|discriminate].
    destruct (best_entry te wanted m None) as [b|] eqn:Eb; [|discriminate].
    destruct (filter _ (im_plist b)) as [|x l] eqn:Ef; [discriminate|].
    intros H. inversion H; subst. right. split; [reflexivity|]. split.
    + eapply best_entry_implements; [|exact Eb]. exact I.
    + intros dep Hd. rewrite <- Ef in Hd. apply filter_In in Hd. destruct Hd as [_ Hd]. exact Hd.
Qed.

(* ---------- the reference semantics never fails on well-classed programs (C04) ---------- *)
Section SemTotal.
  Variable W : Type.
  Variable beh_fn : nat -> W -> list val -> W * list val.
  Variable beh_wrap : nat -> W -> list val -> wtree W.
  Variable errT : nat.

  Lemma run_sem_ok r (srest : W -> (nat -> val) -> W * (nat -> val) * bool) d :
    (forall w d', snd (srest w d') = true) ->
    forall t lastu count, snd (run_sem W r srest d t lastu count) = true.
  Proof.
    intros Hrest. induction t as [w1 rets | w1 iargs k IH]; intros lastu count; simpl; [reflexivity|].
    pose proof (Hrest w1 (upd_list d (r_outs r) iargs)) as H.
    destruct (srest w1 (upd_list d (r_outs r) iargs)) as [[w2 u2] ok]. simpl in H. subst ok. simpl. apply IH.
  Qed.

  Theorem sem_ok : forall prog, forallb well_classed prog = true -> forall w d,
    snd (sem W beh_fn beh_wrap errT prog w d) = true.
  Proof.
    induction prog as [|r rest IH]; intros Hwc w d; simpl; [reflexivity|].
    simpl in Hwc. apply andb_true_iff in Hwc. destruct Hwc as [Hr Hrest]. specialize (IH Hrest).
    unfold well_classed in Hr. destruct (r_class r) eqn:Ec; try discriminate.
    - destruct (beh_fn (r_pid r) w (look d (r_ins r))) as [w1 outs].
      destruct (negb (is_nil (nth (r_tepos r) outs VInvalid))); [reflexivity | apply IH].
    - destruct (beh_fn (r_pid r) w (look d (r_ins r))) as [w1 outs]. apply IH.
    - apply run_sem_ok. intros w' d'. apply IH.
    - destruct (beh_fn (r_pid r) w (look d (r_ins r))) as [w1 rets]. reflexivity.
  Qed.

  Theorem sem_static_ok : forall prog failed w d, snd (sem_static W beh_fn prog failed w d) = true.
  Proof.
    induction prog as [|r rest IH]; intros failed w d; simpl; [reflexivity|].
    destruct (r_class r); try apply IH;
      (destruct failed; [apply IH|]);
      destruct (beh_fn (r_pid r) w (look d (r_ins r))) as [w1 outs]; try apply IH.
    destruct (negb (is_nil (nth (r_tepos r) outs VInvalid))); apply IH.
  Qed.

  (* no session step ever reports a panic *)
  Theorem sem_session_no_panic p : forallb well_classed (sp_run p) = true ->
    forall steps s, sq_ok W s = true ->
      ~ In RPanic (snd (sem_session W beh_fn beh_wrap errT p s steps)) /\
      sq_ok W (fst (sem_session W beh_fn beh_wrap errT p s steps)) = true.
  Proof.
    intros Hwc. induction steps as [|st r IH]; intros s Hok; simpl; [split; [intros [] | exact Hok]|].
    assert (Hstep : sq_ok W (fst (sem_step W beh_fn beh_wrap errT p s st)) = true /\
                    snd (sem_step W beh_fn beh_wrap errT p s st) <> RPanic).
    { unfold sem_step. rewrite Hok. simpl. destruct st.
      - destruct (sp_init p) as [ir|]; [|split; [exact Hok | discriminate]].
        destruct (beh_fn (r_pid ir) (sq_w W s) []) as [w0 args].
        destruct (sq_done W s); [split; [reflexivity | discriminate]|].
        pose proof (sem_static_ok (sp_static p) false w0 (upd_list (sq_base W s) (r_outs ir) args)) as Hs.
        destruct (sem_static W beh_fn (sp_static p) false w0 (upd_list (sq_base W s) (r_outs ir) args)) as [[w1 d1] ok].
        simpl in Hs. subst ok. split; [reflexivity | discriminate].
      - destruct (beh_fn (r_pid (sp_invoke p)) (sq_w W s) []) as [w0 args].
        assert (Hpre : exists w1 d1 done1,
          (match sp_init p with
           | Some _ => (w0, sq_base W s, true, sq_done W s)
           | None => if sq_done W s then (w0, sq_base W s, true, true)
                     else match sem_static W beh_fn (sp_static p) false w0 (sq_base W s) with
                          | (w1, d1, ok) => (w1, d1, ok, true) end
           end) = (w1, d1, true, done1)).
        { destruct (sp_init p); [eauto|]. destruct (sq_done W s); [eauto|].
          pose proof (sem_static_ok (sp_static p) false w0 (sq_base W s)) as Hs.
          destruct (sem_static W beh_fn (sp_static p) false w0 (sq_base W s)) as [[w1 d1] ok]. simpl in Hs. subst ok. eauto. }
        destruct Hpre as (w1 & d1 & done1 & Hp). rewrite Hp. simpl.
        pose proof (sem_ok (sp_run p) Hwc w1 (upd_list d1 (r_outs (sp_invoke p)) args)) as Hr.
        destruct (sem W beh_fn beh_wrap errT (sp_run p) w1 (upd_list d1 (r_outs (sp_invoke p)) args)) as [[w2 u2] ok2].
        simpl in Hr. subst ok2. split; [reflexivity | discriminate]. }
    destruct (sem_step W beh_fn beh_wrap errT p s st) as [s1 r1]. simpl in Hstep. destruct Hstep as [Hok1 Hr1].
    destruct (IH s1 Hok1) as [Hn Hok2].
    destruct (sem_session W beh_fn beh_wrap errT p s1 r) as [s2 rs]. simpl in *.
    split; [|exact Hok2]. intros [E|Hin]; [apply Hr1; exact E | apply Hn; exact Hin].
  Qed.
End SemTotal.
