(* C11: in the specification, nothing ever changes a collection that already exists. *)
From Coq Require Import List Arith Bool Lia.
Import ListNotations.
From NJ Require Import Base Collections Edits Registry Classify Select Reorder Machine Spec Bind History.

Lemma nth_opt_app_l {A} (l r : list A) h : h < length l -> nth_opt h (l ++ r) = nth_opt h l.
Proof.
  revert h. induction l as [|x l IH]; intros h Hh; simpl in *; [lia|].
  destruct h; simpl; [reflexivity|]. apply IH. lia.
Qed.

Lemma nth_opt_some_lt {A} (l : list A) h x : nth_opt h l = Some x -> h < length l.
Proof.
  revert h. induction l as [|y l IH]; intros h H; destruct h; simpl in *; try discriminate H; [lia|].
  apply IH in H. lia.
Qed.

Lemma nth_opt_last {A} (l : list A) x : nth_opt (length l) (l ++ [x]) = Some x.
Proof. induction l as [|y l IH]; simpl; [reflexivity|exact IH]. Qed.

(* one operation: every existing collection keeps its contents, the pool only grows *)
Lemma hstep_frame st op : forall h, h < length st -> nth_opt h (fst (hstep st op)) = nth_opt h st.
Proof.
  intros h Hh. destruct op as [name args|h0 name args|f h0|h0 te inv init sess|h0]; simpl.
  - apply nth_opt_app_l, Hh.
  - destruct (nth_opt h0 st); simpl; [apply nth_opt_app_l, Hh|reflexivity].
  - destruct (nth_opt h0 st); simpl; [apply nth_opt_app_l, Hh|reflexivity].
  - destruct (nth_opt h0 st); reflexivity.
  - destruct (nth_opt h0 st); reflexivity.
Qed.

Lemma hstep_grows st op : length st <= length (fst (hstep st op)).
Proof.
  destruct op as [name args|h0 name args|f h0|h0 te inv init sess|h0]; simpl;
    try (destruct (nth_opt h0 st); simpl); rewrite ?app_length; simpl; lia.
Qed.

Theorem history_frame ops : forall st h, h < length st -> nth_opt h (fst (hrun st ops)) = nth_opt h st.
Proof.
  induction ops as [|op r IH]; intros st h Hh; simpl; [reflexivity|].
  destruct (hstep st op) as [st1 o] eqn:E1. destruct (hrun st1 r) as [st2 os] eqn:E2. simpl.
  pose proof (hstep_frame st op h Hh) as F. pose proof (hstep_grows st op) as G. rewrite E1 in F, G. simpl in F, G.
  specialize (IH st1 h ltac:(lia)). rewrite E2 in IH. simpl in IH. rewrite IH. exact F.
Qed.

(* Binding a collection after any history gives the observation of binding its contents as they
   were when it was made; in particular binding twice, with anything in between, gives the same. *)
Theorem bind_history_independent st h c ops te inv init sess :
  nth_opt h st = Some c ->
  snd (hstep (fst (hrun st ops)) (HBind h te inv init sess)) = OBound (model_run (mkCase te c inv init sess)).
Proof.
  intros Hc. simpl. rewrite (history_frame ops st h (nth_opt_some_lt _ _ _ Hc)), Hc. reflexivity.
Qed.

Theorem bind_twice_same st h c ops1 ops2 te inv init sess :
  nth_opt h st = Some c ->
  let st1 := fst (hrun st ops1) in
  let st2 := fst (hrun st1 ops2) in
  snd (hstep st1 (HBind h te inv init sess)) = snd (hstep st2 (HBind h te inv init sess)).
Proof.
  intros Hc st1 st2. unfold st2, st1.
  rewrite (bind_history_independent st h c ops1 te inv init sess Hc).
  assert (H1 : nth_opt h (fst (hrun st ops1)) = Some c).
  { rewrite (history_frame ops1 st h (nth_opt_some_lt _ _ _ Hc)). exact Hc. }
  rewrite (bind_history_independent _ h c ops2 te inv init sess H1). reflexivity.
Qed.

(* a collection derived from c is not affected by later operations on c, and vice versa: both
   are just entries of the pool *)
Theorem derived_independent st h c name args ops :
  nth_opt h st = Some c ->
  let st1 := fst (hstep st (HAppend h name args)) in
  nth_opt (length st) (fst (hrun st1 ops)) = Some (c ++ flat_map (seq_item name) (map (arg_thing st) args)) /\
  nth_opt h (fst (hrun st1 ops)) = Some c.
Proof.
  intros Hc st1. unfold st1. simpl. rewrite Hc. simpl.
  assert (L : length st < length (st ++ [c ++ flat_map (seq_item name) (map (arg_thing st) args)])).
  { rewrite app_length. simpl. lia. }
  split.
  - rewrite (history_frame ops _ _ L). apply nth_opt_last.
  - assert (Hh : h < length (st ++ [c ++ flat_map (seq_item name) (map (arg_thing st) args)])).
    { apply nth_opt_some_lt in Hc. lia. }
    rewrite (history_frame ops _ _ Hh), nth_opt_app_l; [exact Hc|].
    apply nth_opt_some_lt in Hc. exact Hc.
Qed.
