(* Slot allocation (bind.go: downVmap / upVmap) is well formed for every working list:
   the keys of each map are distinct, the assigned indices are pairwise distinct across both
   maps and below the counter.  (One of the hypotheses of the refinement theorem, here proved.) *)
From Coq Require Import List Arith Bool Lia.
Import ListNotations.
From NJ Require Import Base Registry Classify Select Machine Spec Bind.

(* ---------- lists ---------- *)
Lemma in_remove_all x y l : In y (remove_all x l) <-> In y l /\ y <> x.
Proof.
  induction l as [|z l IH]; simpl; [tauto|].
  destruct (x =? z) eqn:E.
  - apply Nat.eqb_eq in E. subst z. rewrite IH. split; [tauto|]. intros [[->|H] Hn]; [congruence|tauto].
  - apply Nat.eqb_neq in E. simpl. rewrite IH. split.
    + intros [->|[H Hn]]; [split; [left; reflexivity|congruence]|tauto].
    + intros [[->|H] Hn]; [left; reflexivity|right; tauto].
Qed.

Lemma NoDup_remove_all x l : NoDup l -> NoDup (remove_all x l).
Proof.
  induction 1 as [|z l Hz Hl IH]; simpl; [constructor|].
  destruct (x =? z); [exact IH|]. constructor; [|exact IH].
  rewrite in_remove_all. tauto.
Qed.

Lemma NoDup_dedup l : NoDup (dedup l).
Proof.
  induction l as [|x l IH]; simpl; [constructor|]. constructor.
  - rewrite in_remove_all. tauto.
  - apply NoDup_remove_all, IH.
Qed.

Lemma memb_true_in x l : memb x l = true <-> In x l.
Proof.
  induction l as [|y l IH]; simpl; [split; [discriminate|tauto]|].
  rewrite orb_true_iff, IH, Nat.eqb_eq. split; intros [H|H]; auto.
Qed.

Lemma NoDup_nodup_b l : NoDup l -> nodup_b l = true.
Proof.
  induction 1 as [|x l Hx Hl IH]; simpl; [reflexivity|]. rewrite IH, andb_true_r.
  destruct (memb x l) eqn:E; [|reflexivity]. apply memb_true_in in E. contradiction.
Qed.

(* ---------- one assignment ---------- *)
Notation vmap := (list (nat * option nat)) (only parsing).

Lemma aset_keys (k : nat) (v : option nat) (m : list (nat * option nat)) o :
  alookup k m = Some o -> map fst (aset k v m) = map fst m.
Proof.
  induction m as [|[k' v'] r IH]; simpl; [discriminate|].
  destruct (k =? k') eqn:E; simpl.
  - apply Nat.eqb_eq in E. subst. reflexivity.
  - intros H. rewrite (IH H). reflexivity.
Qed.

Lemma slot_idx_aset k c (m : list (nat * option nat)) :
  alookup k m = Some None ->
  forall i, In i (slot_idx (aset k (Some c) m)) <-> i = c \/ In i (slot_idx m).
Proof.
  induction m as [|[k' v'] r IH]; simpl; [discriminate|].
  destruct (k =? k') eqn:E; intros H i.
  - injection H as ->. unfold slot_idx. simpl. split; intros [E1|E1]; auto.
  - specialize (IH H i). unfold slot_idx in *. simpl. rewrite in_app_iff, IH, in_app_iff. tauto.
Qed.

Lemma slot_idx_aset_nodup k c (m : list (nat * option nat)) :
  alookup k m = Some None -> NoDup (slot_idx m) -> ~ In c (slot_idx m) -> NoDup (slot_idx (aset k (Some c) m)).
Proof.
  induction m as [|[k' v'] r IH]; simpl; [discriminate|].
  destruct (k =? k') eqn:E; intros H Hn Hc.
  - injection H as ->. unfold slot_idx in *. simpl in *. constructor; assumption.
  - unfold slot_idx in *. simpl in *.
    assert (Hr : NoDup (flat_map (fun e : nat * option nat => match snd e with Some i => [i] | None => [] end) r)).
    { destruct v'; simpl in Hn; [inversion Hn; assumption|exact Hn]. }
    assert (Hcr : ~ In c (flat_map (fun e : nat * option nat => match snd e with Some i => [i] | None => [] end) r)).
    { intros Hi. apply Hc. apply in_or_app. right. exact Hi. }
    specialize (IH H Hr Hcr).
    destruct v' as [j|]; simpl; [|exact IH].
    constructor; [|exact IH].
    intros Hi. apply (slot_idx_aset k c r H j) in Hi. destruct Hi as [->|Hi].
    + apply Hc. left. reflexivity.
    + inversion Hn; contradiction.
Qed.

(* ---------- the invariant ---------- *)
Record ainv (dn up : list (nat * option nat)) (cnt : nat) : Prop := {
  ai_kd : NoDup (map fst dn);
  ai_ku : NoDup (map fst up);
  ai_nd : NoDup (slot_idx dn);
  ai_nu : NoDup (slot_idx up);
  ai_dj : forall i, In i (slot_idx dn) -> In i (slot_idx up) -> False;
  ai_bd : forall i, In i (slot_idx dn) -> i < cnt;
  ai_bu : forall i, In i (slot_idx up) -> i < cnt
}.

Lemma add_down_inv tys rm : forall dn up cnt dn' cnt',
  ainv dn up cnt -> add_to_vmap tys rm (dn, cnt) = (dn', cnt') ->
  ainv dn' up cnt' /\ cnt <= cnt' /\ map fst dn' = map fst dn.
Proof.
  unfold add_to_vmap. induction tys as [|t r IH]; intros dn up cnt dn' cnt' Hi H; simpl in H.
  - injection H as <- <-. split; [exact Hi|split; [lia|reflexivity]].
  - destruct (alookup (remap rm t) dn) as [[j|]|] eqn:E.
    + apply (IH _ _ _ _ _ Hi H).
    + assert (Hi1 : ainv (aset (remap rm t) (Some cnt) dn) up (S cnt)).
      { destruct Hi as [kd ku nd nu dj bd bu]. constructor.
        - rewrite (aset_keys _ _ _ _ E). exact kd.
        - exact ku.
        - apply (slot_idx_aset_nodup _ _ _ E nd). intros Hc. apply bd in Hc. lia.
        - exact nu.
        - intros i Hd Hu. apply (slot_idx_aset _ _ _ E) in Hd. destruct Hd as [->|Hd]; [apply bu in Hu; lia|exact (dj i Hd Hu)].
        - intros i Hd. apply (slot_idx_aset _ _ _ E) in Hd. destruct Hd as [->|Hd]; [lia|apply bd in Hd; lia].
        - intros i Hu. apply bu in Hu. lia. }
      destruct (IH _ _ _ _ _ Hi1 H) as (A & B & C). split; [exact A|]. split; [lia|].
      rewrite C. apply (aset_keys _ _ _ _ E).
    + apply (IH _ _ _ _ _ Hi H).
Qed.

Lemma ainv_swap dn up cnt : ainv dn up cnt -> ainv up dn cnt.
Proof. intros [kd ku nd nu dj bd bu]. constructor; try assumption. intros i A B. exact (dj i B A). Qed.

Lemma add_up_inv tys rm dn up cnt up' cnt' :
  ainv dn up cnt -> add_to_vmap tys rm (up, cnt) = (up', cnt') ->
  ainv dn up' cnt' /\ cnt <= cnt' /\ map fst up' = map fst up.
Proof.
  intros Hi H. destruct (add_down_inv tys rm up dn cnt up' cnt' (ainv_swap _ _ _ Hi) H) as (A & B & C).
  split; [apply ainv_swap, A|]. split; assumption.
Qed.

Lemma ainv_mono dn up c c' : ainv dn up c -> c <= c' -> ainv dn up c'.
Proof.
  intros [kd ku nd nu dj bd bu] Hle. constructor; try assumption; intros i Hi; [apply bd in Hi|apply bu in Hi]; lia.
Qed.

Lemma static_slots_inv rstatic : forall st up sdone st',
  ainv (fst st) up (snd st) -> static_slots rstatic st = (sdone, st') -> ainv (fst st') up (snd st').
Proof.
  induction rstatic as [|p r IH]; intros st up sdone st' Hi H; cbn [static_slots] in H.
  - injection H as <- <-. exact Hi.
  - destruct (add_to_vmap (pflow p FOut) [] st) as [dn1 c1] eqn:EA.
    destruct (static_slots r (dn1, c1)) as [done st''] eqn:ES. injection H as <- <-.
    destruct st as [dn c]. simpl in Hi.
    destruct (add_down_inv _ _ _ _ _ _ _ Hi EA) as (A & _ & _).
    apply (IH (dn1, c1) up done st'' A ES).
Qed.

Lemma run_slots_inv rrun : forall dn up cnt rdone dn' up' cnt',
  ainv dn up cnt -> run_slots rrun dn up cnt = (rdone, dn', up', cnt') -> ainv dn' up' cnt'.
Proof.
  induction rrun as [|p r IH]; intros dn up cnt rdone dn' up' cnt' Hi H; cbn [run_slots] in H.
  - injection H as <- <- <- <-. exact Hi.
  - destruct (add_to_vmap (pflow p FIn) (p_downR p) (dn, cnt)) as [dn1 c1] eqn:E1.
    destruct (add_to_vmap (pflow p FRet) [] (up, c1)) as [up1 c2] eqn:E2.
    destruct (run_slots r dn1 up1 c2) as [[[done dn2] up2] c3] eqn:ER. injection H as <- <- <- <-.
    destruct (add_down_inv _ _ _ _ _ _ _ Hi E1) as (A & _ & _).
    destruct (add_up_inv _ _ _ _ _ _ _ A E2) as (B & _ & _).
    apply (IH _ _ _ _ _ _ _ B ER).
Qed.

Lemma vm_keys_inv funcs : ainv (vm_keys funcs) (vm_keys funcs) 0.
Proof.
  assert (K : map fst (vm_keys funcs) =
              dedup (flat_map (fun p => if p_include p then pflow p FRet ++ pflow p FOut ++ pflow p FIn ++ pflow p FRecv ++ pflow p FBypass else []) funcs)).
  { unfold vm_keys. rewrite map_map. simpl. apply map_id. }
  assert (S0 : slot_idx (vm_keys funcs) = []).
  { clear K. unfold vm_keys, slot_idx. induction (dedup _) as [|x l IH]; simpl; [reflexivity|exact IH]. }
  constructor; try (rewrite K; apply NoDup_dedup); try (rewrite S0; constructor); rewrite S0; intros i [].
Qed.

(* the slot tables of every working list are well formed *)
Theorem allocate_slots_ok funcs ii : slots_ok_b (allocate_slots funcs ii) = true.
Proof.
  unfold allocate_slots.
  destruct (static_slots (rev (firstn ii funcs)) (vm_keys funcs, 0)) as [sdone st] eqn:ES.
  destruct (run_slots (rev (skipn ii funcs)) (fst st) (vm_keys funcs) (snd st)) as [[[rdone dn] up] cnt] eqn:ER.
  pose proof (static_slots_inv _ (vm_keys funcs, 0) (vm_keys funcs) _ _ (vm_keys_inv funcs) ES) as I1.
  pose proof (run_slots_inv _ _ _ _ _ _ _ _ I1 ER) as [kd ku nd nu dj bd bu].
  unfold slots_ok_b. cbn [sl_down sl_up sl_count].
  rewrite (NoDup_nodup_b _ kd), (NoDup_nodup_b _ ku). cbn [andb].
  assert (Hnd : NoDup (slot_idx dn ++ slot_idx up)).
  { clear -nd nu dj. induction (slot_idx dn) as [|x l IH]; simpl; [exact nu|].
    inversion nd as [|? ? Hx Hl]; subst. constructor.
    - intros Hi. apply in_app_or in Hi. destruct Hi as [Hi|Hi]; [exact (Hx Hi)|]. apply (dj x); [left; reflexivity|exact Hi].
    - apply IH; [exact Hl|]. intros i A B. apply (dj i); [right; exact A|exact B]. }
  rewrite (NoDup_nodup_b _ Hnd). cbn [andb].
  apply forallb_forall. intros i Hi. apply Nat.ltb_lt. apply in_app_or in Hi. destruct Hi as [Hi|Hi]; [apply bd|apply bu]; exact Hi.
Qed.

(* ---------- what gets a slot ---------- *)
Definition assigned (vm : list (nat * option nat)) (t : nat) : Prop := exists i, alookup t vm = Some (Some i).
Definition is_key (vm : list (nat * option nat)) (t : nat) : Prop := exists o, alookup t vm = Some o.

Lemma alookup_aset_same {A} k (v : A) m : alookup k (aset k v m) = Some v.
Proof.
  induction m as [|[k' v'] r IH]; simpl; [rewrite Nat.eqb_refl; reflexivity|].
  destruct (k =? k') eqn:E; simpl; [rewrite Nat.eqb_refl; reflexivity|rewrite E; exact IH].
Qed.

Lemma alookup_aset_other {A} k k2 (v : A) m : k2 <> k -> alookup k2 (aset k v m) = alookup k2 m.
Proof.
  intros Hn. induction m as [|[k' v'] r IH]; simpl.
  - destruct (k2 =? k) eqn:E; [apply Nat.eqb_eq in E; congruence|reflexivity].
  - destruct (k =? k') eqn:E; simpl.
    + apply Nat.eqb_eq in E. subst k'. destruct (k2 =? k) eqn:E2; [apply Nat.eqb_eq in E2; congruence|reflexivity].
    + destruct (k2 =? k'); [reflexivity|exact IH].
Qed.

(* one addToVmap: what was assigned stays assigned, keys stay keys, and every listed type that is a
   key is assigned afterwards *)
Lemma add_to_vmap_spec tys rm : forall vm cnt vm' cnt',
  add_to_vmap tys rm (vm, cnt) = (vm', cnt') ->
  (forall t, assigned vm t -> assigned vm' t) /\
  (forall t, is_key vm t -> is_key vm' t) /\
  (forall t, In t tys -> is_key vm (remap rm t) -> assigned vm' (remap rm t)).
Proof.
  unfold add_to_vmap. induction tys as [|t0 r IH]; intros vm cnt vm' cnt' H; simpl in H.
  - injection H as <- <-. repeat split; auto. intros t [].
  - destruct (alookup (remap rm t0) vm) as [[j|]|] eqn:E.
    + destruct (IH _ _ _ _ H) as (A & B & C). repeat split; auto.
      intros t [<-|Ht] Hk; [apply A; exists j; exact E|apply C; assumption].
    + destruct (IH _ _ _ _ H) as (A & B & C).
      assert (A0 : forall t, assigned vm t -> assigned (aset (remap rm t0) (Some cnt) vm) t).
      { intros t [i Hi]. destruct (Nat.eq_dec t (remap rm t0)) as [->|Hn]; [congruence|].
        exists i. rewrite alookup_aset_other by exact Hn. exact Hi. }
      assert (B0 : forall t, is_key vm t -> is_key (aset (remap rm t0) (Some cnt) vm) t).
      { intros t [o Ho]. destruct (Nat.eq_dec t (remap rm t0)) as [->|Hn].
        - exists (Some cnt). apply alookup_aset_same.
        - exists o. rewrite alookup_aset_other by exact Hn. exact Ho. }
      repeat split.
      * intros t Ht. apply A, A0, Ht.
      * intros t Ht. apply B, B0, Ht.
      * intros t [<-|Ht] Hk.
        -- apply A. exists cnt. apply alookup_aset_same.
        -- apply C; [exact Ht|apply B0, Hk].
    + destruct (IH _ _ _ _ H) as (A & B & C). repeat split; auto.
      intros t [<-|Ht] [o Ho]; [congruence|apply C; [exact Ht|exists o; exact Ho]].
Qed.

Lemma static_slots_spec rstatic : forall st sdone st',
  static_slots rstatic st = (sdone, st') ->
  (forall t, assigned (fst st) t -> assigned (fst st') t) /\
  (forall t, is_key (fst st) t -> is_key (fst st') t) /\
  (forall q t, In q rstatic -> In t (pflow q FOut) -> is_key (fst st) t -> assigned (fst st') t).
Proof.
  induction rstatic as [|p r IH]; intros st sdone st' H; cbn [static_slots] in H.
  - injection H as <- <-. repeat split; auto. intros q t [].
  - destruct st as [dn c].
    destruct (add_to_vmap (pflow p FOut) [] (dn, c)) as [dn1 c1] eqn:EA.
    destruct (static_slots r (dn1, c1)) as [done st''] eqn:ES. injection H as <- <-.
    destruct (add_to_vmap_spec _ _ _ _ _ _ EA) as (A & B & C).
    destruct (IH _ _ _ ES) as (A' & B' & C'). cbn [fst] in *.
    repeat split.
    + intros t Ht. apply A', A, Ht.
    + intros t Ht. apply B', B, Ht.
    + intros q t [<-|Hq] Ht Hk.
      * apply A'. specialize (C t Ht). unfold remap in C. simpl in C. apply C, Hk.
      * apply (C' q t Hq Ht). apply B, Hk.
Qed.

Lemma run_slots_spec rrun : forall dn up cnt rdone dn' up' cnt',
  run_slots rrun dn up cnt = (rdone, dn', up', cnt') ->
  (forall t, assigned dn t -> assigned dn' t) /\ (forall t, is_key dn t -> is_key dn' t) /\
  (forall t, assigned up t -> assigned up' t) /\ (forall t, is_key up t -> is_key up' t) /\
  (forall p t, In p rrun -> In t (pflow p FIn) -> is_key dn (remap (p_downR p) t) -> assigned dn' (remap (p_downR p) t)) /\
  (forall p t, In p rrun -> In t (pflow p FRet) -> is_key up t -> assigned up' t).
Proof.
  induction rrun as [|p r IH]; intros dn up cnt rdone dn' up' cnt' H; cbn [run_slots] in H.
  - injection H as <- <- <- <-. repeat split; auto; intros p t [].
  - destruct (add_to_vmap (pflow p FIn) (p_downR p) (dn, cnt)) as [dn1 c1] eqn:E1.
    destruct (add_to_vmap (pflow p FRet) [] (up, c1)) as [up1 c2] eqn:E2.
    destruct (run_slots r dn1 up1 c2) as [[[done dn2] up2] c3] eqn:ER. injection H as <- <- <- <-.
    destruct (add_to_vmap_spec _ _ _ _ _ _ E1) as (A1 & B1 & C1).
    destruct (add_to_vmap_spec _ _ _ _ _ _ E2) as (A2 & B2 & C2).
    destruct (IH _ _ _ _ _ _ _ ER) as (Ad & Bd & Au & Bu & Cd & Cu).
    repeat split.
    + intros t Ht. apply Ad, A1, Ht.
    + intros t Ht. apply Bd, B1, Ht.
    + intros t Ht. apply Au, A2, Ht.
    + intros t Ht. apply Bu, B2, Ht.
    + intros q t [<-|Hq] Ht Hk; [apply Ad, (C1 t Ht Hk)|apply (Cd q t Hq Ht), B1, Hk].
    + intros q t [<-|Hq] Ht Hk.
      * apply Au. specialize (C2 t Ht). unfold remap in C2. simpl in C2. apply C2, Hk.
      * apply (Cu q t Hq Ht), B2, Hk.
Qed.

Lemma vm_keys_is_key funcs p t :
  In p funcs -> p_include p = true ->
  In t (pflow p FRet ++ pflow p FOut ++ pflow p FIn ++ pflow p FRecv ++ pflow p FBypass) ->
  is_key (vm_keys funcs) t.
Proof.
  intros Hp Hi Ht. exists None. unfold vm_keys.
  assert (Hin : In t (dedup (flat_map (fun p => if p_include p then pflow p FRet ++ pflow p FOut ++ pflow p FIn ++ pflow p FRecv ++ pflow p FBypass else []) funcs))).
  { assert (Hd : forall l x, In x l -> In x (dedup l)).
    { induction l as [|y l IHl]; intros x Hx; simpl in *; [tauto|].
      destruct (Nat.eq_dec y x) as [->|Hn]; [left; reflexivity|].
      right. apply in_remove_all. split; [apply IHl; destruct Hx; [congruence|assumption]|congruence]. }
    apply Hd. apply in_flat_map. exists p. split; [exact Hp|]. rewrite Hi. exact Ht. }
  induction (dedup _) as [|x l IH]; simpl in *; [tauto|].
  destruct (t =? x) eqn:E; [reflexivity|]. apply IH. destruct Hin as [->|Hin]; [rewrite Nat.eqb_refl in E; discriminate|exact Hin].
Qed.

(* The allocation theorem: in the slot tables of a working list
   - every output type of a provider listed before the invoke function,
   - every (remapped) parameter type and every returned type of a provider listed from the invoke
     function on,
   that occurs in the flows of some included provider has a slot. *)
Theorem allocate_slots_covers funcs ii :
  let sl := allocate_slots funcs ii in
  (forall q t, In q (firstn ii funcs) -> In t (pflow q FOut) -> is_key (vm_keys funcs) t -> assigned (sl_down sl) t) /\
  (forall p t, In p (skipn ii funcs) -> In t (pflow p FIn) -> is_key (vm_keys funcs) (remap (p_downR p) t) ->
     assigned (sl_down sl) (remap (p_downR p) t)) /\
  (forall p t, In p (skipn ii funcs) -> In t (pflow p FRet) -> is_key (vm_keys funcs) t -> assigned (sl_up sl) t).
Proof.
  unfold allocate_slots.
  destruct (static_slots (rev (firstn ii funcs)) (vm_keys funcs, 0)) as [sdone st] eqn:ES.
  destruct (run_slots (rev (skipn ii funcs)) (fst st) (vm_keys funcs) (snd st)) as [[[rdone dn] up] cnt] eqn:ER.
  destruct (static_slots_spec _ _ _ _ ES) as (As & Bs & Cs). cbn [fst] in *.
  destruct (run_slots_spec _ _ _ _ _ _ _ _ ER) as (Ad & Bd & Au & Bu & Cd & Cu).
  cbn [sl_down sl_up]. repeat split.
  - intros q t Hq Ht Hk. apply Ad. apply (Cs q t); [apply in_rev in Hq; exact Hq| exact Ht | exact Hk].
  - intros p t Hp Ht Hk. apply (Cd p t); [apply in_rev in Hp; exact Hp|exact Ht|apply Bs, Hk].
  - intros p t Hp Ht Hk. apply (Cu p t); [apply in_rev in Hp; exact Hp|exact Ht|exact Hk].
Qed.
