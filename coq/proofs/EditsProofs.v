(* Proofs about the named-edit model (S1, property C18). *)
From Coq Require Import List Arith Bool Lia Permutation.
Import ListNotations.
From NJ Require Import Edits Monitors.

Arguments insert_before : simpl never.

(* ---------- list splicing lemmas ---------- *)
Lemma split_id_app i l a b : split_id i l = (a, b) -> l = a ++ b.
Proof.
  revert a b; induction l as [|x xs IH]; intros a b H; simpl in H.
  - inversion H; reflexivity.
  - destruct (eid x =? i).
    + inversion H; reflexivity.
    + destruct (split_id i xs) as [a' b'] eqn:E. inversion H; subst.
      simpl. f_equal. apply IH. reflexivity.
Qed.

Lemma split_id_head i l a b : split_id i l = (a, b) ->
  match b with [] => True | f :: _ => eid f = i end.
Proof.
  revert a b; induction l as [|x xs IH]; intros a b H; simpl in H.
  - inversion H; exact I.
  - destruct (eid x =? i) eqn:Ex.
    + inversion H; subst. apply Nat.eqb_eq; exact Ex.
    + destruct (split_id i xs) as [a' b'] eqn:E. inversion H; subst.
      apply (IH a' b). reflexivity.
Qed.

Lemma span_app p l a b : span p l = (a, b) -> l = a ++ b /\ forallb p a = true.
Proof.
  revert a b; induction l as [|x xs IH]; intros a b H; simpl in H.
  - inversion H; split; reflexivity.
  - destruct (p x) eqn:Px.
    + destruct (span p xs) as [a' b'] eqn:E. inversion H; subst.
      destruct (IH a' b eq_refl) as [H1 H2]. split.
      * simpl; f_equal; exact H1.
      * simpl; rewrite Px, H2; reflexivity.
    + inversion H; subst. split; reflexivity.
Qed.

Lemma cut_block_spec i p l pre blk post :
  cut_block i p l = (pre, blk, post) ->
  l = pre ++ blk ++ post /\
  match blk with
  | [] => True
  | f :: run => eid f = i /\ forallb p run = true
  end.
Proof.
  unfold cut_block. destruct (split_id i l) as [a b] eqn:E.
  pose proof (split_id_app _ _ _ _ E) as Hl.
  pose proof (split_id_head _ _ _ _ E) as Hh.
  destruct b as [|f rest].
  - intros H; inversion H; subst. split; [simpl; reflexivity | exact I].
  - destruct (span p rest) as [run after] eqn:Es. intros H; inversion H; subst.
    destruct (span_app _ _ _ _ Es) as [H1 H2]. subst rest.
    split; [reflexivity | split; [reflexivity | assumption]].
Qed.

Lemma insert_before_split anchor M L :
  exists p q, L = p ++ q /\ insert_before anchor M L = p ++ M ++ q.
Proof.
  unfold insert_before. destruct anchor as [a|].
  - destruct (split_id a L) as [pre post] eqn:E. exists pre, post.
    split; [eapply split_id_app; eauto | reflexivity].
  - exists L, []. split; [rewrite app_nil_r; reflexivity | rewrite app_nil_r; reflexivity].
Qed.

Lemma split_id_found a L : mem_id a L = true -> exists pre f q, split_id a L = (pre, f :: q).
Proof.
  induction L as [|x xs IH]; simpl; [discriminate|].
  destruct (eid x =? a) eqn:Ex; simpl.
  - intros _. exists [], x, xs. reflexivity.
  - intros Hm. destruct (IH Hm) as (pre & f & q & E). rewrite E. exists (x :: pre), f, q. reflexivity.
Qed.

(* inserting before an anchor that is present puts the block immediately before it *)
Lemma insert_before_adjacent a M L :
  mem_id a L = true ->
  exists p f q, L = p ++ f :: q /\ eid f = a /\ insert_before (Some a) M L = p ++ M ++ f :: q.
Proof.
  intros Hm. destruct (split_id_found _ _ Hm) as (pre & f & q & E).
  unfold insert_before. rewrite E. exists pre, f, q.
  split; [eapply split_id_app; eauto|]. split; [|reflexivity].
  apply (split_id_head _ _ _ _ E).
Qed.

(* ---------- permutation / order bookkeeping ---------- *)
Definition untagged (x : enode) : bool := negb (tagged x).

Inductive Sublist {A} : list A -> list A -> Prop :=
| SubNil : Sublist [] []
| SubSkip x l1 l2 : Sublist l1 l2 -> Sublist l1 (x :: l2)
| SubKeep x l1 l2 : Sublist l1 l2 -> Sublist (x :: l1) (x :: l2).

Lemma Sublist_refl {A} (l : list A) : Sublist l l.
Proof. induction l; constructor; assumption. Qed.

Lemma Sublist_trans {A} (a b c : list A) : Sublist a b -> Sublist b c -> Sublist a c.
Proof.
  intros Hab Hbc; revert a Hab; induction Hbc; intros a Hab.
  - exact Hab.
  - constructor. apply IHHbc. exact Hab.
  - inversion Hab; subst.
    + constructor. apply IHHbc; assumption.
    + apply SubKeep. apply IHHbc; assumption.
Qed.

Lemma Sublist_app {A} (a1 a2 b1 b2 : list A) : Sublist a1 b1 -> Sublist a2 b2 -> Sublist (a1 ++ a2) (b1 ++ b2).
Proof. intros H1 H2; induction H1; simpl; try constructor; assumption. Qed.

Lemma Sublist_nil {A} (l : list A) : Sublist [] l.
Proof. induction l; constructor; assumption. Qed.

Lemma Sublist_app_l {A} (a b : list A) : Sublist b (a ++ b).
Proof. induction a; simpl; [apply Sublist_refl | constructor; assumption]. Qed.

Lemma Sublist_filter {A} (f : A -> bool) l : Sublist (filter f l) l.
Proof. induction l; simpl; [constructor|]. destruct (f a); constructor; assumption. Qed.

Lemma Sublist_filter_mono {A} (f : A -> bool) a b : Sublist a b -> Sublist (filter f a) (filter f b).
Proof.
  induction 1; simpl.
  - constructor.
  - destruct (f x); [constructor|]; assumption.
  - destruct (f x); [apply SubKeep|]; assumption.
Qed.

Lemma filter_none {A} (f : A -> bool) l : forallb (fun x => negb (f x)) l = true -> filter f l = [].
Proof.
  induction l; simpl; intros H; [reflexivity|].
  apply andb_true_iff in H. destruct H as [H1 H2]. destruct (f a); [discriminate|]. auto.
Qed.

(* a block all of whose members carry a tag contributes nothing to the untagged projection *)
Definition all_tagged (M : list enode) : Prop := forallb (fun x => negb (untagged x)) M = true.

Lemma tagged_of_rep x : erep x <> 0 -> negb (untagged x) = true.
Proof.
  intros H. unfold untagged, tagged, ntags, nz. rewrite negb_involutive.
  destruct (erep x =? 0) eqn:E; [apply Nat.eqb_eq in E; contradiction|].
  destruct (ebef x =? 0); destruct (eaft x =? 0); reflexivity.
Qed.
Lemma tagged_of_bef x : ebef x <> 0 -> negb (untagged x) = true.
Proof.
  intros H. unfold untagged, tagged, ntags, nz. rewrite negb_involutive.
  destruct (ebef x =? 0) eqn:E; [apply Nat.eqb_eq in E; contradiction|].
  destruct (erep x =? 0); destruct (eaft x =? 0); reflexivity.
Qed.
Lemma tagged_of_aft x : eaft x <> 0 -> negb (untagged x) = true.
Proof.
  intros H. unfold untagged, tagged, ntags, nz. rewrite negb_involutive.
  destruct (eaft x =? 0) eqn:E; [apply Nat.eqb_eq in E; contradiction|].
  destruct (erep x =? 0); destruct (ebef x =? 0); reflexivity.
Qed.

Lemma all_tagged_run (sel : enode -> nat) name run :
  name <> 0 ->
  (forall x, sel x <> 0 -> negb (untagged x) = true) ->
  forallb (fun x => sel x =? name) run = true -> all_tagged run.
Proof.
  intros Hn Hs. unfold all_tagged. induction run as [|x xs IH]; simpl; intros H; [reflexivity|].
  apply andb_true_iff in H. destruct H as [H1 H2]. apply Nat.eqb_eq in H1.
  rewrite Hs by lia. simpl. apply IH. exact H2.
Qed.

(* moving an all-tagged block does not change the untagged projection *)
Lemma untagged_move pre M post anchor :
  all_tagged M ->
  filter untagged (insert_before anchor M (pre ++ post)) = filter untagged (pre ++ M ++ post).
Proof.
  intros HM. destruct (insert_before_split anchor M (pre ++ post)) as (p & q & Hpq & Hins).
  rewrite Hins. rewrite !filter_app. rewrite (filter_none untagged M HM). simpl.
  rewrite <- !filter_app. rewrite <- Hpq. reflexivity.
Qed.

Lemma perm_move pre (M : list enode) post anchor :
  Permutation (insert_before anchor M (pre ++ post)) (pre ++ M ++ post).
Proof.
  destruct (insert_before_split anchor M (pre ++ post)) as (p & q & Hpq & Hins).
  rewrite Hins.
  transitivity (M ++ p ++ q).
  - rewrite app_assoc. rewrite app_assoc. apply Permutation_app_tail. apply Permutation_app_comm.
  - rewrite <- Hpq. rewrite app_assoc. rewrite (app_assoc pre M post).
    apply Permutation_app_tail. apply Permutation_app_comm.
Qed.

(* ---------- name index facts ---------- *)
Lemma lookup_name_in name ns e : lookup_name name ns = Some e -> In e ns /\ nname e = name.
Proof.
  induction ns as [|x r IH]; simpl; [discriminate|].
  destruct (nname x =? name) eqn:E.
  - intros H; inversion H; subst. split; [left; reflexivity | apply Nat.eqb_eq; exact E].
  - intros H. destruct (IH H) as [H1 H2]. split; [right; exact H1 | exact H2].
Qed.

Definition ent_ok (l : list enode) (e : nent) : Prop :=
  exists x, In x l /\ eid x = nfirst e /\ eorigin x = nname e.

Lemma set_last_ok l name last ns : Forall (ent_ok l) ns -> Forall (ent_ok l) (set_last name last ns).
Proof.
  induction 1 as [|e r He Hr IH]; simpl; [constructor|].
  destruct (nname e =? name); constructor; auto.
Qed.
Lemma set_dup_ok l name ns : Forall (ent_ok l) ns -> Forall (ent_ok l) (set_dup name ns).
Proof.
  induction 1 as [|e r He Hr IH]; simpl; [constructor|].
  destruct (nname e =? name); constructor; auto.
Qed.
Lemma del_name_ok l name ns : Forall (ent_ok l) ns -> Forall (ent_ok l) (del_name name ns).
Proof.
  induction 1 as [|e r He Hr IH]; simpl; [constructor|].
  destruct (nname e =? name); [assumption | constructor; auto].
Qed.

Lemma build_names_ok l todo lastName stored ns :
  incl todo l -> Forall (ent_ok l) ns -> Forall (ent_ok l) (build_names todo lastName stored ns).
Proof.
  revert lastName stored ns; induction todo as [|n r IH]; intros lastName stored ns Hin Hns; simpl; [exact Hns|].
  assert (Hr : incl r l) by (intros x Hx; apply Hin; right; exact Hx).
  destruct (eorigin n =? 0); [apply IH; assumption|].
  destruct (eorigin n =? lastName).
  - apply IH; [assumption|]. destruct stored; [apply set_last_ok|]; assumption.
  - destruct (lookup_name (eorigin n) ns).
    + apply IH; [assumption | apply set_dup_ok; assumption].
    + apply IH; [assumption|]. apply Forall_app. split; [assumption|].
      constructor; [|constructor]. exists n. simpl. repeat split. apply Hin. left. reflexivity.
Qed.

(* ---------- the step invariant ---------- *)
Definition replaced_in (l : list enode) (x : enode) : Prop :=
  exists n, In n l /\ erep n <> 0 /\ eorigin x = erep n.

(* ids identify nodes *)
Definition ids_unique (l : list enode) : Prop :=
  forall x y, In x l -> In y l -> eid x = eid y -> x = y.

Lemma NoDup_ids_unique l : NoDup (map eid l) -> ids_unique l.
Proof.
  induction l as [|a r IH]; intros Hnd x y Hx Hy E; [destruct Hx|].
  inversion Hnd as [|? ? Hna Hr]; subst.
  destruct Hx as [Hx|Hx]; destruct Hy as [Hy|Hy]; subst.
  - reflexivity.
  - exfalso. apply Hna. rewrite E. apply in_map. exact Hy.
  - exfalso. apply Hna. rewrite <- E. apply in_map. exact Hx.
  - apply IH; assumption.
Qed.

Record inv (l : list enode) (st : estate) : Prop := {
  inv_perm : exists removed, Permutation (cur st ++ removed) l /\ Forall (replaced_in l) removed;
  inv_order : Sublist (filter untagged (cur st)) (filter untagged l);
  inv_names : Forall (ent_ok l) (names st)
}.

Lemma inv_in l st x : inv l st -> In x (cur st) -> In x l.
Proof.
  intros [[removed [Hp _]] _ _] Hx. eapply Permutation_in; [exact Hp|]. apply in_or_app. left. exact Hx.
Qed.

(* the head of a block cut at n's id is n itself *)
Lemma cut_head_is_n l st n p pre f run post :
  ids_unique l -> inv l st -> In n l ->
  cut_block (eid n) p (cur st) = (pre, f :: run, post) -> f = n.
Proof.
  intros Hu Hi Hn Hc. destruct (cut_block_spec _ _ _ _ _ _ Hc) as [Hl [Hf _]].
  apply Hu; [|exact Hn|exact Hf].
  eapply inv_in; [exact Hi|]. rewrite Hl. apply in_or_app. right. left. reflexivity.
Qed.

Lemma act_before_inv l n st st' :
  ids_unique l -> In n l -> ebef n <> 0 -> inv l st -> act_before n st = EOk st' -> inv l st'.
Proof.
  intros Hu Hnl Hn Hi. unfold act_before.
  destruct (get_target (ebef n) (names st)) as [e|c]; [|discriminate].
  destruct (cut_block (eid n) (fun x => ebef x =? ebef n) (cur st)) as [[pre M] after] eqn:Ec.
  destruct M as [|f run]; [discriminate|].
  destruct (mem_id (nfirst e) (f :: run)); [discriminate|].
  intros H; inversion H; subst; clear H.
  pose proof (cut_head_is_n _ _ _ _ _ _ _ _ Hu Hi Hnl Ec) as Hfn. subst f.
  destruct (cut_block_spec _ _ _ _ _ _ Ec) as [Hl [_ Hrun]].
  assert (HM : all_tagged (n :: run)).
  { unfold all_tagged. simpl. apply andb_true_iff. split.
    - apply tagged_of_bef; exact Hn.
    - apply (all_tagged_run ebef (ebef n) run Hn tagged_of_bef Hrun). }
  destruct Hi as [[removed [Hp Hr]] Ho Hnm].
  constructor; simpl.
  - exists removed. split; [|exact Hr].
    rewrite <- Hp. apply Permutation_app_tail. rewrite Hl. apply perm_move.
  - rewrite untagged_move by exact HM. rewrite <- Hl. exact Ho.
  - exact Hnm.
Qed.

Lemma act_after_inv l n st st' :
  ids_unique l -> In n l -> eaft n <> 0 -> inv l st -> act_after n st = EOk st' -> inv l st'.
Proof.
  intros Hu Hnl Hn Hi. unfold act_after.
  destruct (get_target (eaft n) (names st)) as [e|c]; [|discriminate].
  destruct (cut_block (eid n) (fun x => eaft x =? eaft n) (cur st)) as [[pre M] after] eqn:Ec.
  destruct M as [|f run]; [discriminate|].
  destruct (mem_id (nlast e) (f :: run)); [discriminate|].
  intros H; inversion H; subst; clear H.
  pose proof (cut_head_is_n _ _ _ _ _ _ _ _ Hu Hi Hnl Ec) as Hfn. subst f.
  destruct (cut_block_spec _ _ _ _ _ _ Ec) as [Hl [_ Hrun]].
  assert (HM : all_tagged (n :: run)).
  { unfold all_tagged. simpl. apply andb_true_iff. split.
    - apply tagged_of_aft; exact Hn.
    - apply (all_tagged_run eaft (eaft n) run Hn tagged_of_aft Hrun). }
  destruct Hi as [[removed [Hp Hr]] Ho Hnm].
  constructor; simpl.
  - exists removed. split; [|exact Hr].
    rewrite <- Hp. apply Permutation_app_tail. rewrite Hl. apply perm_move.
  - rewrite untagged_move by exact HM. rewrite <- Hl. exact Ho.
  - exact Hnm.
Qed.

Lemma get_target_lookup name ns e : get_target name ns = EOk e -> lookup_name name ns = Some e.
Proof.
  unfold get_target. destruct (lookup_name name ns) as [e'|]; [|discriminate].
  destruct (ndup e'); [discriminate|]. intros H; inversion H; reflexivity.
Qed.

Lemma act_replace_inv l n st st' :
  ids_unique l -> In n l -> erep n <> 0 -> inv l st -> act_replace n st = EOk st' -> inv l st'.
Proof.
  intros Hu Hnl Hn Hi. unfold act_replace.
  destruct (get_target (erep n) (names st)) as [e|c] eqn:Eg; [|discriminate].
  apply get_target_lookup in Eg. destruct (lookup_name_in _ _ _ Eg) as [Hein Hename].
  destruct (cut_block (nfirst e) (fun x => eorigin x =? erep n) (cur st)) as [[pre Sb] post] eqn:Ec.
  destruct Sb as [|f srun]; [discriminate|].
  destruct (mem_id (eid n) (f :: srun)); [discriminate|].
  destruct (cut_block (eid n) (fun x => erep x =? erep n) (pre ++ post)) as [[pre1 M] after] eqn:Ec1.
  destruct M as [|m run]; [discriminate|].
  intros H; inversion H; subst; clear H.
  destruct (cut_block_spec _ _ _ _ _ _ Ec) as [Hl [Hf Hsrun]].
  destruct (cut_block_spec _ _ _ _ _ _ Ec1) as [Hl1 [Hm Hrun]].
  (* the moving block's head is n *)
  assert (Hmn : m = n).
  { apply Hu; [|exact Hnl|exact Hm]. eapply inv_in; [exact Hi|]. rewrite Hl.
    assert (In m (pre ++ post)) by (rewrite Hl1; apply in_or_app; right; left; reflexivity).
    apply in_app_or in H. apply in_or_app. destruct H; [left; assumption|].
    right. apply in_or_app. right. assumption. }
  subst m.
  assert (HM : all_tagged (n :: run)).
  { unfold all_tagged. simpl. apply andb_true_iff. split.
    - apply tagged_of_rep; exact Hn.
    - apply (all_tagged_run erep (erep n) run Hn tagged_of_rep Hrun). }
  (* the removed block carries the replaced name *)
  assert (Hfl : In f l).
  { eapply inv_in; [exact Hi|]. rewrite Hl. apply in_or_app. right. left. reflexivity. }
  assert (Hrem : Forall (replaced_in l) (f :: srun)).
  { destruct Hi as [_ _ Hnm]. rewrite Forall_forall in Hnm. destruct (Hnm e Hein) as (x & Hxl & Hxid & Hxo).
    assert (f = x) by (apply Hu; [exact Hfl|exact Hxl|]; rewrite Hf, Hxid; reflexivity). subst x.
    constructor.
    - exists n. repeat split; [exact Hnl|exact Hn|]. rewrite Hxo. exact Hename.
    - clear - Hsrun Hnl Hn. induction srun as [|y r IH]; [constructor|].
      simpl in Hsrun. apply andb_true_iff in Hsrun. destruct Hsrun as [H1 H2].
      constructor; [|apply IH; exact H2]. exists n. repeat split; [exact Hnl|exact Hn|].
      apply Nat.eqb_eq; exact H1. }
  destruct Hi as [[removed [Hp Hr]] Ho Hnm].
  constructor; simpl.
  - exists ((f :: srun) ++ removed). split.
    + rewrite <- Hp. rewrite app_assoc. apply Permutation_app_tail.
      rewrite Hl.
      transitivity ((pre1 ++ (n :: run) ++ after) ++ f :: srun).
      * apply Permutation_app_tail. apply perm_move.
      * rewrite <- Hl1. rewrite <- app_assoc.
        apply Permutation_app_head. apply Permutation_app_comm.
    + apply Forall_app. split; assumption.
  - rewrite untagged_move by exact HM. rewrite <- Hl1.
    eapply Sublist_trans; [|exact Ho]. rewrite Hl. rewrite !filter_app.
    apply Sublist_app; [apply Sublist_refl|].
    apply Sublist_app_l.
  - apply del_name_ok. exact Hnm.
Qed.

Lemma act_inv l n st st' : ids_unique l -> In n l -> inv l st -> act n st = EOk st' -> inv l st'.
Proof.
  intros Hu Hnl Hi. unfold act.
  destruct (is_processed (eid n) st); [intros H; inversion H; subst; exact Hi|].
  destruct (erep n =? 0) eqn:E1; simpl.
  2:{ apply act_replace_inv; auto. apply Nat.eqb_neq; exact E1. }
  destruct (ebef n =? 0) eqn:E2; simpl.
  2:{ apply act_before_inv; auto. apply Nat.eqb_neq; exact E2. }
  destruct (eaft n =? 0) eqn:E3; simpl.
  2:{ apply act_after_inv; auto. apply Nat.eqb_neq; exact E3. }
  intros H; inversion H; subst; exact Hi.
Qed.

Lemma run_acts_inv l todo st st' :
  ids_unique l -> incl todo l -> inv l st -> run_acts todo st = EOk st' -> inv l st'.
Proof.
  intros Hu. revert st; induction todo as [|n r IH]; intros st Hin Hi; simpl.
  - intros H; inversion H; subst; exact Hi.
  - destruct (act n st) as [st1|c] eqn:Ea; [|discriminate].
    apply IH; [intros x Hx; apply Hin; right; exact Hx|].
    eapply act_inv; eauto. apply Hin. left. reflexivity.
Qed.

Lemma inv_init l : inv l (mkEstate l [] (build_names l 0 false [])).
Proof.
  constructor; simpl.
  - exists []. split; [rewrite app_nil_r; apply Permutation_refl | constructor].
  - apply Sublist_refl.
  - apply build_names_ok; [apply incl_refl | constructor].
Qed.

(* ---------- main results ---------- *)

(* (a) nothing is lost or duplicated except replaced target blocks;
   (b) providers without an edit tag keep their relative order. *)
Theorem edits_result l l' :
  NoDup (map eid l) -> edits l = EOk l' ->
  (exists removed, Permutation (l' ++ removed) l /\ Forall (replaced_in l) removed) /\
  Sublist (filter untagged l') (filter untagged l).
Proof.
  intros Hnd. unfold edits.
  destruct (negb (existsb tagged l)).
  - intros H; inversion H; subst. split.
    + exists []. split; [rewrite app_nil_r; apply Permutation_refl | constructor].
    + apply Sublist_refl.
  - destruct (existsb (fun n => 1 <? ntags n) l); [discriminate|].
    destruct (run_acts l _) as [st|c] eqn:Er; [|discriminate].
    intros H; inversion H; subst.
    pose proof (run_acts_inv l l _ st (NoDup_ids_unique _ Hnd) (incl_refl _) (inv_init l) Er) as [Hp Ho _].
    split; assumption.
Qed.

(* (c) without directives the list is untouched *)
Theorem edits_identity l : existsb tagged l = false -> edits l = EOk l.
Proof. intros H. unfold edits. rewrite H. reflexivity. Qed.

(* (d) two edit tags on one provider make the whole edit fail *)
Theorem edits_two_tags l n : In n l -> 1 < ntags n -> exists c, edits l = EErr c.
Proof.
  intros Hin Ht. unfold edits.
  assert (existsb tagged l = true).
  { apply existsb_exists. exists n. split; [exact Hin|]. unfold tagged.
    destruct (ntags n =? 0) eqn:E; [apply Nat.eqb_eq in E; lia | reflexivity]. }
  rewrite H. simpl.
  assert (existsb (fun n0 => 1 <? ntags n0) l = true).
  { apply existsb_exists. exists n. split; [exact Hin | apply Nat.ltb_lt; exact Ht]. }
  rewrite H0. eexists; reflexivity.
Qed.

(* (e) a directive that is acted upon with a missing or duplicated target fails *)
Theorem act_missing_target n st :
  is_processed (eid n) st = false -> tagged n = true -> ntags n <= 1 ->
  (forall name, (name = erep n \/ name = ebef n \/ name = eaft n) -> name <> 0 ->
     match lookup_name name (names st) with None => True | Some e => ndup e = true end) ->
  exists c, act n st = EErr c.
Proof.
  intros Hp Ht H1 Hmiss. unfold act. rewrite Hp.
  assert (Hg : forall name, (name = erep n \/ name = ebef n \/ name = eaft n) -> name <> 0 ->
               exists c, get_target name (names st) = EErr c).
  { intros name Hn Hz. specialize (Hmiss name Hn Hz). unfold get_target.
    destruct (lookup_name name (names st)) as [e|]; [rewrite Hmiss|]; eexists; reflexivity. }
  destruct (erep n =? 0) eqn:E1; simpl.
  2:{ apply Nat.eqb_neq in E1. destruct (Hg (erep n)) as [c Hc]; auto.
      exists c. unfold act_replace. rewrite Hc. reflexivity. }
  destruct (ebef n =? 0) eqn:E2; simpl.
  2:{ apply Nat.eqb_neq in E2. destruct (Hg (ebef n)) as [c Hc]; auto.
      exists c. unfold act_before. rewrite Hc. reflexivity. }
  destruct (eaft n =? 0) eqn:E3; simpl.
  2:{ apply Nat.eqb_neq in E3. destruct (Hg (eaft n)) as [c Hc]; auto.
      exists c. unfold act_after. rewrite Hc. reflexivity. }
  exfalso. unfold tagged, ntags, nz in Ht. rewrite E1, E2, E3 in Ht. discriminate.
Qed.

(* (f) placement: when an InsertBeforeNamed directive is carried out, the moved block ends up
   immediately before the first node of its target; InsertAfterNamed immediately after the last *)
Theorem act_before_placement n st st' e :
  get_target (ebef n) (names st) = EOk e ->
  mem_id (nfirst e) (cur st) = true ->
  act_before n st = EOk st' ->
  exists p M f q, cur st' = p ++ M ++ f :: q /\ eid f = nfirst e /\
                  match M with [] => False | m :: _ => eid m = eid n end.
Proof.
  intros Hg Hmem. unfold act_before. rewrite Hg.
  destruct (cut_block (eid n) (fun x => ebef x =? ebef n) (cur st)) as [[pre M] after] eqn:Ec.
  destruct M as [|m run]; [discriminate|].
  destruct (mem_id (nfirst e) (m :: run)) eqn:Em; [discriminate|].
  intros H; inversion H; subst; clear H. simpl.
  destruct (cut_block_spec _ _ _ _ _ _ Ec) as [Hl [Hm _]].
  assert (Hmem' : mem_id (nfirst e) (pre ++ after) = true).
  { unfold mem_id in *. rewrite Hl in Hmem. rewrite !existsb_app in Hmem. rewrite existsb_app.
    rewrite Em in Hmem. rewrite orb_false_l in Hmem. exact Hmem. }
  destruct (insert_before_adjacent _ (m :: run) _ Hmem') as (p & f & q & Hpq & Hf & Hins).
  exists p, (m :: run), f, q. split; [exact Hins | split; [exact Hf | exact Hm]].
Qed.

(* ---------- non-vacuity ---------- *)
Definition ex_list : list enode :=
  [ mkEnode 0 0 2 0 0;     (* ReplaceNamed n2 *)
    mkEnode 1 1 0 0 0;     (* Provide n1 *)
    mkEnode 2 2 0 0 0;     (* Provide n2  (replaced) *)
    mkEnode 3 0 0 1 0;     (* InsertBeforeNamed n1 *)
    mkEnode 4 0 0 0 1;     (* InsertAfterNamed n1 *)
    mkEnode 5 0 0 0 0 ].

Example ex_edits : edits_obs ex_list = EOk [3; 1; 4; 0; 5] /\ NoDup (map eid ex_list).
Proof.
  split; [vm_compute; reflexivity|].
  simpl. repeat constructor; simpl; intuition discriminate.
Qed.

(* the monitor accepts the model's own observation *)
Lemma list_nat_eqb_refl a : NJ.Monitors.list_nat_eqb a a = true.
Proof. induction a; simpl; [reflexivity|]. rewrite Nat.eqb_refl. exact IHa. Qed.

Lemma mon_C18_model l : NJ.Monitors.mon_C18 l (edits_obs l) = true.
Proof. unfold NJ.Monitors.mon_C18. destruct (edits_obs l); [apply list_nat_eqb_refl | reflexivity]. Qed.
