(* The classification of providers, stated directly: which class and group a provider gets as a
   function of what it is (shape features) and how it is annotated, written as a decision list in
   the words of the documentation.  It is proved equal to what the table GENERATED from
   /repo/characterize.go yields for every provider and context, by exhausting the 2^18 feature
   vectors.  Any change of characterize.go that changes the classification of some provider breaks
   this file. *)
From Coq Require Import List Arith Bool.
Import ListNotations.
From NJ Require Import Base Registry Classify.

Record feat := mkFeat {
  ft_notNil : bool; ft_isFunc : bool; ft_isLast : bool; ft_mustCache : bool; ft_inStatic : bool;
  ft_hasOutputs : bool; ft_memoize : bool; ft_cacheable : bool; ft_singleton : bool; ft_reorder : bool;
  ft_noCache : bool; ft_mappable : bool; ft_mapkey : bool; ft_returnsTE : bool; ft_noAnon : bool;
  ft_noAnonExceptFirst : bool; ft_hasInner : bool; ft_isFuncPointer : bool
}.

Definition features (te : tyenv) (d : pdesc) (cc : charContext) : feat :=
  mkFeat (pred_holds te d cc P_notNil) (pred_holds te d cc P_isFunc) (cc_isLast cc) (d_mustCache d) (cc_inputsAreStatic cc)
         (pred_holds te d cc P_hasOutputs) (d_memoize d) (d_cacheable d) (d_singleton d) (d_reorder d)
         (d_notCacheable d) (pred_holds te d cc P_mappableInputs) (pred_holds te d cc P_possibleMapKey)
         (pred_holds te d cc P_returnsTerminalError) (pred_holds te d cc P_noAnonymousFuncs)
         (pred_holds te d cc P_noAnonymousExceptFirstInput) (pred_holds te d cc P_hasInner) (pred_holds te d cc P_isFuncPointer).

Definition val (f : feat) (p : predT) : bool :=
  match p with
  | P_notNil => ft_notNil f
  | P_notFunc => negb (ft_isFunc f)
  | P_isFunc => ft_isFunc f
  | P_isLast => ft_isLast f
  | P_notLast => negb (ft_isLast f)
  | P_unstaticOkay => negb (ft_mustCache f)
  | P_inStatic => ft_inStatic f
  | P_hasOutputs => ft_hasOutputs f
  | P_mustNotMemoize => negb (ft_memoize f)
  | P_markedMemoized => ft_memoize f
  | P_markedCacheable => ft_cacheable f
  | P_markedSingleton => ft_singleton f
  | P_notMarkedReorder => negb (ft_reorder f)
  | P_notMarkedSingleton => negb (ft_singleton f)
  | P_notMarkedNoCache => negb (ft_noCache f)
  | P_mappableInputs => ft_mappable f
  | P_possibleMapKey => ft_mapkey f
  | P_returnsTerminalError => ft_returnsTE f
  | P_noAnonymousFuncs => ft_noAnon f
  | P_noAnonymousExceptFirstInput => ft_noAnonExceptFirst f
  | P_hasInner => ft_hasInner f
  | P_isFuncPointer => ft_isFuncPointer f
  | P_isNotFuncPointer => negb (ft_isFuncPointer f)
  end.

Lemma val_features te d cc p : pred_holds te d cc p = val (features te d cc) p.
Proof. destruct p; try reflexivity; cbn [val features ft_isFunc ft_isFuncPointer pred_holds]; destruct (d_shape d); reflexivity. Qed.

(* what every real provider's features satisfy *)
Definition consistent (f : feat) : bool :=
  implb (ft_isFunc f) (ft_notNil f && negb (ft_isFuncPointer f)) &&
  implb (ft_hasInner f) (ft_isFunc f && negb (ft_noAnon f) && negb (ft_mappable f) && negb (ft_mapkey f)) &&
  implb (ft_noAnon f) (ft_noAnonExceptFirst f) &&
  implb (negb (ft_isFunc f)) (ft_mappable f && ft_mapkey f && negb (ft_hasOutputs f) && negb (ft_returnsTE f) &&
                              ft_noAnon f && negb (ft_hasInner f)).

Lemma features_consistent te d cc : consistent (features te d cc) = true.
Proof.
  unfold consistent, features. cbn [ft_isFunc ft_notNil ft_isFuncPointer ft_hasInner ft_noAnon ft_mappable ft_mapkey
    ft_noAnonExceptFirst ft_hasOutputs ft_returnsTE pred_holds].
  destruct (d_shape d) as [|t|ins outs|ins ii io outs|ins outs|ins outs];
    cbn [is_func_shape typesIn typesOut tl forallb existsb map pt_mappable pt_mapkey pt_anon negb andb implb length Nat.eqb strip_unused filter memb orb];
    try reflexivity.
  - (* function *)
    destruct (existsb (pt_anon te) (map PT ins)) eqn:E1; cbn [negb andb implb]; [reflexivity|].
    destruct (existsb (anonfunc_t te) outs); cbn [negb andb implb]; [reflexivity|].
    destruct ins as [|i0 ins']; cbn [map tl existsb] in *; [reflexivity|].
    apply orb_false_iff in E1. destruct E1 as [_ E1]. rewrite E1. reflexivity.
Qed.

(* ---------- the specification ---------- *)
Definition spec (f : feat) : option (classT * groupT * bool) :=
  if negb (ft_isFunc f) then
    (* a value: a literal, which can only be in the static context and not last *)
    (if ft_inStatic f && negb (ft_isLast f) then Some (ClLiteral, GLiteral, false) else None)
  else if ft_isLast f then
    (* the last function is the final function; it cannot be cached in any way *)
    (if ft_noAnon f && negb (ft_memoize f) && negb (ft_mustCache f) && negb (ft_singleton f)
     then Some (ClFinal, GFinal, false) else None)
  else
    (* may it run once per bound chain?  Cacheable, inputs static, not NotCacheable, not Reorder *)
    let hoistable := ft_inStatic f && ft_cacheable f && ft_noAnon f && negb (ft_noCache f) && negb (ft_reorder f) in
    if ft_singleton f then
      (* Singleton: static or nothing *)
      (if hoistable && ft_mappable f && negb (ft_memoize f)
       then Some (if ft_returnsTE f then ClFallibleStatic else ClStatic, GStatic, false) else None)
    else if ft_memoize f then
      if hoistable && ft_mappable f && ft_mapkey f && (ft_returnsTE f || ft_hasOutputs f)
      then Some (if ft_returnsTE f then ClFallibleStatic else ClStatic, GStatic, true)
      else if ft_noAnon f && negb (ft_mustCache f)
      then Some (if ft_returnsTE f then ClFallible else ClInjector, GRun, true)
      else None
    else
      if hoistable && ft_returnsTE f then Some (ClFallibleStatic, GStatic, false)
      else if ft_noAnon f && ft_returnsTE f && negb (ft_mustCache f) then Some (ClFallible, GRun, false)
      else if hoistable && ft_hasOutputs f then Some (ClStatic, GStatic, false)
      else if ft_noAnon f && negb (ft_mustCache f) then Some (ClInjector, GRun, false)
      else if ft_hasInner f && ft_noAnonExceptFirst f && negb (ft_mustCache f) then Some (ClWrapper, GRun, false)
      else None.

(* ---------- the table, on a valuation ---------- *)
Fixpoint classify_val (v : predT -> bool) (reg : list entry) : option entry :=
  match reg with
  | [] => None
  | e :: r => if forallb v (e_tests e) then Some e else classify_val v r
  end.

Definition agree (f : feat) : bool :=
  match classify_val (val f) handlerRegistry, spec f with
  | Some e, Some (c, g, m) => class_eqb (e_class e) c && group_eqb (e_group e) g && Bool.eqb (e_memoized e) m
  | None, None => true
  | _, _ => false
  end.

Definition fb (k : bool -> bool) : bool := k true && k false.
Lemma fb_all k : fb k = true -> forall b, k b = true.
Proof. unfold fb. intros H b. apply andb_true_iff in H. destruct b; tauto. Qed.

Definition all_agree : bool :=
  fb (fun a1 => fb (fun a2 => fb (fun a3 => fb (fun a4 => fb (fun a5 => fb (fun a6 =>
  fb (fun a7 => fb (fun a8 => fb (fun a9 => fb (fun a10 => fb (fun a11 => fb (fun a12 =>
  fb (fun a13 => fb (fun a14 => fb (fun a15 => fb (fun a16 => fb (fun a17 => fb (fun a18 =>
    let f := mkFeat a1 a2 a3 a4 a5 a6 a7 a8 a9 a10 a11 a12 a13 a14 a15 a16 a17 a18 in
    implb (consistent f) (agree f))))))))))))))))))).

Lemma all_agree_true : all_agree = true.
Proof. vm_compute. reflexivity. Qed.

Ltac spec_fb H x := let H' := fresh "H" in pose proof (fb_all _ H x) as H'; cbv beta in H'; clear H; rename H' into H.

Lemma agree_all f : consistent f = true -> agree f = true.
Proof.
  destruct f as [a1 a2 a3 a4 a5 a6 a7 a8 a9 a10 a11 a12 a13 a14 a15 a16 a17 a18]. intros Hc.
  pose proof all_agree_true as H. unfold all_agree in H.
  spec_fb H a1. spec_fb H a2. spec_fb H a3. spec_fb H a4. spec_fb H a5. spec_fb H a6.
  spec_fb H a7. spec_fb H a8. spec_fb H a9. spec_fb H a10. spec_fb H a11. spec_fb H a12.
  spec_fb H a13. spec_fb H a14. spec_fb H a15. spec_fb H a16. spec_fb H a17. spec_fb H a18.
  cbv zeta in H. rewrite Hc in H. exact H.
Qed.

Lemma classify_reg_val te d cc : forall reg,
  classify_reg te reg d cc = option_map (apply_entry te d) (classify_val (val (features te d cc)) reg).
Proof.
  induction reg as [|e r IH]; cbn [classify_reg classify_val option_map]; [reflexivity|].
  assert (E : forallb (pred_holds te d cc) (e_tests e) = forallb (val (features te d cc)) (e_tests e)).
  { induction (e_tests e) as [|p ps IHp]; cbn [forallb]; [reflexivity|]. rewrite val_features, IHp. reflexivity. }
  rewrite E. destruct (forallb (val (features te d cc)) (e_tests e)); [reflexivity|exact IH].
Qed.

Lemma class_eqb_true a b : class_eqb a b = true -> a = b.
Proof. destruct a, b; simpl; try discriminate; reflexivity. Qed.
Lemma group_eqb_true a b : group_eqb a b = true -> a = b.
Proof. destruct a, b; simpl; try discriminate; reflexivity. Qed.

(* the classification of every provider in every context is the specified one *)
Theorem classify_is_spec te d cc :
  match d_shape d with
  | ShNilFn _ _ => characterizeFunc te d cc = None
  | _ => option_map (fun s => (s_class s, s_group s, s_memoized s)) (characterizeFunc te d cc) = spec (features te d cc)
  end.
Proof.
  pose proof (agree_all (features te d cc) (features_consistent te d cc)) as Ha. unfold agree in Ha.
  assert (Hreg : classify_reg te handlerRegistry d cc = option_map (apply_entry te d) (classify_val (val (features te d cc)) handlerRegistry))
    by apply classify_reg_val.
  assert (Hgoal : option_map (fun s => (s_class s, s_group s, s_memoized s)) (classify_reg te handlerRegistry d cc) = spec (features te d cc)).
  { rewrite Hreg. destruct (classify_val (val (features te d cc)) handlerRegistry) as [e|]; cbn [option_map].
    - destruct (spec (features te d cc)) as [[[c g] m]|]; [|discriminate Ha].
      apply andb_true_iff in Ha. destruct Ha as [Ha Hm]. apply andb_true_iff in Ha. destruct Ha as [Hcl Hg].
      apply class_eqb_true in Hcl. apply group_eqb_true in Hg. apply Bool.eqb_prop in Hm.
      cbn [apply_entry s_class s_group s_memoized]. congruence.
    - destruct (spec (features te d cc)); [discriminate Ha|reflexivity]. }
  unfold characterizeFunc, classify_in. destruct (d_shape d); try exact Hgoal. reflexivity.
Qed.
Print Assumptions classify_is_spec.

(* ---------- the flows each class is given ---------- *)
Scheme Equality for flowE.

(* what a provider of each class consumes, puts out downward, returns and receives, as expressions
   over its signature; Required by default only for the final function *)
Definition flows_spec (e : entry) : bool :=
  let is x y := flowE_beq x y in
  (match e_class e with
   | ClLiteral => is (e_in e) FE_none && is (e_out e) FE_self && is (e_ret e) FE_none && is (e_recv e) FE_none && is (e_bypass e) FE_none && negb (e_required e)
   | ClStatic => is (e_in e) FE_typesIn && (is (e_out e) FE_typesOut || is (e_out e) FE_remapTE_typesOut) && is (e_ret e) FE_none && is (e_recv e) FE_none && is (e_bypass e) FE_none && negb (e_required e)
   | ClFallibleStatic => is (e_in e) FE_typesIn && is (e_out e) FE_remapTE_typesOut && is (e_ret e) FE_none && is (e_recv e) FE_none && is (e_bypass e) FE_none && negb (e_required e)
   | ClInjector => is (e_in e) FE_typesIn && is (e_out e) FE_typesOut && is (e_ret e) FE_none && is (e_recv e) FE_none && is (e_bypass e) FE_none && negb (e_required e)
   | ClFallible => is (e_in e) FE_typesIn && is (e_out e) FE_redactTE_typesOut && is (e_ret e) FE_errorOnly && is (e_recv e) FE_none && is (e_bypass e) FE_none && negb (e_required e)
   | ClWrapper => is (e_in e) FE_wrapperIn && is (e_out e) FE_innerIn && is (e_ret e) FE_typesOut && is (e_recv e) FE_innerOut && is (e_bypass e) FE_none && negb (e_required e)
   | ClFinal => is (e_in e) FE_typesIn && is (e_out e) FE_none && is (e_ret e) FE_typesOut && is (e_recv e) FE_none && is (e_bypass e) FE_none && e_required e
   | ClInit => is (e_in e) FE_none && is (e_out e) FE_elemIn && is (e_ret e) FE_none && is (e_recv e) FE_none && is (e_bypass e) FE_elemOut && e_required e
   | ClInvoke => is (e_in e) FE_none && is (e_out e) FE_elemIn && is (e_ret e) FE_none && is (e_recv e) FE_elemOut && is (e_bypass e) FE_none && e_required e
   | ClUnset => false
   end).

Lemma handler_flows_spec : forallb flows_spec handlerRegistry = true.
Proof. vm_compute. reflexivity. Qed.
Lemma invoke_flows_spec : forallb flows_spec invokeRegistry = true.
Proof. vm_compute. reflexivity. Qed.

(* hence: the flows of every classified provider are those its class is specified to have *)
Theorem classified_flows te reg d cc s :
  forallb flows_spec reg = true -> classify_in te reg d cc = Some s ->
  exists e, flows_spec e = true /\ s = apply_entry te d e.
Proof.
  intros Hreg. unfold classify_in. intros H.
  assert (Hc : classify_reg te reg d cc = Some s) by (destruct (d_shape d); try discriminate H; exact H).
  clear H. induction reg as [|e r IH]; cbn [classify_reg] in Hc; [discriminate|].
  cbn [forallb] in Hreg. apply andb_true_iff in Hreg. destruct Hreg as [He Hr].
  destruct (forallb (pred_holds te d cc) (e_tests e)); [injection Hc as <-; exists e; split; [exact He|reflexivity]|apply IH; assumption].
Qed.

(* ---------- the init / invoke function ---------- *)
Definition spec_ii (f : feat) : option (classT * groupT) :=
  if ft_notNil f && ft_isFuncPointer f then Some (if ft_inStatic f then ClInit else ClInvoke, GInvoke) else None.

Definition agree_ii (f : feat) : bool :=
  match classify_val (val f) invokeRegistry, spec_ii f with
  | Some e, Some (c, g) => class_eqb (e_class e) c && group_eqb (e_group e) g
  | None, None => true
  | _, _ => false
  end.

Definition all_agree_ii : bool :=
  fb (fun a1 => fb (fun a2 => fb (fun a3 => fb (fun a4 => fb (fun a5 => fb (fun a6 =>
  fb (fun a7 => fb (fun a8 => fb (fun a9 => fb (fun a10 => fb (fun a11 => fb (fun a12 =>
  fb (fun a13 => fb (fun a14 => fb (fun a15 => fb (fun a16 => fb (fun a17 => fb (fun a18 =>
    agree_ii (mkFeat a1 a2 a3 a4 a5 a6 a7 a8 a9 a10 a11 a12 a13 a14 a15 a16 a17 a18))))))))))))))))))).

Lemma all_agree_ii_true : all_agree_ii = true.
Proof. vm_compute. reflexivity. Qed.

Theorem classify_ii_is_spec te d cc :
  match d_shape d with
  | ShNilFn _ _ => characterizeInitInvoke te d cc = None
  | _ => option_map (fun s => (s_class s, s_group s)) (characterizeInitInvoke te d cc) = spec_ii (features te d cc)
  end.
Proof.
  assert (Ha : agree_ii (features te d cc) = true).
  { destruct (features te d cc) as [a1 a2 a3 a4 a5 a6 a7 a8 a9 a10 a11 a12 a13 a14 a15 a16 a17 a18].
    pose proof all_agree_ii_true as H. unfold all_agree_ii in H.
    spec_fb H a1. spec_fb H a2. spec_fb H a3. spec_fb H a4. spec_fb H a5. spec_fb H a6.
    spec_fb H a7. spec_fb H a8. spec_fb H a9. spec_fb H a10. spec_fb H a11. spec_fb H a12.
    spec_fb H a13. spec_fb H a14. spec_fb H a15. spec_fb H a16. spec_fb H a17. spec_fb H a18. exact H. }
  unfold agree_ii in Ha.
  assert (Hgoal : option_map (fun s => (s_class s, s_group s)) (classify_reg te invokeRegistry d cc) = spec_ii (features te d cc)).
  { rewrite classify_reg_val. destruct (classify_val (val (features te d cc)) invokeRegistry) as [e|]; cbn [option_map].
    - destruct (spec_ii (features te d cc)) as [[c g]|]; [|discriminate Ha].
      apply andb_true_iff in Ha. destruct Ha as [Hcl Hg]. apply class_eqb_true in Hcl. apply group_eqb_true in Hg.
      cbn [apply_entry s_class s_group]. congruence.
    - destruct (spec_ii (features te d cc)); [discriminate Ha|reflexivity]. }
  unfold characterizeInitInvoke, classify_in. destruct (d_shape d); try exact Hgoal. reflexivity.
Qed.
Print Assumptions classify_ii_is_spec.

(* ---------- consequences of the specification, by exhausting the feature vectors ---------- *)
Definition all18 (P : feat -> bool) : bool :=
  fb (fun a1 => fb (fun a2 => fb (fun a3 => fb (fun a4 => fb (fun a5 => fb (fun a6 =>
  fb (fun a7 => fb (fun a8 => fb (fun a9 => fb (fun a10 => fb (fun a11 => fb (fun a12 =>
  fb (fun a13 => fb (fun a14 => fb (fun a15 => fb (fun a16 => fb (fun a17 => fb (fun a18 =>
    P (mkFeat a1 a2 a3 a4 a5 a6 a7 a8 a9 a10 a11 a12 a13 a14 a15 a16 a17 a18))))))))))))))))))).

Lemma all18_spec P : all18 P = true -> forall f, P f = true.
Proof.
  intros H f. destruct f as [a1 a2 a3 a4 a5 a6 a7 a8 a9 a10 a11 a12 a13 a14 a15 a16 a17 a18]. unfold all18 in H.
  spec_fb H a1. spec_fb H a2. spec_fb H a3. spec_fb H a4. spec_fb H a5. spec_fb H a6.
  spec_fb H a7. spec_fb H a8. spec_fb H a9. spec_fb H a10. spec_fb H a11. spec_fb H a12.
  spec_fb H a13. spec_fb H a14. spec_fb H a15. spec_fb H a16. spec_fb H a17. spec_fb H a18. exact H.
Qed.

Definition spec_group (f : feat) : option groupT := option_map (fun x => snd (fst x)) (spec f).
Definition group_is (g : groupT) (o : option groupT) : bool := match o with Some g' => group_eqb g' g | None => false end.

(* a function that is hoisted produces something, an output or a TerminalError - unless it is a
   Singleton, which runs once per process whatever it produces *)
Lemma spec_static_produces_check :
  all18 (fun f => implb (ft_isFunc f && group_is GStatic (spec_group f) && negb (ft_singleton f)) (ft_hasOutputs f || ft_returnsTE f)) = true.
Proof. vm_compute. reflexivity. Qed.

(* a hoisted function is Cacheable, sees only static inputs, is not NotCacheable, not Reorder'd, not last *)
Lemma spec_static_requires_check :
  all18 (fun f => implb (group_is GStatic (spec_group f))
                        (ft_isFunc f && ft_cacheable f && ft_inStatic f && negb (ft_noCache f) && negb (ft_reorder f) && negb (ft_isLast f))) = true.
Proof. vm_compute. reflexivity. Qed.

(* MustCache / Singleton functions are hoisted or match nothing *)
Lemma spec_must_cache_check :
  all18 (fun f => implb (ft_isFunc f && (ft_mustCache f || ft_singleton f))
                        (match spec_group f with Some g => group_eqb g GStatic | None => true end)) = true.
Proof. vm_compute. reflexivity. Qed.

Theorem static_function_produces te d cc s :
  characterizeFunc te d cc = Some s -> is_func_shape (d_shape d) = true -> s_group s = GStatic -> d_singleton d = false ->
  pred_holds te d cc P_hasOutputs || pred_holds te d cc P_returnsTerminalError = true.
Proof.
  intros H Hf Hg Hsi. pose proof (classify_is_spec te d cc) as Hs.
  pose proof (all18_spec _ spec_static_produces_check (features te d cc)) as Hc. cbv beta in Hc.
  assert (Hgs : spec_group (features te d cc) = Some GStatic).
  { unfold spec_group. destruct (d_shape d); try discriminate Hf; rewrite <- Hs, H; cbn [option_map fst snd]; rewrite Hg; reflexivity. }
  rewrite Hgs in Hc. cbn [group_is group_eqb group_code Nat.eqb] in Hc.
  assert (Hif : ft_isFunc (features te d cc) = true) by (cbn [features ft_isFunc pred_holds]; exact Hf).
  assert (Hsg : ft_singleton (features te d cc) = false) by (cbn [features ft_singleton]; exact Hsi).
  rewrite Hif, Hsg in Hc. cbn [andb negb implb] in Hc. exact Hc.
Qed.
Print Assumptions static_function_produces.
