(* Soundness of selection (include.go): whatever the elimination heuristics did, when the final
   validation returns no error every included provider passes its three checks under the final
   include marks, and every Required provider is included.  (C03, C14, C15) *)
From Coq Require Import List Arith Bool Lia.
Import ListNotations.
From NJ Require Import Base Registry Classify Select.

(* ---------- positional updates ---------- *)
Lemma nth_opt_upd_same {A} (f : A -> A) : forall (l : list A) i x, nth_opt i l = Some x -> nth_opt i (upd_nth i f l) = Some (f x).
Proof.
  induction l as [|y r IH]; intros i x H; destruct i; simpl in *; try discriminate.
  - inversion H; reflexivity.
  - apply IH. exact H.
Qed.

Lemma nth_opt_upd_other {A} (f : A -> A) : forall (l : list A) i j, i <> j -> nth_opt j (upd_nth i f l) = nth_opt j l.
Proof.
  induction l as [|y r IH]; intros i j H; destruct i, j; simpl; try reflexivity; try lia.
  apply IH. lia.
Qed.

Lemma nth_opt_upd_none {A} (f : A -> A) : forall (l : list A) i j, nth_opt j l = None -> nth_opt j (upd_nth i f l) = None.
Proof.
  induction l as [|y r IH]; intros i j H; destruct i, j; simpl in *; try reflexivity; try discriminate; auto.
Qed.

Lemma getp_updp_same f l i p : getp l i = Some p -> getp (updp i f l) i = Some (f p).
Proof. apply nth_opt_upd_same. Qed.
Lemma getp_updp_other f l i j : i <> j -> getp (updp i f l) j = getp l j.
Proof. apply nth_opt_upd_other. Qed.

(* every element of an updated list comes from the old list at the same position *)
Lemma getp_updp_inv f l i j p' : getp (updp i f l) j = Some p' ->
  exists p, getp l j = Some p /\ (p' = p \/ (i = j /\ p' = f p)).
Proof.
  intros H. destruct (Nat.eq_dec i j) as [E|E].
  - subst j. destruct (getp l i) as [p|] eqn:Ep.
    + rewrite (getp_updp_same f l i p Ep) in H. inversion H; subst. exists p. split; [reflexivity|]. right. split; reflexivity.
    + unfold getp, updp in *. rewrite nth_opt_upd_none in H by exact Ep. discriminate.
  - rewrite getp_updp_other in H by exact E. exists p'. split; [exact H | left; reflexivity].
Qed.

(* ---------- what a provider's checks read ---------- *)
Definition mcflag (p : prov) (oc : nat) : bool :=
  if oc =? 1 then p_mcOut p else if oc =? 0 then p_mcRet p else false.

(* provider p's checks look at the include mark of provider j *)
Definition reads (te : tyenv) (p : prov) (j : nat) : Prop :=
  (exists e, In e (usesDetail (p_deps p)) /\ In j (snd e)) \/
  (exists t, In t (mc_types te p FRet) /\ In j (detail_get 0 t (usedByDetail (p_deps p)))) \/
  (exists t, In t (mc_types te p FOut) /\ In j (detail_get 1 t (usedByDetail (p_deps p)))).

(* dependency closure: whoever reads i's mark is in i's usedBy list *)
Definition closed (te : tyenv) (funcs : list prov) : Prop :=
  forall i pi k pk, getp funcs i = Some pi -> getp funcs k = Some pk -> reads te pk i -> In k (usedBy (p_deps pi)).

(* two working lists that differ in include / cannotInclude marks only *)
Definition same_but_marks (a b : prov) : Prop :=
  p_s a = p_s b /\ p_deps a = p_deps b /\ p_mcOut a = p_mcOut b /\ p_mcRet a = p_mcRet b /\
  p_excluded a = p_excluded b /\ p_wanted a = p_wanted b /\
  p_downR a = p_downR b /\ p_upR a = p_upR b /\ p_bypassR a = p_bypassR b.

Lemma same_but_marks_refl a : same_but_marks a a.
Proof. repeat split. Qed.
Lemma sbm_include b a : same_but_marks (set_include b a) a.
Proof. repeat split. Qed.
Lemma sbm_cannot b a : same_but_marks (set_cannot b a) a.
Proof. repeat split. Qed.
Lemma sbm_trans a b c : same_but_marks a b -> same_but_marks b c -> same_but_marks a c.
Proof. intros (A1&A2&A3&A4&A5&A6&A7&A8&A9) (B1&B2&B3&B4&B5&B6&B7&B8&B9). repeat split; congruence. Qed.

Definition marks_rel (l l' : list prov) : Prop :=
  forall i, match getp l i, getp l' i with
            | Some a, Some b => same_but_marks b a
            | None, None => True
            | _, _ => False
            end.

Lemma marks_rel_refl l : marks_rel l l.
Proof. intros i. destruct (getp l i); [apply same_but_marks_refl | exact I]. Qed.

Lemma marks_rel_trans a b c : marks_rel a b -> marks_rel b c -> marks_rel a c.
Proof.
  intros H1 H2 i. specialize (H1 i). specialize (H2 i).
  destruct (getp a i), (getp b i), (getp c i); try contradiction; try exact I.
  eapply sbm_trans; eauto.
Qed.

Lemma marks_rel_updp l i f : (forall p, same_but_marks (f p) p) -> marks_rel l (updp i f l).
Proof.
  intros Hf j. destruct (getp l j) as [p|] eqn:Ep.
  - destruct (Nat.eq_dec i j) as [E|E].
    + subst. rewrite (getp_updp_same f l j p Ep). apply Hf.
    + rewrite getp_updp_other by exact E. rewrite Ep. apply same_but_marks_refl.
  - unfold getp, updp in *. rewrite nth_opt_upd_none by exact Ep. exact I.
Qed.

Lemma mc_types_sbm te a b k : same_but_marks a b -> mc_types te a k = mc_types te b k.
Proof.
  intros (H1&H2&H3&H4&_). unfold mc_types, pflow. destruct k; try reflexivity; rewrite ?H1, ?H3, ?H4; reflexivity.
Qed.

Lemma reads_sbm te a b j : same_but_marks a b -> reads te a j -> reads te b j.
Proof.
  intros H R. pose proof H as (H1&H2&_). unfold reads in *. rewrite <- H2.
  rewrite <- (mc_types_sbm te a b FRet H), <- (mc_types_sbm te a b FOut H). exact R.
Qed.

Lemma closed_marks_rel te l l' : marks_rel l l' -> closed te l -> closed te l'.
Proof.
  intros Hr Hc i pi k pk Hi Hk R.
  pose proof (Hr i) as Hri. pose proof (Hr k) as Hrk. rewrite Hi in Hri. rewrite Hk in Hrk.
  destruct (getp l i) as [pi0|] eqn:Ei; [|contradiction].
  destruct (getp l k) as [pk0|] eqn:Ek; [|contradiction].
  destruct Hri as (_&Hd&_). rewrite Hd.
  eapply Hc; eauto. eapply reads_sbm; eauto.
Qed.

(* ---------- checks depend on the include marks of the providers read ---------- *)
Lemma flagp_include_updp_other f l i j : i <> j -> flagp p_include (updp i f l) j = flagp p_include l j.
Proof. intros H. unfold flagp. rewrite getp_updp_other by exact H. reflexivity. Qed.

Lemma any_included_updp_notin f l i js : ~ In i js -> any_included (updp i f l) js = any_included l js.
Proof.
  unfold any_included. induction js as [|j r IH]; intros Hn; simpl; [reflexivity|].
  rewrite flagp_include_updp_other by (intro; subst; apply Hn; left; reflexivity).
  rewrite IH by (intro; apply Hn; right; assumption). reflexivity.
Qed.

Lemma any_included_same_marks l l' js :
  (forall j, flagp p_include l' j = flagp p_include l j) -> any_included l' js = any_included l js.
Proof.
  intros H. unfold any_included. induction js as [|j r IH]; simpl; [reflexivity|]. rewrite H, IH. reflexivity.
Qed.

Lemma forallb_ext_in {A} (f g : A -> bool) l : (forall x, In x l -> f x = g x) -> forallb f l = forallb g l.
Proof.
  induction l as [|x r IH]; intros H; simpl; [reflexivity|].
  rewrite (H x) by (left; reflexivity). rewrite IH; [reflexivity|]. intros y Hy. apply H. right. exact Hy.
Qed.

(* if p does not read i, changing i's record does not change p's verdict *)
Lemma checks_ok_updp_unread te l i f p : ~ reads te p i -> checks_ok te (updp i f l) p = checks_ok te l p.
Proof.
  intros Hn. unfold checks_ok. destruct (usesError (p_deps p)); [|reflexivity].
  f_equal; [f_equal|].
  - apply forallb_ext_in. intros e He. apply any_included_updp_notin.
    intros Hin. apply Hn. left. exists e. split; assumption.
  - apply forallb_ext_in. intros t Ht. apply any_included_updp_notin.
    intros Hin. apply Hn. right. left. exists t. split; assumption.
  - apply forallb_ext_in. intros t Ht. apply any_included_updp_notin.
    intros Hin. apply Hn. right. right. exists t. split; assumption.
Qed.

Lemma checks_ok_same_marks te l l' p :
  (forall j, flagp p_include l' j = flagp p_include l j) -> checks_ok te l' p = checks_ok te l p.
Proof.
  intros H. unfold checks_ok. destruct (usesError (p_deps p)); [|reflexivity].
  f_equal; [f_equal|]; apply forallb_ext_in; intros x _; apply any_included_same_marks; exact H.
Qed.

Lemma checks_ok_sbm te l a b : same_but_marks a b -> checks_ok te l a = checks_ok te l b.
Proof.
  intros H. pose proof H as (H1&H2&_). unfold checks_ok. rewrite H2.
  rewrite (mc_types_sbm te a b FRet H), (mc_types_sbm te a b FOut H). reflexivity.
Qed.

(* ---------- the worklist invariant ---------- *)
Section Worklist.
  Variable te : tyenv.
  Variable crd : bool.

  Definition good (funcs : list prov) (p : prov) : Prop := p_cannot p = false /\ checks_ok te funcs p = true.

  Definition InvW (funcs : list prov) (redo seen rest : list nat) : Prop :=
    forall k p, getp funcs k = Some p -> p_include p = true ->
      good funcs p \/ In k redo \/ (In k rest /\ ~ In k seen).

  Lemma memb_true_in x l : memb x l = true -> In x l.
  Proof.
    induction l as [|y r IH]; simpl; [discriminate|]. intros H. apply orb_true_iff in H.
    destruct H as [H|H]; [left; symmetry; apply Nat.eqb_eq; exact H | right; apply IH; exact H].
  Qed.
  Lemma memb_false_notin x l : memb x l = false -> ~ In x l.
  Proof.
    induction l as [|y r IH]; simpl; [intros _ []|]. intros H. apply orb_false_iff in H. destruct H as [H1 H2].
    intros [E|E]; [subst; rewrite Nat.eqb_refl in H1; discriminate | apply (IH H2 E)].
  Qed.

  Lemma check_one_step funcs redo seen i rest :
    closed te funcs -> InvW funcs redo seen (i :: rest) ->
    let st' := check_one te crd (mkCf funcs redo seen None) i in
    cf_err st' = None ->
    marks_rel funcs (cf_funcs st') /\ InvW (cf_funcs st') (cf_redo st') (cf_seen st') rest.
  Proof.
    intros Hcl Hinv. unfold check_one. cbn [cf_err cf_seen cf_funcs cf_redo].
    destruct (memb i seen) eqn:Es.
    - (* already seen *)
      intros _. cbn [cf_funcs cf_redo cf_seen]. split; [apply marks_rel_refl|].
      intros k p Hk Hi. destruct (Hinv k p Hk Hi) as [H|[H|[H1 H2]]]; auto.
      right. right. split; [|exact H2]. destruct H1 as [E|E]; [|exact E].
      subst k. exfalso. apply H2. apply memb_true_in. exact Es.
    - apply memb_false_notin in Es.
      destruct (getp funcs i) as [p|] eqn:Ep; cbn [cf_funcs cf_redo cf_seen cf_err].
      2:{ intros _. split; [apply marks_rel_refl|].
          intros k pk Hk Hi. destruct (Hinv k pk Hk Hi) as [H|[H|[H1 H2]]]; auto.
          right. right. destruct H1 as [E|E]; [subst k; rewrite Ep in Hk; discriminate|].
          split; [exact E|]. intros [E2|E2]; [subst k; rewrite Ep in Hk; discriminate | exact (H2 E2)]. }
      destruct (p_cannot p) eqn:Ecan.
      + (* cannotInclude is set *)
        destruct (p_required p); [cbn; discriminate|].
        destruct ((p_wanted p || p_desired p) && negb crd && negb (p_excluded p)); [cbn; discriminate|].
        destruct (p_include p) eqn:Einc; cbn [cf_funcs cf_redo cf_seen cf_err]; intros _.
        * (* now excluded: everything that reads i is re-queued *)
          split; [apply marks_rel_updp; intros q; apply sbm_include|].
          intros k pk Hk Hi.
          destruct (Nat.eq_dec k i) as [E|E].
          { subst k. rewrite (getp_updp_same _ _ _ _ Ep) in Hk. inversion Hk; subst. simpl in Hi. discriminate. }
          rewrite getp_updp_other in Hk by (intro; subst; contradiction).
          destruct (Hinv k pk Hk Hi) as [[Hc Hok]|[H|[H1 H2]]].
          -- destruct (in_dec Nat.eq_dec k (usedBy (p_deps p))) as [Hu|Hu].
             ++ right. left. apply in_or_app. right. exact Hu.
             ++ left. split; [exact Hc|].
                rewrite checks_ok_updp_unread; [exact Hok|].
                intros R. apply Hu. eapply Hcl; eauto.
          -- right. left. apply in_or_app. left. exact H.
          -- right. right. destruct H1 as [E1|E1]; [subst; contradiction|].
             split; [exact E1|]. intros [E2|E2]; [subst; contradiction | exact (H2 E2)].
        * split; [apply marks_rel_refl|].
          intros k pk Hk Hi.
          destruct (Nat.eq_dec k i) as [E|E]; [subst k; rewrite Ep in Hk; inversion Hk; subst; rewrite Einc in Hi; discriminate|].
          destruct (Hinv k pk Hk Hi) as [H|[H|[H1 H2]]]; auto.
          right. right. destruct H1 as [E1|E1]; [subst; contradiction|].
          split; [exact E1|]. intros [E2|E2]; [subst; contradiction | exact (H2 E2)].
      + destruct (checks_ok te funcs p) eqn:Eok; cbn [cf_funcs cf_redo cf_seen cf_err]; intros _.
        * (* still valid *)
          split; [apply marks_rel_refl|].
          intros k pk Hk Hi.
          destruct (Nat.eq_dec k i) as [E|E].
          { subst k. rewrite Ep in Hk. inversion Hk; subst. left. split; assumption. }
          destruct (Hinv k pk Hk Hi) as [H|[H|[H1 H2]]]; auto.
          right. right. destruct H1 as [E1|E1]; [subst; contradiction|].
          split; [exact E1|]. intros [E2|E2]; [subst; contradiction | exact (H2 E2)].
        * (* fails: marked cannotInclude and re-queued *)
          split; [apply marks_rel_updp; intros q; apply sbm_cannot|].
          intros k pk Hk Hi.
          destruct (Nat.eq_dec k i) as [E|E].
          { subst k. right. left. apply in_or_app. right. left. reflexivity. }
          rewrite getp_updp_other in Hk by (intro; subst; contradiction).
          assert (Hm : forall j, flagp p_include (updp i (set_cannot true) funcs) j = flagp p_include funcs j).
          { intros j. unfold flagp. destruct (Nat.eq_dec i j) as [Ej|Ej].
            - subst j. rewrite (getp_updp_same _ _ _ _ Ep). rewrite Ep. reflexivity.
            - rewrite getp_updp_other by exact Ej. reflexivity. }
          destruct (Hinv k pk Hk Hi) as [[Hc Hok]|[H|[H1 H2]]].
          -- left. split; [exact Hc|]. rewrite (checks_ok_same_marks te funcs _ pk Hm). exact Hok.
          -- right. left. apply in_or_app. left. exact H.
          -- right. right. destruct H1 as [E1|E1]; [subst; contradiction|].
             split; [exact E1|]. intros [E2|E2]; [subst; contradiction | exact (H2 E2)].
  Qed.

  Lemma check_one_err st i e : cf_err st = Some e -> check_one te crd st i = st.
  Proof. intros H. unfold check_one. rewrite H. reflexivity. Qed.

  Lemma check_one_from_none st i : cf_err st = None ->
    check_one te crd st i = check_one te crd (mkCf (cf_funcs st) (cf_redo st) (cf_seen st) None) i.
  Proof. intros H. destruct st; simpl in *. subst. reflexivity. Qed.

  Lemma pass_sound : forall todo funcs redo seen,
    closed te funcs -> InvW funcs redo seen todo ->
    let st' := fold_left (check_one te crd) todo (mkCf funcs redo seen None) in
    cf_err st' = None ->
    marks_rel funcs (cf_funcs st') /\ InvW (cf_funcs st') (cf_redo st') (cf_seen st') [].
  Proof.
    induction todo as [|i rest IH]; intros funcs redo seen Hcl Hinv; cbn [fold_left].
    - intros _. split; [apply marks_rel_refl | exact Hinv].
    - intros Herr.
      destruct (cf_err (check_one te crd (mkCf funcs redo seen None) i)) as [e|] eqn:E1.
      + (* an error sticks *)
        exfalso. clear - Herr E1.
        assert (Hstick : forall l st e0, cf_err st = Some e0 -> cf_err (fold_left (check_one te crd) l st) = Some e0).
        { induction l as [|x r IHl]; intros st e0 H; simpl; [exact H|]. apply IHl. rewrite check_one_err with (e := e0); assumption. }
        rewrite (Hstick rest _ e E1) in Herr. discriminate.
      + destruct (check_one_step funcs redo seen i rest Hcl Hinv E1) as [Hm Hinv1].
        set (st1 := check_one te crd (mkCf funcs redo seen None) i) in *.
        assert (Hst1 : st1 = mkCf (cf_funcs st1) (cf_redo st1) (cf_seen st1) None).
        { destruct st1; simpl in *. subst. reflexivity. }
        rewrite Hst1 in Herr |- *.
        destruct (IH (cf_funcs st1) (cf_redo st1) (cf_seen st1) (closed_marks_rel te _ _ Hm Hcl) Hinv1 Herr) as [Hm2 Hinv2].
        split; [eapply marks_rel_trans; eauto | exact Hinv2].
  Qed.

  Theorem check_passes_sound : forall fuel funcs todo funcs',
    closed te funcs -> InvW funcs [] [] todo ->
    check_passes te crd fuel funcs todo = (funcs', None) ->
    marks_rel funcs funcs' /\
    forall k p, getp funcs' k = Some p -> p_include p = true -> good funcs' p.
  Proof.
    induction fuel as [|fuel IH]; intros funcs todo funcs' Hcl Hinv H.
    - destruct todo; simpl in H; [|discriminate]. inversion H; subst.
      split; [apply marks_rel_refl|]. intros k p Hk Hi.
      destruct (Hinv k p Hk Hi) as [Hg|[[]|[[] _]]]. exact Hg.
    - destruct todo as [|i rest]; [simpl in H; inversion H; subst; split; [apply marks_rel_refl|];
        intros k p Hk Hi; destruct (Hinv k p Hk Hi) as [Hg|[[]|[[] _]]]; exact Hg|].
      cbn [check_passes] in H.
      destruct (cf_err (fold_left (check_one te crd) (i :: rest) (mkCf funcs [] [] None))) as [e|] eqn:Ee;
        [inversion H|].
      destruct (pass_sound (i :: rest) funcs [] [] Hcl Hinv Ee) as [Hm Hinv1].
      set (st := fold_left (check_one te crd) (i :: rest) (mkCf funcs [] [] None)) in *.
      assert (Hinv2 : InvW (cf_funcs st) [] [] (cf_redo st)).
      { intros k p Hk Hi. destruct (Hinv1 k p Hk Hi) as [Hg|[Hr|[[] _]]]; [left; exact Hg|].
        right. right. split; [exact Hr | intros []]. }
      destruct (IH _ _ _ (closed_marks_rel te _ _ Hm Hcl) Hinv2 H) as [Hm2 Hres].
      split; [eapply marks_rel_trans; eauto | exact Hres].
  Qed.
End Worklist.

(* ---------- validateChainMarkIncludeExclude ---------- *)
Definition mark (q : prov) : prov :=
  if negb (p_excluded q) then set_cannot false (set_include true q) else set_include false (set_cannot true q).

Fixpoint nonexcl_from (i : nat) (todo : list prov) : list nat :=
  match todo with
  | [] => []
  | q :: r => if negb (p_excluded q) then i :: nonexcl_from (S i) r else nonexcl_from (S i) r
  end.

Lemma upd_nth_app {A} (f : A -> A) (done : list A) x r : upd_nth (length done) f (done ++ x :: r) = done ++ f x :: r.
Proof. induction done as [|y d IH]; simpl; [reflexivity|]. rewrite IH. reflexivity. Qed.

Lemma mark_loop_spec : forall todo done rem fs remaining,
  mark_loop (done ++ todo) (length done) todo rem = (fs, remaining, None) ->
  fs = done ++ map mark todo /\ remaining = rev rem ++ nonexcl_from (length done) todo.
Proof.
  induction todo as [|q r IH]; intros done rem fs remaining H; simpl in H.
  - inversion H; subst. simpl. rewrite !app_nil_r. split; reflexivity.
  - destruct (negb (p_excluded q)) eqn:Ex.
    + unfold updp in H. rewrite upd_nth_app in H.
      replace (done ++ set_cannot false (set_include true q) :: r)
        with ((done ++ [set_cannot false (set_include true q)]) ++ r) in H by (rewrite <- app_assoc; reflexivity).
      replace (S (length done)) with (length (done ++ [set_cannot false (set_include true q)])) in H
        by (rewrite app_length; simpl; lia).
      apply IH in H. destruct H as [H1 H2]. subst. simpl. unfold mark at 2. rewrite Ex.
      rewrite <- app_assoc. simpl. split; [reflexivity|].
      rewrite app_length. simpl. rewrite Nat.add_1_r. rewrite <- app_assoc. reflexivity.
    + destruct (p_required q); [discriminate|].
      unfold updp in H. rewrite upd_nth_app in H.
      replace (done ++ set_include false (set_cannot true q) :: r)
        with ((done ++ [set_include false (set_cannot true q)]) ++ r) in H by (rewrite <- app_assoc; reflexivity).
      replace (S (length done)) with (length (done ++ [set_include false (set_cannot true q)])) in H
        by (rewrite app_length; simpl; lia).
      apply IH in H. destruct H as [H1 H2]. subst. simpl. unfold mark at 2. rewrite Ex.
      rewrite <- app_assoc. simpl. split; [reflexivity|].
      rewrite app_length. simpl. rewrite Nat.add_1_r. reflexivity.
Qed.

Lemma nth_opt_map {A B} (f : A -> B) : forall (l : list A) i, nth_opt i (map f l) = option_map f (nth_opt i l).
Proof. induction l as [|x r IH]; intros i; destruct i; simpl; auto. Qed.

Lemma nonexcl_from_in : forall todo i k q, nth_opt k todo = Some q -> p_excluded q = false -> In (i + k) (nonexcl_from i todo).
Proof.
  induction todo as [|x r IH]; intros i k q H Hx; destruct k; simpl in *; try discriminate.
  - inversion H; subst. rewrite Hx. simpl. left. lia.
  - destruct (negb (p_excluded x)); [right|]; replace (i + S k) with (S i + k) by lia; eapply IH; eauto.
Qed.

Lemma same_but_marks_mark q : same_but_marks (mark q) q.
Proof. unfold mark. destruct (negb (p_excluded q)); repeat split. Qed.

Theorem validate_sound te crd funcs funcs' :
  closed te funcs -> validate_chain te crd funcs = (funcs', None) ->
  marks_rel funcs funcs' /\
  forall k p, getp funcs' k = Some p -> p_include p = true -> good te funcs' p.
Proof.
  intros Hcl H. unfold validate_chain in H.
  destruct (mark_loop funcs 0 funcs []) as [[fs remaining] [e|]] eqn:Em; [inversion H|].
  pose proof (mark_loop_spec funcs [] [] fs remaining Em) as [Hfs Hrem]. simpl in Hfs, Hrem. subst fs remaining.
  assert (Hm : marks_rel funcs (map mark funcs)).
  { intros i. unfold getp. rewrite nth_opt_map. destruct (nth_opt i funcs); simpl; [apply same_but_marks_mark | exact I]. }
  assert (Hinv : InvW te (map mark funcs) [] [] (nonexcl_from 0 funcs)).
  { intros k p Hk Hi. right. right. split; [|intros []].
    unfold getp in Hk. rewrite nth_opt_map in Hk. destruct (nth_opt k funcs) as [q|] eqn:Eq; [|discriminate].
    simpl in Hk. inversion Hk; subst. unfold mark in Hi.
    destruct (negb (p_excluded q)) eqn:Ex; simpl in Hi; [|discriminate].
    apply negb_true_iff in Ex. apply (nonexcl_from_in funcs 0 k q Eq Ex). }
  destruct (check_passes_sound te crd _ _ _ _ (closed_marks_rel te _ _ Hm Hcl) Hinv H) as [Hm2 Hres].
  split; [eapply marks_rel_trans; eauto | exact Hres].
Qed.

(* Required providers survive validation *)
Lemma check_one_required te crd st i : cf_err (check_one te crd st i) = None ->
  (forall k p, getp (cf_funcs st) k = Some p -> p_required p = true -> p_include p = true) ->
  (forall k p, getp (cf_funcs (check_one te crd st i)) k = Some p -> p_required p = true -> p_include p = true).
Proof.
  unfold check_one. destruct (cf_err st) eqn:E0; [intros _ H; exact H|].
  destruct (memb i (cf_seen st)); [intros _ H; exact H|].
  destruct (getp (cf_funcs st) i) as [p|] eqn:Ep; cbn [cf_funcs cf_err]; [|intros _ H; exact H].
  destruct (p_cannot p).
  - destruct (p_required p) eqn:Er; [cbn; discriminate|].
    destruct ((p_wanted p || p_desired p) && negb crd && negb (p_excluded p)); [cbn; discriminate|].
    destruct (p_include p); cbn [cf_funcs cf_err]; intros _ H k q Hk Hr; [|eapply H; eauto].
    destruct (Nat.eq_dec i k) as [E|E].
    + subst k. rewrite (getp_updp_same _ _ _ _ Ep) in Hk. inversion Hk; subst.
      unfold p_required in *. simpl in Hr. rewrite Er in Hr. discriminate.
    + rewrite getp_updp_other in Hk by exact E. eapply H; eauto.
  - destruct (checks_ok te (cf_funcs st) p); cbn [cf_funcs cf_err]; intros _ H k q Hk Hr; [eapply H; eauto|].
    destruct (Nat.eq_dec i k) as [E|E].
    + subst k. rewrite (getp_updp_same _ _ _ _ Ep) in Hk. inversion Hk; subst. simpl. eapply (H i p); eauto.
    + rewrite getp_updp_other in Hk by exact E. eapply H; eauto.
Qed.

(* ---------- the dependency lists built by providesReturns are closed ---------- *)
Lemma getp_updp f l i j : getp (updp i f l) j = option_map (fun p => if i =? j then f p else p) (getp l j).
Proof.
  destruct (getp l j) as [p|] eqn:Ep; simpl.
  - destruct (Nat.eq_dec i j) as [E|E].
    + subst. rewrite Nat.eqb_refl. apply getp_updp_same. exact Ep.
    + rewrite getp_updp_other by exact E. apply Nat.eqb_neq in E. rewrite E. exact Ep.
  - unfold getp, updp in *. apply nth_opt_upd_none. exact Ep.
Qed.

Definition A_ok (funcs : list prov) : Prop :=
  forall i pi k pk, getp funcs i = Some pi -> getp funcs k = Some pk ->
    (exists e, In e (usesDetail (p_deps pk)) /\ In i (snd e)) -> In k (usedBy (p_deps pi)).
Definition B_ok (funcs : list prov) : Prop :=
  forall i pi k pk oc t, getp funcs i = Some pi -> getp funcs k = Some pk ->
    In i (detail_get oc t (usedByDetail (p_deps pk))) -> mcflag pk oc = true -> In k (usedBy (p_deps pi)).
Definition dclosed (funcs : list prov) : Prop := A_ok funcs /\ B_ok funcs.

Lemma dclosed_closed te funcs : dclosed funcs -> closed te funcs.
Proof.
  intros [HA HB] i pi k pk Hi Hk [R|[[t [Ht Hin]]|[t [Ht Hin]]]].
  - eapply HA; eauto.
  - eapply (HB i pi k pk 0 t); eauto. unfold mc_types in Ht. unfold mcflag. simpl.
    destruct (p_mcRet pk); [reflexivity | destruct Ht].
  - eapply (HB i pi k pk 1 t); eauto. unfold mc_types in Ht. unfold mcflag. simpl.
    destruct (p_mcOut pk); [reflexivity | destruct Ht].
Qed.

(* an update that only removes dependency entries (or touches other fields) keeps closure *)
Definition shrinks (f : prov -> prov) : Prop :=
  forall p, usedBy (p_deps (f p)) = usedBy (p_deps p) /\
            (forall oc, mcflag (f p) oc = mcflag p oc) /\
            (forall e, In e (usesDetail (p_deps (f p))) -> In e (usesDetail (p_deps p))) /\
            (forall oc t j, In j (detail_get oc t (usedByDetail (p_deps (f p)))) -> In j (detail_get oc t (usedByDetail (p_deps p)))).

Lemma dclosed_shrink funcs pos f : shrinks f -> dclosed funcs -> dclosed (updp pos f funcs).
Proof.
  intros Hf [HA HB]. split.
  - intros i pi k pk Hi Hk [e [He Hin]].
    rewrite getp_updp in Hi, Hk.
    destruct (getp funcs i) as [pi0|] eqn:Ei; [|discriminate].
    destruct (getp funcs k) as [pk0|] eqn:Ek; [|discriminate].
    simpl in Hi, Hk. inversion Hi; inversion Hk; subst; clear Hi Hk.
    assert (Hu : usedBy (p_deps (if pos =? i then f pi0 else pi0)) = usedBy (p_deps pi0)).
    { destruct (pos =? i); [apply Hf | reflexivity]. }
    rewrite Hu. eapply HA; eauto. exists e. split; [|exact Hin].
    destruct (pos =? k); [apply Hf; exact He | exact He].
  - intros i pi k pk oc t Hi Hk Hin Hmc.
    rewrite getp_updp in Hi, Hk.
    destruct (getp funcs i) as [pi0|] eqn:Ei; [|discriminate].
    destruct (getp funcs k) as [pk0|] eqn:Ek; [|discriminate].
    simpl in Hi, Hk. inversion Hi; inversion Hk; subst; clear Hi Hk.
    assert (Hu : usedBy (p_deps (if pos =? i then f pi0 else pi0)) = usedBy (p_deps pi0)).
    { destruct (pos =? i); [apply Hf | reflexivity]. }
    rewrite Hu. eapply (HB i pi0 k pk0 oc t); eauto.
    + destruct (pos =? k); [apply Hf; exact Hin | exact Hin].
    + destruct (pos =? k); [rewrite <- (proj1 (proj2 (Hf pk0)) oc); exact Hmc | exact Hmc].
Qed.

Lemma detail_clear_get kc : forall d oc t j, In j (detail_get oc t (detail_clear kc d)) -> In j (detail_get oc t d).
Proof.
  induction d as [|[[k' t'] l] r IH]; intros oc t j H; simpl in *; [exact H|].
  destruct (k' =? kc) eqn:Ekc; simpl in H.
  - destruct ((oc =? k') && (t =? t')) eqn:Em.
    + (* the cleared entry matched: then every matching entry is cleared *)
      exfalso. apply andb_true_iff in Em. destruct Em as [E1 _]. apply Nat.eqb_eq in E1. apply Nat.eqb_eq in Ekc. subst.
      clear - H. induction r as [|[[k2 t2] l2] r IHr]; simpl in H; [exact H|].
      destruct (k2 =? kc) eqn:E2; simpl in H; [apply IHr; exact H|].
      destruct ((kc =? k2) && (t =? t2)) eqn:E3; [|apply IHr; exact H].
      apply andb_true_iff in E3. destruct E3 as [E3 _]. apply Nat.eqb_eq in E3. subst. rewrite Nat.eqb_refl in E2. discriminate.
    + apply IH. exact H.
  - destruct ((oc =? k') && (t =? t')); [exact H | apply IH; exact H].
Qed.

Lemma detail_clear_in kc d e : In e (detail_clear kc d) -> In e d.
Proof. unfold detail_clear. intros H. apply filter_In in H. apply H. Qed.

Lemma detail_add_entries k t x : forall d e j, In e (detail_add k t x d) -> In j (snd e) ->
  (exists e0, In e0 d /\ In j (snd e0)) \/ j = x.
Proof.
  induction d as [|[[k' t'] l] r IH]; intros e j He Hj; simpl in He.
  - destruct He as [He|[]]. subst. simpl in Hj. destruct Hj as [Hj|[]]. right. symmetry. exact Hj.
  - destruct ((k =? k') && (t =? t')).
    + destruct He as [He|He].
      * subst. simpl in Hj. apply in_app_or in Hj. destruct Hj as [Hj|[Hj|[]]].
        -- left. exists (k', t', l). split; [left; reflexivity | exact Hj].
        -- right. symmetry. exact Hj.
      * left. exists e. split; [right; exact He | exact Hj].
    + destruct He as [He|He].
      * left. exists e. split; [left; exact He | exact Hj].
      * destruct (IH e j He Hj) as [[e0 [H0 H1]]|H]; [left; exists e0; split; [right; exact H0 | exact H1] | right; exact H].
Qed.

Lemma detail_add_get k t x : forall d oc t' j, In j (detail_get oc t' (detail_add k t x d)) ->
  In j (detail_get oc t' d) \/ (j = x /\ oc = k /\ t' = t).
Proof.
  induction d as [|[[k' t2] l] r IH]; intros oc t' j H; simpl in H.
  - destruct ((oc =? k) && (t' =? t)) eqn:E; [|destruct H].
    destruct H as [H|[]]. apply andb_true_iff in E. destruct E as [E1 E2].
    apply Nat.eqb_eq in E1. apply Nat.eqb_eq in E2. right. repeat split; auto.
  - destruct ((k =? k') && (t =? t2)) eqn:Ea; simpl in H.
    + apply andb_true_iff in Ea. destruct Ea as [E1 E2]. apply Nat.eqb_eq in E1. apply Nat.eqb_eq in E2. subst.
      simpl. destruct ((oc =? k') && (t' =? t2)) eqn:Eg; [|left; exact H].
      apply in_app_or in H. destruct H as [H|[H|[]]]; [left; exact H|].
      apply andb_true_iff in Eg. destruct Eg as [E3 E4]. apply Nat.eqb_eq in E3. apply Nat.eqb_eq in E4.
      right. repeat split; auto.
    + simpl. destruct ((oc =? k') && (t' =? t2)); [left; exact H | apply IH; exact H].
Qed.

Definition mc_of (outParam : flowK) (p : prov) : bool :=
  match outParam with FOut => p_mcOut p | FRet => p_mcRet p | _ => false end.
Lemma mc_of_mcflag outParam p : mc_of outParam p = mcflag p (flowk_code outParam).
Proof. destruct outParam; reflexivity. Qed.

Lemma dclosed_add_dep pos param outParam t funcs dep :
  dclosed funcs -> dclosed (add_dep pos param outParam t funcs dep).
Proof.
  intros [HA HB]. unfold add_dep.
  set (kc := flowk_code param). set (oc := flowk_code outParam).
  set (g1 := fun p => set_deps (let d := p_deps p in
                   mkDeps (detail_add kc t dep (usesDetail d)) (usesError d) (uses d ++ [dep]) (usedBy d) (usedByDetail d)) p).
  set (g2 := fun p => set_deps (let d := p_deps p in
                   mkDeps (usesDetail d) (usesError d) (uses d) (usedBy d ++ [pos]) (detail_add oc t pos (usedByDetail d))) p).
  set (g3 := fun p => set_deps (let d := p_deps p in
                   mkDeps (usesDetail d) (usesError d) (uses d) (usedBy d ++ [dep]) (usedByDetail d)) p).
  set (f1 := updp pos g1 funcs). set (f2 := updp dep g2 f1).
  set (depMC := flagp (fun p => match outParam with FOut => p_mcOut p | FRet => p_mcRet p | _ => false end) f2 dep).
  (* the record at x in the final list, from the record in funcs *)
  set (fin := fun (x : nat) (p0 : prov) =>
         let p1 := if pos =? x then g1 p0 else p0 in
         let p2 := if dep =? x then g2 p1 else p1 in
         if depMC then (if pos =? x then g3 p2 else p2) else p2).
  assert (Hfin : forall x, getp (if depMC then updp pos g3 f2 else f2) x = option_map (fin x) (getp funcs x)).
  { intros x. unfold fin. destruct depMC; [rewrite getp_updp|]; unfold f2; rewrite getp_updp; unfold f1; rewrite getp_updp;
      destruct (getp funcs x); reflexivity. }
  assert (HdepMC : forall pd0, getp funcs dep = Some pd0 -> depMC = mcflag pd0 oc).
  { intros pd0 Hd. unfold depMC, flagp, f2, f1. rewrite !getp_updp, Hd. simpl. rewrite Nat.eqb_refl.
    unfold oc. destruct outParam; destruct (pos =? dep); reflexivity. }
  (* facts about fin *)
  assert (Hub : forall x p0 j, In j (usedBy (p_deps p0)) -> In j (usedBy (p_deps (fin x p0)))).
  { intros x p0 j Hj. unfold fin. destruct depMC; destruct (pos =? x); destruct (dep =? x); simpl;
      repeat (apply in_or_app; left); exact Hj. }
  assert (Hmc : forall x p0 o, mcflag (fin x p0) o = mcflag p0 o).
  { intros x p0 o. unfold fin. destruct depMC; destruct (pos =? x); destruct (dep =? x); reflexivity. }
  assert (Hud : forall x p0 e j, In e (usesDetail (p_deps (fin x p0))) -> In j (snd e) ->
              (exists e0, In e0 (usesDetail (p_deps p0)) /\ In j (snd e0)) \/ (x = pos /\ j = dep)).
  { intros x p0 e j He Hj. unfold fin in He.
    destruct (pos =? x) eqn:Epx.
    - apply Nat.eqb_eq in Epx. subst x.
      assert (He' : In e (detail_add kc t dep (usesDetail (p_deps p0)))).
      { destruct depMC; destruct (dep =? pos); simpl in He; exact He. }
      destruct (detail_add_entries _ _ _ _ _ _ He' Hj) as [H|H]; [left; exact H | right; split; [reflexivity | exact H]].
    - left. exists e. split; [|exact Hj]. destruct depMC; destruct (dep =? x); simpl in He; exact He. }
  assert (Hubd : forall x p0 o t' j, In j (detail_get o t' (usedByDetail (p_deps (fin x p0)))) ->
              In j (detail_get o t' (usedByDetail (p_deps p0))) \/ (x = dep /\ j = pos /\ o = oc)).
  { intros x p0 o t' j Hj. unfold fin in Hj.
    destruct (dep =? x) eqn:Edx.
    - apply Nat.eqb_eq in Edx. subst x.
      assert (Hj' : In j (detail_get o t' (detail_add oc t pos (usedByDetail (p_deps p0))))).
      { destruct depMC; destruct (pos =? dep); simpl in Hj; exact Hj. }
      destruct (detail_add_get _ _ _ _ _ _ _ Hj') as [H|[H1 [H2 _]]]; [left; exact H | right; repeat split; assumption].
    - left. destruct depMC; destruct (pos =? x); simpl in Hj; exact Hj. }
  assert (H4 : forall p0, In pos (usedBy (p_deps (fin dep p0)))).
  { intros p0. unfold fin. rewrite Nat.eqb_refl. destruct depMC; destruct (pos =? dep); simpl;
      repeat (try (apply in_or_app; right; left; reflexivity); apply in_or_app; left);
      apply in_or_app; right; left; reflexivity. }
  assert (H5 : depMC = true -> forall p0, In dep (usedBy (p_deps (fin pos p0)))).
  { intros Hd p0. unfold fin. rewrite Hd, Nat.eqb_refl. simpl. apply in_or_app. right. left. reflexivity. }
  split.
  - intros i pi k pk Hi Hk [e [He Hin]].
    rewrite Hfin in Hi, Hk.
    destruct (getp funcs i) as [pi0|] eqn:Ei; [|discriminate].
    destruct (getp funcs k) as [pk0|] eqn:Ek; [|discriminate].
    simpl in Hi, Hk. inversion Hi; inversion Hk; subst pi pk; clear Hi Hk.
    destruct (Hud k pk0 e i He Hin) as [Hold|[Hk Hid]].
    + apply Hub. eapply HA; eauto.
    + subst. apply H4.
  - intros i pi k pk o t' Hi Hk Hin Hm.
    rewrite Hfin in Hi, Hk.
    destruct (getp funcs i) as [pi0|] eqn:Ei; [|discriminate].
    destruct (getp funcs k) as [pk0|] eqn:Ek; [|discriminate].
    simpl in Hi, Hk. inversion Hi; inversion Hk; subst pi pk; clear Hi Hk.
    rewrite Hmc in Hm.
    destruct (Hubd k pk0 o t' i Hin) as [Hold|[Hk [Hip Ho]]].
    + apply Hub. eapply (HB i pi0 k pk0 o t'); eauto.
    + subst. apply H5. rewrite (HdepMC pk0 Ek). exact Hm.
Qed.

Lemma fold_left_inv {A B} (P : A -> Prop) (f : A -> B -> A) l : (forall a b, P a -> P (f a b)) -> forall a, P a -> P (fold_left f l a).
Proof. intros Hf. induction l as [|x r IH]; intros a Ha; simpl; [exact Ha | apply IH; apply Hf; exact Ha]. Qed.

Lemma shrinks_set_rmap k m : shrinks (fun p => set_rmap k m p).
Proof. intros p. destruct k; repeat split; auto. Qed.

Lemma dclosed_require te pos avail param outParam funcs :
  dclosed funcs -> dclosed (require_parameters te pos avail param outParam funcs).
Proof.
  intros H. unfold require_parameters.
  apply fold_left_inv.
  - intros fs t Hfs. destruct (t =? te_noT te); [exact Hfs|].
    destruct (best_match te fs avail t) as [[found deps]|].
    + apply fold_left_inv; [intros a b Ha; apply dclosed_add_dep; exact Ha|].
      apply dclosed_shrink; [|exact Hfs]. intros p. apply (shrinks_set_rmap param (aset t found (rmap_of param p)) p).
    + apply dclosed_shrink; [|exact Hfs]. intros p. repeat split; auto.
  - apply dclosed_shrink; [|exact H]. intros p. repeat split; auto.
    + simpl. intros e He. eapply detail_clear_in; eauto.
Qed.

Lemma dclosed_provide te pos avail param layer funcs :
  dclosed funcs -> dclosed (fst (provide_parameters te pos avail param layer funcs)).
Proof.
  intros H. unfold provide_parameters. simpl.
  apply dclosed_shrink; [|exact H]. intros p. repeat split; auto.
  simpl. intros oc t j Hj. eapply detail_clear_get; eauto.
Qed.

Lemma dclosed_init funcs : dclosed (map (set_deps no_deps) funcs).
Proof.
  split.
  - intros i pi k pk Hi Hk [e [He _]]. unfold getp in Hk. rewrite nth_opt_map in Hk.
    destruct (nth_opt k funcs); [|discriminate]. simpl in Hk. inversion Hk; subst. simpl in He. destruct He.
  - intros i pi k pk oc t Hi Hk Hin _. unfold getp in Hk. rewrite nth_opt_map in Hk.
    destruct (nth_opt k funcs); [|discriminate]. simpl in Hk. inversion Hk; subst. simpl in Hin. destruct Hin.
Qed.

Theorem provides_returns_closed te funcs : closed te (provides_returns te funcs).
Proof.
  apply dclosed_closed. unfold provides_returns.
  set (P := fun st : list prov * list imd => dclosed (fst st)).
  assert (Hdown : P (fold_left (fun (st : list prov * list imd) i =>
      let (fs, avail) := st in
      if flagp p_cannot fs i then st else
      let fs1 := if flagp (fun p => class_eqb (p_class p) ClInvoke) fs i then
                   match find_class ClInit (map (set_deps no_deps) funcs) 0 with
                   | Some ip => require_parameters te ip avail FBypass FOut (updp ip (set_bypassR []) fs)
                   | None => fs
                   end
                 else fs in
      let fs2 := require_parameters te i avail FIn FOut fs1 in
      provide_parameters te i avail FOut (i + 2) fs2)
    (seq_from 0 (length funcs)) (map (set_deps no_deps) funcs, []))).
  { apply fold_left_inv.
    - intros [fs avail] i Hst. unfold P in *. simpl in Hst.
      destruct (flagp p_cannot fs i); [exact Hst|].
      apply dclosed_provide. apply dclosed_require.
      destruct (flagp (fun p => class_eqb (p_class p) ClInvoke) fs i); [|exact Hst].
      destruct (find_class ClInit (map (set_deps no_deps) funcs) 0); [|exact Hst].
      apply dclosed_require. apply dclosed_shrink; [|exact Hst]. intros p. repeat split; auto.
    - unfold P. simpl. apply dclosed_init. }
  set (down := fold_left _ (seq_from 0 (length funcs)) (map (set_deps no_deps) funcs, [])) in *.
  change (P (fold_left (fun (st : list prov * list imd) i =>
      let (fs, avail) := st in
      if flagp p_cannot fs i then st else
      let fs1 := require_parameters te i avail FRecv FRet fs in
      provide_parameters te i avail FRet (length funcs - i + 2) fs1)
    (rev (seq_from 0 (length funcs))) (fst down, []))).
  apply fold_left_inv.
  - intros [fs avail] i Hst. unfold P in *. simpl in Hst.
    destruct (flagp p_cannot fs i); [exact Hst|].
    apply dclosed_provide. apply dclosed_require. exact Hst.
  - exact Hdown.
Qed.

(* ---------- Required providers ---------- *)
Lemma pass_required te crd : forall todo st,
  cf_err (fold_left (check_one te crd) todo st) = None ->
  (forall k p, getp (cf_funcs st) k = Some p -> p_required p = true -> p_include p = true) ->
  (forall k p, getp (cf_funcs (fold_left (check_one te crd) todo st)) k = Some p -> p_required p = true -> p_include p = true).
Proof.
  induction todo as [|i r IH]; intros st Herr H; simpl in *; [exact H|].
  apply IH; [exact Herr|].
  apply check_one_required; [|exact H].
  destruct (cf_err (check_one te crd st i)) as [e|] eqn:E; [|reflexivity].
  exfalso. clear - Herr E.
  assert (Hstick : forall l st0 e0, cf_err st0 = Some e0 -> cf_err (fold_left (check_one te crd) l st0) = Some e0).
  { induction l as [|x r0 IHl]; intros st0 e0 H0; simpl; [exact H0|]. apply IHl. rewrite check_one_err with (e := e0); assumption. }
  rewrite (Hstick r _ e E) in Herr. discriminate.
Qed.

Lemma check_passes_required te crd : forall fuel funcs todo funcs',
  check_passes te crd fuel funcs todo = (funcs', None) ->
  (forall k p, getp funcs k = Some p -> p_required p = true -> p_include p = true) ->
  (forall k p, getp funcs' k = Some p -> p_required p = true -> p_include p = true).
Proof.
  induction fuel as [|fuel IH]; intros funcs todo funcs' H Hr.
  - destruct todo; simpl in H; [inversion H; subst; exact Hr | discriminate].
  - destruct todo as [|i rest]; [simpl in H; inversion H; subst; exact Hr|].
    cbn [check_passes] in H.
    destruct (cf_err (fold_left (check_one te crd) (i :: rest) (mkCf funcs [] [] None))) as [e|] eqn:Ee; [inversion H|].
    eapply IH; [exact H|]. apply (pass_required te crd (i :: rest) (mkCf funcs [] [] None) Ee). exact Hr.
Qed.

Theorem validate_required te crd funcs funcs' :
  validate_chain te crd funcs = (funcs', None) ->
  forall k p, getp funcs' k = Some p -> p_required p = true -> p_include p = true.
Proof.
  intros H. unfold validate_chain in H.
  destruct (mark_loop funcs 0 funcs []) as [[fs remaining] [e|]] eqn:Em; [inversion H|].
  pose proof (mark_loop_spec funcs [] [] fs remaining Em) as [Hfs Hrem]. simpl in Hfs. subst fs.
  eapply check_passes_required; [exact H|].
  intros k p Hk Hr. unfold getp in Hk. rewrite nth_opt_map in Hk.
  destruct (nth_opt k funcs) as [q|] eqn:Eq; [|discriminate]. simpl in Hk. inversion Hk; subst.
  unfold mark. destruct (negb (p_excluded q)) eqn:Ex; [reflexivity|].
  (* required and excluded would have been an error in mark_loop *)
  exfalso. clear - Em Eq Ex Hr.
  assert (Hgen : forall todo done rem fs remaining k0 q0,
            mark_loop (done ++ todo) (length done) todo rem = (fs, remaining, None) ->
            nth_opt k0 todo = Some q0 -> p_excluded q0 = true -> p_required q0 = false).
  { clear. induction todo as [|x r IH]; intros done rem fs remaining k q H Hn Hx; [destruct k; discriminate|].
    simpl in H. destruct k; simpl in Hn.
    - inversion Hn; subst. rewrite Hx in H. simpl in H. destruct (p_required q); [discriminate | reflexivity].
    - destruct (negb (p_excluded x)).
      + unfold updp in H. rewrite upd_nth_app in H.
        replace (done ++ set_cannot false (set_include true x) :: r)
          with ((done ++ [set_cannot false (set_include true x)]) ++ r) in H by (rewrite <- app_assoc; reflexivity).
        replace (S (length done)) with (length (done ++ [set_cannot false (set_include true x)])) in H by (rewrite app_length; simpl; lia).
        eapply IH; eauto.
      + destruct (p_required x); [discriminate|].
        unfold updp in H. rewrite upd_nth_app in H.
        replace (done ++ set_include false (set_cannot true x) :: r)
          with ((done ++ [set_include false (set_cannot true x)]) ++ r) in H by (rewrite <- app_assoc; reflexivity).
        replace (S (length done)) with (length (done ++ [set_include false (set_cannot true x)])) in H by (rewrite app_length; simpl; lia).
        eapply IH; eauto. }
  apply negb_false_iff in Ex.
  unfold mark in Hr. rewrite Ex in Hr. simpl in Hr.
  assert (p_required q = false) by (eapply (Hgen funcs [] [] _ _ k q Em Eq Ex)).
  unfold p_required in *. simpl in Hr. congruence.
Qed.

(* ---------- the selection theorem ---------- *)
(* If Bind's selection succeeds then, under the final include marks:
   - every included provider has an included source for each of its inputs, received types and
     (for init) bypass types, and an included consumer for each must-consume output and each
     returned type not marked ConsumptionOptional;
   - every Required provider (the final function, invoke and init included) is included. *)
Theorem select_sound te funcs0 funcs :
  select te funcs0 = Ok funcs ->
  (forall k p, getp funcs k = Some p -> p_include p = true -> p_cannot p = false /\ checks_ok te funcs p = true) /\
  (forall k p, getp funcs k = Some p -> p_required p = true -> p_include p = true).
Proof.
  unfold select. intros H.
  destruct (validate_chain te true (provides_returns te (map (init_marks te) funcs0))) as [f3 [e|]]; [discriminate|].
  match type of H with
  | match validate_chain te true (provides_returns te ?F8) with _ => _ end = _ =>
    destruct (validate_chain te true (provides_returns te F8)) as [f10 [e|]] eqn:Ev; [discriminate|];
    inversion H; subst f10;
    pose proof (validate_sound te true _ _ (provides_returns_closed te F8) Ev) as [_ Hs];
    pose proof (validate_required te true _ _ Ev) as Hr
  end.
  split; [exact Hs | exact Hr].
Qed.

(* ---------- Desired / auto-desired providers during the trial eliminations ---------- *)
(* With canRemoveDesired = false (every tryWithout validation) a Desired or auto-desired provider
   that is not itself the one being tried is treated exactly like a Required one: validation either
   fails or keeps it included.  Such a provider can therefore only be dropped by the very first
   validation, i.e. when it cannot be included at all. *)
Definition kept_kind (p : prov) : bool := (p_wanted p || p_desired p) && negb (p_excluded p).

Lemma check_one_desired te st i : cf_err (check_one te false st i) = None ->
  (forall k p, getp (cf_funcs st) k = Some p -> kept_kind p = true -> p_include p = true) ->
  (forall k p, getp (cf_funcs (check_one te false st i)) k = Some p -> kept_kind p = true -> p_include p = true).
Proof.
  unfold check_one. destruct (cf_err st) eqn:E0; [intros _ H; exact H|].
  destruct (memb i (cf_seen st)); [intros _ H; exact H|].
  destruct (getp (cf_funcs st) i) as [p|] eqn:Ep; cbn [cf_funcs cf_err]; [|intros _ H; exact H].
  destruct (p_cannot p).
  - destruct (p_required p) eqn:Er; [cbn; discriminate|].
    destruct ((p_wanted p || p_desired p) && negb false && negb (p_excluded p)) eqn:Ek; [cbn; discriminate|].
    destruct (p_include p); cbn [cf_funcs cf_err]; intros _ H k q Hk Hr; [|eapply H; eauto].
    destruct (Nat.eq_dec i k) as [E|E].
    + subst k. rewrite (getp_updp_same _ _ _ _ Ep) in Hk. inversion Hk; subst.
      unfold kept_kind in Hr. simpl in Hr. unfold p_desired in *. simpl in Hr.
      rewrite andb_true_r in Ek. rewrite Ek in Hr. discriminate.
    + rewrite getp_updp_other in Hk by exact E. eapply H; eauto.
  - destruct (checks_ok te (cf_funcs st) p); cbn [cf_funcs cf_err]; intros _ H k q Hk Hr; [eapply H; eauto|].
    destruct (Nat.eq_dec i k) as [E|E].
    + subst k. rewrite (getp_updp_same _ _ _ _ Ep) in Hk. inversion Hk; subst. simpl. eapply (H i p); eauto.
    + rewrite getp_updp_other in Hk by exact E. eapply H; eauto.
Qed.

Lemma pass_desired te : forall todo st,
  cf_err (fold_left (check_one te false) todo st) = None ->
  (forall k p, getp (cf_funcs st) k = Some p -> kept_kind p = true -> p_include p = true) ->
  (forall k p, getp (cf_funcs (fold_left (check_one te false) todo st)) k = Some p -> kept_kind p = true -> p_include p = true).
Proof.
  induction todo as [|i r IH]; intros st Herr H; simpl in *; [exact H|].
  apply IH; [exact Herr|].
  apply check_one_desired; [|exact H].
  destruct (cf_err (check_one te false st i)) as [e|] eqn:E; [|reflexivity].
  exfalso. clear - Herr E.
  assert (Hstick : forall l st0 e0, cf_err st0 = Some e0 -> cf_err (fold_left (check_one te false) l st0) = Some e0).
  { induction l as [|x r0 IHl]; intros st0 e0 H0; simpl; [exact H0|]. apply IHl. rewrite check_one_err with (e := e0); assumption. }
  rewrite (Hstick r _ e E) in Herr. discriminate.
Qed.

Lemma check_passes_desired te : forall fuel funcs todo funcs',
  check_passes te false fuel funcs todo = (funcs', None) ->
  (forall k p, getp funcs k = Some p -> kept_kind p = true -> p_include p = true) ->
  (forall k p, getp funcs' k = Some p -> kept_kind p = true -> p_include p = true).
Proof.
  induction fuel as [|fuel IH]; intros funcs todo funcs' H Hr.
  - destruct todo; simpl in H; [inversion H; subst; exact Hr | discriminate].
  - destruct todo as [|i rest]; [simpl in H; inversion H; subst; exact Hr|].
    cbn [check_passes] in H.
    destruct (cf_err (fold_left (check_one te false) (i :: rest) (mkCf funcs [] [] None))) as [e|] eqn:Ee; [inversion H|].
    eapply IH; [exact H|]. apply (pass_desired te (i :: rest) (mkCf funcs [] [] None) Ee). exact Hr.
Qed.

Theorem desired_kept_in_trials te funcs funcs' :
  validate_chain te false funcs = (funcs', None) ->
  forall k p, getp funcs' k = Some p -> kept_kind p = true -> p_include p = true.
Proof.
  intros H. unfold validate_chain in H.
  destruct (mark_loop funcs 0 funcs []) as [[fs remaining] [e|]] eqn:Em; [inversion H|].
  pose proof (mark_loop_spec funcs [] [] fs remaining Em) as [Hfs Hrem]. simpl in Hfs. subst fs.
  eapply check_passes_desired; [exact H|].
  intros k p Hk Hr. unfold getp in Hk. rewrite nth_opt_map in Hk.
  destruct (nth_opt k funcs) as [q|] eqn:Eq; [|discriminate]. simpl in Hk. inversion Hk; subst.
  unfold mark in *. destruct (negb (p_excluded q)) eqn:Ex; [reflexivity|].
  unfold kept_kind in Hr. simpl in Hr. unfold p_desired in Hr. simpl in Hr.
  apply negb_false_iff in Ex. rewrite Ex in Hr. simpl in Hr. rewrite andb_false_r in Hr. discriminate.
Qed.
