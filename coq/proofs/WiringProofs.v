(* What providesReturns establishes, for every working list: each parameter / received type /
   init-returned type of a provider is either recorded as unmatched (usesError) or is remapped to
   a type that every recorded dependency actually puts out (down: a provider listed before it,
   up: one listed after it).  Together with select_sound and the allocation theorem this gives:
   no parameter of an included provider is ever read from an unallocated slot. *)
From Coq Require Import List Arith Bool Lia.
Import ListNotations.
From NJ Require Import Base Registry Classify Select Machine Spec Bind SelectProofs AllocProofs.

(* ---------- detail lists ---------- *)
Lemma detail_get_add k t x : forall d k' t',
  detail_get k' t' (detail_add k t x d) =
  if (k' =? k) && (t' =? t) then detail_get k' t' d ++ [x] else detail_get k' t' d.
Proof.
  induction d as [|[[k2 t2] l] r IH]; intros k' t'; simpl.
  - destruct ((k' =? k) && (t' =? t)); reflexivity.
  - destruct ((k =? k2) && (t =? t2)) eqn:Ea; simpl.
    + apply andb_true_iff in Ea. destruct Ea as [E1 E2]. apply Nat.eqb_eq in E1. apply Nat.eqb_eq in E2. subst k2 t2.
      destruct ((k' =? k) && (t' =? t)); reflexivity.
    + destruct ((k' =? k2) && (t' =? t2)) eqn:Eg.
      * apply andb_true_iff in Eg. destruct Eg as [E1 E2]. apply Nat.eqb_eq in E1. apply Nat.eqb_eq in E2. subst k2 t2.
        destruct ((k' =? k) && (t' =? t)) eqn:Eb; [|reflexivity].
        apply andb_true_iff in Eb. destruct Eb as [E1 E2]. apply Nat.eqb_eq in E1. apply Nat.eqb_eq in E2. subst.
        rewrite !Nat.eqb_refl in Ea. discriminate.
      * apply IH.
Qed.

Lemma detail_get_clear kc : forall d k' t',
  detail_get k' t' (detail_clear kc d) = if k' =? kc then [] else detail_get k' t' d.
Proof.
  induction d as [|[[k2 t2] l] r IH]; intros k' t'; simpl.
  - destruct (k' =? kc); reflexivity.
  - destruct (k2 =? kc) eqn:E2; simpl.
    + rewrite IH. destruct (k' =? kc) eqn:E1; [reflexivity|].
      destruct ((k' =? k2) && (t' =? t2)) eqn:Eg; [|reflexivity].
      apply andb_true_iff in Eg. destruct Eg as [E3 _]. apply Nat.eqb_eq in E3. subst. congruence.
    + destruct ((k' =? k2) && (t' =? t2)) eqn:Eg.
      * apply andb_true_iff in Eg. destruct Eg as [E3 _]. apply Nat.eqb_eq in E3. subst k2. rewrite E2. reflexivity.
      * apply IH.
Qed.

Lemma detail_get_in k t : forall d x, In x (detail_get k t d) -> exists l, In (k, t, l) d /\ In x l /\ detail_get k t d = l.
Proof.
  induction d as [|[[k2 t2] l] r IH]; intros x H; simpl in *; [destruct H|].
  destruct ((k =? k2) && (t =? t2)) eqn:E.
  - apply andb_true_iff in E. destruct E as [E1 E2]. apply Nat.eqb_eq in E1. apply Nat.eqb_eq in E2. subst.
    exists l. repeat split; auto.
  - destruct (IH x H) as (l' & A & B & C). exists l'. repeat split; auto.
Qed.

(* ---------- the wiring view of a provider: what the later stages read ---------- *)
Definition wv (p : prov) := (p_s p, usesDetail (p_deps p), usesError (p_deps p), p_downR p, p_upR p, p_bypassR p).
Definition wv_at (funcs : list prov) (j : nat) := option_map wv (getp funcs j).

Lemma wv_at_updp funcs i f j :
  wv_at (updp i f funcs) j = if i =? j then option_map (fun p => wv (f p)) (getp funcs j) else wv_at funcs j.
Proof.
  unfold wv_at. rewrite getp_updp. destruct (getp funcs j) as [p|]; simpl; destruct (i =? j); reflexivity.
Qed.

Lemma wv_at_updp_keep funcs i f : (forall p, wv (f p) = wv p) -> forall j, wv_at (updp i f funcs) j = wv_at funcs j.
Proof.
  intros Hf j. rewrite wv_at_updp. destruct (i =? j); [|reflexivity].
  unfold wv_at. destruct (getp funcs j); simpl; [rewrite Hf|]; reflexivity.
Qed.

Lemma wv_at_updp_keep_other funcs i f j : j <> i -> wv_at (updp i f funcs) j = wv_at funcs j.
Proof.
  intros Hn. rewrite wv_at_updp. destruct (i =? j) eqn:E; [apply Nat.eqb_eq in E; congruence|reflexivity].
Qed.

Lemma wv_s_one a b j : wv_at a j = wv_at b j -> option_map p_s (getp a j) = option_map p_s (getp b j).
Proof.
  unfold wv_at. destruct (getp a j) as [p|], (getp b j) as [q|]; simpl; intros H; try discriminate; [|reflexivity].
  injection H as Hs _. rewrite Hs. reflexivity.
Qed.

Definition pflow_at (funcs : list prov) (j : nat) (k : flowK) : list nat :=
  match getp funcs j with Some q => pflow q k | None => [] end.

Lemma pflow_at_wv a b j k : wv_at a j = wv_at b j -> pflow_at a j k = pflow_at b j k.
Proof.
  unfold wv_at, pflow_at. destruct (getp a j) as [p|], (getp b j) as [q|]; simpl; intros H; try discriminate; [|reflexivity].
  injection H as Hs _. unfold pflow. rewrite Hs. reflexivity.
Qed.

(* ---------- add_dep ---------- *)
Lemma add_dep_wv pos param outParam t funcs dep j :
  wv_at (add_dep pos param outParam t funcs dep) j =
  if pos =? j then
    option_map (fun p => (p_s p, detail_add (flowk_code param) t dep (usesDetail (p_deps p)), usesError (p_deps p),
                          p_downR p, p_upR p, p_bypassR p)) (getp funcs j)
  else wv_at funcs j.
Proof.
  unfold add_dep.
  set (f1 := updp pos _ funcs). set (f2 := updp dep _ f1).
  assert (H2 : forall x, wv_at f2 x = wv_at f1 x) by (intros x; apply wv_at_updp_keep; intros p; reflexivity).
  assert (H1 : wv_at f1 j = if pos =? j then
    option_map (fun p => (p_s p, detail_add (flowk_code param) t dep (usesDetail (p_deps p)), usesError (p_deps p),
                          p_downR p, p_upR p, p_bypassR p)) (getp funcs j) else wv_at funcs j).
  { unfold f1. rewrite wv_at_updp. destruct (pos =? j); reflexivity. }
  destruct (flagp _ f2 dep).
  - rewrite wv_at_updp_keep by (intros p; reflexivity). rewrite H2. exact H1.
  - rewrite H2. exact H1.
Qed.

(* ---------- bestMatch: where the dependencies come from ---------- *)
Lemma im_find_in t : forall m e, im_find t m = Some e -> In e m /\ im_tc e = t.
Proof.
  induction m as [|x r IH]; intros e H; simpl in H; [discriminate|].
  destruct (im_tc x =? t) eqn:E.
  - injection H as <-. split; [left; reflexivity|apply Nat.eqb_eq, E].
  - destruct (IH e H) as [A B]. split; [right; exact A|exact B].
Qed.

Lemma best_entry_in te wanted : forall m best b,
  best_entry te wanted m best = Some b -> In b m \/ best = Some b.
Proof.
  induction m as [|e r IH]; intros best b H; cbn [best_entry] in H; [right; exact H|].
  destruct (implements te (im_tc e) wanted).
  - destruct best as [b0|].
    + destruct (ge_lex (score te wanted e) (score te wanted b0)).
      * destruct (IH _ _ H) as [A|A]; [left; right; exact A|injection A as <-; left; left; reflexivity].
      * destruct (IH _ _ H) as [A|A]; [left; right; exact A|right; exact A].
    + destruct (IH _ _ H) as [A|A]; [left; right; exact A|injection A as <-; left; left; reflexivity].
  - destruct (IH _ _ H) as [A|A]; [left; right; exact A|right; exact A].
Qed.

Lemma best_match_deps te funcs m wanted found deps :
  best_match te funcs m wanted = Some (found, deps) ->
  exists e, In e m /\ im_tc e = found /\ forall d, In d deps -> In d (im_plist e).
Proof.
  unfold best_match. destruct (im_find wanted m) as [e|] eqn:Ef.
  - intros H. injection H as <- <-. destruct (im_find_in _ _ _ Ef) as [A B]. exists e. split; [exact A|]. split; [exact B|]. auto.
  - destruct (negb (is_iface te wanted)); [discriminate|].
    destruct (best_entry te wanted m None) as [b|] eqn:Eb; [|discriminate].
    destruct (filter _ (im_plist b)) as [|x l] eqn:El; [discriminate|].
    intros H. injection H as <- <-.
    destruct (best_entry_in _ _ _ _ _ Eb) as [A|A]; [|discriminate].
    exists b. repeat split; auto. intros d Hd. rewrite <- El in Hd. apply filter_In in Hd. apply Hd.
Qed.

(* bestMatch looks at the working list only to see who is Loose for what *)
Lemma best_match_ext te a b m wanted :
  (forall j, option_map p_s (getp a j) = option_map p_s (getp b j)) ->
  best_match te a m wanted = best_match te b m wanted.
Proof.
  intros H. unfold best_match. destruct (im_find wanted m); [reflexivity|].
  destruct (negb (is_iface te wanted)); [reflexivity|].
  destruct (best_entry te wanted m None) as [e|]; [|reflexivity].
  assert (E : forall pos, flagp (fun p => memb wanted (p_loose p)) a pos = flagp (fun p => memb wanted (p_loose p)) b pos).
  { intros pos. unfold flagp. specialize (H pos). destruct (getp a pos) as [p|], (getp b pos) as [q|]; simpl in H; try discriminate; [|reflexivity].
    injection H as Hs. unfold p_loose. rewrite Hs. reflexivity. }
  rewrite (filter_ext _ _ E). reflexivity.
Qed.

Lemma wv_s funcs funcs' : (forall j, wv_at funcs' j = wv_at funcs j) ->
  forall j, option_map p_s (getp funcs' j) = option_map p_s (getp funcs j).
Proof.
  intros H j. specialize (H j). unfold wv_at in H. destruct (getp funcs' j) as [p|], (getp funcs j) as [q|]; simpl in *; try discriminate; [|reflexivity].
  injection H as Hs _. rewrite Hs. reflexivity.
Qed.

(* ---------- requireParameters ---------- *)
Definition is_req (k : flowK) : bool := match k with FIn | FRecv | FBypass => true | _ => false end.

Lemma rmap_of_set k m p : is_req k = true -> rmap_of k (set_rmap k m p) = m.
Proof. destruct k; simpl; intros H; try discriminate; reflexivity. Qed.
Lemma rmap_of_set_other k k' m p : is_req k = true -> is_req k' = true -> k <> k' -> rmap_of k' (set_rmap k m p) = rmap_of k' p.
Proof. destruct k, k'; simpl; intros A B C; try discriminate; try congruence; reflexivity. Qed.
Lemma set_rmap_wv_s k m p : p_s (set_rmap k m p) = p_s p.
Proof. destruct k; reflexivity. Qed.
Lemma set_rmap_deps k m p : p_deps (set_rmap k m p) = p_deps p.
Proof. destruct k; reflexivity. Qed.

Definition req_step (te : tyenv) (pos : nat) (avail : list imd) (param outParam : flowK) (fs : list prov) (t : nat) : list prov :=
  if t =? te_noT te then fs else
  match best_match te fs avail t with
  | None => updp pos (fun p => set_deps (let d := p_deps p in
                 mkDeps (usesDetail d) (usesError d ++ [(flowk_code param, t)]) (uses d) (usedBy d) (usedByDetail d)) p) fs
  | Some (found, deps) =>
    let fs1 := updp pos (fun p => set_rmap param (aset t found (rmap_of param p)) p) fs in
    fold_left (add_dep pos param outParam t) deps fs1
  end.

Lemma require_parameters_unfold te pos avail param outParam funcs :
  require_parameters te pos avail param outParam funcs =
  fold_left (req_step te pos avail param outParam)
            (match getp funcs pos with Some p => pflow p param | None => [] end)
            (updp pos (fun p => set_deps (let d := p_deps p in
                   mkDeps (detail_clear (flowk_code param) (usesDetail d))
                          (filter (fun e => negb (fst e =? flowk_code param)) (usesError d))
                          (uses d) (usedBy d) (usedByDetail d)) p) funcs).
Proof. reflexivity. Qed.

Definition deps_of (te : tyenv) (fs0 : list prov) (avail : list imd) (t : nat) : list nat :=
  match best_match te fs0 avail t with Some (_, d) => d | None => [] end.

(* the state of the provider being wired, for one kind of parameter *)
Record rinv (te : tyenv) (fs0 : list prov) (avail : list imd) (param : flowK) (p : prov) : Prop := {
  ri_incl : forall t d, In d (detail_get (flowk_code param) t (usesDetail (p_deps p))) -> In d (deps_of te fs0 avail t);
  ri_found : forall t, detail_get (flowk_code param) t (usesDetail (p_deps p)) <> [] ->
             exists found d0, best_match te fs0 avail t = Some (found, d0) /\ alookup t (rmap_of param p) = Some found
}.

Definition settled (param : flowK) (p : prov) (t : nat) : Prop :=
  In (flowk_code param, t) (usesError (p_deps p)) \/ detail_get (flowk_code param) t (usesDetail (p_deps p)) <> [].

(* what does not concern this kind of parameter *)
Definition others_same (param : flowK) (p p0 : prov) : Prop :=
  p_s p = p_s p0 /\
  (forall k' t, k' <> flowk_code param -> detail_get k' t (usesDetail (p_deps p)) = detail_get k' t (usesDetail (p_deps p0))) /\
  (forall e, fst e <> flowk_code param -> (In e (usesError (p_deps p)) <-> In e (usesError (p_deps p0)))) /\
  (forall k', is_req k' = true -> k' <> param -> rmap_of k' p = rmap_of k' p0).

Lemma others_same_refl param p : others_same param p p.
Proof. repeat split; auto. Qed.
Lemma others_same_trans param a b c : others_same param a b -> others_same param b c -> others_same param a c.
Proof.
  intros (A1 & A2 & A3 & A4) (B1 & B2 & B3 & B4).
  split; [congruence|].
  split; [intros k' t Hk; rewrite A2, B2 by exact Hk; reflexivity|].
  split.
  - intros e He. split; intros Hin.
    + apply (B3 e He). apply (A3 e He). exact Hin.
    + apply (A3 e He). apply (B3 e He). exact Hin.
  - intros k' Hr Hk. rewrite A4, B4 by assumption. reflexivity.
Qed.

(* folding add_dep over the dependencies of one type *)
Lemma add_deps_fold pos param outParam t : forall deps fs p,
  getp fs pos = Some p ->
  exists p', getp (fold_left (add_dep pos param outParam t) deps fs) pos = Some p' /\
    p_s p' = p_s p /\ usesError (p_deps p') = usesError (p_deps p) /\
    p_downR p' = p_downR p /\ p_upR p' = p_upR p /\ p_bypassR p' = p_bypassR p /\
    (forall k' t', detail_get k' t' (usesDetail (p_deps p')) =
       if (k' =? flowk_code param) && (t' =? t) then detail_get k' t' (usesDetail (p_deps p)) ++ deps
       else detail_get k' t' (usesDetail (p_deps p))) /\
    (forall j, j <> pos -> wv_at (fold_left (add_dep pos param outParam t) deps fs) j = wv_at fs j).
Proof.
  induction deps as [|d r IH]; intros fs p Hp; cbn [fold_left].
  - exists p. repeat split; auto. intros k' t'. destruct ((k' =? flowk_code param) && (t' =? t)); [rewrite app_nil_r|]; reflexivity.
  - pose proof (add_dep_wv pos param outParam t fs d pos) as W. rewrite Nat.eqb_refl in W.
    unfold wv_at in W at 1. rewrite Hp in W. cbn [option_map] in W.
    destruct (getp (add_dep pos param outParam t fs d) pos) as [p1|] eqn:E1; [|discriminate W].
    cbn [option_map] in W. unfold wv in W. injection W as W1 W2 W3 W4 W5 W6.
    destruct (IH _ _ E1) as (p' & G & S & Er & D & U & B & Dt & Fr).
    exists p'. split; [exact G|]. split; [congruence|]. split; [congruence|]. split; [congruence|]. split; [congruence|]. split; [congruence|]. split.
    + intros k' t'. rewrite Dt, W2, detail_get_add.
      destruct ((k' =? flowk_code param) && (t' =? t)); [rewrite <- app_assoc; reflexivity|reflexivity].
    + intros j Hj. rewrite (Fr j Hj). rewrite add_dep_wv. destruct (pos =? j) eqn:E; [apply Nat.eqb_eq in E; congruence|reflexivity].
Qed.

Lemma best_match_nonempty te funcs m wanted found deps :
  (forall e, In e m -> im_plist e <> []) ->
  best_match te funcs m wanted = Some (found, deps) -> deps <> [].
Proof.
  intros Hne. unfold best_match. destruct (im_find wanted m) as [e|] eqn:Ef.
  - intros H. injection H as <- <-. apply Hne. apply (im_find_in _ _ _ Ef).
  - destruct (negb (is_iface te wanted)); [discriminate|].
    destruct (best_entry te wanted m None) as [b|]; [|discriminate].
    destruct (filter _ (im_plist b)) as [|x l] eqn:El; [discriminate|].
    intros H. injection H as <- <-. discriminate.
Qed.

Lemma same_s_updp fs fs0 pos f :
  (forall p, p_s (f p) = p_s p) ->
  (forall j, option_map p_s (getp fs j) = option_map p_s (getp fs0 j)) ->
  forall j, option_map p_s (getp (updp pos f fs) j) = option_map p_s (getp fs0 j).
Proof.
  intros Hf H j. rewrite getp_updp. specialize (H j). destruct (getp fs j) as [p|]; simpl in *; [|exact H].
  destruct (pos =? j); [rewrite Hf|]; exact H.
Qed.

Lemma req_step_spec te pos avail param outParam fs0 :
  is_req param = true -> (forall e, In e avail -> im_plist e <> []) ->
  forall fs p t, getp fs pos = Some p ->
    (forall j, option_map p_s (getp fs j) = option_map p_s (getp fs0 j)) ->
    rinv te fs0 avail param p ->
    exists p', getp (req_step te pos avail param outParam fs t) pos = Some p' /\
      rinv te fs0 avail param p' /\ others_same param p' p /\
      (forall t', settled param p t' -> settled param p' t') /\
      (t <> te_noT te -> settled param p' t) /\
      (forall j, j <> pos -> wv_at (req_step te pos avail param outParam fs t) j = wv_at fs j) /\
      (forall j, option_map p_s (getp (req_step te pos avail param outParam fs t) j) = option_map p_s (getp fs0 j)).
Proof.
  intros Hreq Hne fs p t Hp Hs [Hincl Hfound]. unfold req_step.
  destruct (t =? te_noT te) eqn:Et.
  { exists p. split; [exact Hp|]. split; [constructor; assumption|]. split; [apply others_same_refl|].
    split; [auto|]. split; [intros Hn; apply Nat.eqb_eq in Et; contradiction|]. split; [reflexivity|exact Hs]. }
  rewrite (best_match_ext te fs fs0 avail t Hs).
  destruct (best_match te fs0 avail t) as [[found deps]|] eqn:Eb.
  - (* matched *)
    set (p1 := set_rmap param (aset t found (rmap_of param p)) p).
    assert (Hp1 : getp (updp pos (fun q => set_rmap param (aset t found (rmap_of param q)) q) fs) pos = Some p1)
      by (exact (getp_updp_same (fun q => set_rmap param (aset t found (rmap_of param q)) q) fs pos p Hp)).
    destruct (add_deps_fold pos param outParam t deps _ _ Hp1) as (p' & G & S & Er & D & U & B & Dt & Fr).
    exists p'. split; [exact G|].
    assert (Hrm : forall k', is_req k' = true -> rmap_of k' p' = rmap_of k' p1).
    { intros k' _. destruct k'; simpl; congruence. }
    assert (Hdeps : deps_of te fs0 avail t = deps) by (unfold deps_of; rewrite Eb; reflexivity).
    split.
    { constructor.
      - intros t' d Hd. rewrite Dt in Hd. unfold p1 in Hd. rewrite set_rmap_deps in Hd.
        destruct ((flowk_code param =? flowk_code param) && (t' =? t)) eqn:E.
        + apply andb_true_iff in E. destruct E as [_ E]. apply Nat.eqb_eq in E. subst t'.
          apply in_app_or in Hd. destruct Hd as [Hd|Hd]; [apply Hincl, Hd|rewrite Hdeps; exact Hd].
        + apply Hincl, Hd.
      - intros t' Hn. rewrite Dt in Hn. unfold p1 in Hn. rewrite set_rmap_deps in Hn.
        rewrite (Hrm param Hreq). unfold p1. rewrite (rmap_of_set param _ p Hreq).
        destruct ((flowk_code param =? flowk_code param) && (t' =? t)) eqn:E.
        + apply andb_true_iff in E. destruct E as [_ E]. apply Nat.eqb_eq in E. subst t'.
          exists found, deps. split; [exact Eb|]. apply alookup_aset_same.
        + destruct (Hfound t' Hn) as (f' & d0 & A & Bq). exists f', d0. split; [exact A|].
          rewrite alookup_aset_other; [exact Bq|].
          intros ->. rewrite Nat.eqb_refl, Nat.eqb_refl in E. discriminate. }
    split.
    { split; [rewrite S; unfold p1; apply set_rmap_wv_s|]. split.
      - intros k' t' Hk. rewrite Dt. unfold p1. rewrite set_rmap_deps.
        destruct (k' =? flowk_code param) eqn:E; [apply Nat.eqb_eq in E; contradiction|reflexivity].
      - split.
        + intros e _. rewrite Er. unfold p1. rewrite set_rmap_deps. tauto.
        + intros k' Hr Hk. rewrite (Hrm k' Hr). unfold p1. apply rmap_of_set_other; auto. }
    split.
    { intros t' [Hl|Hr]; [left; rewrite Er; unfold p1; rewrite set_rmap_deps; exact Hl|].
      right. rewrite Dt. unfold p1. rewrite set_rmap_deps.
      destruct ((flowk_code param =? flowk_code param) && (t' =? t)); [|exact Hr].
      intros Hnil. apply app_eq_nil in Hnil. apply Hr, Hnil. }
    split.
    { intros _. right. rewrite Dt. rewrite !Nat.eqb_refl. cbn [andb].
      intros Hnil. apply app_eq_nil in Hnil. destruct Hnil as [_ Hnil].
      apply (best_match_nonempty te fs0 avail t found deps Hne Eb Hnil). }
    split.
    { intros j Hj. rewrite (Fr j Hj). apply wv_at_updp_keep_other. exact Hj. }
    { intros j. destruct (Nat.eq_dec j pos) as [->|Hj].
      - rewrite G. cbn [option_map]. rewrite S. unfold p1. rewrite set_rmap_wv_s. specialize (Hs pos). rewrite Hp in Hs. exact Hs.
      - pose proof (Fr j Hj) as F1. pose proof (wv_at_updp_keep_other fs pos (fun q => set_rmap param (aset t found (rmap_of param q)) q) j Hj) as F2.
        rewrite F2 in F1. rewrite <- (Hs j). apply (wv_s_one _ _ j F1). }
  - (* no match: recorded as an error *)
    set (g := fun q => set_deps (let d := p_deps q in mkDeps (usesDetail d) (usesError d ++ [(flowk_code param, t)]) (uses d) (usedBy d) (usedByDetail d)) q).
    exists (g p). split; [exact (getp_updp_same g fs pos p Hp)|].
    split; [constructor; [exact Hincl|exact Hfound]|].
    split.
    { split; [reflexivity|]. split; [reflexivity|]. split.
      - intros e He. simpl. rewrite in_app_iff. split; [intros [H|[H|[]]]; [exact H|subst e; simpl in He; congruence]|auto].
      - intros k' _ _. destruct k'; reflexivity. }
    split.
    { intros t' [Hl|Hr]; [left; simpl; apply in_or_app; left; exact Hl|right; exact Hr]. }
    split.
    { intros _. left. simpl. apply in_or_app. right. left. reflexivity. }
    split.
    { intros j Hj. apply wv_at_updp_keep_other. exact Hj. }
    { apply same_s_updp; [reflexivity|exact Hs]. }
Qed.

Lemma req_fold te pos avail param outParam fs0 :
  is_req param = true -> (forall e, In e avail -> im_plist e <> []) ->
  forall tys fs p, getp fs pos = Some p ->
    (forall j, option_map p_s (getp fs j) = option_map p_s (getp fs0 j)) ->
    rinv te fs0 avail param p ->
    let fs' := fold_left (req_step te pos avail param outParam) tys fs in
    exists p', getp fs' pos = Some p' /\
      rinv te fs0 avail param p' /\ others_same param p' p /\
      (forall t', settled param p t' -> settled param p' t') /\
      (forall t, In t tys -> t <> te_noT te -> settled param p' t) /\
      (forall j, j <> pos -> wv_at fs' j = wv_at fs j) /\
      (forall j, option_map p_s (getp fs' j) = option_map p_s (getp fs0 j)).
Proof.
  intros Hreq Hne. induction tys as [|t r IH]; intros fs p Hp Hs Hr; cbn [fold_left].
  - exists p. split; [exact Hp|]. split; [exact Hr|]. split; [apply others_same_refl|].
    split; [auto|]. split; [intros t []|]. split; [reflexivity|exact Hs].
  - destruct (req_step_spec te pos avail param outParam fs0 Hreq Hne fs p t Hp Hs Hr) as (p1 & G1 & R1 & O1 & M1 & T1 & F1 & S1).
    destruct (IH _ _ G1 S1 R1) as (p' & G & R & O & M & T & F & S).
    exists p'. split; [exact G|]. split; [exact R|]. split; [eapply others_same_trans; eassumption|].
    split; [intros t' Ht'; apply M, M1, Ht'|]. split.
    + intros t' [<-|Ht'] Hn; [apply M, T1, Hn|apply T; assumption].
    + split; [intros j Hj; rewrite (F j Hj); apply F1, Hj|exact S].
Qed.

Lemma require_spec te pos avail param outParam fs0 :
  is_req param = true -> (forall e, In e avail -> im_plist e <> []) ->
  forall funcs p0, getp funcs pos = Some p0 ->
    (forall j, option_map p_s (getp funcs j) = option_map p_s (getp fs0 j)) ->
    let fs' := require_parameters te pos avail param outParam funcs in
    exists p', getp fs' pos = Some p' /\
      rinv te fs0 avail param p' /\ others_same param p' p0 /\
      (forall t, In t (pflow p0 param) -> t <> te_noT te -> settled param p' t) /\
      (forall j, j <> pos -> wv_at fs' j = wv_at funcs j) /\
      (forall j, option_map p_s (getp fs' j) = option_map p_s (getp fs0 j)).
Proof.
  intros Hreq Hne funcs p0 Hp Hs. cbv zeta. rewrite require_parameters_unfold, Hp.
  set (g := fun p => set_deps (let d := p_deps p in
                   mkDeps (detail_clear (flowk_code param) (usesDetail d))
                          (filter (fun e => negb (fst e =? flowk_code param)) (usesError d))
                          (uses d) (usedBy d) (usedByDetail d)) p).
  assert (Hg : getp (updp pos g funcs) pos = Some (g p0)) by (exact (getp_updp_same g funcs pos p0 Hp)).
  assert (Hs0 : forall j, option_map p_s (getp (updp pos g funcs) j) = option_map p_s (getp fs0 j))
    by (apply same_s_updp; [reflexivity|exact Hs]).
  assert (R0 : rinv te fs0 avail param (g p0)).
  { constructor; simpl.
    - intros t d Hd. rewrite detail_get_clear, Nat.eqb_refl in Hd. destruct Hd.
    - intros t Hn. rewrite detail_get_clear, Nat.eqb_refl in Hn. congruence. }
  assert (O0 : others_same param (g p0) p0).
  { split; [reflexivity|]. split.
    - intros k' t Hk. simpl. rewrite detail_get_clear. destruct (k' =? flowk_code param) eqn:E; [apply Nat.eqb_eq in E; contradiction|reflexivity].
    - split.
      + intros e He. simpl. rewrite filter_In. split; [tauto|]. intros Hin. split; [exact Hin|].
        destruct (fst e =? flowk_code param) eqn:E; [apply Nat.eqb_eq in E; contradiction|reflexivity].
      + intros k' _ _. destruct k'; reflexivity. }
  destruct (req_fold te pos avail param outParam fs0 Hreq Hne (pflow p0 param) _ _ Hg Hs0 R0) as (p' & G & R & O & M & T & F & S).
  exists p'. split; [exact G|]. split; [exact R|]. split; [eapply others_same_trans; eassumption|].
  split; [exact T|]. split; [|exact S].
  intros j Hj. rewrite (F j Hj). apply wv_at_updp_keep_other, Hj.
Qed.

(* ---------- provideParameters and the map of available types ---------- *)
Definition av_ok (fs0 : list prov) (k : flowK) (lim : nat -> Prop) (avail : list imd) : Prop :=
  forall e, In e avail -> im_plist e <> [] /\ forall j, In j (im_plist e) -> lim j /\ In (im_tc e) (pflow_at fs0 j k).

Lemma im_add_spec t layer pos : forall m e',
  In e' (im_add t layer pos m) ->
  (exists e, In e m /\ im_tc e' = im_tc e /\ (im_plist e' = im_plist e \/ (im_tc e = t /\ im_plist e' = im_plist e ++ [pos]))) \/
  (im_tc e' = t /\ im_plist e' = [pos]).
Proof.
  induction m as [|x r IH]; intros e' H; simpl in H.
  - destruct H as [<-|[]]. right. split; reflexivity.
  - destruct (im_tc x =? t) eqn:E.
    + destruct H as [<-|H].
      * left. exists x. apply Nat.eqb_eq in E. split; [left; reflexivity|]. split; [simpl; symmetry; exact E|]. right. split; [exact E|reflexivity].
      * left. exists e'. split; [right; exact H|]. split; [reflexivity|left; reflexivity].
    + destruct H as [<-|H].
      * left. exists x. split; [left; reflexivity|]. split; [reflexivity|left; reflexivity].
      * destruct (IH e' H) as [(e & A & B & C)|D]; [left; exists e; split; [right; exact A|split; assumption]|right; exact D].
Qed.

Lemma av_ok_add fs0 k (lim : nat -> Prop) te pos layer : forall tys avail,
  av_ok fs0 k lim avail -> lim pos -> (forall t, In t tys -> In t (pflow_at fs0 pos k)) ->
  av_ok fs0 k lim (fold_left (fun m t => if t =? te_noT te then m else im_add t layer pos m) tys avail).
Proof.
  induction tys as [|t r IH]; intros avail Hav Hl Ht; cbn [fold_left]; [exact Hav|].
  apply IH; [|exact Hl|intros t' H'; apply Ht; right; exact H'].
  destruct (t =? te_noT te); [exact Hav|].
  intros e' He'. destruct (im_add_spec _ _ _ _ _ He') as [(e & A & B & C)|[D1 D2]].
  - destruct (Hav e A) as [Hne Hj]. destruct C as [C|[C1 C2]].
    + rewrite C, B. split; [exact Hne|exact Hj].
    + rewrite C2, B. split; [intros Hn; apply app_eq_nil in Hn; destruct Hn; discriminate|].
      intros j Hin. apply in_app_or in Hin. destruct Hin as [Hin|[<-|[]]]; [apply Hj, Hin|].
      split; [exact Hl|]. rewrite C1. apply Ht. left. reflexivity.
  - rewrite D2, D1. split; [discriminate|]. intros j [<-|[]]. split; [exact Hl|apply Ht; left; reflexivity].
Qed.

Lemma av_ok_weaken fs0 k (lim lim' : nat -> Prop) avail :
  (forall j, lim j -> lim' j) -> av_ok fs0 k lim avail -> av_ok fs0 k lim' avail.
Proof.
  intros Hl Hav e He. destruct (Hav e He) as [A B]. split; [exact A|]. intros j Hj. destruct (B j Hj). split; auto.
Qed.

(* the final form: no reference to the map of available types *)
Definition wired (te : tyenv) (fs0 : list prov) (lim : nat -> Prop) (param outParam : flowK) (p : prov) : Prop :=
  forall t, In t (pflow p param) -> t <> te_noT te ->
    In (flowk_code param, t) (usesError (p_deps p)) \/
    exists found, alookup t (rmap_of param p) = Some found /\
      detail_get (flowk_code param) t (usesDetail (p_deps p)) <> [] /\
      forall dep, In dep (detail_get (flowk_code param) t (usesDetail (p_deps p))) ->
        lim dep /\ In found (pflow_at fs0 dep outParam).

Lemma wired_from_rinv te fs0 avail lim param outParam p p0 :
  rinv te fs0 avail param p -> av_ok fs0 outParam lim avail -> p_s p = p_s p0 ->
  (forall t, In t (pflow p0 param) -> t <> te_noT te -> settled param p t) ->
  wired te fs0 lim param outParam p.
Proof.
  intros [Hincl Hfound] Hav Hs Hset t Ht Hn.
  assert (Ht0 : In t (pflow p0 param)) by (unfold pflow in *; rewrite <- Hs; exact Ht).
  destruct (Hset t Ht0 Hn) as [Hl|Hr]; [left; exact Hl|]. right.
  destruct (Hfound t Hr) as (found & d0 & Eb & Ea). exists found. split; [exact Ea|]. split; [exact Hr|].
  intros dep Hd. specialize (Hincl t dep Hd). unfold deps_of in Hincl. rewrite Eb in Hincl.
  destruct (best_match_deps _ _ _ _ _ _ Eb) as (e & He & Htc & Hsub).
  destruct (Hav e He) as [_ Hj]. destruct (Hj dep (Hsub dep Hincl)) as [A B]. split; [exact A|]. rewrite <- Htc. exact B.
Qed.

(* a later step that concerns another kind of parameter leaves it wired *)
Lemma wired_others te fs0 lim param param' outParam p p' :
  is_req param = true -> is_req param' = true -> flowk_code param <> flowk_code param' ->
  others_same param' p' p -> wired te fs0 lim param outParam p -> wired te fs0 lim param outParam p'.
Proof.
  intros Hr Hr' Hk (Os & Od & Oe & Om) Hw t Ht Hn.
  assert (Ht0 : In t (pflow p param)) by (unfold pflow in *; rewrite <- Os; exact Ht).
  assert (Hpp : param <> param') by (intros ->; apply Hk; reflexivity).
  destruct (Hw t Ht0 Hn) as [Hl|(found & A & B & C)].
  - left. apply (Oe (flowk_code param, t)); [exact Hk|exact Hl].
  - right. exists found. rewrite (Om param Hr Hpp), (Od _ t Hk). split; [exact A|]. split; [exact B|exact C].
Qed.

Lemma wired_wv te fs0 lim param outParam p p' :
  wv p' = wv p -> wired te fs0 lim param outParam p -> wired te fs0 lim param outParam p'.
Proof.
  unfold wv. intros H Hw. injection H as H1 H2 H3 H4 H5 H6.
  intros t Ht Hn. assert (Ht0 : In t (pflow p param)) by (unfold pflow in *; rewrite <- H1; exact Ht).
  assert (Hr : rmap_of param p' = rmap_of param p) by (destruct param; simpl; congruence).
  destruct (Hw t Ht0 Hn) as [Hl|(found & A & B & C)]; [left; rewrite H3; exact Hl|].
  right. exists found. rewrite Hr, H2. split; [exact A|]. split; [exact B|exact C].
Qed.

(* ---------- cannotInclude marks are not touched by providesReturns ---------- *)
Definition pc_at (l : list prov) (j : nat) := option_map p_cannot (getp l j).

Lemma pc_updp l i f : (forall p, p_cannot (f p) = p_cannot p) -> forall j, pc_at (updp i f l) j = pc_at l j.
Proof.
  intros Hf j. unfold pc_at. rewrite getp_updp. destruct (getp l j) as [p|]; simpl; [|reflexivity].
  destruct (i =? j); [rewrite Hf|]; reflexivity.
Qed.

Lemma set_rmap_cannot k m p : p_cannot (set_rmap k m p) = p_cannot p.
Proof. destruct k; reflexivity. Qed.

Lemma pc_add_dep pos param outParam t funcs dep j : pc_at (add_dep pos param outParam t funcs dep) j = pc_at funcs j.
Proof.
  unfold add_dep.
  match goal with |- pc_at (if ?c then ?a else ?b) j = _ => destruct c end;
    repeat (rewrite pc_updp by (intros p; reflexivity)); reflexivity.
Qed.

Lemma pc_fold_add_dep pos param outParam t : forall deps funcs j,
  pc_at (fold_left (add_dep pos param outParam t) deps funcs) j = pc_at funcs j.
Proof.
  induction deps as [|d r IH]; intros funcs j; cbn [fold_left]; [reflexivity|]. rewrite IH. apply pc_add_dep.
Qed.

Lemma pc_req_step te pos avail param outParam fs t j : pc_at (req_step te pos avail param outParam fs t) j = pc_at fs j.
Proof.
  unfold req_step. destruct (t =? te_noT te); [reflexivity|].
  destruct (best_match te fs avail t) as [[found deps]|].
  - rewrite pc_fold_add_dep. apply pc_updp. intros p. apply set_rmap_cannot.
  - apply pc_updp. intros p. reflexivity.
Qed.

Lemma pc_require te pos avail param outParam funcs j : pc_at (require_parameters te pos avail param outParam funcs) j = pc_at funcs j.
Proof.
  rewrite require_parameters_unfold.
  match goal with |- pc_at (fold_left _ ?tys ?init) j = _ =>
    assert (H : forall l fs, pc_at (fold_left (req_step te pos avail param outParam) l fs) j = pc_at fs j)
      by (induction l as [|t r IH]; intros fs; cbn [fold_left]; [reflexivity|rewrite IH; apply pc_req_step]);
    rewrite H end.
  apply pc_updp. intros p. reflexivity.
Qed.

(* ---------- excluded marks are likewise not touched by providesReturns ---------- *)
Definition px_at (l : list prov) (j : nat) := option_map p_excluded (getp l j).

Lemma px_updp l i f : (forall p, p_excluded (f p) = p_excluded p) -> forall j, px_at (updp i f l) j = px_at l j.
Proof.
  intros Hf j. unfold px_at. rewrite getp_updp. destruct (getp l j) as [p|]; simpl; [|reflexivity].
  destruct (i =? j); [rewrite Hf|]; reflexivity.
Qed.

Lemma set_rmap_excluded k m p : p_excluded (set_rmap k m p) = p_excluded p.
Proof. destruct k; reflexivity. Qed.

Lemma px_add_dep pos param outParam t funcs dep j : px_at (add_dep pos param outParam t funcs dep) j = px_at funcs j.
Proof.
  unfold add_dep.
  match goal with |- px_at (if ?c then ?a else ?b) j = _ => destruct c end;
    repeat (rewrite px_updp by (intros p; reflexivity)); reflexivity.
Qed.

Lemma px_fold_add_dep pos param outParam t : forall deps funcs j,
  px_at (fold_left (add_dep pos param outParam t) deps funcs) j = px_at funcs j.
Proof.
  induction deps as [|d r IH]; intros funcs j; cbn [fold_left]; [reflexivity|]. rewrite IH. apply px_add_dep.
Qed.

Lemma px_req_step te pos avail param outParam fs t j : px_at (req_step te pos avail param outParam fs t) j = px_at fs j.
Proof.
  unfold req_step. destruct (t =? te_noT te); [reflexivity|].
  destruct (best_match te fs avail t) as [[found deps]|].
  - rewrite px_fold_add_dep. apply px_updp. intros p. apply set_rmap_excluded.
  - apply px_updp. intros p. reflexivity.
Qed.

Lemma px_require te pos avail param outParam funcs j : px_at (require_parameters te pos avail param outParam funcs) j = px_at funcs j.
Proof.
  rewrite require_parameters_unfold.
  match goal with |- px_at (fold_left _ ?tys ?init) j = _ =>
    assert (H : forall l fs, px_at (fold_left (req_step te pos avail param outParam) l fs) j = px_at fs j)
      by (induction l as [|t r IH]; intros fs; cbn [fold_left]; [reflexivity|rewrite IH; apply px_req_step]);
    rewrite H end.
  apply px_updp. intros p. reflexivity.
Qed.

Lemma provide_fst te pos avail param layer funcs j :
  wv_at (fst (provide_parameters te pos avail param layer funcs)) j = wv_at funcs j /\
  pc_at (fst (provide_parameters te pos avail param layer funcs)) j = pc_at funcs j.
Proof.
  unfold provide_parameters. cbn [fst]. split; [apply wv_at_updp_keep|apply pc_updp]; intros p; reflexivity.
Qed.

Lemma provide_snd te pos avail param layer funcs :
  snd (provide_parameters te pos avail param layer funcs) =
  fold_left (fun m t => if t =? te_noT te then m else im_add t layer pos m)
            (match getp funcs pos with Some p => pflow p param | None => [] end) avail.
Proof. reflexivity. Qed.

(* ---------- the downward pass ---------- *)
Definition same_s (fs fs0 : list prov) : Prop := forall j, option_map p_s (getp fs j) = option_map p_s (getp fs0 j).
Definition same_pc (fs fs0 : list prov) : Prop := forall j, pc_at fs j = pc_at fs0 j.

Lemma pflow_at_same_s fs fs0 j k : same_s fs fs0 -> pflow_at fs j k = pflow_at fs0 j k.
Proof.
  intros H. specialize (H j). unfold pflow_at. destruct (getp fs j) as [p|], (getp fs0 j) as [q|]; simpl in H; try discriminate; [|reflexivity].
  injection H as Hs. unfold pflow. rewrite Hs. reflexivity.
Qed.

Definition wired_all (te : tyenv) (fs0 fs : list prov) (upto : nat -> Prop) (lim : nat -> nat -> Prop) (param outParam : flowK) : Prop :=
  forall j p, upto j -> getp fs j = Some p -> p_cannot p = false -> wired te fs0 (lim j) param outParam p.

(* a step that leaves the wiring view of every provider but one alone, and that one only in what
   concerns another kind of parameter *)
Lemma wired_all_frame te fs0 fs fs' upto lim param outParam param' x :
  is_req param = true -> is_req param' = true -> flowk_code param <> flowk_code param' ->
  (forall j, j <> x -> wv_at fs' j = wv_at fs j) ->
  (forall p', getp fs' x = Some p' -> exists p, getp fs x = Some p /\ others_same param' p' p) ->
  same_pc fs' fs ->
  wired_all te fs0 fs upto lim param outParam -> wired_all te fs0 fs' upto lim param outParam.
Proof.
  intros Hr Hr' Hk Hfr Hx Hpc Hw j p' Hu Hg Hc.
  assert (Hc0 : forall p, getp fs j = Some p -> p_cannot p = false).
  { intros p Hp. specialize (Hpc j). unfold pc_at in Hpc. rewrite Hg, Hp in Hpc. simpl in Hpc. congruence. }
  destruct (Nat.eq_dec j x) as [->|Hj].
  - destruct (Hx p' Hg) as (p & Hp & Ho). apply (wired_others te fs0 (lim x) param param' outParam p p' Hr Hr' Hk Ho).
    apply (Hw x p Hu Hp (Hc0 p Hp)).
  - specialize (Hfr j Hj). unfold wv_at in Hfr. rewrite Hg in Hfr. destruct (getp fs j) as [p|] eqn:Hp; [|discriminate].
    simpl in Hfr. assert (Hwv : wv p' = wv p) by congruence.
    apply (wired_wv te fs0 (lim j) param outParam p p' Hwv). apply (Hw j p Hu Hp (Hc0 p eq_refl)).
Qed.

Lemma wired_all_same te fs0 fs fs' upto lim param outParam :
  (forall j, wv_at fs' j = wv_at fs j) -> same_pc fs' fs ->
  wired_all te fs0 fs upto lim param outParam -> wired_all te fs0 fs' upto lim param outParam.
Proof.
  intros Hfr Hpc Hw j p' Hu Hg Hc.
  specialize (Hfr j). unfold wv_at in Hfr. rewrite Hg in Hfr. destruct (getp fs j) as [p|] eqn:Hp; [|discriminate].
  simpl in Hfr. assert (Hwv : wv p' = wv p) by congruence.
  apply (wired_wv te fs0 (lim j) param outParam p p' Hwv).
  apply (Hw j p Hu Hp). specialize (Hpc j). unfold pc_at in Hpc. rewrite Hg, Hp in Hpc. simpl in Hpc. congruence.
Qed.

Lemma same_s_trans a b c : same_s a b -> same_s b c -> same_s a c.
Proof. intros A B j. rewrite A. apply B. Qed.
Lemma same_pc_trans a b c : same_pc a b -> same_pc b c -> same_pc a c.
Proof. intros A B j. rewrite A. apply B. Qed.
Lemma same_s_of_wv a b : (forall j, wv_at a j = wv_at b j) -> same_s a b.
Proof. intros H j. apply wv_s_one, H. Qed.

Lemma updp_missing {A} (f : A -> A) : forall (l : list A) i, nth_opt i l = None -> upd_nth i f l = l.
Proof. induction l as [|x r IH]; intros i H; destruct i; simpl in *; try reflexivity; try discriminate. rewrite IH by exact H. reflexivity. Qed.

(* requiring the types the init function returns: only init, and only its bypass wiring, is touched *)
Lemma bypass_step te fs0 ip avail fs :
  (forall e, In e avail -> im_plist e <> []) -> same_s fs fs0 ->
  let fs1 := require_parameters te ip avail FBypass FOut (updp ip (set_bypassR []) fs) in
  same_s fs1 fs0 /\ same_pc fs1 fs /\
  (forall j, j <> ip -> wv_at fs1 j = wv_at fs j) /\
  (forall p', getp fs1 ip = Some p' -> exists p, getp fs ip = Some p /\ others_same FBypass p' p).
Proof.
  intros Hne Hs. cbv zeta.
  set (fsb := updp ip (set_bypassR []) fs).
  assert (Hsb : same_s fsb fs0) by (unfold same_s, fsb; apply same_s_updp; [reflexivity|exact Hs]).
  assert (Hpcb : same_pc fsb fs) by (intros j; apply pc_updp; intros p; reflexivity).
  assert (Hwb : forall j, j <> ip -> wv_at fsb j = wv_at fs j) by (intros j Hj; apply wv_at_updp_keep_other, Hj).
  destruct (getp fs ip) as [p|] eqn:Hp.
  - assert (Hpb : getp fsb ip = Some (set_bypassR [] p)) by (exact (getp_updp_same (set_bypassR []) fs ip p Hp)).
    destruct (require_spec te ip avail FBypass FOut fs0 eq_refl Hne fsb _ Hpb Hsb) as (p' & G & R & O & T & F & S).
    split; [exact S|]. split; [intros j; rewrite pc_require; apply Hpcb|].
    split; [intros j Hj; rewrite (F j Hj); apply Hwb, Hj|].
    intros q Hq. rewrite G in Hq. injection Hq as <-. exists p. split; [reflexivity|].
    eapply others_same_trans; [exact O|]. split; [reflexivity|]. split; [reflexivity|]. split; [tauto|].
    intros k' Hr Hk. destruct k'; try discriminate Hr; try reflexivity. exfalso. apply Hk. reflexivity.
  - (* no provider at ip: nothing happens *)
    assert (Efsb : fsb = fs) by (unfold fsb, updp; apply updp_missing; exact Hp).
    rewrite Efsb. rewrite require_parameters_unfold, Hp. cbn [fold_left].
    unfold updp. rewrite updp_missing by exact Hp.
    split; [exact Hs|]. split; [intros j; reflexivity|]. split; [intros j _; reflexivity|].
    intros p' Hq. unfold getp in *. congruence.
Qed.

(* one provider: require its inputs from what is available, then make its outputs available *)
Lemma rp_step te fs0 param outParam (lim lim' : nat -> Prop) i layer fs avail p :
  is_req param = true -> same_s fs fs0 -> av_ok fs0 outParam lim avail ->
  (forall j, lim j -> lim' j) -> lim' i -> getp fs i = Some p ->
  let st := provide_parameters te i avail outParam layer (require_parameters te i avail param outParam fs) in
  same_s (fst st) fs0 /\ same_pc (fst st) fs /\ av_ok fs0 outParam lim' (snd st) /\
  (forall j, j <> i -> wv_at (fst st) j = wv_at fs j) /\
  (exists p', getp (fst st) i = Some p' /\ wired te fs0 lim param outParam p' /\ others_same param p' p).
Proof.
  intros Hreq Hs Hav Hll Hli Hp. cbv zeta.
  assert (Hne : forall e, In e avail -> im_plist e <> []) by (intros e He; apply (Hav e He)).
  destruct (require_spec te i avail param outParam fs0 Hreq Hne fs p Hp Hs) as (p1 & G & R & O & T & F & S).
  set (fs2 := require_parameters te i avail param outParam fs) in *.
  assert (W : forall j, wv_at (fst (provide_parameters te i avail outParam layer fs2)) j = wv_at fs2 j)
    by (intros j; apply (provide_fst te i avail outParam layer fs2 j)).
  assert (PC : forall j, pc_at (fst (provide_parameters te i avail outParam layer fs2)) j = pc_at fs2 j)
    by (intros j; apply (provide_fst te i avail outParam layer fs2 j)).
  split; [eapply same_s_trans; [apply same_s_of_wv, W|exact S]|].
  split; [intros j; rewrite PC; unfold fs2; apply pc_require|].
  split.
  { rewrite provide_snd. apply av_ok_add; [eapply av_ok_weaken; eassumption|exact Hli|].
    intros t Ht. rewrite <- (pflow_at_same_s fs2 fs0 i outParam S). unfold pflow_at. exact Ht. }
  split; [intros j Hj; rewrite W; apply F, Hj|].
  specialize (W i). unfold wv_at in W. rewrite G in W.
  destruct (getp (fst (provide_parameters te i avail outParam layer fs2)) i) as [p'|]; [|discriminate W].
  simpl in W. assert (Wv : wv p' = wv p1) by congruence.
  exists p'. split; [reflexivity|]. split.
  - apply (wired_wv te fs0 lim param outParam p1 p' Wv).
    apply (wired_from_rinv te fs0 avail lim param outParam p1 p R Hav); [apply O|exact T].
  - unfold wv in Wv. injection Wv as W1 W2 W3 W4 W5 W6. destruct O as (O1 & O2 & O3 & O4).
    split; [congruence|]. split; [intros k' t Hk; rewrite W2; apply O2, Hk|].
    split; [intros e He; rewrite W3; apply O3, He|].
    intros k' Hr Hk. rewrite <- (O4 k' Hr Hk). destruct k'; simpl; congruence.
Qed.

(* ---------- the two passes of providesReturns ---------- *)
Definition down_step (te : tyenv) (initPos : option nat) (st : list prov * list imd) (i : nat) : list prov * list imd :=
  let (fs, avail) := st in
  if flagp p_cannot fs i then st else
  let fs1 := if flagp (fun p => class_eqb (p_class p) ClInvoke) fs i then
               match initPos with
               | Some ip => require_parameters te ip avail FBypass FOut (updp ip (set_bypassR []) fs)
               | None => fs
               end
             else fs in
  let fs2 := require_parameters te i avail FIn FOut fs1 in
  provide_parameters te i avail FOut (i + 2) fs2.

Definition up_step (te : tyenv) (n : nat) (st : list prov * list imd) (i : nat) : list prov * list imd :=
  let (fs, avail) := st in
  if flagp p_cannot fs i then st else
  let fs1 := require_parameters te i avail FRecv FRet fs in
  provide_parameters te i avail FRet (n - i + 2) fs1.

Lemma provides_returns_unfold te funcs :
  provides_returns te funcs =
  let n := length funcs in
  let funcs0 := map (set_deps no_deps) funcs in
  fst (fold_left (up_step te n) (rev (seq_from 0 n))
        (fst (fold_left (down_step te (find_class ClInit funcs0 0)) (seq_from 0 n) (funcs0, [])), [])).
Proof. reflexivity. Qed.

Lemma fold_seq_up {S} (P : nat -> S -> Prop) (f : S -> nat -> S) n :
  (forall i st, i < n -> P i st -> P (Datatypes.S i) (f st i)) ->
  forall k st, k <= n -> P k st -> P n (fold_left f (seq_from k (n - k)) st).
Proof.
  intros Hstep k. remember (n - k) as m eqn:Em. revert k Em.
  induction m as [|m IH]; intros k Em st Hk HP; cbn [seq_from fold_left].
  - replace n with k by lia. exact HP.
  - apply (IH (Datatypes.S k)); [lia|lia|]. apply Hstep; [lia|exact HP].
Qed.

Lemma rev_seq_from k m : rev (seq_from k (Datatypes.S m)) = (k + m) :: rev (seq_from k m).
Proof.
  revert k. induction m as [|m IH]; intros k.
  - simpl. rewrite Nat.add_0_r. reflexivity.
  - change (seq_from k (Datatypes.S (Datatypes.S m))) with (k :: seq_from (Datatypes.S k) (Datatypes.S m)).
    change (seq_from k (Datatypes.S m)) with (k :: seq_from (Datatypes.S k) m).
    cbn [rev]. rewrite IH. cbn [app]. replace (Datatypes.S k + m) with (k + Datatypes.S m) by lia. reflexivity.
Qed.

Lemma fold_seq_down {S} (P : nat -> S -> Prop) (f : S -> nat -> S) :
  forall n, (forall i st, i < n -> P (Datatypes.S i) st -> P i (f st i)) ->
  forall st, P n st -> P 0 (fold_left f (rev (seq_from 0 n)) st).
Proof.
  induction n as [|n IH]; intros Hstep st HP; [exact HP|].
  rewrite rev_seq_from. cbn [fold_left]. apply IH.
  - intros i st' Hi. apply Hstep. lia.
  - apply Hstep; [lia|exact HP].
Qed.

Section Passes.
  Variable te : tyenv.
  Variable fs0 : list prov.      (* the list providesReturns starts from (after the reset of the dependencies) *)

  Definition DI (i : nat) (st : list prov * list imd) : Prop :=
    same_s (fst st) fs0 /\ same_pc (fst st) fs0 /\
    av_ok fs0 FOut (fun j => j < i) (snd st) /\
    wired_all te fs0 (fst st) (fun j => j < i) (fun j d => d < j) FIn FOut.

  Lemma getp_same_s fs i : same_s fs fs0 -> i < length fs0 -> exists p, getp fs i = Some p.
  Proof.
    intros Hs Hi. specialize (Hs i). destruct (getp fs i) as [p|]; [eauto|].
    exfalso. unfold getp in Hs. destruct (nth_opt i fs0) eqn:E; [discriminate|].
    clear -E Hi. revert i E Hi. induction fs0 as [|x l IH]; intros i E Hi; simpl in *; [lia|].
    destruct i; [discriminate|]. apply (IH i E). lia.
  Qed.

  Lemma down_step_inv initPos i st : i < length fs0 -> DI i st -> DI (S i) (down_step te initPos st i).
  Proof.
    intros Hi (Hs & Hpc & Hav & Hw). destruct st as [fs avail]. cbn [fst snd] in *. unfold down_step.
    destruct (getp_same_s fs i Hs Hi) as [p Hp].
    destruct (flagp p_cannot fs i) eqn:Ec.
    { split; [exact Hs|]. split; [exact Hpc|]. split; [eapply av_ok_weaken; [|exact Hav]; intros j Hj; simpl in *; lia|].
      intros j q Hj Hq Hcq. cbn [fst snd] in *. destruct (Nat.eq_dec j i) as [->|Hn].
      - unfold flagp in Ec. rewrite Hq in Ec. congruence.
      - apply (Hw j q); [lia|exact Hq|exact Hcq]. }
    set (fs1 := if flagp (fun p => class_eqb (p_class p) ClInvoke) fs i then
               match initPos with
               | Some ip => require_parameters te ip avail FBypass FOut (updp ip (set_bypassR []) fs)
               | None => fs
               end else fs).
    assert (H1 : same_s fs1 fs0 /\ same_pc fs1 fs /\ wired_all te fs0 fs1 (fun j => j < i) (fun j d => d < j) FIn FOut).
    { unfold fs1. destruct (flagp (fun p => class_eqb (p_class p) ClInvoke) fs i); [|split; [exact Hs|split; [intros j; reflexivity|exact Hw]]].
      destruct initPos as [ip|]; [|split; [exact Hs|split; [intros j; reflexivity|exact Hw]]].
      assert (Hne : forall e, In e avail -> im_plist e <> []) by (intros e He; apply (Hav e He)).
      destruct (bypass_step te fs0 ip avail fs Hne Hs) as (A & B & C & D).
      split; [exact A|]. split; [exact B|].
      apply (wired_all_frame te fs0 fs _ _ _ FIn FOut FBypass ip eq_refl eq_refl); [discriminate|exact C|exact D|exact B|exact Hw]. }
    destruct H1 as (Hs1 & Hpc1 & Hw1).
    destruct (getp_same_s fs1 i Hs1 Hi) as [p1 Hp1].
    destruct (rp_step te fs0 FIn FOut (fun j => j < i) (fun j => j < S i) i (i + 2) fs1 avail p1 eq_refl Hs1 Hav) as (A & B & C & D & (p' & G & Wp & Op));
      [intros j Hj; lia|lia|exact Hp1|].
    split; [exact A|]. split; [eapply same_pc_trans; [exact B|eapply same_pc_trans; [exact Hpc1|exact Hpc]]|].
    split; [exact C|].
    intros j q Hj Hq Hcq. destruct (Nat.eq_dec j i) as [->|Hn].
    - rewrite G in Hq. injection Hq as <-. exact Wp.
    - specialize (D j Hn). unfold wv_at in D. rewrite Hq in D. destruct (getp fs1 j) as [q1|] eqn:Hq1; [|discriminate D].
      simpl in D. assert (Wv : wv q = wv q1) by congruence.
      apply (wired_wv te fs0 _ FIn FOut q1 q Wv). apply (Hw1 j q1); [lia|exact Hq1|].
      specialize (B j). unfold pc_at in B. rewrite Hq, Hq1 in B. simpl in B. congruence.
  Qed.

  Definition UI (n m : nat) (st : list prov * list imd) : Prop :=
    same_s (fst st) fs0 /\ same_pc (fst st) fs0 /\
    av_ok fs0 FRet (fun j => m <= j) (snd st) /\
    wired_all te fs0 (fst st) (fun j => m <= j) (fun j d => j < d) FRecv FRet /\
    wired_all te fs0 (fst st) (fun j => j < n) (fun j d => d < j) FIn FOut.

  Lemma up_step_inv n i st : n = length fs0 -> i < n -> UI n (S i) st -> UI n i (up_step te n st i).
  Proof.
    intros Hn Hi (Hs & Hpc & Hav & Hw & Hd). destruct st as [fs avail]. cbn [fst snd] in *. unfold up_step.
    destruct (getp_same_s fs i Hs ltac:(lia)) as [p Hp].
    destruct (flagp p_cannot fs i) eqn:Ec.
    { split; [exact Hs|]. split; [exact Hpc|]. split; [eapply av_ok_weaken; [|exact Hav]; intros j Hj; simpl in *; lia|].
      split; [|exact Hd].
      intros j q Hj Hq Hcq. cbn [fst snd] in *. destruct (Nat.eq_dec j i) as [->|Hne].
      - unfold flagp in Ec. rewrite Hq in Ec. congruence.
      - apply (Hw j q); [lia|exact Hq|exact Hcq]. }
    destruct (rp_step te fs0 FRecv FRet (fun j => S i <= j) (fun j => i <= j) i (n - i + 2) fs avail p eq_refl Hs Hav) as (A & B & C & D & (p' & G & Wp & Op));
      [intros j Hj; lia|lia|exact Hp|].
    split; [exact A|]. split; [eapply same_pc_trans; [exact B|exact Hpc]|]. split; [exact C|]. split.
    - intros j q Hj Hq Hcq. destruct (Nat.eq_dec j i) as [->|Hne].
      + rewrite G in Hq. injection Hq as <-. intros t Ht Hnt. destruct (Wp t Ht Hnt) as [L|(found & X & Y & Z)]; [left; exact L|].
        right. exists found. split; [exact X|]. split; [exact Y|]. intros dep Hdep. destruct (Z dep Hdep) as [Z1 Z2]. split; [lia|exact Z2].
      + specialize (D j Hne). unfold wv_at in D. rewrite Hq in D. destruct (getp fs j) as [q1|] eqn:Hq1; [|discriminate D].
        simpl in D. assert (Wv : wv q = wv q1) by congruence.
        apply (wired_wv te fs0 _ FRecv FRet q1 q Wv). apply (Hw j q1); [lia|exact Hq1|].
        specialize (B j). unfold pc_at in B. rewrite Hq, Hq1 in B. simpl in B. congruence.
    - apply (wired_all_frame te fs0 fs _ _ _ FIn FOut FRecv i eq_refl eq_refl); [discriminate|exact D| |exact B|exact Hd].
      intros q Hq. rewrite G in Hq. injection Hq as <-. exists p. split; [exact Hp|exact Op].
  Qed.
End Passes.

Lemma nth_opt_lt {A} (l : list A) i x : nth_opt i l = Some x -> i < length l.
Proof.
  revert i. induction l as [|y l IH]; intros i H; destruct i; simpl in *; try discriminate; [lia|].
  apply IH in H. lia.
Qed.

(* What providesReturns establishes (downward parameters and received values; the types the init
   function returns are checked separately by Bind). *)
Theorem provides_returns_wired te funcs :
  let fs := provides_returns te funcs in
  let fs0 := map (set_deps no_deps) funcs in
  same_s fs fs0 /\ same_pc fs fs0 /\
  wired_all te fs0 fs (fun _ => True) (fun j d => d < j) FIn FOut /\
  wired_all te fs0 fs (fun _ => True) (fun j d => j < d) FRecv FRet.
Proof.
  cbv zeta. rewrite provides_returns_unfold. cbv zeta.
  set (n := length funcs). set (fs0 := map (set_deps no_deps) funcs).
  assert (Hn : n = length fs0) by (unfold fs0; rewrite map_length; reflexivity).
  assert (D0 : DI te fs0 0 (fs0, [])).
  { split; [intros j; reflexivity|]. split; [intros j; reflexivity|]. split; [intros e []|]. intros j p Hj; lia. }
  assert (Dn : DI te fs0 n (fold_left (down_step te (find_class ClInit fs0 0)) (seq_from 0 n) (fs0, []))).
  { pose proof (fold_seq_up (DI te fs0) (down_step te (find_class ClInit fs0 0)) n) as F.
    specialize (F (fun i st Hi HD => down_step_inv te fs0 _ i st ltac:(lia) HD) 0 (fs0, []) ltac:(lia) D0).
    rewrite Nat.sub_0_r in F. exact F. }
  set (down := fold_left (down_step te (find_class ClInit fs0 0)) (seq_from 0 n) (fs0, [])) in *.
  destruct Dn as (Ds & Dpc & _ & Dw).
  assert (U0 : UI te fs0 n n (fst down, [])).
  { split; [exact Ds|]. split; [exact Dpc|]. split; [intros e []|]. split.
    - intros j p Hj Hp. cbn [fst] in Hp. exfalso.
      specialize (Ds j). rewrite Hp in Ds. simpl in Ds. destruct (getp fs0 j) as [q|] eqn:Hq; [|discriminate].
      unfold getp in Hq. apply nth_opt_lt in Hq. lia.
    - exact Dw. }
  pose proof (fold_seq_down (UI te fs0 n) (up_step te n) n (fun i st Hi HU => up_step_inv te fs0 n i st Hn Hi HU) _ U0) as Un.
  destruct Un as (Us & Upc & _ & Uw & Ud).
  split; [exact Us|]. split; [exact Upc|]. split.
  - intros j p _ Hp Hc. apply (Ud j p); [|exact Hp|exact Hc].
    specialize (Us j). rewrite Hp in Us. simpl in Us. destruct (getp fs0 j) as [q|] eqn:Hq; [|discriminate].
    unfold getp in Hq. apply nth_opt_lt in Hq. lia.
  - intros j p _ Hp Hc. apply (Uw j p); [lia|exact Hp|exact Hc].
Qed.

(* the excluded marks after providesReturns *)
Lemma px_provide te pos avail param layer funcs j : px_at (fst (provide_parameters te pos avail param layer funcs)) j = px_at funcs j.
Proof. unfold provide_parameters. cbn [fst]. apply px_updp. intros p. reflexivity. Qed.

Lemma px_down_step te initPos st i j : px_at (fst (down_step te initPos st i)) j = px_at (fst st) j.
Proof.
  destruct st as [fs avail]. unfold down_step. destruct (flagp p_cannot fs i); [reflexivity|].
  rewrite px_provide, px_require. cbn [fst].
  destruct (flagp (fun p => class_eqb (p_class p) ClInvoke) fs i); [|reflexivity].
  destruct initPos as [ip|]; [|reflexivity]. rewrite px_require. apply px_updp. intros p. reflexivity.
Qed.

Lemma px_up_step te n st i j : px_at (fst (up_step te n st i)) j = px_at (fst st) j.
Proof.
  destruct st as [fs avail]. unfold up_step. destruct (flagp p_cannot fs i); [reflexivity|].
  rewrite px_provide, px_require. reflexivity.
Qed.

Lemma provides_returns_px te funcs j : px_at (provides_returns te funcs) j = px_at funcs j.
Proof.
  rewrite provides_returns_unfold. cbv zeta.
  assert (U : forall l st, px_at (fst (fold_left (up_step te (length funcs)) l st)) j = px_at (fst st) j).
  { induction l as [|i r IH]; intros st; cbn [fold_left]; [reflexivity|]. rewrite IH. apply px_up_step. }
  assert (D : forall ip l st, px_at (fst (fold_left (down_step te ip) l st)) j = px_at (fst st) j).
  { intros ip. induction l as [|i r IH]; intros st; cbn [fold_left]; [reflexivity|]. rewrite IH. apply px_down_step. }
  rewrite U. cbn [fst]. rewrite D. cbn [fst]. unfold px_at, getp. rewrite nth_opt_map.
  destruct (nth_opt j funcs); reflexivity.
Qed.
