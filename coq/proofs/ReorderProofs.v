(* Reorder (reorder.go): the result is a permutation of the input list.  (C17, C04: no provider
   is lost or duplicated by reordering) *)
From Coq Require Import List Arith Bool Lia Permutation.
Import ListNotations.
From NJ Require Import Base Registry Classify Select Reorder.

(* ---------- seq_from ---------- *)
Lemma seq_from_length s n : length (seq_from s n) = n.
Proof. revert s; induction n as [|n IH]; intros s; simpl; [reflexivity | rewrite IH; reflexivity]. Qed.

Lemma seq_from_in s n x : In x (seq_from s n) <-> s <= x < s + n.
Proof.
  revert s; induction n as [|n IH]; intros s; simpl; [lia|].
  rewrite IH. lia.
Qed.

Lemma seq_from_nodup s n : NoDup (seq_from s n).
Proof.
  revert s; induction n as [|n IH]; intros s; simpl; [constructor|].
  constructor; [|apply IH]. rewrite seq_from_in. lia.
Qed.

Lemma NoDup_app_intro_single {A} (l : list A) x : NoDup l -> ~ In x l -> NoDup (l ++ [x]).
Proof.
  induction l as [|y r IH]; intros Hnd Hn; simpl; [constructor; [intros [] | constructor]|].
  inversion Hnd; subst. constructor.
  - intros H. apply in_app_or in H. destruct H as [H|[H|[]]]; [contradiction | subst; apply Hn; left; reflexivity].
  - apply IH; [assumption | intros H; apply Hn; right; exact H].
Qed.

Lemma NoDup_app_intro {A} (a b : list A) : NoDup a -> NoDup b -> (forall x, In x a -> In x b -> False) -> NoDup (a ++ b).
Proof.
  induction a as [|x r IH]; intros Ha Hb Hd; simpl; [exact Hb|].
  inversion Ha; subst. constructor.
  - intros H. apply in_app_or in H. destruct H as [H|H]; [contradiction | apply (Hd x); [left; reflexivity | exact H]].
  - apply IH; [assumption | assumption | intros y Hy1 Hy2; apply (Hd y); [right; exact Hy1 | exact Hy2]].
Qed.

(* ---------- what the topological sort keeps invariant ---------- *)
Section Topo.
  Variable te : tyenv.
  Variable funcs : list prov.
  Variable downTypes upTypes : list (nat * nat).
  Let n := length funcs.

  Definition od (x : topo) : list nat * list nat := (t_out x, t_done x).

  Lemma release_od m i x : od (release funcs m i x) = od x.
  Proof.
    unfold release. destruct (length funcs <=? m); [reflexivity|].
    destruct (n_after _); [destruct (n_wafter _)|]; reflexivity.
  Qed.

  Lemma fold_release_od (f : topo -> nat -> topo) l : (forall x m, od (f x m) = od x) -> forall x, od (fold_left f l x) = od x.
  Proof. intros Hf. induction l as [|m r IH]; intros x; simpl; [reflexivity|]. rewrite IH. apply Hf. Qed.

  Lemma release_node_od i x : od (release_node funcs i x) = od x.
  Proof. unfold release_node. rewrite fold_release_od; [reflexivity|]. intros x' m. apply release_od. Qed.

  Lemma release_provider_od i p x : od (release_provider te funcs downTypes upTypes i p x) = od x.
  Proof.
    unfold release_provider. rewrite fold_release_od.
    - rewrite fold_release_od; [reflexivity|]. intros x' t. destruct (alookup t downTypes); [apply release_od | reflexivity].
    - intros x' t. destruct (alookup t upTypes); [apply release_od | reflexivity].
  Qed.

  Definition tinv (x : topo) : Prop :=
    NoDup (t_out x) /\ (forall i, In i (t_out x) -> In i (t_done x) /\ i < n).

  Lemma getp_some_lt i (p : prov) : getp funcs i = Some p -> i < n.
  Proof.
    unfold getp, n. revert i. induction funcs as [|x r IH]; intros i H; destruct i; simpl in *; try discriminate; [lia|].
    apply IH in H. lia.
  Qed.

  Lemma memb_in x l : memb x l = true <-> In x l.
  Proof.
    induction l as [|y r IH]; simpl; [split; [discriminate | intros []]|].
    rewrite orb_true_iff, Nat.eqb_eq, IH. split; intros [H|H]; auto.
  Qed.

  Lemma tinv_od x y : od x = od y -> tinv y -> tinv x.
  Proof. unfold od, tinv. intros E H. inversion E as [[E1 E2]]. rewrite E1, E2. exact H. Qed.

  Lemma process_one_inv i rel x : tinv x -> tinv (process_one te funcs downTypes upTypes i rel x).
  Proof.
    intros [Hnd Hin]. unfold process_one.
    destruct (memb i (t_done x)) eqn:Ed; [split; assumption|].
    assert (Hnotdone : ~ In i (t_done x)) by (intro H; apply memb_in in H; rewrite H in Ed; discriminate).
    assert (Hmark : tinv (mkTopo (t_nodes x) (t_cannot x) (t_unblocked x) (t_weak x) (i :: t_done x) (t_out x))).
    { split; simpl; [exact Hnd|]. intros j Hj. destruct (Hin j Hj) as [H1 H2]. split; [right; exact H1 | exact H2]. }
    destruct (length funcs <? i).
    - destruct rel; [|exact Hmark].
      eapply tinv_od; [apply release_node_od | exact Hmark].
    - destruct (getp funcs i) as [p|] eqn:Ep; [|exact Hmark].
      assert (Hbase : tinv (mkTopo (t_nodes x) (t_cannot x) (t_unblocked x) (t_weak x) (i :: t_done x) (t_out x ++ [i]))).
      { split; simpl.
        - apply NoDup_app_intro_single; [exact Hnd|]. intros Hi. apply Hnotdone. apply (Hin i Hi).
        - intros j Hj. apply in_app_or in Hj. destruct Hj as [Hj|[Hj|[]]].
          + destruct (Hin j Hj) as [H1 H2]. split; [right; exact H1 | exact H2].
          + subst j. split; [left; reflexivity | eapply getp_some_lt; eauto]. }
      destruct (negb rel); [exact Hbase|].
      eapply tinv_od; [apply release_provider_od|]. eapply tinv_od; [apply release_node_od | exact Hbase].
  Qed.

  Lemma topo_run_inv : forall fuel x, tinv x -> tinv (topo_run te funcs downTypes upTypes fuel x).
  Proof.
    induction fuel as [|fuel IH]; intros x Hx; simpl; [exact Hx|].
    destruct (t_unblocked x) as [|[pr i] q].
    - destruct (t_weak x) as [|[pr i] q].
      + destruct (t_cannot x) as [|i r]; [exact Hx|].
        apply IH. apply process_one_inv. exact Hx.
      + apply IH. apply process_one_inv. exact Hx.
    - apply IH. apply process_one_inv. exact Hx.
  Qed.
End Topo.

Lemma push_un_od funcs i x : od (push_un funcs i x) = od x.
Proof. reflexivity. Qed.

Lemma init_push_od te funcs dt x0 : od (init_push te funcs dt x0) = od x0.
Proof.
  unfold init_push. destruct (find_class ClInit funcs 0) as [ip|]; [|reflexivity].
  destruct (getp funcs ip) as [p|]; [|reflexivity].
  apply fold_release_od. intros x t. destruct (alookup t dt); reflexivity.
Qed.

(* every position < n holds a provider *)
Lemma getp_lt_some (funcs : list prov) i : i < length funcs -> exists p, getp funcs i = Some p.
Proof.
  unfold getp. revert i. induction funcs as [|x r IH]; intros i H; simpl in H; [lia|].
  destruct i; simpl; [eexists; reflexivity|]. apply IH. lia.
Qed.

Notation pick funcs := (fun i => match getp funcs i with Some p => [p] | None => [] end) (only parsing).

Lemma pick_pids funcs l : (forall i, In i l -> i < length funcs) ->
  map p_pid (flat_map (pick funcs) l) = map (fun i => match getp funcs i with Some p => p_pid p | None => 0 end) l.
Proof.
  induction l as [|i r IH]; intros H; simpl; [reflexivity|].
  destruct (getp_lt_some funcs i (H i (or_introl eq_refl))) as [p Hp]. rewrite Hp. simpl.
  rewrite IH; [reflexivity|]. intros j Hj. apply H. right. exact Hj.
Qed.

Lemma pick_cannot_pids funcs l : (forall i, In i l -> i < length funcs) ->
  map p_pid (flat_map (fun i => map (set_cannot true) (pick funcs i)) l)
  = map (fun i => match getp funcs i with Some p => p_pid p | None => 0 end) l.
Proof.
  induction l as [|i r IH]; intros H; simpl; [reflexivity|].
  destruct (getp_lt_some funcs i (H i (or_introl eq_refl))) as [p Hp]. rewrite Hp. simpl.
  rewrite IH; [reflexivity|]. intros j Hj. apply H. right. exact Hj.
Qed.

Lemma idx_pids (funcs : list prov) :
  map (fun i => match getp funcs i with Some p => p_pid p | None => 0 end) (seq_from 0 (length funcs)) = map p_pid funcs.
Proof.
  assert (H : forall (l pre : list prov), map (fun i => match getp (pre ++ l) i with Some p => p_pid p | None => 0 end)
                                           (seq_from (length pre) (length l)) = map p_pid l).
  { induction l as [|x r IH]; intros pre; simpl; [reflexivity|].
    f_equal.
    - unfold getp. clear. induction pre as [|y d IHd]; simpl; [reflexivity | exact IHd].
    - specialize (IH (pre ++ [x])). rewrite <- app_assoc in IH. simpl in IH.
      rewrite app_length in IH. simpl in IH. rewrite Nat.add_1_r in IH. exact IH. }
  apply (H funcs []).
Qed.

(* Reorder never loses or duplicates a provider: the reordered list is a permutation of the
   input (as provider ids; providers whose dependencies cannot be met are marked cannotInclude). *)
Theorem reorder_perm te funcs funcs' :
  reorder_funcs te funcs = Ok funcs' -> Permutation (map p_pid funcs') (map p_pid funcs).
Proof.
  unfold reorder_funcs. destruct (negb (existsb is_reorder funcs)); [intros H; inversion H; apply Permutation_refl|].
  set (n := length funcs).
  match goal with |- context [topo_run te funcs ?D ?U ?F ?X] =>
    pose proof (topo_run_inv te funcs D U F X) as Hinv; set (xf := topo_run te funcs D U F X) in * end.
  intros H.
  match type of H with (if ?c then _ else _) = _ => destruct c eqn:El; [|discriminate] end.
  inversion H; subst funcs'; clear H. apply Nat.eqb_eq in El.
  assert (Hxf : tinv funcs xf).
  { apply Hinv. eapply tinv_od; [apply init_push_od|]. split; simpl; [constructor | intros i []]. }
  destruct Hxf as [Hnd Hin].
  set (out := t_out xf) in *.
  set (missing := filter (fun i => negb (memb i (t_done xf))) (seq_from 0 n)) in *.
  assert (Hout_lt : forall i, In i out -> i < n) by (intros i Hi; apply (Hin i Hi)).
  assert (Hmiss_lt : forall i, In i missing -> i < n).
  { intros i Hi. apply filter_In in Hi. destruct Hi as [Hi _]. apply seq_from_in in Hi. lia. }
  rewrite map_app. rewrite (pick_pids funcs out Hout_lt). rewrite (pick_cannot_pids funcs missing Hmiss_lt).
  rewrite <- map_app. rewrite <- (idx_pids funcs). apply Permutation_map.
  apply NoDup_Permutation_bis.
  - (* NoDup (out ++ missing) *)
    apply NoDup_app_intro.
    + exact Hnd.
    + apply NoDup_filter. apply seq_from_nodup.
    + intros i Ho Hm. apply filter_In in Hm. destruct Hm as [_ Hm]. apply negb_true_iff in Hm.
      destruct (Hin i Ho) as [Hd _]. apply memb_in in Hd. rewrite Hd in Hm. discriminate.
  - (* lengths *)
    rewrite seq_from_length. fold n.
    rewrite app_length in El.
    assert (L1 : length (flat_map (pick funcs) out) = length out).
    { clear - Hout_lt. induction out as [|i r IH]; simpl; [reflexivity|].
      destruct (getp_lt_some funcs i (Hout_lt i (or_introl eq_refl))) as [p Hp]. rewrite Hp. simpl.
      rewrite IH; [reflexivity|]. intros j Hj. apply Hout_lt. right. exact Hj. }
    assert (L2 : length (flat_map (fun i => map (set_cannot true) (pick funcs i)) missing) = length missing).
    { clear - Hmiss_lt. induction missing as [|i r IH]; simpl; [reflexivity|].
      destruct (getp_lt_some funcs i (Hmiss_lt i (or_introl eq_refl))) as [p Hp]. rewrite Hp. simpl.
      rewrite IH; [reflexivity|]. intros j Hj. apply Hmiss_lt. right. exact Hj. }
    rewrite L1, L2 in El. rewrite app_length. lia.
  - intros i Hi. apply seq_from_in. apply in_app_or in Hi. destruct Hi as [Hi|Hi]; [apply Hout_lt in Hi | apply Hmiss_lt in Hi]; fold n; lia.
Qed.

