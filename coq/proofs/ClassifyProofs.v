(* Classification (characterize.go) against the GENERATED table Registry.v: which providers are
   hoisted into the static set.  Re-checked whenever the table is regenerated.  (C06, C04) *)
From Coq Require Import List Arith Bool Lia.
Import ListNotations.
From NJ Require Import Base Registry Classify.

(* ---------- first-match over predicate truth values ---------- *)
Fixpoint first_match (holds : predT -> bool) (reg : list entry) : option entry :=
  match reg with
  | [] => None
  | e :: r => if forallb holds (e_tests e) then Some e else first_match holds r
  end.

Lemma classify_reg_first_match te d cc : forall reg,
  classify_reg te reg d cc = option_map (apply_entry te d) (first_match (pred_holds te d cc) reg).
Proof.
  induction reg as [|e r IH]; simpl; [reflexivity|].
  destruct (forallb (pred_holds te d cc) (e_tests e)); [reflexivity | exact IH].
Qed.

(* a successful classification is a first match of the table *)
Lemma classify_first_match te d cc reg s :
  classify_in te reg d cc = Some s ->
  option_map (apply_entry te d) (first_match (pred_holds te d cc) reg) = Some s.
Proof.
  unfold classify_in. rewrite <- classify_reg_first_match. destruct (d_shape d); try (intros H; exact H). discriminate.
Qed.

Lemma first_match_in holds : forall reg e, first_match holds reg = Some e ->
  In e reg /\ forallb holds (e_tests e) = true.
Proof.
  induction reg as [|x r IH]; intros e H; simpl in H; [discriminate|].
  destruct (forallb holds (e_tests x)) eqn:E.
  - inversion H; subst. split; [left; reflexivity | exact E].
  - destruct (IH e H) as [H1 H2]. split; [right; exact H1 | exact H2].
Qed.

Definition pred_eqb (a b : predT) : bool :=
  match a, b with
  | P_notNil, P_notNil | P_notFunc, P_notFunc | P_isFunc, P_isFunc | P_isLast, P_isLast | P_notLast, P_notLast
  | P_unstaticOkay, P_unstaticOkay | P_inStatic, P_inStatic | P_hasOutputs, P_hasOutputs
  | P_mustNotMemoize, P_mustNotMemoize | P_markedMemoized, P_markedMemoized | P_markedCacheable, P_markedCacheable
  | P_markedSingleton, P_markedSingleton | P_notMarkedReorder, P_notMarkedReorder
  | P_notMarkedSingleton, P_notMarkedSingleton | P_notMarkedNoCache, P_notMarkedNoCache
  | P_mappableInputs, P_mappableInputs | P_possibleMapKey, P_possibleMapKey
  | P_returnsTerminalError, P_returnsTerminalError | P_noAnonymousFuncs, P_noAnonymousFuncs
  | P_noAnonymousExceptFirstInput, P_noAnonymousExceptFirstInput | P_hasInner, P_hasInner
  | P_isFuncPointer, P_isFuncPointer | P_isNotFuncPointer, P_isNotFuncPointer => true
  | _, _ => false
  end.

Lemma pred_eqb_eq a b : pred_eqb a b = true -> a = b.
Proof. destruct a, b; simpl; intros H; try discriminate; reflexivity. Qed.

Definition has_test (p : predT) (e : entry) : bool := existsb (pred_eqb p) (e_tests e).

Lemma has_test_holds holds p e : has_test p e = true -> forallb holds (e_tests e) = true -> holds p = true.
Proof.
  unfold has_test. intros H F. apply existsb_exists in H. destruct H as [q [Hq E]].
  apply pred_eqb_eq in E. subst q. rewrite forallb_forall in F. apply F. exact Hq.
Qed.

(* ---------- facts about the table, checked by computation on the generated data ---------- *)
(* every prototype that hoists into the static set demands: a function, marked cacheable, not
   NotCacheable, inputs static, not last, no anonymous func parameters, not a func pointer *)
Definition static_entry_ok (e : entry) : bool :=
  negb (group_eqb (e_group e) GStatic) ||
  (has_test P_isFunc e && has_test P_markedCacheable e && has_test P_notMarkedNoCache e &&
   has_test P_inStatic e && has_test P_notLast e && has_test P_noAnonymousFuncs e && has_test P_isNotFuncPointer e).

Lemma table_static_entries : forallb static_entry_ok handlerRegistry = true.
Proof. vm_compute. reflexivity. Qed.

(* every prototype for a function that does NOT hoist (run group, final) demands unstaticOkay,
   i.e. refuses MustCache / Singleton providers *)
Definition nonstatic_func_entry_ok (e : entry) : bool :=
  group_eqb (e_group e) GStatic || negb (has_test P_isFunc e) || has_test P_unstaticOkay e.

Lemma table_nonstatic_entries : forallb nonstatic_func_entry_ok handlerRegistry = true.
Proof. vm_compute. reflexivity. Qed.

(* literal values are never functions; only literals land in the literal group *)
Definition literal_entry_ok (e : entry) : bool :=
  (negb (group_eqb (e_group e) GLiteral) || has_test P_notFunc e) &&
  (group_eqb (e_group e) GLiteral || has_test P_isFunc e).
Lemma table_literal_entries : forallb literal_entry_ok handlerRegistry = true.
Proof. vm_compute. reflexivity. Qed.

(* ---------- theorems ---------- *)
Theorem static_requires te d cc s :
  characterizeFunc te d cc = Some s -> s_group s = GStatic ->
  is_func_shape (d_shape d) = true /\ d_cacheable d = true /\ d_notCacheable d = false /\
  cc_inputsAreStatic cc = true /\ cc_isLast cc = false.
Proof.
  unfold characterizeFunc. intros H0. apply classify_first_match in H0. revert H0.
  destruct (first_match (pred_holds te d cc) handlerRegistry) as [e|] eqn:Em; [|discriminate].
  simpl. intros H Hg. inversion H; subst s. simpl in Hg.
  destruct (first_match_in _ _ _ Em) as [Hin Hall].
  pose proof table_static_entries as T. rewrite forallb_forall in T. specialize (T e Hin).
  unfold static_entry_ok in T. rewrite Hg in T. simpl in T.
  repeat (apply andb_true_iff in T; let H' := fresh "T" in destruct T as [T H']).
  pose proof (has_test_holds _ _ _ T Hall) as H1. pose proof (has_test_holds _ _ _ T5 Hall) as H2.
  pose proof (has_test_holds _ _ _ T4 Hall) as H3. pose proof (has_test_holds _ _ _ T3 Hall) as H4.
  pose proof (has_test_holds _ _ _ T2 Hall) as H5.
  simpl in H1, H2, H3, H4, H5.
  repeat split; auto.
  - apply negb_true_iff. exact H3.
  - apply negb_true_iff. exact H5.
Qed.

(* MustCache (hence Singleton): hoisted or Bind fails *)
Theorem must_cache_or_fail te d cc s :
  characterizeFunc te d cc = Some s -> d_mustCache d = true -> is_func_shape (d_shape d) = true ->
  s_group s = GStatic.
Proof.
  unfold characterizeFunc. intros H0. apply classify_first_match in H0. revert H0.
  destruct (first_match (pred_holds te d cc) handlerRegistry) as [e|] eqn:Em; [|discriminate].
  simpl. intros H Hm Hf. inversion H; subst s. simpl.
  destruct (first_match_in _ _ _ Em) as [Hin Hall].
  pose proof table_nonstatic_entries as T. rewrite forallb_forall in T. specialize (T e Hin).
  unfold nonstatic_func_entry_ok in T.
  destruct (group_eqb (e_group e) GStatic) eqn:Eg.
  - destruct (e_group e); simpl in Eg; try discriminate. reflexivity.
  - simpl in T. apply orb_true_iff in T. destruct T as [T|T].
    + (* the entry does not demand isFunc: then it is the literal entry, which demands notFunc *)
      pose proof table_literal_entries as L. rewrite forallb_forall in L. specialize (L e Hin).
      unfold literal_entry_ok in L. apply andb_true_iff in L. destruct L as [L1 L2].
      apply negb_true_iff in T. rewrite T in L2. rewrite orb_false_r in L2.
      rewrite L2 in L1. simpl in L1.
      pose proof (has_test_holds _ _ _ L1 Hall) as Hn. simpl in Hn. rewrite Hf in Hn. discriminate.
    + pose proof (has_test_holds _ _ _ T Hall) as Hu. simpl in Hu. rewrite Hm in Hu. discriminate.
Qed.

(* NotCacheable overrides Cacheable; a provider depending on per-invocation input is never hoisted *)
Corollary notcacheable_never_static te d cc s :
  characterizeFunc te d cc = Some s -> d_notCacheable d = true -> s_group s <> GStatic.
Proof. intros H Hn Hg. destruct (static_requires te d cc s H Hg) as (_ & _ & Hc & _). congruence. Qed.

Corollary tainted_never_static te d cc s :
  characterizeFunc te d cc = Some s -> cc_inputsAreStatic cc = false -> s_group s <> GStatic.
Proof. intros H Hn Hg. destruct (static_requires te d cc s H Hg) as (_ & _ & _ & Hc & _). congruence. Qed.

Corollary uncacheable_never_static te d cc s :
  characterizeFunc te d cc = Some s -> d_cacheable d = false -> s_group s <> GStatic.
Proof. intros H Hn Hg. destruct (static_requires te d cc s H Hg) as (_ & Hc & _). congruence. Qed.

(* Sufficiency: a cacheable function with static, hashable inputs that produces a value or a
   TerminalError and is not marked Reorder/NotCacheable is hoisted, whatever else is annotated. *)
Definition holds_of (isLast inStatic cacheable mustCache memoize singleton reorder notCacheable
                     hasOutputs returnsTE : bool) (p : predT) : bool :=
  match p with
  | P_notNil => true | P_notFunc => false | P_isFunc => true
  | P_isLast => isLast | P_notLast => negb isLast
  | P_unstaticOkay => negb mustCache | P_inStatic => inStatic | P_hasOutputs => hasOutputs
  | P_mustNotMemoize => negb memoize | P_markedMemoized => memoize | P_markedCacheable => cacheable
  | P_markedSingleton => singleton | P_notMarkedReorder => negb reorder | P_notMarkedSingleton => negb singleton
  | P_notMarkedNoCache => negb notCacheable | P_mappableInputs => true | P_possibleMapKey => true
  | P_returnsTerminalError => returnsTE | P_noAnonymousFuncs => true | P_noAnonymousExceptFirstInput => true
  | P_hasInner => false | P_isFuncPointer => false | P_isNotFuncPointer => true
  end.

Lemma hoist_sufficient_table : forall mustCache memoize singleton hasOutputs returnsTE,
  (hasOutputs || returnsTE) = true ->
  match first_match (holds_of false true true mustCache memoize singleton false false hasOutputs returnsTE) handlerRegistry with
  | Some e => e_group e = GStatic
  | None => True      (* no prototype matches (e.g. Memoize + Singleton): Bind fails *)
  end.
Proof. intros [] [] [] [] []; simpl; intros H; try discriminate; vm_compute; try reflexivity; exact I. Qed.

Lemma forallb_ext {A} (f g : A -> bool) : (forall x, f x = g x) -> forall l, forallb f l = forallb g l.
Proof. intros H. induction l as [|x r IH]; simpl; [reflexivity|]. rewrite H, IH. reflexivity. Qed.

Lemma first_match_ext f g : (forall p, f p = g p) -> forall reg, first_match f reg = first_match g reg.
Proof.
  intros H. induction reg as [|e r IH]; simpl; [reflexivity|].
  rewrite (forallb_ext f g H). rewrite IH. reflexivity.
Qed.

(* a plain function with hashable, named parameter types *)
Definition plain_fn (te : tyenv) (d : pdesc) : Prop :=
  exists ins outs, d_shape d = ShFn ins outs /\
    forallb (fun t => mappable_t te t && mapkey_t te t && negb (anonfunc_t te t)) ins = true /\
    forallb (fun t => negb (anonfunc_t te t)) outs = true.

Lemma forallb_map {A B} (f : B -> bool) (g : A -> B) l : forallb f (map g l) = forallb (fun x => f (g x)) l.
Proof. induction l as [|x r IH]; simpl; [reflexivity|]. rewrite IH. reflexivity. Qed.
Lemma existsb_map {A B} (f : B -> bool) (g : A -> B) l : existsb f (map g l) = existsb (fun x => f (g x)) l.
Proof. induction l as [|x r IH]; simpl; [reflexivity|]. rewrite IH. reflexivity. Qed.
Lemma existsb_false_of_forallb_neg {A} (f : A -> bool) l : forallb (fun x => negb (f x)) l = true -> existsb f l = false.
Proof. induction l as [|x r IH]; simpl; [reflexivity|]. intros H. apply andb_true_iff in H. destruct H as [H1 H2].
  apply negb_true_iff in H1. rewrite H1, IH; auto. Qed.

Theorem hoist_sufficient te d s :
  plain_fn te d -> d_cacheable d = true -> d_notCacheable d = false -> d_reorder d = false ->
  (negb (length (strip_unused te (typesOut (d_shape d))) =? 0) || memb (te_terminalT te) (typesOut (d_shape d))) = true ->
  characterizeFunc te d (mkCC false true) = Some s -> s_group s = GStatic.
Proof.
  intros (ins & outs & Hs & Hins & Houts) Hc Hn Hr Ho. unfold characterizeFunc. intros H0. apply classify_first_match in H0. revert H0.
  assert (Hp : forall p, pred_holds te d (mkCC false true) p =
             holds_of false true true (d_mustCache d) (d_memoize d) (d_singleton d) false false
                      (negb (length (strip_unused te (typesOut (d_shape d))) =? 0))
                      (memb (te_terminalT te) (typesOut (d_shape d))) p).
  { assert (Hm : forallb (pt_mappable te) (map PT ins) = true).
    { rewrite forallb_map. simpl. rewrite forallb_forall in Hins |- *. intros t Ht. specialize (Hins t Ht).
      apply andb_true_iff in Hins. destruct Hins as [Hx _]. apply andb_true_iff in Hx. apply Hx. }
    assert (Hk : forallb (pt_mapkey te) (map PT ins) = true).
    { rewrite forallb_map. simpl. rewrite forallb_forall in Hins |- *. intros t Ht. specialize (Hins t Ht).
      apply andb_true_iff in Hins. destruct Hins as [Hx _]. apply andb_true_iff in Hx. apply Hx. }
    assert (Ha : existsb (pt_anon te) (map PT ins) = false).
    { rewrite existsb_map. simpl. apply existsb_false_of_forallb_neg.
      rewrite forallb_forall in Hins |- *. intros t Ht. specialize (Hins t Ht).
      apply andb_true_iff in Hins. apply Hins. }
    assert (Hao : existsb (anonfunc_t te) outs = false) by (apply existsb_false_of_forallb_neg; exact Houts).
    assert (Hat : existsb (pt_anon te) (tl (map PT ins)) = false).
    { destruct ins as [|x r]; [reflexivity|]. simpl in Ha |- *. apply orb_false_iff in Ha. apply Ha. }
    intros p. destruct p; simpl; rewrite ?Hs, ?Hc, ?Hn, ?Hr; simpl; rewrite ?Hm, ?Hk, ?Ha, ?Hao, ?Hat; reflexivity. }
  rewrite (first_match_ext _ _ Hp).
  pose proof (hoist_sufficient_table (d_mustCache d) (d_memoize d) (d_singleton d) _ _ Ho) as T.
  destruct (first_match _ handlerRegistry) as [e|]; [|discriminate].
  simpl. intros H. inversion H; subst. exact T.
Qed.

(* ---------- taint: what depends on per-invocation data is never hoisted ---------- *)
Lemma existsb_false_forall {A} (f : A -> bool) l : existsb f l = false -> forall x, In x l -> f x = false.
Proof.
  induction l as [|y r IH]; simpl; intros H x Hx; [destruct Hx|].
  apply orb_false_iff in H. destruct H as [H1 H2]. destruct Hx as [E|Hx]; [subst; exact H1 | apply IH; assumption].
Qed.

Lemma group_eqb_eq a b : group_eqb a b = true -> a = b.
Proof. destruct a, b; simpl; try discriminate; reflexivity. Qed.

(* a provider that stays static has no input whose type is non-static, nor an interface input that
   a provider Loose for it may satisfy with a non-static type *)
Theorem taint_sound te d isLast looseFor nonStatic s :
  char_one te d isLast looseFor nonStatic = Some s -> s_group s = GStatic ->
  forall t, In t (fl (f_in (s_flows s))) ->
    memb t nonStatic = false /\
    forall T, In (t, T) looseFor -> memb T nonStatic = false.
Proof.
  unfold char_one. destruct (characterizeFunc te d (mkCC isLast true)) as [s0|] eqn:E0; [|discriminate].
  destruct (group_eqb (s_group s0) GStatic && existsb (tainted_in looseFor nonStatic) (fl (f_in (s_flows s0)))) eqn:Eb.
  - intros H Hg. exfalso. eapply (tainted_never_static te d (mkCC isLast false) s H); [reflexivity | exact Hg].
  - intros H Hg t Ht. inversion H; subst s0.
    rewrite Hg in Eb. simpl in Eb.
    pose proof (existsb_false_forall _ _ Eb t Ht) as Ef. unfold tainted_in in Ef.
    apply orb_false_iff in Ef. destruct Ef as [E1 E2]. split; [exact E1|].
    intros T HT. pose proof (existsb_false_forall _ _ E2 (t, T) HT) as E3. cbn [fst snd] in E3.
    rewrite Nat.eqb_refl in E3. exact E3.
Qed.

(* the taint set only grows, by the outputs of invoke-time providers *)
Theorem static_classification_is_table_driven te d isLast looseFor nonStatic s :
  char_one te d isLast looseFor nonStatic = Some s -> s_group s = GStatic ->
  is_func_shape (d_shape d) = true /\ d_cacheable d = true /\ d_notCacheable d = false /\ isLast = false.
Proof.
  unfold char_one. destruct (characterizeFunc te d (mkCC isLast true)) as [s0|] eqn:E0; [|discriminate].
  destruct (group_eqb (s_group s0) GStatic && existsb (tainted_in looseFor nonStatic) (fl (f_in (s_flows s0)))) eqn:Eb.
  - intros H Hg. exfalso. eapply (tainted_never_static te d (mkCC isLast false) s H); [reflexivity | exact Hg].
  - intros H Hg. inversion H; subst s0.
    destruct (static_requires te d (mkCC isLast true) s E0 Hg) as (H1 & H2 & H3 & _ & H5). simpl in H5. auto.
Qed.
