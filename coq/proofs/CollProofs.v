(* C13: grouping, naming and Unused parameters are neutral. *)
From Coq Require Import List Arith Bool Lia.
Import ListNotations.
From NJ Require Import Base Collections Edits Registry Classify Select Reorder Machine Spec Bind EditsProofs.

(* ---------- induction principle for construction expressions ---------- *)
Section CexprInd.
  Variable P : cexpr -> Prop.
  Hypothesis Hprov : forall d, P (CProv d).
  Hypothesis Hseq : forall n items, Forall P items -> P (CSeq n items).
  Hypothesis Happ : forall b n items, P b -> Forall P items -> P (CApp b n items).
  Hypothesis Hann : forall f e, P e -> P (CAnn f e).
  Fixpoint cexpr_ind' (e : cexpr) : P e :=
    match e with
    | CProv d => Hprov d
    | CSeq n items => Hseq n items ((fix go (l : list cexpr) : Forall P l :=
                         match l with [] => Forall_nil P | x :: r => Forall_cons x (cexpr_ind' x) (go r) end) items)
    | CApp b n items => Happ b n items (cexpr_ind' b) ((fix go (l : list cexpr) : Forall P l :=
                         match l with [] => Forall_nil P | x :: r => Forall_cons x (cexpr_ind' x) (go r) end) items)
    | CAnn f x => Hann f x (cexpr_ind' x)
    end.
End CexprInd.

Lemma erase_rename n d : erase_origin (rename_if_empty n d) = erase_origin d.
Proof. unfold rename_if_empty. destruct (d_origin d =? 0); reflexivity. Qed.

Lemma erase_seq_item n t : map erase_origin (seq_item n t) = map erase_origin (contents t).
Proof. destruct t as [d|c]; simpl; [rewrite erase_rename|]; reflexivity. Qed.

Lemma map_flat_map {A B C} (g : B -> C) (f : A -> list B) l :
  map g (flat_map f l) = flat_map (fun x => map g (f x)) l.
Proof. induction l as [|x l IH]; simpl; [reflexivity|]. rewrite map_app, IH. reflexivity. Qed.

Lemma flat_map_map {A B C} (g : A -> B) (f : B -> list C) l :
  flat_map f (map g l) = flat_map (fun x => f (g x)) l.
Proof. induction l as [|x l IH]; simpl; [reflexivity|]. rewrite IH. reflexivity. Qed.

Lemma flat_map_ext_Forall {A B} (f g : A -> list B) l :
  Forall (fun x => f x = g x) l -> flat_map f l = flat_map g l.
Proof. induction 1 as [|x l Hx _ IH]; simpl; [reflexivity|]. rewrite Hx, IH. reflexivity. Qed.

Lemma anns_blind_items items :
  fold_right (fun x P => anns_blind x /\ P) True items -> Forall anns_blind items.
Proof. induction items as [|x r IH]; simpl; intros H; constructor; [apply H|apply IH, H]. Qed.

Lemma items_leaves n items :
  Forall (fun e => anns_blind e -> map erase_origin (contents (ev e)) = map erase_origin (leaves e)) items ->
  Forall anns_blind items ->
  map erase_origin (flat_map (seq_item n) (map ev items)) = map erase_origin (flat_map leaves items).
Proof.
  intros HP HB. rewrite flat_map_map, !map_flat_map.
  apply flat_map_ext_Forall.
  induction HP as [|x r Hx _ IH]; constructor.
  - rewrite erase_seq_item. apply Hx. inversion HB; assumption.
  - apply IH. inversion HB; assumption.
Qed.

(* the contents of the collection an expression builds are its leaves, up to names *)
Theorem contents_are_leaves e :
  anns_blind e -> map erase_origin (contents (ev e)) = map erase_origin (leaves e).
Proof.
  induction e as [d|n items IH|b n items IHb IH|f e IH] using cexpr_ind'; intros HB.
  - reflexivity.
  - simpl in *. apply items_leaves; [exact IH|apply anns_blind_items, HB].
  - simpl in *. destruct HB as [HBb HBi]. rewrite !map_app. f_equal.
    + apply IHb, HBb.
    + apply items_leaves; [exact IH|apply anns_blind_items, HBi].
  - simpl in *. destruct HB as [Hf HB]. specialize (IH HB).
    assert (Hc : forall l, map erase_origin (map f l) = map f (map erase_origin l)).
    { intros l. rewrite !map_map. apply map_ext. intros d. unfold erase_origin. symmetry. apply Hf. }
    destruct (ev e) as [d|c]; simpl in *.
    + rewrite Hc, <- IH. simpl. unfold erase_origin. rewrite Hf. reflexivity.
    + rewrite !Hc, IH. reflexivity.
Qed.

Lemma ann_required_blind : name_blind ann_required. Proof. intros o d. reflexivity. Qed.
Lemma ann_desired_blind : name_blind ann_desired. Proof. intros o d. reflexivity. Qed.
Lemma ann_shun_blind : name_blind ann_shun. Proof. intros o d. reflexivity. Qed.
Lemma ann_cacheable_blind : name_blind ann_cacheable. Proof. intros o d. reflexivity. Qed.
Lemma ann_nonFinal_blind : name_blind ann_nonFinal. Proof. intros o d. reflexivity. Qed.
Lemma ann_reorder_blind : name_blind ann_reorder. Proof. intros o d. reflexivity. Qed.
Lemma ann_memoize_blind : name_blind ann_memoize. Proof. intros o d. reflexivity. Qed.

(* ---------- names do not matter to Bind unless a named edit refers to them ---------- *)
Definition enodes (l : list pdesc) : list enode :=
  map (fun (ip : nat * pdesc) => mkEnode (fst ip) (d_origin (snd ip)) (d_rep (snd ip)) (d_bef (snd ip)) (d_aft (snd ip)))
      (combine (seq_from 0 (length l)) l).

Lemma untagged_nodes_from l k :
  forallb no_directive l = true ->
  existsb tagged (map (fun (ip : nat * pdesc) => mkEnode (fst ip) (d_origin (snd ip)) (d_rep (snd ip)) (d_bef (snd ip)) (d_aft (snd ip)))
                      (combine (seq_from k (length l)) l)) = false.
Proof.
  revert k. induction l as [|d l IH]; intros k H; simpl in *; [reflexivity|].
  apply andb_prop in H. destruct H as [Hd Hl]. rewrite (IH (S k) Hl), orb_false_r.
  unfold no_directive in Hd. apply andb_prop in Hd. destruct Hd as [Hd Ha]. apply andb_prop in Hd. destruct Hd as [Hr Hb].
  unfold tagged, ntags, nz. simpl. rewrite Hr, Hb, Ha. reflexivity.
Qed.

Lemma nth_opt_app_len {A} (pre l : list A) x : nth_opt (length pre) (pre ++ x :: l) = Some x.
Proof. induction pre as [|y pre IH]; simpl; [reflexivity|exact IH]. Qed.

Lemma relookup_from (pre l : list pdesc) :
  flat_map (fun n => match nth_opt (eid n) (pre ++ l) with Some d => [d] | None => [] end)
           (map (fun (ip : nat * pdesc) => mkEnode (fst ip) (d_origin (snd ip)) (d_rep (snd ip)) (d_bef (snd ip)) (d_aft (snd ip)))
                (combine (seq_from (length pre) (length l)) l)) = l.
Proof.
  revert pre. induction l as [|d l IH]; intros pre; simpl; [reflexivity|].
  rewrite nth_opt_app_len. simpl. f_equal.
  specialize (IH (pre ++ [d])). rewrite app_length in IH. simpl in IH.
  replace (length pre + 1) with (S (length pre)) in IH by lia.
  rewrite <- app_assoc in IH. simpl in IH. exact IH.
Qed.

Lemma apply_edits_no_directive l :
  forallb no_directive l = true -> apply_edits l = Ok (map erase_names l).
Proof.
  intros H. unfold apply_edits.
  rewrite (edits_identity _ (untagged_nodes_from l 0 H)).
  pose proof (relookup_from [] l) as R. cbn [app length] in R. rewrite R. reflexivity.
Qed.

Lemma erase_names_origin d : erase_names (erase_origin d) = erase_names d.
Proof. reflexivity. Qed.
Lemma no_directive_origin d : no_directive (erase_origin d) = no_directive d.
Proof. reflexivity. Qed.

Lemma map_via {A B C} (f : A -> C) (g : A -> B) (h : B -> C) l1 l2 :
  (forall x, h (g x) = f x) -> map g l1 = map g l2 -> map f l1 = map f l2.
Proof.
  intros Hf H.
  assert (E : forall l, map f l = map h (map g l)).
  { intros l. rewrite map_map. apply map_ext. intros x. symmetry. apply Hf. }
  rewrite !E, H. reflexivity.
Qed.

Lemma forallb_via {A B} (f : A -> bool) (g : A -> B) (h : B -> bool) l1 l2 :
  (forall x, h (g x) = f x) -> map g l1 = map g l2 -> forallb f l1 = forallb f l2.
Proof.
  intros Hf H.
  assert (E : forall l, forallb f l = forallb h (map g l)).
  { induction l as [|x l IH]; simpl; [reflexivity|]. rewrite Hf, IH. reflexivity. }
  rewrite !E, H. reflexivity.
Qed.

Lemma script_of_origin d : script_of (erase_origin d) = script_of d.
Proof. reflexivity. Qed.

Lemma erase_names_pres d : erase_names (erase_presentation d) = erase_names d.
Proof. reflexivity. Qed.
Lemma no_directive_pres d : no_directive (erase_presentation d) = no_directive d.
Proof. reflexivity. Qed.
Lemma script_of_pres d : script_of (erase_presentation d) = script_of d.
Proof. reflexivity. Qed.

(* Two provider lists that differ only in how the providers are presented - their names, and
   whether they are Go functions or Reflective values with the same signature - with no named-edit
   directive: same Bind result, same plan, same behaviour (the whole observation of the model). *)
Theorem presentation_irrelevant te l1 l2 inv init sess :
  forallb no_directive l1 = true ->
  map erase_presentation l1 = map erase_presentation l2 ->
  model_run (mkCase te l1 inv init sess) = model_run (mkCase te l2 inv init sess).
Proof.
  intros Hd He.
  assert (Hd2 : forallb no_directive l2 = true).
  { rewrite <- (forallb_via no_directive erase_presentation no_directive l1 l2 no_directive_pres He). exact Hd. }
  assert (Ha : assemble (mkCase te l1 inv init sess) = assemble (mkCase te l2 inv init sess)).
  { unfold assemble. cbn [bc_te bc_provs bc_invoke bc_init].
    rewrite (apply_edits_no_directive l1 Hd), (apply_edits_no_directive l2 Hd2).
    rewrite (map_via erase_names erase_presentation erase_names l1 l2 erase_names_pres He). reflexivity. }
  assert (Hp : plan_of (mkCase te l1 inv init sess) = plan_of (mkCase te l2 inv init sess)).
  { unfold plan_of. rewrite Ha. reflexivity. }
  assert (Hb : bind_chain (mkCase te l1 inv init sess) = bind_chain (mkCase te l2 inv init sess)).
  { unfold bind_chain. rewrite Hp. reflexivity. }
  assert (Hs : scripts_of (mkCase te l1 inv init sess) = scripts_of (mkCase te l2 inv init sess)).
  { unfold scripts_of. cbn [bc_te bc_provs bc_invoke bc_init].
    rewrite (map_via script_of erase_presentation script_of l1 l2 script_of_pres He). reflexivity. }
  unfold model_run. rewrite Hb, Hs. reflexivity.
Qed.

Theorem names_irrelevant te l1 l2 inv init sess :
  forallb no_directive l1 = true ->
  map erase_origin l1 = map erase_origin l2 ->
  model_run (mkCase te l1 inv init sess) = model_run (mkCase te l2 inv init sess).
Proof.
  intros Hd He. apply presentation_irrelevant; [exact Hd|].
  apply (map_via erase_presentation erase_origin (set_reflective false) l1 l2); [reflexivity|exact He].
Qed.

(* replacing any subset of the function providers by Reflective equivalents changes nothing *)
Theorem reflective_irrelevant te l (mask : pdesc -> bool) inv init sess :
  forallb no_directive l = true ->
  model_run (mkCase te (map (fun d => set_reflective (mask d) d) l) inv init sess) = model_run (mkCase te l inv init sess).
Proof.
  intros Hd. symmetry. apply presentation_irrelevant; [exact Hd|].
  rewrite map_map. apply map_ext. intros d. reflexivity.
Qed.

(* any two ways of building a collection with the same leaves give the same chain *)
Theorem regroup_neutral te e1 e2 inv init sess :
  anns_blind e1 -> anns_blind e2 ->
  map erase_origin (leaves e1) = map erase_origin (leaves e2) ->
  forallb no_directive (leaves e1) = true ->
  model_run (mkCase te (contents (ev e1)) inv init sess) = model_run (mkCase te (contents (ev e2)) inv init sess).
Proof.
  intros B1 B2 HL Hd.
  pose proof (contents_are_leaves e1 B1) as C1. pose proof (contents_are_leaves e2 B2) as C2.
  apply names_irrelevant.
  - rewrite (forallb_via no_directive erase_origin no_directive _ _ no_directive_origin C1). exact Hd.
  - rewrite C1, C2. exact HL.
Qed.

(* ---------- an added parameter that every behaviour ignores (Unused) ---------- *)
Section UnusedParam.
  Variable W : Type.
  Variable beh_fn beh_fn' : nat -> W -> list val -> W * list val.
  Variable beh_wrap beh_wrap' : nat -> W -> list val -> wtree W.
  Variable errT : nat.
  Variable u : nat.                       (* the type of the added parameter *)
  Variable ext : nat -> list nat.         (* pid -> parameters added to that provider (all of type u) *)

  Definition extend (r : rp) : rp :=
    mkRp (r_pid r) (r_class r) (r_parallel r) (r_ins r ++ ext (r_pid r)) (r_outs r) (r_rets r) (r_recv r) (r_zero r) (r_tepos r).

  (* the variant behaviours are the base behaviours, ignoring the added arguments *)
  Hypothesis Hfn : forall pid w args extra, length extra = length (ext pid) ->
    beh_fn' pid w (args ++ extra) = beh_fn pid w args.
  Hypothesis Hwrap : forall pid w args extra, length extra = length (ext pid) ->
    beh_wrap' pid w (args ++ extra) = beh_wrap pid w args.

  Lemma look_app d a b : look d (a ++ b) = look d a ++ look d b.
  Proof. unfold look. apply map_app. Qed.
  Lemma look_length d a : length (look d a) = length a.
  Proof. unfold look. apply map_length. Qed.

  Lemma run_sem_congr r f g :
    (forall w d, f w d = g w d) ->
    forall t d lastu c, run_sem W (extend r) f d t lastu c = run_sem W r g d t lastu c.
  Proof.
    intros Hfg t. induction t as [w1 rets|w1 iargs k IH]; intros d lastu c; cbn [run_sem extend r_rets r_outs r_recv r_parallel].
    - reflexivity.
    - rewrite Hfg. destruct (g w1 (upd_list d (r_outs r) iargs)) as [[w2 u2] ok].
      destruct (negb ok); [reflexivity|]. apply IH.
  Qed.

  Lemma sem_extend prog : forall w d,
    sem W beh_fn' beh_wrap' errT (map extend prog) w d = sem W beh_fn beh_wrap errT prog w d.
  Proof.
    induction prog as [|r rest IH]; intros w d; [reflexivity|].
    cbn [map sem]. cbn [extend r_class r_pid r_ins r_outs r_rets r_tepos].
    rewrite look_app.
    destruct (r_class r); try reflexivity.
    - rewrite Hfn by apply look_length. destruct (beh_fn (r_pid r) w (look d (r_ins r))) as [w1 outs].
      destruct (negb (is_nil (nth (r_tepos r) outs VInvalid))); [reflexivity|apply IH].
    - rewrite Hfn by apply look_length. destruct (beh_fn (r_pid r) w (look d (r_ins r))) as [w1 outs]. apply IH.
    - rewrite Hwrap by apply look_length. apply (run_sem_congr r). exact IH.
    - rewrite Hfn by apply look_length. reflexivity.
  Qed.

  (* a chain that never reads u does not notice what the environment holds for u *)
  Definition agree (d1 d2 : nat -> val) : Prop := forall t, t <> u -> d1 t = d2 t.

  Lemma agree_look d1 d2 tys : agree d1 d2 -> ~ In u tys -> look d1 tys = look d2 tys.
  Proof.
    intros Ha Hn. unfold look. apply map_ext_in. intros t Ht. rewrite Ha; [reflexivity|].
    intros E. subst t. exact (Hn Ht).
  Qed.

  Lemma agree_upd d1 d2 t v : agree d1 d2 -> agree (upd d1 t v) (upd d2 t v).
  Proof. intros Ha x Hx. unfold upd. destruct (x =? t); [reflexivity|apply Ha, Hx]. Qed.

  Lemma agree_upd_list tys : forall vs d1 d2, agree d1 d2 -> agree (upd_list d1 tys vs) (upd_list d2 tys vs).
  Proof.
    induction tys as [|t tys IH]; intros vs d1 d2 Ha; [exact Ha|].
    destruct vs as [|v vs]; [exact Ha|]. cbn [upd_list]. apply IH, agree_upd, Ha.
  Qed.

  Lemma run_sem_agree r f :
    (forall w d1 d2, agree d1 d2 -> f w d1 = f w d2) ->
    forall t d1 d2 lastu c, agree d1 d2 -> run_sem W r f d1 t lastu c = run_sem W r f d2 t lastu c.
  Proof.
    intros Hf t. induction t as [w1 rets|w1 iargs k IH]; intros d1 d2 lastu c Ha; cbn [run_sem].
    - reflexivity.
    - rewrite (Hf w1 _ _ (agree_upd_list (r_outs r) iargs d1 d2 Ha)).
      destruct (f w1 (upd_list d2 (r_outs r) iargs)) as [[w2 u2] ok].
      destruct (negb ok); [reflexivity|]. apply IH, Ha.
  Qed.

  Lemma sem_agree prog : (forall r, In r prog -> ~ In u (r_ins r)) ->
    forall w d1 d2, agree d1 d2 ->
    sem W beh_fn beh_wrap errT prog w d1 = sem W beh_fn beh_wrap errT prog w d2.
  Proof.
    induction prog as [|r rest IH]; intros Hn w d1 d2 Ha; [reflexivity|].
    assert (Hr : ~ In u (r_ins r)) by (apply Hn; left; reflexivity).
    assert (Hrest : forall r0, In r0 rest -> ~ In u (r_ins r0)) by (intros r0 H0; apply Hn; right; exact H0).
    cbn [sem]. rewrite (agree_look d1 d2 (r_ins r) Ha Hr).
    destruct (r_class r); try reflexivity.
    - destruct (beh_fn (r_pid r) w (look d2 (r_ins r))) as [w1 outs].
      destruct (negb (is_nil (nth (r_tepos r) outs VInvalid))); [reflexivity|].
      apply (IH Hrest), agree_upd_list, Ha.
    - destruct (beh_fn (r_pid r) w (look d2 (r_ins r))) as [w1 outs].
      apply (IH Hrest), agree_upd_list, Ha.
    - apply run_sem_agree; [|exact Ha]. intros w0 e1 e2 He. apply (IH Hrest), He.
  Qed.

  (* Adding parameters of a type the base chain never reads, supplied by whatever the environment
     holds for it, to any set of providers whose behaviours ignore them: same world, same returned
     environment, same outcome. *)
  Theorem unused_param_neutral prog :
    (forall r, In r prog -> ~ In u (r_ins r)) ->
    forall w d v,
      sem W beh_fn' beh_wrap' errT (map extend prog) w (upd d u v) = sem W beh_fn beh_wrap errT prog w d.
  Proof.
    intros Hn w d v. rewrite sem_extend. apply sem_agree; [exact Hn|].
    intros t Ht. unfold upd. destruct (t =? u) eqn:E; [apply Nat.eqb_eq in E; contradiction|reflexivity].
  Qed.
End UnusedParam.
