(* providesReturns also wires what the init function returns (bypassParams): when the downward pass
   reaches the invoke function, every returned type of the init function is either recorded as
   unmatched or remapped to a type that every recorded dependency, listed before the invoke
   function, puts out.  The later steps of both passes leave that wiring alone. *)
From Coq Require Import List Arith Bool Lia.
Import ListNotations.
From NJ Require Import Base Registry Classify Select Machine Spec Bind SelectProofs AllocProofs WiringProofs.

Definition inv_at (fs0 : list prov) (v : nat) : Prop :=
  exists p, getp fs0 v = Some p /\ class_eqb (p_class p) ClInvoke = true /\ p_cannot p = false.
Definition bup (initPos : option nat) (fs0 : list prov) (i : nat) : nat -> Prop :=
  fun j => initPos = Some j /\ exists v, v < i /\ inv_at fs0 v.
Definition blim (fs0 : list prov) (i : nat) : nat -> nat -> Prop :=
  fun _ d => exists v, v < i /\ inv_at fs0 v /\ d < v.

Lemma wired_lim te fs0 (lim lim' : nat -> Prop) param outParam p :
  (forall d, lim d -> lim' d) -> wired te fs0 lim param outParam p -> wired te fs0 lim' param outParam p.
Proof.
  intros Hl Hw t Ht Hn. destruct (Hw t Ht Hn) as [L|(found & A & B & C)]; [left; exact L|].
  right. exists found. split; [exact A|]. split; [exact B|]. intros dep Hd. destruct (C dep Hd) as [C1 C2]. split; [apply Hl, C1|exact C2].
Qed.

Lemma wired_all_weaken te fs0 fs (upto upto' : nat -> Prop) (lim lim' : nat -> nat -> Prop) param outParam :
  (forall j, upto' j -> upto j) -> (forall j d, lim j d -> lim' j d) ->
  wired_all te fs0 fs upto lim param outParam -> wired_all te fs0 fs upto' lim' param outParam.
Proof.
  intros Hu Hl Hw j p Hj Hp Hc. eapply wired_lim; [apply Hl|]. apply (Hw j p (Hu j Hj) Hp Hc).
Qed.

Lemma bypass_step_wired te fs0 ip avail fs (lim : nat -> Prop) :
  same_s fs fs0 -> av_ok fs0 FOut lim avail ->
  forall p', getp (require_parameters te ip avail FBypass FOut (updp ip (set_bypassR []) fs)) ip = Some p' ->
  wired te fs0 lim FBypass FOut p'.
Proof.
  intros Hs Hav p' Hp'.
  assert (Hne : forall e, In e avail -> im_plist e <> []) by (intros e He; apply (Hav e He)).
  set (fsb := updp ip (set_bypassR []) fs) in *.
  assert (Hsb : same_s fsb fs0) by (unfold same_s, fsb; apply same_s_updp; [reflexivity|exact Hs]).
  destruct (getp fs ip) as [p|] eqn:Hp.
  - assert (Hpb : getp fsb ip = Some (set_bypassR [] p)) by (exact (getp_updp_same (set_bypassR []) fs ip p Hp)).
    destruct (require_spec te ip avail FBypass FOut fs0 eq_refl Hne fsb _ Hpb Hsb) as (p1 & G & R & O & T & F & S).
    rewrite G in Hp'. injection Hp' as <-.
    apply (wired_from_rinv te fs0 avail lim FBypass FOut p1 (set_bypassR [] p) R Hav); [apply O|exact T].
  - exfalso. assert (Efsb : fsb = fs) by (unfold fsb, updp; apply updp_missing; exact Hp).
    rewrite Efsb in Hp'. rewrite require_parameters_unfold, Hp in Hp'. cbn [fold_left] in Hp'.
    unfold updp in Hp'. rewrite updp_missing in Hp' by exact Hp. unfold getp in *. congruence.
Qed.

Section Bypass.
  Variable te : tyenv.
  Variable fs0 : list prov.
  Variable initPos : option nat.

  Definition BI (i : nat) (st : list prov * list imd) : Prop :=
    wired_all te fs0 (fst st) (bup initPos fs0 i) (blim fs0 i) FBypass FOut.

  Lemma class_same fs i p : same_s fs fs0 -> getp fs i = Some p ->
    exists q, getp fs0 i = Some q /\ p_class q = p_class p.
  Proof.
    intros Hs Hp. specialize (Hs i). rewrite Hp in Hs. destruct (getp fs0 i) as [q|]; [|discriminate Hs].
    exists q. split; [reflexivity|]. simpl in Hs. injection Hs as Hs. unfold p_class. rewrite Hs. reflexivity.
  Qed.

  Lemma cannot_same fs i p q : same_pc fs fs0 -> getp fs i = Some p -> getp fs0 i = Some q -> p_cannot q = p_cannot p.
  Proof. intros Hpc Hp Hq. specialize (Hpc i). unfold pc_at in Hpc. rewrite Hp, Hq in Hpc. simpl in Hpc. congruence. Qed.

  Lemma blim_mono i j d : blim fs0 i j d -> blim fs0 (S i) j d.
  Proof. intros (v & Hv & A & B). exists v. split; [lia|]. split; assumption. Qed.

  Lemma down_step_bi i st : i < length fs0 -> DI te fs0 i st -> BI i st -> BI (S i) (down_step te initPos st i).
  Proof.
    intros Hi (Hs & Hpc & Hav & Hw) HB. destruct st as [fs avail]. unfold BI in *. cbn [fst snd] in *. unfold down_step.
    destruct (getp_same_s fs0 fs i Hs Hi) as [p Hp].
    destruct (class_same fs i p Hs Hp) as (q & Hq & Hcl).
    pose proof (cannot_same fs i p q Hpc Hp Hq) as Hcn.
    destruct (flagp p_cannot fs i) eqn:Ec.
    { (* skipped: no new invoke step *)
      cbn [fst]. eapply wired_all_weaken; [| |exact HB].
      - intros j (Hj & v & Hv & Hinv). split; [exact Hj|]. exists v. split; [|exact Hinv].
        destruct (Nat.eq_dec v i) as [->|Hn]; [|lia]. exfalso. destruct Hinv as (q' & Hq' & _ & Hc').
        rewrite Hq in Hq'. injection Hq' as <-. unfold flagp in Ec. rewrite Hp in Ec. congruence.
      - intros j d. apply blim_mono. }
    assert (Hpcn : p_cannot p = false) by (unfold flagp in Ec; rewrite Hp in Ec; exact Ec).
    set (fs1 := if flagp (fun p => class_eqb (p_class p) ClInvoke) fs i then
               match initPos with
               | Some ip => require_parameters te ip avail FBypass FOut (updp ip (set_bypassR []) fs)
               | None => fs
               end else fs).
    assert (Hne : forall e, In e avail -> im_plist e <> []) by (intros e He; apply (Hav e He)).
    assert (H1 : same_s fs1 fs0 /\ same_pc fs1 fs /\ wired_all te fs0 fs1 (bup initPos fs0 (S i)) (blim fs0 (S i)) FBypass FOut).
    { unfold fs1. destruct (flagp (fun p => class_eqb (p_class p) ClInvoke) fs i) eqn:Einv.
      - (* the invoke function: the init function's returns are required now *)
        assert (Hinv_i : inv_at fs0 i).
        { exists q. split; [exact Hq|]. split; [|congruence]. unfold flagp in Einv. rewrite Hp in Einv. rewrite Hcl. exact Einv. }
        destruct initPos as [ip|] eqn:Eip.
        + destruct (bypass_step te fs0 ip avail fs Hne Hs) as (A & B & C & D).
          split; [exact A|]. split; [exact B|].
          intros j p' (Hj & _) Hp' _. injection Hj as <-.
          eapply wired_lim; [|apply (bypass_step_wired te fs0 ip avail fs (fun j => j < i) Hs Hav p' Hp')].
          intros d Hd. exists i. split; [lia|]. split; [exact Hinv_i|exact Hd].
        + split; [exact Hs|]. split; [intros j; reflexivity|]. intros j p' (Hj & _). discriminate Hj.
      - split; [exact Hs|]. split; [intros j; reflexivity|].
        eapply wired_all_weaken; [| |exact HB].
        + intros j (Hj & v & Hv & Hinv). split; [exact Hj|]. exists v. split; [|exact Hinv].
          destruct (Nat.eq_dec v i) as [->|Hn]; [|lia]. exfalso. destruct Hinv as (q' & Hq' & Hc' & _).
          rewrite Hq in Hq'. injection Hq' as <-. unfold flagp in Einv. rewrite Hp in Einv. rewrite Hcl in Hc'. congruence.
        + intros j d. apply blim_mono. }
    destruct H1 as (Hs1 & Hpc1 & Hw1).
    destruct (getp_same_s fs0 fs1 i Hs1 Hi) as [p1 Hp1].
    destruct (rp_step te fs0 FIn FOut (fun j => j < i) (fun j => j < S i) i (i + 2) fs1 avail p1 eq_refl Hs1 Hav) as (A & B & C & D & (p' & G & Wp & Op));
      [intros j Hj; lia|lia|exact Hp1|].
    apply (wired_all_frame te fs0 fs1 _ _ _ FBypass FOut FIn i eq_refl eq_refl); [discriminate|exact D| |exact B|exact Hw1].
    intros q' Hq'. rewrite G in Hq'. injection Hq' as <-. exists p1. split; [exact Hp1|exact Op].
  Qed.

  Lemma up_step_bi n i st : n = length fs0 -> i < n -> UI te fs0 n (S i) st -> BI n st -> BI n (up_step te n st i).
  Proof.
    intros Hn Hi (Hs & Hpc & Hav & Hw & Hd) HB. destruct st as [fs avail]. unfold BI in *. cbn [fst snd] in *. unfold up_step.
    destruct (getp_same_s fs0 fs i Hs ltac:(lia)) as [p Hp].
    destruct (flagp p_cannot fs i) eqn:Ec; [exact HB|].
    destruct (rp_step te fs0 FRecv FRet (fun j => S i <= j) (fun j => i <= j) i (n - i + 2) fs avail p eq_refl Hs Hav) as (A & B & C & D & (p' & G & Wp & Op));
      [intros j Hj; lia|lia|exact Hp|].
    apply (wired_all_frame te fs0 fs _ _ _ FBypass FOut FRecv i eq_refl eq_refl); [discriminate|exact D| |exact B|exact HB].
    intros q' Hq'. rewrite G in Hq'. injection Hq' as <-. exists p. split; [exact Hp|exact Op].
  Qed.
End Bypass.

Lemma find_class_spec c : forall l s ip, find_class c l s = Some ip ->
  exists p, nth_opt (ip - s) l = Some p /\ class_eqb (p_class p) c = true /\ s <= ip.
Proof.
  induction l as [|x r IH]; intros s ip H; cbn [find_class] in H; [discriminate|].
  destruct (class_eqb (p_class x) c) eqn:E.
  - injection H as <-. exists x. rewrite Nat.sub_diag. split; [reflexivity|]. split; [exact E|lia].
  - destruct (IH _ _ H) as (p & A & B & C). exists p.
    assert (E1 : ip - s = S (ip - S s)) by lia. rewrite E1. cbn [nth_opt]. split; [exact A|]. split; [exact B|lia].
Qed.

(* What providesReturns establishes for the init function. *)
Theorem provides_returns_bypass te funcs :
  let fs := provides_returns te funcs in
  let fs0 := map (set_deps no_deps) funcs in
  let n := length funcs in
  wired_all te fs0 fs (bup (find_class ClInit fs0 0) fs0 n) (blim fs0 n) FBypass FOut.
Proof.
  cbv zeta. rewrite provides_returns_unfold. cbv zeta.
  set (n := length funcs). set (fs0 := map (set_deps no_deps) funcs). set (initPos := find_class ClInit fs0 0).
  assert (Hn : n = length fs0) by (unfold fs0; rewrite map_length; reflexivity).
  set (P := fun i st => DI te fs0 i st /\ BI te fs0 initPos i st).
  assert (D0 : P 0 (fs0, [])).
  { split.
    - split; [intros j; reflexivity|]. split; [intros j; reflexivity|]. split; [intros e []|]. intros j p Hj; lia.
    - intros j p (_ & v & Hv & _). lia. }
  assert (Dn : P n (fold_left (down_step te initPos) (seq_from 0 n) (fs0, []))).
  { pose proof (fold_seq_up P (down_step te initPos) n) as F.
    assert (Hstep : forall i st, i < n -> P i st -> P (S i) (down_step te initPos st i)).
    { intros i st Hi [HD HB]. split; [apply down_step_inv; [lia|exact HD]|apply down_step_bi; [lia|exact HD|exact HB]]. }
    specialize (F Hstep 0 (fs0, []) ltac:(lia) D0). rewrite Nat.sub_0_r in F. exact F. }
  set (down := fold_left (down_step te initPos) (seq_from 0 n) (fs0, [])) in *.
  destruct Dn as [(Ds & Dpc & _ & Dw) DB].
  set (Q := fun i st => UI te fs0 n i st /\ BI te fs0 initPos n st).
  assert (U0 : Q n (fst down, [])).
  { split; [|exact DB]. split; [exact Ds|]. split; [exact Dpc|]. split; [intros e []|]. split.
    - intros j p Hj Hp. cbn [fst] in Hp. exfalso.
      specialize (Ds j). rewrite Hp in Ds. simpl in Ds. destruct (getp fs0 j) as [q|] eqn:Hq; [|discriminate].
      unfold getp in Hq. apply nth_opt_lt in Hq. lia.
    - exact Dw. }
  assert (Hstep : forall i st, i < n -> Q (S i) st -> Q i (up_step te n st i)).
  { intros i st Hi [HU HB]. split; [apply up_step_inv; [exact Hn|exact Hi|exact HU]|apply (up_step_bi te fs0 initPos n i st Hn Hi HU HB)]. }
  pose proof (fold_seq_down Q (up_step te n) n Hstep _ U0) as [_ Un]. exact Un.
Qed.
Print Assumptions provides_returns_bypass.
