(* The worklist loops of the selection are modelled with fuel.  The fuel is sufficient: the
   flow-checking passes never report the out-of-fuel error, and the results of eliminateUnused and
   of the keep-closures of proposeEliminations do not depend on the fuel once it reaches the bound
   the model uses.  (Termination arguments for the corresponding loops of include.go.) *)
From Coq Require Import List Arith Bool Lia.
Import ListNotations.
From NJ Require Import Base Registry Classify Select SelectProofs WiringProofs PreserveProofs ReorderProofs.

(* ---------- sums over a list, under a point update ---------- *)
Fixpoint sumf {A} (g : A -> nat) (l : list A) : nat := match l with [] => 0 | x :: r => g x + sumf g r end.

Lemma sumf_upd {A} (g : A -> nat) (f : A -> A) : forall (l : list A) t th, nth_opt t l = Some th ->
  sumf g (upd_nth t f l) + g th = sumf g l + g (f th).
Proof.
  induction l as [|x r IH]; intros t th H; destruct t; simpl in *; try discriminate.
  - injection H as ->. lia.
  - specialize (IH t th H). lia.
Qed.

Lemma sumf_le_len {A} (g : A -> nat) b l : (forall x, g x <= b) -> sumf g l <= b * length l.
Proof. intros H. induction l as [|x r IH]; simpl; [lia|]. specialize (H x). lia. Qed.

(* ---------- the flow-checking passes ---------- *)
Definition b2n (b : bool) : nat := if b then 1 else 0.
Definition mu (l : list prov) : nat := sumf (fun p => b2n (negb (p_cannot p)) + b2n (p_include p)) l.

Lemma check_one_mu te crd st i :
  let st' := check_one te crd st i in
  exists l, cf_redo st' = cf_redo st ++ l /\ mu (cf_funcs st') <= mu (cf_funcs st) /\
            (l <> [] -> mu (cf_funcs st') < mu (cf_funcs st)).
Proof.
  cbv zeta. unfold check_one.
  assert (Hsame : exists l, cf_redo st = cf_redo st ++ l /\ mu (cf_funcs st) <= mu (cf_funcs st) /\ (l <> [] -> mu (cf_funcs st) < mu (cf_funcs st))).
  { exists []. rewrite app_nil_r. split; [reflexivity|]. split; [lia|]. intros H. contradiction. }
  destruct (cf_err st); [exact Hsame|]. destruct (memb i (cf_seen st)); [exact Hsame|]. cbn [cf_funcs cf_redo].
  destruct (getp (cf_funcs st) i) as [p|] eqn:Hp; [|exact Hsame].
  destruct (p_cannot p) eqn:Ec.
  - destruct (p_required p); [exact Hsame|].
    destruct ((p_wanted p || p_desired p) && negb crd && negb (p_excluded p)); [exact Hsame|].
    destruct (p_include p) eqn:Ei; [|exact Hsame]. cbn [cf_funcs cf_redo].
    exists (usedBy (p_deps p)). split; [reflexivity|].
    pose proof (sumf_upd (fun p => b2n (negb (p_cannot p)) + b2n (p_include p)) (set_include false) (cf_funcs st) i p Hp) as H.
    cbn [set_include p_cannot p_include] in H. rewrite Ec, Ei in H. cbn [negb b2n] in H. unfold mu, updp. split; [lia|]. intros _. lia.
  - destruct (checks_ok te (cf_funcs st) p); [exact Hsame|]. cbn [cf_funcs cf_redo].
    exists [i]. split; [reflexivity|].
    pose proof (sumf_upd (fun p => b2n (negb (p_cannot p)) + b2n (p_include p)) (set_cannot true) (cf_funcs st) i p Hp) as H.
    cbn [set_cannot p_cannot p_include] in H. rewrite Ec in H. cbn [negb b2n] in H. unfold mu, updp. split; [lia|]. intros _. lia.
Qed.

Lemma check_fold_mu te crd : forall todo st,
  let st' := fold_left (check_one te crd) todo st in
  exists l, cf_redo st' = cf_redo st ++ l /\ mu (cf_funcs st') <= mu (cf_funcs st) /\
            (l <> [] -> mu (cf_funcs st') < mu (cf_funcs st)).
Proof.
  induction todo as [|i r IH]; intros st; cbn [fold_left]; cbv zeta.
  - exists []. rewrite app_nil_r. split; [reflexivity|]. split; [lia|]. intros H. contradiction.
  - destruct (check_one_mu te crd st i) as (l1 & R1 & M1 & S1). cbv zeta in *.
    destruct (IH (check_one te crd st i)) as (l2 & R2 & M2 & S2). cbv zeta in *.
    exists (l1 ++ l2). split; [rewrite R2, R1, app_assoc; reflexivity|]. split; [lia|].
    intros Hne. destruct l1 as [|a l1']; [destruct l2 as [|b l2']; [contradiction|]|].
    + assert (b :: l2' <> []) by discriminate. specialize (S2 H). lia.
    + assert (a :: l1' <> []) by discriminate. specialize (S1 H). lia.
Qed.

Lemma check_one_err te crd st i e : cf_err (check_one te crd st i) = Some e ->
  cf_err st = Some e \/ e = EB_REQUIRED \/ e = EB_WANTED.
Proof.
  unfold check_one. destruct (cf_err st) eqn:E0; [intros H; left; rewrite <- E0; exact H|].
  destruct (memb i (cf_seen st)); [rewrite E0; discriminate|]. cbn [cf_funcs cf_redo cf_seen cf_err].
  destruct (getp (cf_funcs st) i) as [p|]; [|discriminate].
  destruct (p_cannot p).
  - destruct (p_required p); [cbn [cf_err]; intros H; injection H as <-; right; left; reflexivity|].
    destruct ((p_wanted p || p_desired p) && negb crd && negb (p_excluded p)); [cbn [cf_err]; intros H; injection H as <-; right; right; reflexivity|].
    destruct (p_include p); cbn [cf_err]; discriminate.
  - destruct (checks_ok te (cf_funcs st) p); cbn [cf_err]; discriminate.
Qed.

Lemma check_fold_err te crd e : forall todo st, cf_err (fold_left (check_one te crd) todo st) = Some e ->
  cf_err st = Some e \/ e = EB_REQUIRED \/ e = EB_WANTED.
Proof.
  induction todo as [|i r IH]; intros st H; cbn [fold_left] in H; [left; exact H|].
  destruct (IH _ H) as [H1|H1]; [|right; exact H1]. apply (check_one_err te crd st i e H1).
Qed.

Lemma check_passes_fuel te crd : forall fuel funcs todo,
  mu funcs < fuel -> snd (check_passes te crd fuel funcs todo) <> Some EB_INTERNAL.
Proof.
  induction fuel as [|f IH]; intros funcs todo Hm; [lia|].
  destruct todo as [|i r]; [cbn; discriminate|]. cbn [check_passes].
  set (st := fold_left (check_one te crd) (i :: r) (mkCf funcs [] [] None)).
  destruct (cf_err st) as [e|] eqn:Ee.
  - cbn [snd]. destruct (check_fold_err te crd e (i :: r) _ Ee) as [H|[->| ->]]; [discriminate H|discriminate|discriminate].
  - destruct (check_fold_mu te crd (i :: r) (mkCf funcs [] [] None)) as (l & R & M & S). cbv zeta in *. fold st in R, M, S.
    cbn [cf_redo cf_funcs app] in R, M, S. rewrite R. destruct l as [|a l']; [destruct f; cbn; discriminate|].
    apply IH. assert (a :: l' <> []) by discriminate. specialize (S H). lia.
Qed.

Lemma mu_le l : mu l <= 2 * length l.
Proof. unfold mu. apply sumf_le_len. intros p. destruct (negb (p_cannot p)), (p_include p); simpl; lia. Qed.

(* validateChainMarkIncludeExclude never runs out of fuel *)
Theorem validate_chain_fuel te crd funcs : snd (validate_chain te crd funcs) <> Some EB_INTERNAL.
Proof.
  unfold validate_chain. destruct (mark_loop funcs 0 funcs []) as [[fs rem] [e|]] eqn:Em.
  - cbn [snd]. intros H. injection H as ->.
    (* mark_loop only reports a Required provider that is excluded *)
    assert (Hg : forall todo fs0 i rem0 fs' rem' e', mark_loop fs0 i todo rem0 = (fs', rem', Some e') -> e' = EB_REQUIRED).
    { induction todo as [|p r IH]; intros fs0 i rem0 fs' rem' e' H; cbn [mark_loop] in H; [discriminate|].
      destruct (negb (p_excluded p)); [eapply IH; exact H|]. destruct (p_required p); [injection H as _ _ <-; reflexivity|eapply IH; exact H]. }
    specialize (Hg _ _ _ _ _ _ _ Em). discriminate Hg.
  - apply check_passes_fuel.
    assert (Hl : length fs = length funcs).
    { pose proof (same_s_map_eq _ _ (mark_loop_same_s _ _ _ _ _ _ _ Em)) as H. apply (f_equal (@length _)) in H. rewrite !map_length in H. exact H. }
    pose proof (mu_le fs). lia.
Qed.

(* ---------- eliminateUnused ---------- *)
Definition wuses (l : list prov) : nat := sumf (fun p => if p_include p then length (uses (p_deps p)) else 0) l.

Lemma elim_unused_fuel : forall fuel fuel' funcs check,
  length check + wuses funcs <= fuel -> length check + wuses funcs <= fuel' ->
  elim_unused fuel funcs check = elim_unused fuel' funcs check.
Proof.
  induction fuel as [|f IH]; intros fuel' funcs check H H'.
  - destruct check; [|cbn [length] in H; lia]. destruct fuel'; reflexivity.
  - destruct fuel' as [|f'].
    + destruct check; [reflexivity|cbn [length] in H'; lia].
    + cbn [elim_unused]. destruct check as [|i rest]; [reflexivity|]. cbn [length] in H, H'.
      destruct (getp funcs i) as [p|] eqn:Hp; [|apply IH; lia].
      destruct (p_required p || p_desired p || p_wanted p || negb (p_include p) || p_excluded p || negb (p_cluster p =? 0)) eqn:Eg;
        [apply IH; lia|].
      destruct (any_included funcs (usedBy (p_deps p))); [apply IH; lia|].
      assert (Hi : p_include p = true).
      { destruct (p_include p); [reflexivity|]. cbn [negb] in Eg. rewrite !orb_true_r in Eg. cbn in Eg. discriminate Eg. }
      pose proof (sumf_upd (fun p => if p_include p then length (uses (p_deps p)) else 0)
                    (fun q => set_excluded true (set_cannot true (set_include false q))) funcs i p Hp) as Hs.
      cbv beta in Hs. cbn [set_excluded set_cannot set_include p_include p_deps] in Hs. rewrite Hi in Hs.
      apply IH; unfold wuses, updp in *; rewrite app_length; lia.
Qed.

Lemma total_uses_sum funcs : total_uses funcs = sumf (fun p => length (uses (p_deps p))) funcs.
Proof.
  unfold total_uses. assert (H : forall l a, fold_left (fun a p => a + length (uses (p_deps p))) l a = a + sumf (fun p => length (uses (p_deps p))) l).
  { induction l as [|x r IH]; intros a; cbn [fold_left sumf]; [lia|]. rewrite IH. lia. }
  rewrite H. reflexivity.
Qed.

Lemma wuses_le funcs : wuses funcs <= total_uses funcs.
Proof. rewrite total_uses_sum. unfold wuses. induction funcs as [|x r IH]; cbn [sumf]; [lia|]. destruct (p_include x); lia. Qed.

(* more fuel than eliminateUnused gives itself changes nothing *)
Theorem eliminate_unused_fuel funcs k :
  elim_unused (length funcs + total_uses funcs + 1 + k) funcs (seq_from 0 (length funcs)) = eliminate_unused funcs.
Proof.
  unfold eliminate_unused. pose proof (wuses_le funcs).
  apply elim_unused_fuel; rewrite ReorderProofs.seq_from_length; lia.
Qed.

(* ---------- the keep-closures of proposeEliminations ---------- *)
Definition wdet (funcs : list prov) (keep : list nat) (idx : list nat) : nat :=
  sumf (fun i => if memb i keep then 0 else match getp funcs i with Some p => length (usesDetail (p_deps p)) | None => 0 end) idx.

Lemma wdet_add funcs keep i p : forall idx, NoDup idx -> In i idx -> memb i keep = false -> getp funcs i = Some p ->
  wdet funcs (i :: keep) idx + length (usesDetail (p_deps p)) = wdet funcs keep idx.
Proof.
  unfold wdet.
  set (g := fun (kp : list nat) (i0 : nat) => if memb i0 kp then 0 else match getp funcs i0 with Some p0 => length (usesDetail (p_deps p0)) | None => 0 end).
  change (forall idx, NoDup idx -> In i idx -> memb i keep = false -> getp funcs i = Some p ->
            sumf (g (i :: keep)) idx + length (usesDetail (p_deps p)) = sumf (g keep) idx).
  assert (Hother : forall r, ~ In i r -> sumf (g (i :: keep)) r = sumf (g keep) r).
  { induction r as [|x r IH]; intros Hn; cbn [sumf]; [reflexivity|].
    assert (Hx : (x =? i) = false) by (apply Nat.eqb_neq; intros ->; apply Hn; left; reflexivity).
    unfold g at 1 3. cbn [memb]. rewrite Hx. cbn [orb]. rewrite IH; [reflexivity|]. intros H. apply Hn. right. exact H. }
  induction idx as [|j r IH]; intros Hnd Hin Hk Hp; [destruct Hin|].
  inversion Hnd as [|? ? Hnj Hnd']; subst. cbn [sumf].
  destruct Hin as [->|Hin].
  - rewrite (Hother r Hnj). unfold g at 1 3. cbn [memb]. rewrite Nat.eqb_refl. cbn [orb]. rewrite Hk, Hp. lia.
  - assert (Hj : (j =? i) = false) by (apply Nat.eqb_neq; intros ->; apply Hnj; exact Hin).
    specialize (IH Hnd' Hin Hk Hp). unfold g at 1 3. cbn [memb]. rewrite Hj. cbn [orb]. fold (g keep j). lia.
Qed.

Lemma flat_map_len_le {A B} (f : A -> list B) l : (forall x, length (f x) <= 1) -> length (flat_map f l) <= length l.
Proof. intros H. induction l as [|x r IH]; cbn [flat_map length]; [lia|]. rewrite app_length. specialize (H x). lia. Qed.

Lemma keep_closure_fuel useLast groups funcs idx : NoDup idx -> (forall i p, getp funcs i = Some p -> In i idx) ->
  forall fuel fuel' toKeep keep,
    length toKeep + wdet funcs keep idx <= fuel -> length toKeep + wdet funcs keep idx <= fuel' ->
    keep_closure fuel useLast groups funcs toKeep keep = keep_closure fuel' useLast groups funcs toKeep keep.
Proof.
  intros Hnd Hidx. induction fuel as [|f IH]; intros fuel' toKeep keep H H'.
  - destruct toKeep; [|cbn [length] in H; lia]. destruct fuel'; reflexivity.
  - destruct fuel' as [|f'].
    + destruct toKeep; [reflexivity|cbn [length] in H'; lia].
    + cbn [keep_closure]. destruct toKeep as [|i rest]; [reflexivity|]. cbn [length] in H, H'.
      destruct (memb i keep) eqn:Ek; [apply IH; lia|].
      destruct (getp funcs i) as [p|] eqn:Hp; [|apply IH; lia].
      pose proof (wdet_add funcs keep i p idx Hnd (Hidx i p Hp) Ek Hp) as Hw.
      match goal with |- keep_closure f _ _ _ (rest ++ ?P) _ = _ => set (picks := P) end.
      assert (Hpl : length picks <= length (usesDetail (p_deps p))).
      { unfold picks. apply flat_map_len_le. intros e. destruct (memb (fst (fst e)) groups); [|cbn; lia].
        match goal with |- context [match ?L with [] => _ | _ :: _ => _ end] => destruct L as [|k0 ?] end; [cbn; lia|].
        destruct (memb k0 (i :: keep)); cbn; lia. }
      apply IH; rewrite app_length; lia.
Qed.

Lemma sum_idx (funcs : list prov) (h : prov -> nat) :
  sumf (fun i => match getp funcs i with Some p => h p | None => 0 end) (seq_from 0 (length funcs)) = sumf h funcs.
Proof.
  assert (H : forall (l pre : list prov), sumf (fun i => match getp (pre ++ l) i with Some p => h p | None => 0 end)
                                           (seq_from (length pre) (length l)) = sumf h l).
  { induction l as [|x r IH]; intros pre; cbn [length seq_from sumf]; [reflexivity|].
    assert (E : getp (pre ++ x :: r) (length pre) = Some x).
    { unfold getp. clear. induction pre as [|y d IHd]; simpl; [reflexivity | exact IHd]. }
    rewrite E. f_equal.
    specialize (IH (pre ++ [x])). rewrite <- app_assoc in IH. cbn [app] in IH.
    rewrite app_length in IH. cbn [length] in IH. rewrite Nat.add_1_r in IH. exact IH. }
  apply (H funcs []).
Qed.

Lemma total_details_sum funcs : total_details funcs = sumf (fun p => length (usesDetail (p_deps p))) funcs.
Proof.
  unfold total_details. assert (H : forall l a, fold_left (fun a p => a + length (usesDetail (p_deps p))) l a = a + sumf (fun p => length (usesDetail (p_deps p))) l).
  { induction l as [|x r IH]; intros a; cbn [fold_left sumf]; [lia|]. rewrite IH. lia. }
  rewrite H. reflexivity.
Qed.

(* more fuel than proposeEliminations gives its keep-closures changes nothing *)
Theorem propose_keep_fuel useLast groups funcs k :
  let n := length funcs in
  let idx := seq_from 0 n in
  let roots := filter (fun i => flagp (fun p => negb (p_excluded p) &&
                   (p_required p || p_desired p || (p_wanted p && negb (p_wic p)))) funcs i) idx in
  let fuel := (n + 1) * (total_details funcs + 2) + n + 1 in
  keep_closure (fuel + k) useLast groups funcs roots [] = keep_closure fuel useLast groups funcs roots [].
Proof.
  cbv zeta. set (n := length funcs). set (idx := seq_from 0 n).
  assert (Hw : wdet funcs [] idx = total_details funcs).
  { unfold wdet. cbn [memb]. rewrite total_details_sum. apply (sum_idx funcs (fun p => length (usesDetail (p_deps p)))). }
  assert (Hr : forall f, length (filter f idx) <= n).
  { intros f. unfold idx. rewrite <- (seq_from_length 0 n) at 2. clear. induction (seq_from 0 n) as [|x r IH]; cbn [filter length]; [lia|]. destruct (f x); cbn [length]; lia. }
  apply (keep_closure_fuel useLast groups funcs idx).
  - apply seq_from_nodup.
  - intros i p Hp. apply seq_from_in. unfold getp in Hp. apply WiringProofs.nth_opt_lt in Hp. fold n. lia.
  - rewrite Hw. specialize (Hr (fun i => flagp (fun p => negb (p_excluded p) && (p_required p || p_desired p || (p_wanted p && negb (p_wic p)))) funcs i)). nia.
  - rewrite Hw. specialize (Hr (fun i => flagp (fun p => negb (p_excluded p) && (p_required p || p_desired p || (p_wanted p && negb (p_wic p)))) funcs i)). nia.
Qed.
Print Assumptions propose_keep_fuel.
