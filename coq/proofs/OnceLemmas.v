(* The static chain runs once per bound chain; init is idempotent (sequential sessions).
   The concurrent version (sync.Once) is in proofs/ConcProofs.v.  (C06, C10) *)
From Coq Require Import List Arith Bool Lia.
Import ListNotations.
From NJ Require Import Base Registry Classify Select Machine.

Section Once.
  Variable W : Type.
  Variable beh_fn : nat -> W -> list val -> W * list val.
  Variable beh_wrap : nat -> W -> list val -> wtree W.

  Definition no_static (b : bound) : bound :=
    mkBound (bd_base0 b) [] (bd_run b) (bd_init b) (bd_invoke b).

  (* once the static chain has run, no step runs it again: the step is the same as on a chain
     whose static part is empty *)
  Lemma static_not_rerun b s st : ss_done W s = true ->
    run_step W beh_fn beh_wrap b s st = run_step W beh_fn beh_wrap (no_static b) s st.
  Proof.
    intros Hd. unfold run_step. destruct (negb (ss_ok W s)); [reflexivity|].
    destruct st; simpl.
    - destruct (bd_init b) as [ic|]; [|reflexivity].
      destruct (beh_fn (cp_pid ic) (ss_w W s) []) as [w0 args]. rewrite Hd. reflexivity.
    - destruct (beh_fn (cp_pid (bd_invoke b)) (ss_w W s) []) as [w0 args].
      destruct (bd_init b); [reflexivity|]. rewrite Hd. reflexivity.
  Qed.

  Lemma done_sticky b s st : ss_done W s = true -> ss_done W (fst (run_step W beh_fn beh_wrap b s st)) = true.
  Proof.
    intros Hd. unfold run_step. destruct (negb (ss_ok W s)); [exact Hd|].
    destruct st; simpl.
    - destruct (bd_init b) as [ic|]; [|exact Hd].
      destruct (beh_fn (cp_pid ic) (ss_w W s) []) as [w0 args]. rewrite Hd. reflexivity.
    - destruct (beh_fn (cp_pid (bd_invoke b)) (ss_w W s) []) as [w0 args].
      destruct (bd_init b).
      + simpl. destruct (exec W beh_fn beh_wrap (bd_run b) w0 _) as [[w2 a2] ok2]. simpl. exact Hd.
      + rewrite Hd. simpl. destruct (exec W beh_fn beh_wrap (bd_run b) w0 _) as [[w2 a2] ok2]. reflexivity.
  Qed.

  (* an invocation never modifies the base values, and nothing does once the static chain ran *)
  Lemma base_frozen b s st : ss_done W s = true -> ss_base W (fst (run_step W beh_fn beh_wrap b s st)) = ss_base W s.
  Proof.
    intros Hd. unfold run_step. destruct (negb (ss_ok W s)); [reflexivity|].
    destruct st; simpl.
    - destruct (bd_init b) as [ic|]; [|reflexivity].
      destruct (beh_fn (cp_pid ic) (ss_w W s) []) as [w0 args]. rewrite Hd. reflexivity.
    - destruct (beh_fn (cp_pid (bd_invoke b)) (ss_w W s) []) as [w0 args].
      destruct (bd_init b).
      + simpl. destruct (exec W beh_fn beh_wrap (bd_run b) w0 _) as [[w2 a2] ok2]. reflexivity.
      + rewrite Hd. simpl. destruct (exec W beh_fn beh_wrap (bd_run b) w0 _) as [[w2 a2] ok2]. reflexivity.
  Qed.

  (* every init call after the first returns the same values: what the frozen base holds; the
     arguments of later init calls are ignored *)
  Lemma init_idempotent b s ic : ss_done W s = true -> ss_ok W s = true -> bd_init b = Some ic ->
    snd (run_step W beh_fn beh_wrap b s DoInit) = RInit (read_params (cp_in ic) (ss_base W s)).
  Proof.
    intros Hd Hok Hi. unfold run_step. rewrite Hok. simpl. rewrite Hi.
    destruct (beh_fn (cp_pid ic) (ss_w W s) []) as [w0 args]. rewrite Hd. reflexivity.
  Qed.

  (* the first init (or first invoke when there is no init function) is the only step that runs
     the static chain; it sets done *)
  Lemma first_run_sets_done b s : ss_ok W s = true ->
    (bd_init b <> None -> ss_done W (fst (run_step W beh_fn beh_wrap b s DoInit)) = true) /\
    (bd_init b = None -> ss_done W (fst (run_step W beh_fn beh_wrap b s DoInvoke)) = true).
  Proof.
    intros Hok. unfold run_step. rewrite Hok. simpl. split.
    - intros Hn. destruct (bd_init b) as [ic|]; [|contradiction].
      destruct (beh_fn (cp_pid ic) (ss_w W s) []) as [w0 args].
      destruct (ss_done W s); [reflexivity|].
      destruct (exec_static W beh_fn (bd_static b) false w0 _) as [[w1 a1] ok]. reflexivity.
    - intros Hn. rewrite Hn.
      destruct (beh_fn (cp_pid (bd_invoke b)) (ss_w W s) []) as [w0 args].
      destruct (ss_done W s).
      + simpl. destruct (exec W beh_fn beh_wrap (bd_run b) w0 _) as [[w2 a2] ok2]. reflexivity.
      + destruct (exec_static W beh_fn (bd_static b) false w0 (ss_base W s)) as [[w1 a1] ok].
        destruct ok; simpl; [|reflexivity].
        destruct (exec W beh_fn beh_wrap (bd_run b) w1 _) as [[w2 a2] ok2]. reflexivity.
  Qed.
End Once.
