(* Chains in which only plain injectors (and providers outside the per-invocation part) are marked
   Reorder - the chains the first sentence of C17 speaks of: the positional condition of
   bind_plan_wf holds, because the wrappers, fallible injectors and the final function, not being
   Reorder'd, keep their listed place behind the invoke function (OrderProofs). *)
From Coq Require Import List Arith Bool Lia Permutation.
Import ListNotations.
From NJ Require Import Base Collections Edits Registry Classify Select Reorder Machine Spec Bind.
From NJ Require Import AllocProofs ReorderProofs PreserveProofs CoverProofs Chain OrderProofs WfProofs.

Definition nrs (s : sprov) : bool := negb (d_reorder (s_d s)).
Definition mild_s (s : sprov) : bool := nrs s || class_eqb (s_class s) ClInjector || nonrun_s s.
Definition reorder_mild (f0 : list prov) : bool := forallb (fun p => mild_s (p_s p)) f0.

(* non-Reorder providers before the first invoke-class provider are outside the per-invocation part *)
Fixpoint pre_ok (L : list sprov) : bool :=
  match L with [] => true | x :: r => if is_invoke_s x then true else (negb (nrs x) || nonrun_s x) && pre_ok r end.
Fixpoint pre_ok' (M : list sprov) : bool :=
  match M with [] => true | x :: r => if is_invoke_s x then true else nonrun_s x && pre_ok' r end.

Lemma pre_ok_filter : forall L, (forall x, In x L -> is_invoke_s x = true -> nrs x = true) ->
  pre_ok' (filter nrs L) = true -> pre_ok L = true.
Proof.
  induction L as [|x r IH]; intros Hinv H; [reflexivity|]. cbn [pre_ok filter] in *.
  destruct (is_invoke_s x) eqn:Ei; [reflexivity|].
  assert (Hr : forall y, In y r -> is_invoke_s y = true -> nrs y = true) by (intros y Hy; apply Hinv; right; exact Hy).
  destruct (nrs x) eqn:En; cbn [negb orb].
  - cbn [pre_ok'] in H. rewrite Ei in H. apply andb_true_iff in H. destruct H as [H1 H2]. rewrite H1. cbn [andb]. apply IH; assumption.
  - cbn [andb]. apply IH; assumption.
Qed.

Lemma pre_ok'_layout : forall FX invS FY, Forall (fun s => nonrun_s s = true) FX -> is_invoke_s invS = true ->
  pre_ok' (FX ++ invS :: FY) = true.
Proof.
  induction FX as [|x r IH]; intros invS FY HF Hi; cbn [app pre_ok']; [rewrite Hi; reflexivity|].
  inversion HF as [|? ? Hx Hr]; subst. destruct (is_invoke_s x); [reflexivity|]. rewrite Hx. cbn [andb]. apply IH; assumption.
Qed.

Lemma pre_ok_before : forall (funcs : list prov) s ii, find_class ClInvoke funcs s = Some ii -> pre_ok (map p_s funcs) = true ->
  forall k p, nth_opt k funcs = Some p -> s + k < ii -> nrs (p_s p) = false \/ nonrun_s (p_s p) = true.
Proof.
  induction funcs as [|x r IH]; intros s ii Hf Hp k p Hk Hlt; [destruct k; discriminate Hk|].
  cbn [find_class] in Hf. cbn [map pre_ok] in Hp. unfold is_invoke_s in Hp. change (s_class (p_s x)) with (p_class x) in Hp.
  destruct (class_eqb (p_class x) ClInvoke) eqn:Ec.
  - injection Hf as <-. lia.
  - apply andb_true_iff in Hp. destruct Hp as [Hx Hr]. destruct k as [|k]; cbn [nth_opt] in Hk.
    + injection Hk as <-. apply orb_true_iff in Hx. destruct Hx as [Hx|Hx]; [left; apply negb_true_iff, Hx|right; exact Hx].
    + apply (IH (S s) ii Hf Hr k p Hk). lia.
Qed.

Lemma filter_map_comm {A B} (f : B -> bool) (g : A -> B) : forall l, filter f (map g l) = map g (filter (fun x => f (g x)) l).
Proof. induction l as [|x r IH]; cbn [map filter]; [reflexivity|]. destruct (f (g x)); cbn [map]; rewrite IH; reflexivity. Qed.

Theorem runs_after_invoke_mild c pl b f0 :
  bind_chain c = Ok (pl, b) -> assemble c = Ok f0 -> reorder_mild f0 = true -> d_reorder (bc_invoke c) = false ->
  runs_after_invoke pl = true.
Proof.
  intros Hb Ha Hmild Hinvk. pose proof (bind_chain_plan c pl b Hb) as Hp.
  assert (Hfuncs : exists f1, reorder_funcs (bc_te c) f0 = Ok f1 /\ map p_s (pl_funcs pl) = map p_s f1 /\
                              find_class ClInvoke (pl_funcs pl) 0 = Some (pl_invokeIndex pl)).
  { unfold plan_of in Hp. rewrite Ha in Hp. cbn [bindr] in Hp.
    destruct (reorder_funcs (bc_te c) f0) as [f1|e|e] eqn:Er; cbn [bindr] in Hp; try discriminate.
    destruct (select (bc_te c) f1) as [funcs|e|e] eqn:Es; cbn [bindr] in Hp; try discriminate.
    destruct (find_class ClInvoke funcs 0) as [ii|] eqn:Ei; cbn [opt_res bindr] in Hp; try discriminate.
    destruct (negb (check_shadowing (bc_te c) funcs)); [discriminate|].
    destruct (negb (init_bypass_ok funcs (sl_down0 (allocate_slots funcs ii)))); [discriminate|].
    injection Hp as <-. cbn [pl_funcs pl_invokeIndex]. exists f1. split; [reflexivity|]. split; [apply (select_preserves _ _ _ Es)|exact Ei]. }
  destruct Hfuncs as (f1 & Er & Hs & Hfc). set (funcs := pl_funcs pl) in *. set (ii := pl_invokeIndex pl) in *.
  destruct (assemble_listq c f0 Ha) as (_ & _ & Hcinv).
  destruct (assemble_layout c f0 Ha) as [(X & invS & Y & El & HX & Hc & Hsd)|Hnf].
  2:{ (* no final function: the chain does not bind *)
    exfalso. unfold bind_chain in Hb. rewrite Hp in Hb. cbn [bindr] in Hb.
    destruct (compile_all (bc_te c) (sl_down (pl_slots pl)) (sl_up (pl_slots pl)) (sl_funcs (pl_slots pl))) as [cps|] eqn:Ec;
      cbn [opt_res bindr] in Hb; [|discriminate].
    destruct (of_group GFinal cps) as [|fin [|? ?]] eqn:Efin; try discriminate.
    unfold of_group in Efin.
    destruct (filter (fun pc : prov * cp => group_eqb (p_group (fst pc)) GFinal) cps) as [|pc rest] eqn:Ef; [discriminate|].
    assert (Hpc : In pc cps /\ group_eqb (p_group (fst pc)) GFinal = true).
    { assert (H : In pc (pc :: rest)) by (left; reflexivity). rewrite <- Ef in H. apply filter_In in H. exact H. }
    destruct Hpc as [Hpc Hg].
    destruct (compiled_back _ _ _ _ _ (compile_all_spec _ _ _ _ _ Ec) pc Hpc) as (pz & Hpz & Efst).
    apply filter_In in Hpz. destruct Hpz as [Hpz _].
    destruct (plan_listq c pl Hp) as (_ & Hsl & _).
    assert (Hin : In (p_s (fst pz)) (map p_s f0)).
    { assert (Hin1 : In (fst pz) funcs) by (unfold funcs; rewrite <- (allocate_slots_funcs (pl_funcs pl) (pl_invokeIndex pl)), <- Hsl; apply in_map, Hpz).
      apply (Permutation_in _ (reorder_perm_s _ _ _ Er)). rewrite <- Hs. apply in_map, Hin1. }
    rewrite Forall_forall in Hnf. specialize (Hnf _ Hin).
    unfold nonfinal_s in Hnf. rewrite Efst in Hg. unfold p_group in Hg. rewrite Hg in Hnf. discriminate Hnf. }
  assert (HinvS : is_invoke_s invS = true) by (unfold is_invoke_s; rewrite Hc; reflexivity).
  assert (HnrS : nrs invS = true) by (unfold nrs; rewrite Hsd, Hinvk; reflexivity).
  (* the invoke-class entries of the assembled list: only invS *)
  assert (Honly : forall x, In x (map p_s f0) -> is_invoke_s x = true -> nrs x = true).
  { intros x Hx Hxi. rewrite El in Hx, Hcinv. rewrite filter_app, app_length in Hcinv. cbn [filter] in Hcinv. rewrite HinvS in Hcinv. cbn [length] in Hcinv.
    apply in_app_or in Hx. destruct Hx as [Hx|[<-|Hx]]; [exfalso| exact HnrS |exfalso].
    - assert (Hf : In x (filter is_invoke_s X)) by (apply filter_In; split; assumption). destruct (filter is_invoke_s X); [destruct Hf|cbn [length] in Hcinv; lia].
    - assert (Hf : In x (filter is_invoke_s Y)) by (apply filter_In; split; assumption). destruct (filter is_invoke_s Y); [destruct Hf|cbn [length] in Hcinv; lia]. }
  (* the non-Reorder providers keep their listed order through the sort *)
  pose proof (reorder_keeps_listed_providers _ _ _ Er) as Hkeep.
  assert (Hfilt : filter nrs (map p_s f1) = filter nrs X ++ invS :: filter nrs Y).
  { rewrite (filter_map_comm nrs p_s f1). change (fun x : prov => nrs (p_s x)) with nrp. rewrite Hkeep.
    change nrp with (fun x : prov => nrs (p_s x)). rewrite <- (filter_map_comm nrs p_s f0), El, filter_app. cbn [filter]. rewrite HnrS. reflexivity. }
  assert (Hpre : pre_ok (map p_s funcs) = true).
  { rewrite Hs. apply pre_ok_filter.
    - intros x Hx. apply Honly. apply (Permutation_in _ (reorder_perm_s _ _ _ Er)). exact Hx.
    - rewrite Hfilt. apply pre_ok'_layout; [|exact HinvS].
      apply Forall_forall. intros x Hx. apply filter_In in Hx. destruct Hx as [Hx _]. rewrite Forall_forall in HX. apply HX, Hx. }
  unfold runs_after_invoke. fold funcs ii. apply forallb_forall. intros p Hp'.
  destruct (in_firstn_pos p ii funcs Hp') as (k & Hk & Ek).
  destruct (pre_ok_before funcs 0 ii Hfc Hpre k p Ek ltac:(lia)) as [Hre|Hnr].
  - (* a Reorder'd provider: a plain injector or outside the per-invocation part *)
    assert (Hin : In (p_s p) (map p_s f0)).
    { apply (Permutation_in _ (reorder_perm_s _ _ _ Er)). rewrite <- Hs. apply in_map. eapply getp_in. exact Ek. }
    apply in_map_iff in Hin. destruct Hin as (q & Hq & Hqin). unfold reorder_mild in Hmild. rewrite forallb_forall in Hmild.
    specialize (Hmild q Hqin). rewrite Hq in Hmild. unfold mild_s in Hmild. rewrite Hre in Hmild. cbn [orb] in Hmild.
    apply orb_true_iff in Hmild. destruct Hmild as [Hm|Hm].
    + unfold p_class. rewrite Hm. cbn [negb]. rewrite andb_false_r. reflexivity.
    + unfold nonrun_s in Hm. apply negb_true_iff in Hm. unfold p_group. rewrite Hm. rewrite andb_false_r. reflexivity.
  - unfold nonrun_s in Hnr. apply negb_true_iff in Hnr. unfold p_group. rewrite Hnr. rewrite andb_false_r. reflexivity.
Qed.
Print Assumptions runs_after_invoke_mild.
