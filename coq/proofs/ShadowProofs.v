(* Soundness of the return-shadowing check (shadowing.go): when it passes, no provider returns a
   type that a provider below it already returns un-received, unless the type was announced with
   AllowReturnShadowing (or it is the error of a fallible injector).  (C15) *)
From Coq Require Import List Arith Bool Lia.
Import ListNotations.
From NJ Require Import Base Registry Classify Select Machine.

Definition returns_unreceived (p : prov) (t : nat) : Prop := In t (pflow p FRet) /\ ~ In t (pflow p FRecv).

Definition shadow_exempt (te : tyenv) (p : prov) (t : nat) : bool :=
  ((class_eqb (p_class p) ClFallible || class_eqb (p_class p) ClFallibleStatic) &&
   ((t =? te_errorT te) || (t =? te_terminalT te)))
  || memb t (d_shadowingAllowed (s_d (p_s p))).

Lemma memb_iff x l : memb x l = true <-> In x l.
Proof.
  induction l as [|y r IH]; simpl; [split; [discriminate | intros []]|].
  rewrite orb_true_iff, Nat.eqb_eq, IH. split; intros [H|H]; auto.
Qed.

Definition shadow_f (te : tyenv) (p : prov) (st : list nat * bool) (t : nat) : list nat * bool :=
  let (ret, ok) := st in
  if negb ok then st
  else if memb t (pflow p FRecv) then st
  else if negb (memb t ret) then (t :: ret, true)
  else if (class_eqb (p_class p) ClFallible || class_eqb (p_class p) ClFallibleStatic) && ((t =? te_errorT te) || (t =? te_terminalT te)) then st
  else if memb t (d_shadowingAllowed (s_d (p_s p))) then st
  else (ret, false).

(* one provider's step of the loop *)
Definition shadow_step (te : tyenv) (p : prov) (returned : list nat) : list nat * bool :=
  let recvd := pflow p FRecv in
  let fallible := class_eqb (p_class p) ClFallible || class_eqb (p_class p) ClFallibleStatic in
  fold_left (fun (st : list nat * bool) t =>
      let (ret, ok) := st in
      if negb ok then st
      else if memb t recvd then st
      else if negb (memb t ret) then (t :: ret, true)
      else if fallible && ((t =? te_errorT te) || (t =? te_terminalT te)) then st
      else if memb t (d_shadowingAllowed (s_d (p_s p))) then st
      else (ret, false)) (pflow p FRet) (returned, true).

Lemma shadow_loop_unfold te p r returned :
  shadow_loop te (p :: r) returned =
  (if snd (shadow_step te p returned) then shadow_loop te r (fst (shadow_step te p returned)) else false).
Proof. reflexivity. Qed.

(* the inner fold: if it ends ok, every un-received returned type that was already in the set is
   exempt, the set only grows, and every un-received returned type is in the final set *)
Lemma shadow_f_stuck te p : forall l r0, fold_left (shadow_f te p) l (r0, false) = (r0, false).
Proof. induction l as [|x l IHl]; intros r0; simpl; [reflexivity | apply IHl]. Qed.

Lemma shadow_fold_spec te p : forall tys ret0 ret1,
  fold_left (shadow_f te p) tys (ret0, true) = (ret1, true) ->
  (forall t, In t ret0 -> In t ret1) /\
  (forall t, In t tys -> ~ In t (pflow p FRecv) -> In t ret1) /\
  (forall t, In t tys -> ~ In t (pflow p FRecv) -> In t ret0 -> shadow_exempt te p t = true).
Proof.
  induction tys as [|t r IH]; intros ret0 ret1 H; cbn [fold_left] in H.
  - inversion H; subst. repeat split; auto; intros t [].
  - unfold shadow_f at 2 in H. cbn [negb] in H.
    destruct (memb t (pflow p FRecv)) eqn:Er.
    + destruct (IH _ _ H) as (H1 & H2 & H3). repeat split; auto.
      * intros t0 [E|Hin] Hn; [subst; exfalso; apply Hn; apply memb_iff; exact Er | auto].
      * intros t0 [E|Hin] Hn Hi; [subst; exfalso; apply Hn; apply memb_iff; exact Er | auto].
    + destruct (memb t ret0) eqn:Em; cbn [negb] in H.
      * destruct ((class_eqb (p_class p) ClFallible || class_eqb (p_class p) ClFallibleStatic) && ((t =? te_errorT te) || (t =? te_terminalT te))) eqn:Ef.
        -- destruct (IH _ _ H) as (H1 & H2 & H3). repeat split; auto.
           ++ intros t0 [E|Hin] Hn; [subst; apply H1; apply memb_iff; exact Em | auto].
           ++ intros t0 [E|Hin] Hn Hi; [subst; unfold shadow_exempt; rewrite Ef; reflexivity | auto].
        -- destruct (memb t (d_shadowingAllowed (s_d (p_s p)))) eqn:Ea.
           ++ destruct (IH _ _ H) as (H1 & H2 & H3). repeat split; auto.
              ** intros t0 [E|Hin] Hn; [subst; apply H1; apply memb_iff; exact Em | auto].
              ** intros t0 [E|Hin] Hn Hi; [subst; unfold shadow_exempt; rewrite Ef, Ea; reflexivity | auto].
           ++ rewrite shadow_f_stuck in H. inversion H.
      * destruct (IH _ _ H) as (H1 & H2 & H3). repeat split.
        -- intros t0 Hi. apply H1. right. exact Hi.
        -- intros t0 [E|Hin] Hn; [subst; apply H1; left; reflexivity | auto].
        -- intros t0 [E|Hin] Hn Hi.
           ++ subst. exfalso. apply memb_iff in Hi. rewrite Hi in Em. discriminate.
           ++ apply H3; auto. right. exact Hi.
Qed.

(* bottom-up list: l = below ++ p :: above (the loop visits [below] first) *)
Theorem shadow_loop_sound te : forall below returned p above t,
  shadow_loop te (below ++ p :: above) returned = true ->
  returns_unreceived p t -> shadow_exempt te p t = false ->
  ~ In t returned /\ forall q, In q below -> ~ returns_unreceived q t.
Proof.
  induction below as [|b r IH]; intros returned p above t H Hp Hx.
  - simpl app in H. rewrite shadow_loop_unfold in H.
    destruct (shadow_step te p returned) as [ret1 ok] eqn:Es. simpl in H.
    destruct ok; [|discriminate].
    change (fold_left (shadow_f te p) (pflow p FRet) (returned, true) = (ret1, true)) in Es.
    destruct (shadow_fold_spec te p _ _ _ Es) as (_ & _ & H3).
    split; [|intros q []].
    intros Hin. destruct Hp as [Hr Hn]. rewrite (H3 t Hr Hn Hin) in Hx. discriminate.
  - simpl app in H. rewrite shadow_loop_unfold in H.
    destruct (shadow_step te b returned) as [ret1 ok] eqn:Es. simpl in H.
    destruct ok; [|discriminate].
    change (fold_left (shadow_f te b) (pflow b FRet) (returned, true) = (ret1, true)) in Es.
    destruct (shadow_fold_spec te b _ _ _ Es) as (H1 & H2 & _).
    destruct (IH ret1 p above t H Hp Hx) as [Hn Hq].
    split.
    + intros Hin. apply Hn. apply H1. exact Hin.
    + intros q [E|Hin].
      * subst q. intros [Hr Hnr]. apply Hn. apply H2; assumption.
      * apply Hq. exact Hin.
Qed.

(* In chain order (top first): a provider that returns t without receiving it, and is not exempt,
   has no provider below it that also returns t without receiving it. *)
Theorem check_shadowing_sound te funcs above p below t :
  check_shadowing te funcs = true -> funcs = above ++ p :: below ->
  returns_unreceived p t -> shadow_exempt te p t = false ->
  forall q, In q below -> ~ returns_unreceived q t.
Proof.
  intros H Hf Hp Hx q Hq. unfold check_shadowing in H. subst funcs.
  rewrite rev_app_distr in H. simpl in H. rewrite <- app_assoc in H. simpl in H.
  destruct (shadow_loop_sound te (rev below) [] p (rev above) t H Hp Hx) as [_ Hb].
  apply Hb. apply in_rev. rewrite rev_involutive. exact Hq.
Qed.
