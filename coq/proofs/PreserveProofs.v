(* Selection only marks: computeDependenciesAndInclusion (after Reorder) returns the list it was
   given, entry by entry - same provider, same classification, same flows - with include marks,
   remaps and dependency records filled in.  It never reorders, adds or drops an entry. *)
From Coq Require Import List Arith Bool Lia.
Import ListNotations.
From NJ Require Import Base Registry Classify Select Machine Spec Bind SelectProofs AllocProofs WiringProofs.

Lemma same_s_refl l : same_s l l.
Proof. intros j. reflexivity. Qed.

Lemma same_s_map f l : (forall p, p_s (f p) = p_s p) -> same_s (map f l) l.
Proof.
  intros Hf j. unfold getp. rewrite nth_opt_map. destruct (nth_opt j l); simpl; [rewrite Hf|]; reflexivity.
Qed.

Lemma same_s_updp' l i f : (forall p, p_s (f p) = p_s p) -> same_s (updp i f l) l.
Proof. intros Hf. unfold same_s. apply same_s_updp; [exact Hf|apply same_s_refl]. Qed.

(* pointwise equal entries: equal lists *)
Lemma nth_opt_ext {A} : forall (a b : list A), (forall j, nth_opt j a = nth_opt j b) -> a = b.
Proof.
  induction a as [|x a IH]; intros b H.
  - destruct b as [|y b]; [reflexivity|]. specialize (H 0). discriminate.
  - destruct b as [|y b]; [specialize (H 0); discriminate|].
    pose proof (H 0) as H0. simpl in H0. injection H0 as ->. f_equal. apply IH. intros j. apply (H (S j)).
Qed.

Lemma same_s_map_eq a b : same_s a b -> map p_s a = map p_s b.
Proof.
  intros H. apply nth_opt_ext. intros j. rewrite !nth_opt_map. apply H.
Qed.

(* ---------- validateChainMarkIncludeExclude ---------- *)
Lemma mark_loop_same_s : forall todo funcs i rem fs r e,
  mark_loop funcs i todo rem = (fs, r, e) -> same_s fs funcs.
Proof.
  induction todo as [|p t IH]; intros funcs i rem fs r e H; cbn [mark_loop] in H.
  - injection H as <- _ _. apply same_s_refl.
  - destruct (negb (p_excluded p)).
    + apply IH in H. eapply same_s_trans; [exact H|]. apply same_s_updp'. intros q. reflexivity.
    + destruct (p_required p); [injection H as <- _ _; apply same_s_refl|].
      apply IH in H. eapply same_s_trans; [exact H|]. apply same_s_updp'. intros q. reflexivity.
Qed.

Lemma check_one_same_s te crd st i : same_s (cf_funcs (check_one te crd st i)) (cf_funcs st).
Proof.
  unfold check_one. destruct (cf_err st); [apply same_s_refl|].
  destruct (memb i (cf_seen st)); [apply same_s_refl|]. cbn [cf_funcs].
  destruct (getp (cf_funcs st) i) as [p|]; [|apply same_s_refl].
  destruct (p_cannot p).
  - destruct (p_required p); [apply same_s_refl|].
    destruct ((p_wanted p || p_desired p) && negb crd && negb (p_excluded p)); [apply same_s_refl|].
    destruct (p_include p); [|apply same_s_refl]. cbn [cf_funcs]. apply same_s_updp'. intros q. reflexivity.
  - destruct (checks_ok te (cf_funcs st) p); [apply same_s_refl|]. cbn [cf_funcs]. apply same_s_updp'. intros q. reflexivity.
Qed.

Lemma check_fold_same_s te crd : forall todo st, same_s (cf_funcs (fold_left (check_one te crd) todo st)) (cf_funcs st).
Proof.
  induction todo as [|i r IH]; intros st; cbn [fold_left]; [apply same_s_refl|].
  eapply same_s_trans; [apply IH|apply check_one_same_s].
Qed.

Lemma check_passes_same_s te crd : forall fuel funcs todo funcs' e,
  check_passes te crd fuel funcs todo = (funcs', e) -> same_s funcs' funcs.
Proof.
  induction fuel as [|fuel IH]; intros funcs todo funcs' e H; destruct todo as [|i r]; cbn [check_passes] in H;
    try (injection H as <- _; apply same_s_refl).
  set (st := fold_left (check_one te crd) (i :: r) (mkCf funcs [] [] None)) in *.
  assert (Hst : same_s (cf_funcs st) funcs) by (apply (check_fold_same_s te crd (i :: r) (mkCf funcs [] [] None))).
  destruct (cf_err st); [injection H as <- _; exact Hst|].
  eapply same_s_trans; [apply (IH _ _ _ _ H)|exact Hst].
Qed.

Lemma validate_same_s te crd funcs funcs' e : validate_chain te crd funcs = (funcs', e) -> same_s funcs' funcs.
Proof.
  unfold validate_chain. destruct (mark_loop funcs 0 funcs []) as [[fs rem] [e0|]] eqn:Em.
  - intros H. injection H as <- _. apply (mark_loop_same_s _ _ _ _ _ _ _ Em).
  - intros H. eapply same_s_trans; [apply (check_passes_same_s _ _ _ _ _ _ _ H)|apply (mark_loop_same_s _ _ _ _ _ _ _ Em)].
Qed.

(* ---------- the other steps ---------- *)
Lemma elim_unused_same_s : forall fuel funcs check, same_s (elim_unused fuel funcs check) funcs.
Proof.
  induction fuel as [|fuel IH]; intros funcs check; cbn [elim_unused]; [apply same_s_refl|].
  destruct check as [|i rest]; [apply same_s_refl|].
  destruct (getp funcs i) as [p|]; [|apply IH].
  destruct (p_required p || p_desired p || p_wanted p || negb (p_include p) || p_excluded p || negb (p_cluster p =? 0)); [apply IH|].
  destruct (any_included funcs (usedBy (p_deps p))); [apply IH|].
  eapply same_s_trans; [apply IH|]. apply same_s_updp'. intros q. reflexivity.
Qed.

Lemma cluster_loop_same_s : forall todo funcs i leaders, same_s (cluster_loop funcs i todo leaders) funcs.
Proof.
  induction todo as [|x r IH]; intros funcs i leaders; cbn [cluster_loop]; [apply same_s_refl|].
  destruct (getp funcs i) as [p|]; [|apply same_s_refl].
  destruct ((p_cluster p =? 0) || p_excluded p); [apply IH|].
  destruct (alookup (p_cluster p) leaders) as [ld|].
  - match goal with |- same_s (cluster_loop ?f2 _ _ _) _ => assert (H2 : same_s f2 funcs) end.
    { destruct (negb (p_required p) && negb (p_desired p) && p_wanted p).
      - eapply same_s_trans; [apply same_s_updp'; intros q; reflexivity|].
        eapply same_s_trans; [apply same_s_updp'; intros q; reflexivity|]. apply same_s_updp'. intros q. reflexivity.
      - eapply same_s_trans; [apply same_s_updp'; intros q; reflexivity|]. apply same_s_updp'. intros q. reflexivity. }
    eapply same_s_trans; [apply IH|exact H2].
  - match goal with |- same_s (cluster_loop ?f2 _ _ _) _ => assert (H2 : same_s f2 funcs) end.
    { destruct (negb (p_required p) && negb (p_desired p) && p_wanted p).
      - eapply same_s_trans; [apply same_s_updp'; intros q; reflexivity|]. apply same_s_updp'. intros q. reflexivity.
      - apply same_s_updp'. intros q. reflexivity. }
    eapply same_s_trans; [apply IH|exact H2].
Qed.

Lemma fold_updp_same_s (g : nat -> prov -> prov) : (forall u p, p_s (g u p) = p_s p) ->
  forall us l, same_s (fold_left (fun f u => updp u (g u) f) us l) l.
Proof.
  intros Hg. induction us as [|u r IH]; intros l; cbn [fold_left]; [apply same_s_refl|].
  eapply same_s_trans; [apply IH|]. apply same_s_updp'. intros p. apply Hg.
Qed.

Lemma try_without_same_s te funcs without : same_s (try_without te funcs without) funcs.
Proof.
  unfold try_without.
  destruct ((match without with [_] => true | _ => false end) && forallb (flagp (fun p => p_wanted p && p_wic p) funcs) without);
    [apply same_s_refl|].
  match goal with |- context [validate_chain te false ?fs1] => destruct (validate_chain te false fs1) as [fs2 err] eqn:Ev end.
  eapply same_s_trans; [|eapply same_s_trans; [apply (validate_same_s _ _ _ _ _ Ev)|]].
  - apply (fold_updp_same_s (fun i p => let p1 := match err with None => p | Some _ => set_excluded false p end in
                                        if negb (match without with [_] => true | _ => false end) && p_wic p then set_wanted true p1 else p1)).
    intros u p. destruct err; destruct (negb _ && p_wic p); reflexivity.
  - apply (fold_updp_same_s (fun i p => let p1 := set_excluded true p in
                                        if negb (match without with [_] => true | _ => false end) && p_wic p then set_wanted false p1 else p1)).
    intros u p. destruct (negb _ && p_wic p); reflexivity.
Qed.

(* ---------- the whole selection ---------- *)
Theorem select_preserves te funcs1 funcs :
  select te funcs1 = Ok funcs -> map p_s funcs = map p_s funcs1.
Proof.
  unfold select. intros H. apply same_s_map_eq.
  destruct (validate_chain te true (provides_returns te (map (init_marks te) funcs1))) as [f3 [e|]] eqn:Ev1; [discriminate|].
  match type of H with
  | match validate_chain te true (provides_returns te ?F8) with _ => _ end = _ =>
    set (f8 := F8) in *;
    destruct (validate_chain te true (provides_returns te f8)) as [f10 [e|]] eqn:Ev2; [discriminate|];
    injection H as <-
  end.
  assert (S1 : same_s (map (init_marks te) funcs1) funcs1).
  { apply same_s_map. intros p. unfold init_marks.
    destruct (s_required (p_s p)); [reflexivity|]. destruct (d_desired (s_d (p_s p))); [reflexivity|].
    destruct (f_out (s_flows (p_s p))) as [outs|]; [|reflexivity].
    destruct (length (strip_unused te outs) =? 0); [|reflexivity].
    destruct (negb (d_cluster (s_d (p_s p)) =? 0)); reflexivity. }
  assert (PRs : forall F, same_s (provides_returns te F) F).
  { intros F. destruct (provides_returns_wired te F) as (A & _). eapply same_s_trans; [exact A|].
    apply same_s_map. intros p. reflexivity. }
  assert (S3 : same_s f3 funcs1).
  { eapply same_s_trans; [apply (validate_same_s _ _ _ _ _ Ev1)|]. eapply same_s_trans; [apply PRs|exact S1]. }
  assert (S8 : same_s f8 f3).
  { unfold f8.
    eapply same_s_trans; [apply same_s_map; intros p; destruct (negb (p_excluded p)); reflexivity|].
    match goal with |- same_s (fold_left ?step ?prop ?f6) _ =>
      assert (HF : forall l a, same_s (fold_left step l a) a)
    end.
    { induction l as [|i r IH]; intros a; cbn [fold_left]; [apply same_s_refl|].
      eapply same_s_trans; [apply IH|].
      destruct (getp a i) as [p|]; [|apply same_s_refl].
      destruct (p_excluded p); [apply same_s_refl|].
      destruct (negb (p_cluster p =? 0)).
      - destruct (p_members p); [apply try_without_same_s|apply same_s_refl].
      - destruct (s_synthetic (p_s p) && negb (p_shun p)); [|apply try_without_same_s].
        eapply same_s_trans; [apply (fold_updp_same_s (fun _ => set_wanted false)); intros u q; reflexivity|].
        eapply same_s_trans; [apply try_without_same_s|].
        apply (fold_updp_same_s (fun _ => set_wanted true)). intros u q. reflexivity. }
    eapply same_s_trans; [apply HF|].
    eapply same_s_trans; [apply elim_unused_same_s|].
    eapply same_s_trans; [apply cluster_loop_same_s|].
    apply same_s_map. intros p. destruct (p_cannot p); reflexivity. }
  eapply same_s_trans; [apply (validate_same_s _ _ _ _ _ Ev2)|].
  eapply same_s_trans; [apply PRs|]. eapply same_s_trans; [exact S8|exact S3].
Qed.

(* Without Reorder, the final working list is the assembled list: Debugging, init, the providers
   that are static or literals in listed order, invoke, the others in listed order (the final
   function last), with nject's Unused providers where Bind puts them. *)
From NJ Require Import Reorder.
Theorem plan_keeps_assembled_order c pl f0 :
  assemble c = Ok f0 -> existsb is_reorder f0 = false -> plan_of c = Ok pl ->
  map p_s (pl_funcs pl) = map p_s f0.
Proof.
  intros Ha Hr. unfold plan_of. rewrite Ha. cbn [bindr].
  unfold reorder_funcs. rewrite Hr. cbn [negb bindr].
  destruct (select (bc_te c) f0) as [funcs|e|e] eqn:Es; cbn [bindr]; try discriminate.
  destruct (opt_res (find_class ClInvoke funcs 0) EB_INTERNAL) as [ii|e|e]; cbn [bindr]; try discriminate.
  destruct (negb (check_shadowing (bc_te c) funcs)); [discriminate|].
  destruct (negb (init_bypass_ok funcs (sl_down0 (allocate_slots funcs ii)))); [discriminate|].
  intros H. injection H as <-. cbn [pl_funcs]. apply (select_preserves _ _ _ Es).
Qed.
