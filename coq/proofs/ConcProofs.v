(* Invariants of the interleaving models (Conc.v), for every schedule and any number of threads.
   (C09, C10, C12) *)
From Coq Require Import List Arith Bool Lia.
Import ListNotations.
From NJ Require Import Base Conc SelectProofs.

(* ---------- generic ---------- *)
Lemma run_inv {St} (step : nat -> St -> option St) (I : St -> Prop) :
  (forall t s s', I s -> step t s = Some s' -> I s') -> forall sched s, I s -> I (run St step sched s).
Proof.
  intros Hstep. induction sched as [|t r IH]; intros s Hs; simpl; [exact Hs|].
  destruct (step t s) as [s'|] eqn:E; apply IH; [eapply Hstep; eauto | exact Hs].
Qed.

Lemma nth_opt_upd {A} (f : A -> A) (l : list A) i j :
  nth_opt j (upd_nth i f l) = if i =? j then option_map f (nth_opt j l) else nth_opt j l.
Proof.
  destruct (Nat.eq_dec i j) as [E|E].
  - subst. rewrite Nat.eqb_refl. destruct (nth_opt j l) as [x|] eqn:Ex.
    + simpl. apply nth_opt_upd_same. exact Ex.
    + simpl. apply nth_opt_upd_none. exact Ex.
  - apply Nat.eqb_neq in E. rewrite E. apply nth_opt_upd_other. apply Nat.eqb_neq. exact E.
Qed.

Lemma alookup_none_notin {A} k (m : list (nat * A)) : alookup k m = None -> ~ In k (map fst m).
Proof.
  induction m as [|[k' v] r IH]; simpl; [intros _ []|].
  destruct (k =? k') eqn:E; [discriminate|]. intros H [H1|H1].
  - subst. rewrite Nat.eqb_refl in E. discriminate.
  - exact (IH H H1).
Qed.

Lemma alookup_some_in {A} k (v : A) m : alookup k m = Some v -> In (k, v) m.
Proof.
  induction m as [|[k' v'] r IH]; simpl; [discriminate|].
  destruct (k =? k') eqn:E; intros H.
  - apply Nat.eqb_eq in E. inversion H; subst. left. reflexivity.
  - right. apply IH. exact H.
Qed.

(* ---------- the memoize cache ---------- *)
Definition idle (th : mthread) : Prop := m_pc th = 0 \/ m_pc th = 3.

Record Minv (s : mstate) : Prop := {
  mi_cache_nodup : NoDup (map fst (ms_cache s));
  mi_cache_calls : forall k r, In (k, r) (ms_cache s) -> In (k, r) (ms_calls s);
  mi_calls_nodup : NoDup (map fst (ms_calls s));
  mi_lock :
    match ms_lock s with
    | None =>
      (forall t th, nth_opt t (ms_threads s) = Some th -> idle th) /\
      (forall k, In k (map fst (ms_calls s)) -> In k (map fst (ms_cache s)))
    | Some h =>
      exists th, nth_opt h (ms_threads s) = Some th /\ (m_pc th = 1 \/ m_pc th = 2) /\
        alookup (m_key th) (ms_cache s) = None /\
        (m_pc th = 1 -> ~ In (m_key th) (map fst (ms_calls s))) /\
        (m_pc th = 2 -> exists r, m_res th = Some r /\ In (m_key th, r) (ms_calls s)) /\
        (forall t' th', t' <> h -> nth_opt t' (ms_threads s) = Some th' -> idle th') /\
        (forall k, In k (map fst (ms_calls s)) -> In k (map fst (ms_cache s)) \/ (k = m_key th /\ m_pc th = 2))
    end;
  mi_done : forall t th, nth_opt t (ms_threads s) = Some th -> m_pc th = 3 ->
            exists r, m_res th = Some r /\ In (m_key th, r) (ms_calls s)
}.

Lemma minit_inv keys : Minv (minit keys).
Proof.
  constructor; simpl.
  - constructor.
  - intros k r [].
  - constructor.
  - split; [|intros k []].
    intros t th H. rewrite nth_opt_map in H. destruct (nth_opt t keys); [|discriminate].
    simpl in H. inversion H; subst. left. reflexivity.
  - intros t th H Hpc. rewrite nth_opt_map in H. destruct (nth_opt t keys); [|discriminate].
    simpl in H. inversion H; subst. simpl in Hpc. discriminate.
Qed.

Lemma mstep_inv t s s' : Minv s -> mstep t s = Some s' -> Minv s'.
Proof.
  intros [HA HB HC HD HE]. unfold mstep.
  destruct (nth_opt t (ms_threads s)) as [th|] eqn:Et; [|discriminate].
  destruct (m_pc th) as [|[|[|pc]]] eqn:Epc; [| | |discriminate].
  - (* pc 0 *)
    destruct (ms_lock s) as [h|] eqn:El; [discriminate|].
    destruct HD as [Hidle Hcov].
    destruct (alookup (m_key th) (ms_cache s)) as [r|] eqn:Ea; intros H; inversion H; subst s'; clear H.
    + (* hit *)
      constructor; simpl; [exact HA | exact HB | exact HC | |].
      * split; [|exact Hcov].
        intros t' th' H'. rewrite nth_opt_upd in H'. destruct (t =? t').
        -- rewrite ?Et in H'. destruct (nth_opt t' (ms_threads s)); simpl in H'; inversion H'; subst. right. reflexivity.
        -- eapply Hidle; eauto.
      * intros t' th' H' Hpc. rewrite nth_opt_upd in H'. destruct (t =? t') eqn:Ett.
        -- destruct (nth_opt t' (ms_threads s)); simpl in H'; inversion H'; subst. simpl.
           exists r. split; [reflexivity|]. apply HB. apply alookup_some_in. exact Ea.
        -- eapply HE; eauto.
    + (* miss: take the lock *)
      constructor; simpl; [exact HA | exact HB | exact HC | |].
      * exists (mkMt (m_key th) 1 None). rewrite nth_opt_upd, Nat.eqb_refl, Et. simpl.
        split; [reflexivity|]. split; [left; reflexivity|]. split; [exact Ea|].
        split; [intros _ Hin; apply (alookup_none_notin _ _ Ea); apply Hcov; exact Hin|].
        split; [intros Hc; discriminate|].
        split.
        -- intros t' th' Hne H'. rewrite nth_opt_upd in H'. apply Nat.eqb_neq in Hne. rewrite Nat.eqb_sym in Hne.
           rewrite Nat.eqb_sym, Hne in H' || rewrite Hne in H'. eapply Hidle; eauto.
        -- intros k Hk. left. apply Hcov. exact Hk.
      * intros t' th' H' Hpc. rewrite nth_opt_upd in H'. destruct (t =? t') eqn:Ett.
        -- destruct (nth_opt t' (ms_threads s)); simpl in H'; inversion H'; subst. simpl in Hpc. discriminate.
        -- eapply HE; eauto.
  - (* pc 1: the call; t must be the lock holder *)
    intros H; inversion H; subst s'; clear H.
    destruct (ms_lock s) as [h|] eqn:El.
    2:{ destruct HD as [Hidle _]. destruct (Hidle t th Et) as [Hc|Hc]; rewrite Epc in Hc; discriminate. }
    destruct HD as (thh & Hh & Hpch & Hmiss & Hfresh & Hpend & Hothers & Hcov).
    assert (t = h).
    { destruct (Nat.eq_dec t h) as [E|E]; [exact E|]. destruct (Hothers t th E Et) as [Hc|Hc]; rewrite Epc in Hc; discriminate. }
    subst h. rewrite Et in Hh. inversion Hh; subst thh.
    constructor; simpl.
    + exact HA.
    + intros k r Hin. right. apply HB. exact Hin.
    + constructor; [apply Hfresh; exact Epc | exact HC].
    + exists (mkMt (m_key th) 2 (Some (ms_next s))). rewrite nth_opt_upd, Nat.eqb_refl, Et. simpl.
      split; [reflexivity|]. split; [right; reflexivity|]. split; [exact Hmiss|].
      split; [intros Hc; discriminate|].
      split; [intros _; exists (ms_next s); split; [reflexivity | left; reflexivity]|].
      split.
      * intros t' th' Hne H'. rewrite nth_opt_upd in H'. destruct (t =? t') eqn:Ett; [apply Nat.eqb_eq in Ett; subst; contradiction|].
        eapply Hothers; eauto.
      * intros k [Hk|Hk]; [right; split; [symmetry; exact Hk | reflexivity]|].
        destruct (Hcov k Hk) as [Hc|[_ Hc]]; [left; exact Hc | rewrite Epc in Hc; discriminate].
    + intros t' th' H' Hpc. rewrite nth_opt_upd in H'. destruct (t =? t') eqn:Ett.
      * destruct (nth_opt t' (ms_threads s)); simpl in H'; inversion H'; subst. simpl in Hpc. discriminate.
      * destruct (HE t' th' H' Hpc) as (r & Hr & Hin). exists r. split; [exact Hr | right; exact Hin].
  - (* pc 2: store and unlock *)
    destruct (m_res th) as [r|] eqn:Er; [|discriminate].
    intros H; inversion H; subst s'; clear H.
    destruct (ms_lock s) as [h|] eqn:El.
    2:{ destruct HD as [Hidle _]. destruct (Hidle t th Et) as [Hc|Hc]; rewrite Epc in Hc; discriminate. }
    destruct HD as (thh & Hh & Hpch & Hmiss & Hfresh & Hpend & Hothers & Hcov).
    assert (t = h).
    { destruct (Nat.eq_dec t h) as [E|E]; [exact E|]. destruct (Hothers t th E Et) as [Hc|Hc]; rewrite Epc in Hc; discriminate. }
    subst h. rewrite Et in Hh. inversion Hh; subst thh.
    destruct (Hpend Epc) as (r' & Hr' & Hin). rewrite Er in Hr'. inversion Hr'; subst r'.
    constructor; simpl.
    + constructor; [apply alookup_none_notin; exact Hmiss | exact HA].
    + intros k r0 [Hk|Hk]; [inversion Hk; subst; exact Hin | apply HB; exact Hk].
    + exact HC.
    + split.
      * intros t' th' H'. rewrite nth_opt_upd in H'. destruct (t =? t') eqn:Ett.
        -- destruct (nth_opt t' (ms_threads s)); simpl in H'; inversion H'; subst. right. reflexivity.
        -- apply Nat.eqb_neq in Ett. eapply Hothers; eauto.
      * intros k Hk. destruct (Hcov k Hk) as [Hc|[Hc _]]; [right; exact Hc | left; symmetry; exact Hc].
    + intros t' th' H' Hpc. rewrite nth_opt_upd in H'. destruct (t =? t') eqn:Ett.
      * destruct (nth_opt t' (ms_threads s)); simpl in H'; inversion H'; subst. simpl.
        exists r. split; [reflexivity | exact Hin].
      * eapply HE; eauto.
Qed.

Lemma nodup_keys_filter k (l : list (nat * nat)) : NoDup (map fst l) ->
  length (filter (fun c => fst c =? k) l) <= 1.
Proof.
  induction l as [|[k' r] l IH]; simpl; intros H; [lia|].
  inversion H as [|? ? Hn Hr]; subst. destruct (k' =? k) eqn:E; simpl; [|apply IH; exact Hr].
  apply Nat.eqb_eq in E. subst k'.
  assert (filter (fun c => fst c =? k) l = []).
  { clear - Hn. induction l as [|[k2 r2] l IH]; simpl; [reflexivity|].
    destruct (k2 =? k) eqn:E2.
    - apply Nat.eqb_eq in E2. subst. exfalso. apply Hn. left. reflexivity.
    - apply IH. intros Hc. apply Hn. right. exact Hc. }
  rewrite H0. simpl. lia.
Qed.

Lemma nodup_keys_filter_in k r (l : list (nat * nat)) : NoDup (map fst l) -> In (k, r) l ->
  map snd (filter (fun c => fst c =? k) l) = [r].
Proof.
  induction l as [|[k' r'] l IH]; simpl; intros H Hin; [destruct Hin|].
  inversion H as [|? ? Hn Hr]; subst. destruct Hin as [E|Hin].
  - inversion E; subst. rewrite Nat.eqb_refl. simpl. f_equal.
    assert (filter (fun c => fst c =? k) l = []).
    { clear - Hn. induction l as [|[k2 r2] l IH]; simpl; [reflexivity|].
      destruct (k2 =? k) eqn:E2.
      - apply Nat.eqb_eq in E2. subst. exfalso. apply Hn. left. reflexivity.
      - apply IH. intros Hc. apply Hn. right. exact Hc. }
    rewrite H0. reflexivity.
  - destruct (k' =? k) eqn:E.
    + apply Nat.eqb_eq in E. subst. exfalso. apply Hn. apply (in_map fst) in Hin. exact Hin.
    + apply IH; assumption.
Qed.

(* C09: for every assignment of keys to any number of concurrent uses and every schedule,
   the function is called at most once per key and every use that returned observed exactly the
   result of that one call. *)
Theorem memo_once_per_key : forall keys sched,
  let s := run mstate mstep sched (minit keys) in
  (forall k, length (calls_for k s) <= 1) /\
  (forall t th, nth_opt t (ms_threads s) = Some th -> m_pc th = 3 ->
     exists r, m_res th = Some r /\ calls_for (m_key th) s = [r]).
Proof.
  intros keys sched s.
  assert (Hinv : Minv s) by (apply run_inv; [intros; eapply mstep_inv; eauto | apply minit_inv]).
  destruct Hinv as [HA HB HC HD HE]. split.
  - intros k. unfold calls_for. rewrite map_length. apply nodup_keys_filter. exact HC.
  - intros t th Ht Hpc. destruct (HE t th Ht Hpc) as (r & Hr & Hin). exists r. split; [exact Hr|].
    unfold calls_for. apply nodup_keys_filter_in; assumption.
Qed.

(* the keys of a thread never change: uses with different keys never share a call *)
Lemma mstep_keys t s s' : mstep t s = Some s' -> map m_key (ms_threads s') = map m_key (ms_threads s).
Proof.
  unfold mstep. destruct (nth_opt t (ms_threads s)) as [th|] eqn:Et; [|discriminate].
  assert (Hupd : forall pc res, map m_key (upd_nth t (fun _ => mkMt (m_key th) pc res) (ms_threads s)) = map m_key (ms_threads s)).
  { intros pc res. revert t Et. induction (ms_threads s) as [|x l IH]; intros t Et; destruct t; simpl in *; try discriminate; auto.
    - inversion Et; subst. reflexivity.
    - f_equal. apply IH. exact Et. }
  destruct (m_pc th) as [|[|[|pc]]]; try discriminate.
  - destruct (ms_lock s); [discriminate|]. destruct (alookup (m_key th) (ms_cache s)); intros H; inversion H; subst; simpl; apply Hupd.
  - intros H; inversion H; subst; simpl; apply Hupd.
  - destruct (m_res th); [|discriminate]. intros H; inversion H; subst; simpl; apply Hupd.
Qed.

Lemma run_keys : forall sched s1, map m_key (ms_threads (run mstate mstep sched s1)) = map m_key (ms_threads s1).
Proof.
  induction sched as [|t r IH]; intros s1; simpl; [reflexivity|].
  destruct (mstep t s1) as [s2|] eqn:E; [rewrite IH; eapply mstep_keys; eauto | apply IH].
Qed.

Lemma nth_opt_map_key t (l : list mthread) th : nth_opt t l = Some th -> nth_opt t (map m_key l) = Some (m_key th).
Proof. intros H. rewrite nth_opt_map, H. reflexivity. Qed.

Lemma nth_opt_repeat {A} (x y : A) n t : nth_opt t (repeat x n) = Some y -> y = x.
Proof. revert t; induction n as [|n IH]; intros t H; destruct t; simpl in H; try discriminate; [inversion H; reflexivity | eapply IH; eauto]. Qed.

(* C10: Singleton / the per-chain static chain are the one-key instance (sync.Once):
   however many chains and goroutines race, the function runs at most once and everybody who
   returned observed that one result. *)
Corollary once_exactly_once : forall nthreads sched,
  let s := run mstate mstep sched (minit (repeat 0 nthreads)) in
  length (calls_for 0 s) <= 1 /\
  (forall t th, nth_opt t (ms_threads s) = Some th -> m_pc th = 3 ->
     exists r, m_res th = Some r /\ calls_for 0 s = [r]).
Proof.
  intros nthreads sched s. destruct (memo_once_per_key (repeat 0 nthreads) sched) as [H1 H2]. fold s in H1, H2.
  split; [apply H1|].
  intros t th Ht Hpc. destruct (H2 t th Ht Hpc) as (r & Hr & Hc). exists r. split; [exact Hr|].
  assert (Hk : m_key th = 0).
  { pose proof (run_keys sched (minit (repeat 0 nthreads))) as Hkeys. fold s in Hkeys.
    simpl in Hkeys. rewrite map_map in Hkeys. simpl in Hkeys. rewrite map_id in Hkeys.
    pose proof (nth_opt_map_key t _ th Ht) as Hn. rewrite Hkeys in Hn. eapply nth_opt_repeat; eauto. }
  rewrite Hk in Hc. exact Hc.
Qed.

(* ---------- the debug lock ---------- *)
Definition count {A} (P : A -> bool) (l : list A) : nat := length (filter P l).

Lemma count_upd {A} (P : A -> bool) (f : A -> A) : forall (l : list A) t th, nth_opt t l = Some th ->
  count P (upd_nth t f l) + (if P th then 1 else 0) = count P l + (if P (f th) then 1 else 0).
Proof.
  unfold count. induction l as [|x r IH]; intros t th H; destruct t; simpl in *; try discriminate.
  - inversion H; subst. destruct (P th), (P (f th)); simpl; lia.
  - specialize (IH t th H). destruct (P x); simpl; lia.
Qed.

Lemma count_pos_ex {A} (P : A -> bool) : forall l, 0 < count P l -> exists t th, nth_opt t l = Some th /\ P th = true.
Proof.
  unfold count. induction l as [|x r IH]; simpl; intros H; [lia|].
  destruct (P x) eqn:E.
  - exists 0, x. split; [reflexivity | exact E].
  - destruct (IH H) as (t & th & H1 & H2). exists (S t), th. split; assumption.
Qed.

Lemma count_zero_all {A} (P : A -> bool) : forall l, count P l = 0 -> forall t th, nth_opt t l = Some th -> P th = false.
Proof.
  unfold count. induction l as [|x r IH]; intros H t th Ht; destruct t; simpl in *; try discriminate.
  - inversion Ht; subst. destruct (P th); [discriminate | reflexivity].
  - destruct (P x); [discriminate|]. eapply IH; eauto.
Qed.

Definition reading (th : dthread) : bool := (d_pc th =? 1) || (d_pc th =? 2).
Definition writing (th : dthread) : bool := (d_pc th =? 4) || (d_pc th =? 5).

Record Dinv (s : dstate) : Prop := {
  di_readers : ds_readers s = count reading (ds_threads s);
  di_pcs : forall t th, nth_opt t (ds_threads s) = Some th -> d_pc th <= 6;
  di_writer :
    match ds_writer s with
    | Some w => (exists th, nth_opt w (ds_threads s) = Some th /\ writing th = true) /\
                ds_readers s = 0 /\ ds_debug s = true /\
                (forall t th, t <> w -> nth_opt t (ds_threads s) = Some th -> writing th = false)
    | None => ds_debug s = false /\ (forall t th, nth_opt t (ds_threads s) = Some th -> writing th = false)
    end;
  di_log : forall a w, In (a, w) (ds_log s) -> a = w
}.

Lemma dinit_inv fails : Dinv (dinit fails).
Proof.
  constructor; simpl.
  - unfold count. induction fails; simpl; [reflexivity | exact IHfails].
  - intros t th H. rewrite nth_opt_map in H. destruct (nth_opt t fails); [|discriminate]. simpl in H. inversion H; subst. simpl. lia.
  - split; [reflexivity|]. intros t th H. rewrite nth_opt_map in H. destruct (nth_opt t fails); [|discriminate].
    simpl in H. inversion H; subst. reflexivity.
  - intros a w [].
Qed.

Lemma set_pc_nth t pc s t' :
  nth_opt t' (set_pc t pc s) = if t =? t' then option_map (fun th => mkDt (d_fails th) pc) (nth_opt t' (ds_threads s)) else nth_opt t' (ds_threads s).
Proof. unfold set_pc. apply nth_opt_upd. Qed.

Lemma count_set_pc t pc s th : nth_opt t (ds_threads s) = Some th ->
  count reading (set_pc t pc s) + (if (d_pc th =? 1) || (d_pc th =? 2) then 1 else 0)
  = count reading (ds_threads s) + (if (pc =? 1) || (pc =? 2) then 1 else 0).
Proof. intros H. exact (count_upd reading (fun th0 => mkDt (d_fails th0) pc) (ds_threads s) t th H). Qed.

Lemma dstep_inv t s s' : Dinv s -> dstep t s = Some s' -> Dinv s'.
Proof.
  intros [HR HP HW HL]. unfold dstep.
  destruct (nth_opt t (ds_threads s)) as [th|] eqn:Et; [|discriminate].
  pose proof (fun pc => count_set_pc t pc s th Et) as Hcnt.
  assert (Hpcs : forall pc, pc <= 6 -> forall t' th', nth_opt t' (set_pc t pc s) = Some th' -> d_pc th' <= 6).
  { intros pc Hle t' th' H'. rewrite set_pc_nth in H'. destruct (t =? t').
    - destruct (nth_opt t' (ds_threads s)); simpl in H'; inversion H'; subst. simpl. exact Hle.
    - eapply HP; eauto. }
  assert (Hwr_other : forall pc t' th', t <> t' -> nth_opt t' (set_pc t pc s) = Some th' -> nth_opt t' (ds_threads s) = Some th').
  { intros pc t' th' Hne H'. rewrite set_pc_nth in H'. apply Nat.eqb_neq in Hne. rewrite Hne in H'. exact H'. }
  destruct (d_pc th) as [|[|[|[|[|[|pc]]]]]] eqn:Epc; [| | | | | |discriminate].
  - (* 0: RLock *)
    destruct (ds_writer s) as [w|] eqn:Ew; [discriminate|].
    destruct (writer_waiting s); [discriminate|].
    intros H; inversion H; subst s'; clear H. destruct HW as [Hdbg Hnw].
    constructor; simpl.
    + specialize (Hcnt 1). try rewrite Epc in Hcnt. simpl in Hcnt. lia.
    + apply Hpcs. lia.
    + split; [exact Hdbg|]. intros t' th' H'. rewrite set_pc_nth in H'. destruct (t =? t').
      * destruct (nth_opt t' (ds_threads s)); simpl in H'; inversion H'; subst. reflexivity.
      * eapply Hnw; eauto.
    + exact HL.
  - (* 1: doBind under the read lock *)
    intros H; inversion H; subst s'; clear H.
    assert (Hnowriter : ds_writer s = None).
    { destruct (ds_writer s) as [w|] eqn:Ew; [|reflexivity]. destruct HW as (_ & Hr0 & _).
      assert (0 < count reading (ds_threads s)).
      { unfold count. clear - Et Epc. revert t Et. induction (ds_threads s) as [|x l IH]; intros t Et; destruct t; simpl in *; try discriminate.
        - inversion Et; subst. unfold reading. rewrite Epc. simpl. lia.
        - specialize (IH t Et). destruct (reading x); simpl; lia. }
      lia. }
    rewrite Hnowriter in HW |- *. destruct HW as [Hdbg Hnw]. rewrite Hdbg.
    constructor; simpl.
    + specialize (Hcnt 2). try rewrite Epc in Hcnt. simpl in Hcnt. lia.
    + apply Hpcs. lia.
    + split; [reflexivity|]. intros t' th' H'. rewrite set_pc_nth in H'. destruct (t =? t').
      * destruct (nth_opt t' (ds_threads s)); simpl in H'; inversion H'; subst. reflexivity.
      * eapply Hnw; eauto.
    + exact HL.
  - (* 2: RUnlock *)
    intros H; inversion H; subst s'; clear H.
    assert (Hnowriter : ds_writer s = None).
    { destruct (ds_writer s) as [w|] eqn:Ew; [|reflexivity]. destruct HW as (_ & Hr0 & _).
      assert (0 < count reading (ds_threads s)).
      { unfold count. clear - Et Epc. revert t Et. induction (ds_threads s) as [|x l IH]; intros t Et; destruct t; simpl in *; try discriminate.
        - inversion Et; subst. unfold reading. rewrite Epc. simpl. lia.
        - specialize (IH t Et). destruct (reading x); simpl; lia. }
      lia. }
    rewrite Hnowriter in HW |- *. destruct HW as [Hdbg Hnw].
    constructor; simpl.
    + specialize (Hcnt (if d_fails th then 3 else 6)). try rewrite Epc in Hcnt. simpl in Hcnt.
      destruct (d_fails th); simpl in Hcnt; lia.
    + apply Hpcs. destruct (d_fails th); lia.
    + split; [exact Hdbg|]. intros t' th' H'. rewrite set_pc_nth in H'. destruct (t =? t').
      * destruct (nth_opt t' (ds_threads s)); simpl in H'; inversion H'; subst. unfold writing; simpl. destruct (d_fails th); reflexivity.
      * eapply Hnw; eauto.
    + exact HL.
  - (* 3: Lock *)
    destruct (ds_writer s) as [w|] eqn:Ew; [discriminate|].
    destruct (ds_readers s =? 0) eqn:Er0; [|discriminate]. apply Nat.eqb_eq in Er0.
    intros H; inversion H; subst s'; clear H. destruct HW as [Hdbg Hnw].
    constructor; simpl.
    + specialize (Hcnt 4). try rewrite Epc in Hcnt. simpl in Hcnt. lia.
    + apply Hpcs. lia.
    + split; [|split; [reflexivity | split; [reflexivity|]]].
      * exists (mkDt (d_fails th) 4). rewrite set_pc_nth, Nat.eqb_refl, Et. split; reflexivity.
      * intros t' th' Hne H'. apply Hwr_other in H'; [|intro; subst; contradiction]. eapply Hnw; eauto.
    + exact HL.
  - (* 4: replay with debugging on *)
    intros H; inversion H; subst s'; clear H.
    assert (Hw : ds_writer s = Some t).
    { destruct (ds_writer s) as [w|] eqn:Ew.
      - destruct HW as (_ & _ & _ & Hoth). destruct (Nat.eq_dec t w) as [E|E]; [subst; reflexivity|].
        specialize (Hoth t th E Et). unfold writing in Hoth. rewrite Epc in Hoth. discriminate.
      - destruct HW as [_ Hnw]. specialize (Hnw t th Et). unfold writing in Hnw. rewrite Epc in Hnw. discriminate. }
    rewrite Hw in HW |- *. destruct HW as (_ & Hr0 & Hdbg & Hoth).
    constructor; simpl.
    + specialize (Hcnt 5). try rewrite Epc in Hcnt. simpl in Hcnt. lia.
    + apply Hpcs. lia.
    + split; [|split; [exact Hr0 | split; [exact Hdbg|]]].
      * exists (mkDt (d_fails th) 5). rewrite set_pc_nth, Nat.eqb_refl, Et. split; reflexivity.
      * intros t' th' Hne H'. apply Hwr_other in H'; [|intro; subst; contradiction]. eapply Hoth; eauto.
    + intros a w [E|Hin]; [inversion E; reflexivity | eapply HL; eauto].
  - (* 5: debug off, Unlock *)
    intros H; inversion H; subst s'; clear H.
    assert (Hw : ds_writer s = Some t).
    { destruct (ds_writer s) as [w|] eqn:Ew.
      - destruct HW as (_ & _ & _ & Hoth). destruct (Nat.eq_dec t w) as [E|E]; [subst; reflexivity|].
        specialize (Hoth t th E Et). unfold writing in Hoth. rewrite Epc in Hoth. discriminate.
      - destruct HW as [_ Hnw]. specialize (Hnw t th Et). unfold writing in Hnw. rewrite Epc in Hnw. discriminate. }
    rewrite Hw in HW. destruct HW as (_ & Hr0 & Hdbg & Hoth).
    constructor; simpl.
    + specialize (Hcnt 6). try rewrite Epc in Hcnt. simpl in Hcnt. lia.
    + apply Hpcs. lia.
    + split; [reflexivity|]. intros t' th' H'. rewrite set_pc_nth in H'. destruct (t =? t') eqn:Ett.
      * destruct (nth_opt t' (ds_threads s)); simpl in H'; inversion H'; subst. reflexivity.
      * apply Nat.eqb_neq in Ett. eapply Hoth; eauto.
    + exact HL.
Qed.

(* In the doBind step (pc 1) a line is logged only if debugging is on; the invariant shows that
   never happens: while a failing Bind holds the write lock no other Bind is inside doBind. *)

(* C12: any mix of failing and succeeding Binds, any schedule: no deadlock (as long as a Bind has
   not returned, some Bind can take a step) and no cross-talk (every line captured while debugging
   was on was written by the Bind that holds the write lock). *)
Theorem debug_lock_no_deadlock_no_crosstalk : forall fails sched,
  let s := run dstate dstep sched (dinit fails) in
  (dfinished s = false -> exists t s', dstep t s = Some s') /\
  (forall a w, In (a, w) (ds_log s) -> a = w).
Proof.
  intros fails sched s.
  assert (Hinv : Dinv s) by (apply run_inv; [intros; eapply dstep_inv; eauto | apply dinit_inv]).
  destruct Hinv as [HR HP HW HL]. split; [|exact HL].
  intros Hnf.
  destruct (ds_writer s) as [w|] eqn:Ew.
  - (* the writer can move *)
    destruct HW as ((th & Hth & Hwr) & _). exists w. unfold dstep. rewrite Hth.
    unfold writing in Hwr. apply orb_true_iff in Hwr. destruct Hwr as [H4|H5].
    + apply Nat.eqb_eq in H4. rewrite H4. eexists; reflexivity.
    + apply Nat.eqb_eq in H5. rewrite H5. eexists; reflexivity.
  - destruct HW as [Hdbg Hnw].
    destruct (Nat.eq_dec (ds_readers s) 0) as [Hr0|Hr0].
    + (* nobody holds the lock *)
      destruct (writer_waiting s) eqn:Eww.
      * unfold writer_waiting in Eww. apply existsb_exists in Eww. destruct Eww as (th & Hin & Hpc3).
        apply Nat.eqb_eq in Hpc3.
        assert (exists t, nth_opt t (ds_threads s) = Some th) as [t Ht].
        { clear - Hin. induction (ds_threads s) as [|x l IH]; [destruct Hin|].
          destruct Hin as [E|Hin]; [subst; exists 0; reflexivity | destruct (IH Hin) as [t Ht]; exists (S t); exact Ht]. }
        exists t. unfold dstep. rewrite Ht, Hpc3, Ew, Hr0. simpl. eexists; reflexivity.
      * (* some unfinished thread is at pc 0 *)
        unfold dfinished in Hnf.
        assert (exists t th, nth_opt t (ds_threads s) = Some th /\ (d_pc th =? 6) = false) as (t & th & Ht & Hn6).
        { clear - Hnf. induction (ds_threads s) as [|x l IH]; simpl in Hnf; [discriminate|].
          destruct (d_pc x =? 6) eqn:E; simpl in Hnf.
          - destruct (IH Hnf) as (t & th & H1 & H2). exists (S t), th. split; assumption.
          - exists 0, x. split; [reflexivity | exact E]. }
        exists t. unfold dstep. rewrite Ht.
        pose proof (HP t th Ht) as Hle.
        pose proof (count_zero_all reading (ds_threads s)) as Hz. rewrite <- HR, Hr0 in Hz. specialize (Hz eq_refl t th Ht).
        specialize (Hnw t th Ht). unfold reading in Hz. unfold writing in Hnw.
        apply orb_false_iff in Hz. destruct Hz as [Hz1 Hz2]. apply orb_false_iff in Hnw. destruct Hnw as [Hw4 Hw5].
        assert (Hn3 : (d_pc th =? 3) = false).
        { unfold writer_waiting in Eww. destruct (d_pc th =? 3) eqn:E3; [|reflexivity].
          exfalso. assert (existsb (fun th0 => d_pc th0 =? 3) (ds_threads s) = true).
          { apply existsb_exists. exists th. split; [|exact E3]. clear - Ht. revert t Ht.
            induction (ds_threads s) as [|x l IH]; intros t Ht; destruct t; simpl in *; try discriminate.
            - inversion Ht; left; reflexivity.
            - right. eapply IH; eauto. }
          rewrite H in Eww. discriminate. }
        apply Nat.eqb_neq in Hz1, Hz2, Hw4, Hw5, Hn3, Hn6.
        assert (d_pc th = 0) by lia. rewrite H, Ew, Eww. eexists; reflexivity.
    + (* a reader can move *)
      assert (0 < count reading (ds_threads s)) by lia.
      destruct (count_pos_ex reading _ H) as (t & th & Ht & Hrd).
      exists t. unfold dstep. rewrite Ht. unfold reading in Hrd. apply orb_true_iff in Hrd. destruct Hrd as [H1|H2].
      * apply Nat.eqb_eq in H1. rewrite H1. eexists; reflexivity.
      * apply Nat.eqb_eq in H2. rewrite H2. eexists; reflexivity.
Qed.

(* ---------- concurrent invocations are isolated ---------- *)
Section IsoProofs.
  Variable V : Type.
  Notation istate := (istate V).

  Fixpoint count_occ_nat (t : nat) (l : list nat) : nat :=
    match l with [] => 0 | x :: r => (if x =? t then 1 else 0) + count_occ_nat t r end.

  Lemma istep_base t s s' : istep V t s = Some s' -> is_base V s' = is_base V s.
  Proof.
    unfold istep. destruct (nth_opt t (is_todo V s)) as [[|op rest]|]; try discriminate.
    destruct (nth_opt t (is_priv V s)); [|discriminate]. intros H; inversion H; reflexivity.
  Qed.

  (* one step of thread t leaves every other invocation's private collection and pending
     operations untouched, and never writes the base *)
  Lemma istep_other t s s' u : istep V t s = Some s' -> u <> t ->
    nth_opt u (is_priv V s') = nth_opt u (is_priv V s) /\ nth_opt u (is_todo V s') = nth_opt u (is_todo V s).
  Proof.
    unfold istep. destruct (nth_opt t (is_todo V s)) as [[|op rest]|]; try discriminate.
    destruct (nth_opt t (is_priv V s)); [|discriminate]. intros H Hne; inversion H; subst; simpl.
    split; apply nth_opt_upd_other; intro; subst; contradiction.
  Qed.

  (* For every schedule: the private collection of invocation u after the run is what u computes
     alone in as many steps as the schedule gave it (Bernstein: disjoint write sets, shared reads
     of a constant base). *)
  Theorem invocations_isolated : forall sched s u ops a,
    nth_opt u (is_todo V s) = Some ops -> nth_opt u (is_priv V s) = Some a ->
    exists k, k <= count_occ_nat u sched /\
      nth_opt u (is_priv V (run istate (istep V) sched s)) = Some (solo V (is_base V s) ops k a) /\
      is_base V (run istate (istep V) sched s) = is_base V s.
  Proof.
    induction sched as [|t r IH]; intros s u ops a Hops Ha; simpl.
    - exists 0. split; [lia|]. split; [destruct ops; exact Ha | reflexivity].
    - destruct (istep V t s) as [s'|] eqn:Es.
      + destruct (Nat.eq_dec t u) as [E|E].
        * subst t. unfold istep in Es. rewrite Hops, Ha in Es.
          destruct ops as [|op rest]; [discriminate|]. inversion Es; subst s'; clear Es.
          destruct (IH (mkIs V (is_base V s) (upd_nth u (fun _ => op (is_base V s) a) (is_priv V s)) (upd_nth u (fun _ => rest) (is_todo V s)))
                       u rest (op (is_base V s) a)) as (k & Hk & Hp & Hb).
          { simpl. exact (nth_opt_upd_same (fun _ => rest) (is_todo V s) u (op :: rest) Hops). }
          { simpl. exact (nth_opt_upd_same (fun _ => op (is_base V s) a) (is_priv V s) u a Ha). }
          exists (S k). rewrite Nat.eqb_refl. split; [lia|]. split; [exact Hp | exact Hb].
        * destruct (istep_other t s s' u Es) as [Hp Ht]; [intro; subst; contradiction|].
          destruct (IH s' u ops a) as (k & Hk & Hpp & Hb); [rewrite Ht; exact Hops | rewrite Hp; exact Ha|].
          exists k. assert ((t =? u) = false) by (apply Nat.eqb_neq; exact E). rewrite H.
          split; [lia|]. rewrite (istep_base t s s' Es) in Hpp, Hb. split; [exact Hpp | exact Hb].
      + destruct (IH s u ops a Hops Ha) as (k & Hk & Hp & Hb). exists k.
        split; [destruct (t =? u); lia|]. split; [exact Hp | exact Hb].
  Qed.
End IsoProofs.

(* ---------- the memoize cache never deadlocks ---------- *)
Lemma all_or_witness (l : list mthread) :
  (forall t th, nth_opt t l = Some th -> m_pc th = 3) \/
  exists t th, nth_opt t l = Some th /\ m_pc th <> 3.
Proof.
  induction l as [|x r IH].
  - left. intros t th H. destruct t; discriminate H.
  - destruct (Nat.eq_dec (m_pc x) 3) as [E|E].
    + destruct IH as [IH|(t & th & Ht & Hp)].
      * left. intros t th H. destruct t as [|t]; cbn in H; [inversion H; subst; exact E|eapply IH; exact H].
      * right. exists (S t), th. split; [exact Ht|exact Hp].
    + right. exists 0, x. split; [reflexivity|exact E].
Qed.

(* In every reachable state either every use has returned or some use can take a step: whatever the
   schedule did so far, the mutex is held only by a use that can go on, and nobody waits for anything
   else. *)
Theorem memo_no_deadlock : forall keys sched,
  let s := run mstate mstep sched (minit keys) in
  (forall t th, nth_opt t (ms_threads s) = Some th -> m_pc th = 3) \/ exists t s', mstep t s = Some s'.
Proof.
  intros keys sched s.
  assert (Hinv : Minv s) by (apply run_inv; [intros; eapply mstep_inv; eauto | apply minit_inv]).
  destruct Hinv as [_ _ _ HD _].
  destruct (ms_lock s) as [h|] eqn:El.
  - right. destruct HD as (th & Hth & Hpc & _ & _ & H2 & _). exists h.
    unfold mstep. rewrite Hth. destruct Hpc as [Hpc|Hpc]; rewrite Hpc.
    + eexists. reflexivity.
    + destruct (H2 Hpc) as (r & Hr & _). rewrite Hr. eexists. reflexivity.
  - destruct HD as [Hidle _].
    destruct (all_or_witness (ms_threads s)) as [Hall|(t & th & Ht & Hp)]; [left; exact Hall|].
    right. exists t. unfold mstep. rewrite Ht.
    destruct (Hidle t th Ht) as [H0|H3]; [|contradiction]. rewrite H0, El.
    destruct (alookup (m_key th) (ms_cache s)); eexists; reflexivity.
Qed.

(* ---------- inputs that cannot be map keys: one call per use ---------- *)
Record Uinv (s : ustate) : Prop := {
  ui_nodup : NoDup (map fst (us_calls s));
  ui_called : forall t r, In (t, r) (us_calls s) ->
              exists th, nth_opt t (us_threads s) = Some th /\ u_pc th = 3 /\ u_res th = Some r;
  ui_done : forall t th, nth_opt t (us_threads s) = Some th -> u_pc th = 3 ->
            exists r, u_res th = Some r /\ In (t, r) (us_calls s);
  ui_pcs : forall t th, nth_opt t (us_threads s) = Some th -> u_pc th = 0 \/ u_pc th = 3
}.

Lemma uinit_inv n : Uinv (uinit n).
Proof.
  split; cbn.
  - constructor.
  - intros t r [].
  - intros t th H Hp. apply nth_opt_repeat in H. subst th. discriminate Hp.
  - intros t th H. apply nth_opt_repeat in H. subst th. left. reflexivity.
Qed.

Lemma ustep_inv t s s' : Uinv s -> ustep t s = Some s' -> Uinv s'.
Proof.
  intros [HA HB HC HD] H. unfold ustep in H.
  destruct (nth_opt t (us_threads s)) as [[pc res]|] eqn:Et; [|discriminate].
  destruct pc; [|discriminate]. inversion H; subst; clear H. split; cbn.
  - constructor; [|exact HA]. intros Hin. apply in_map_iff in Hin. destruct Hin as [[t' r] [E Hin]]. cbn in E. subst t'.
    destruct (HB _ _ Hin) as (th & Hth & Hp & _). rewrite Et in Hth. inversion Hth; subst. discriminate Hp.
  - intros t' r [E|Hin].
    + inversion E; subst. exists (mkUt 3 (Some (us_next s))). rewrite nth_opt_upd, Nat.eqb_refl, Et. repeat split.
    + destruct (HB _ _ Hin) as (th & Hth & Hp & Hr). exists th. rewrite nth_opt_upd.
      destruct (t =? t') eqn:E; [|repeat split; assumption].
      apply Nat.eqb_eq in E. subst t'. rewrite Et in Hth. inversion Hth; subst. discriminate Hp.
  - intros t' th Hth Hp. rewrite nth_opt_upd in Hth. destruct (t =? t') eqn:E.
    + apply Nat.eqb_eq in E. subst t'. rewrite Et in Hth. cbn in Hth. inversion Hth; subst.
      exists (us_next s). split; [reflexivity|left; reflexivity].
    + destruct (HC _ _ Hth Hp) as (r & Hr & Hin). exists r. split; [exact Hr|right; exact Hin].
  - intros t' th Hth. rewrite nth_opt_upd in Hth. destruct (t =? t') eqn:E.
    + apply Nat.eqb_eq in E. subst t'. rewrite Et in Hth. cbn in Hth. inversion Hth; subst. right. reflexivity.
    + eapply HD. exact Hth.
Qed.

(* every use calls the function itself, exactly once, and observes the result of its own call; a use
   that has not returned can always take its step (nothing to wait for, nothing that fails) *)
Theorem unkeyable_one_call_per_use : forall n sched,
  let s := run ustate ustep sched (uinit n) in
  NoDup (map fst (us_calls s)) /\
  (forall t th, nth_opt t (us_threads s) = Some th -> u_pc th = 3 ->
     exists r, u_res th = Some r /\ In (t, r) (us_calls s)) /\
  (forall t th, nth_opt t (us_threads s) = Some th -> u_pc th <> 3 -> exists s', ustep t s = Some s').
Proof.
  intros n sched s.
  assert (Hinv : Uinv s) by (apply run_inv; [intros; eapply ustep_inv; eauto | apply uinit_inv]).
  destruct Hinv as [HA HB HC HD]. split; [exact HA|]. split; [exact HC|].
  intros t th Hth Hp. destruct (HD _ _ Hth) as [H0|H3]; [|contradiction].
  unfold ustep. rewrite Hth. destruct th as [pc res]. cbn in H0. subst pc. eexists. reflexivity.
Qed.
