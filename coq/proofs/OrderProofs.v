(* Reorder (reorder.go): providers that are not marked Reorder keep their listed relative order.
   The topological sort may emit them through its queues or force them out of the cannotReorder
   list; either way the next one emitted is the first one not emitted yet. *)
From Coq Require Import List Arith Bool Lia.
Import ListNotations.
From NJ Require Import Base Registry Classify Select Reorder ReorderProofs AllocProofs.

(* ---------- node tables ---------- *)
Lemma nth_node_upd_other f : forall l m k, k <> m -> nth_node k (upd_node m f l) = nth_node k l.
Proof.
  unfold upd_node. induction l as [|x r IH]; intros m k Hk; destruct m, k; simpl; try reflexivity; try lia.
  apply IH. lia.
Qed.

Lemma nth_node_upd_same f : forall l m, m < length l -> nth_node m (upd_node m f l) = f (nth_node m l).
Proof.
  unfold upd_node. induction l as [|x r IH]; intros m Hm; simpl in Hm; [lia|].
  destruct m; simpl; [reflexivity|]. apply IH. lia.
Qed.

Lemma nth_node_upd_out f : forall l m, length l <= m -> upd_node m f l = l.
Proof.
  unfold upd_node. induction l as [|x r IH]; intros m Hm; destruct m; simpl in *; try reflexivity; try lia.
  rewrite IH by lia. reflexivity.
Qed.

(* an update that, in every node, removes at most [i] from n_after *)
Definition shrinks_after (i : nat) (g : rnode -> rnode) : Prop :=
  forall nd a, (In a (n_after (g nd)) -> In a (n_after nd)) /\ (In a (n_after nd) -> a <> i -> In a (n_after (g nd))).

Lemma upd_node_after i g m l k a : shrinks_after i g ->
  (In a (n_after (nth_node k (upd_node m g l))) -> In a (n_after (nth_node k l))) /\
  (In a (n_after (nth_node k l)) -> a <> i -> In a (n_after (nth_node k (upd_node m g l)))).
Proof.
  intros Hg. destruct (Nat.eq_dec k m) as [->|Hk].
  - destruct (Nat.lt_ge_cases m (length l)) as [Hlt|Hge].
    + rewrite nth_node_upd_same by exact Hlt. apply Hg.
    + rewrite nth_node_upd_out by exact Hge. tauto.
  - rewrite nth_node_upd_other by exact Hk. tauto.
Qed.

Lemma pq_push_in pr y : forall q k, In k (map snd (pq_push pr y q)) <-> k = y \/ In k (map snd q).
Proof.
  induction q as [|[p z] r IH]; intros k; simpl; [intuition congruence|].
  destruct (pr <=? p); simpl; [intuition congruence|]. rewrite IH. intuition congruence.
Qed.

Section Order.
  Variable te : tyenv.
  Variable funcs : list prov.
  Variable downTypes upTypes : list (nat * nat).
  Let n := length funcs.
  Variable cs : list nat.                      (* the positions that cannot be reordered, in listed order *)
  Hypothesis cs_nodup : NoDup cs.
  Hypothesis cs_lt : forall i, In i cs -> i < n.
  Hypothesis types_high : forall t num, (alookup t downTypes = Some num \/ alookup t upTypes = Some num) -> n <= num.

  Definition queued (x : topo) (m : nat) : Prop := In m (map snd (t_unblocked x)) \/ In m (map snd (t_weak x)).
  Definition after_of (x : topo) (m : nat) : list nat := n_after (nth_node m (t_nodes x)).

  Record oinv (x : topo) : Prop := {
    oi_split : exists dn nd, cs = dn ++ nd /\ (forall i, In i dn -> In i (t_done x)) /\
                             (forall i, In i nd -> ~ In i (t_done x)) /\
                             filter (fun i => memb i cs) (t_out x) = dn;
    oi_edge : forall l1 a b l2, cs = l1 ++ a :: b :: l2 -> ~ In a (t_done x) -> In a (after_of x b);
    oi_queue : forall m, In m cs -> queued x m -> after_of x m = []
  }.

  (* a step that leaves the emitted and done lists and the cannot list alone, removes at most [i]
     (which is done) from the n_after sets, and queues only nodes whose n_after is empty *)
  Definition gentle (i : nat) (x x' : topo) : Prop :=
    t_done x' = t_done x /\ t_out x' = t_out x /\ t_cannot x' = t_cannot x /\
    (forall k a, (In a (after_of x' k) -> In a (after_of x k)) /\ (In a (after_of x k) -> a <> i -> In a (after_of x' k))) /\
    (forall m, queued x' m -> queued x m \/ n <= m \/ after_of x' m = []).

  Lemma gentle_refl i x : gentle i x x.
  Proof. repeat split; auto. Qed.

  Lemma gentle_trans i x y z : gentle i x y -> gentle i y z -> gentle i x z.
  Proof.
    intros (A1 & A2 & A3 & A4 & A5) (B1 & B2 & B3 & B4 & B5).
    split; [congruence|]. split; [congruence|]. split; [congruence|]. split.
    - intros k a. split.
      + intros H. apply (A4 k a), (B4 k a), H.
      + intros H Hn. apply (B4 k a); [|exact Hn]. apply (A4 k a); assumption.
    - intros m Hq. destruct (B5 m Hq) as [Hy|[Hy|Hy]]; [|right; left; exact Hy|right; right; exact Hy].
      destruct (A5 m Hy) as [Hx|[Hx|Hx]]; [left; exact Hx|right; left; exact Hx|].
      right. right. destruct (after_of z m) as [|a r] eqn:E; [reflexivity|].
      exfalso. assert (Hin : In a (after_of y m)) by (apply (B4 m a); rewrite E; left; reflexivity).
      rewrite Hx in Hin. destruct Hin.
  Qed.

  Lemma release_gentle m i x : gentle i x (release funcs m i x).
  Proof.
    unfold release. fold n. destruct (n <=? m) eqn:Em.
    - apply Nat.leb_le in Em. split; [reflexivity|]. split; [reflexivity|]. split; [reflexivity|]. split; [intros k a; tauto|].
      intros k [Hq|Hq]; [|left; right; exact Hq]. cbn [push_un t_unblocked] in Hq. apply pq_push_in in Hq.
      destruct Hq as [->|Hq]; [right; left; exact Em|left; left; exact Hq].
    - set (g := fun nd => mkRnode (n_before nd) (sdel i (n_after nd)) (n_wbefore nd) (sdel i (n_wafter nd))).
      assert (Hg : shrinks_after i g).
      { intros nd a. unfold g, sdel. simpl. rewrite in_remove_all. tauto. }
      set (ns := upd_node m g (t_nodes x)).
      assert (Hns : forall k a, (In a (n_after (nth_node k ns)) -> In a (after_of x k)) /\
                                (In a (after_of x k) -> a <> i -> In a (n_after (nth_node k ns)))).
      { intros k a. apply (upd_node_after i g m (t_nodes x) k a Hg). }
      destruct (n_after (nth_node m ns)) as [|a0 r0] eqn:Ea.
      + destruct (n_wafter (nth_node m ns)).
        * split; [reflexivity|]. split; [reflexivity|]. split; [reflexivity|]. split; [exact Hns|].
          intros k [Hq|Hq]; [|left; right; exact Hq]. cbn [push_un set_nodes t_unblocked] in Hq. apply pq_push_in in Hq.
          destruct Hq as [->|Hq]; [right; right; unfold after_of; cbn [push_un set_nodes t_nodes]; exact Ea|left; left; exact Hq].
        * split; [reflexivity|]. split; [reflexivity|]. split; [reflexivity|]. split; [exact Hns|].
          intros k [Hq|Hq]; [left; left; exact Hq|]. cbn [push_weak set_nodes t_weak] in Hq. apply pq_push_in in Hq.
          destruct Hq as [->|Hq]; [right; right; unfold after_of; cbn [push_weak set_nodes t_nodes]; exact Ea|left; right; exact Hq].
      + split; [reflexivity|]. split; [reflexivity|]. split; [reflexivity|]. split; [exact Hns|].
        intros k Hq. left. exact Hq.
  Qed.

  Lemma fold_gentle i (f : topo -> nat -> topo) : (forall x m, gentle i x (f x m)) ->
    forall l x, gentle i x (fold_left f l x).
  Proof.
    intros Hf. induction l as [|m r IH]; intros x; cbn [fold_left]; [apply gentle_refl|].
    eapply gentle_trans; [apply Hf|apply IH].
  Qed.

  Lemma release_node_gentle i x : gentle i x (release_node funcs i x).
  Proof.
    unfold release_node.
    set (ns := fold_left _ (n_wbefore (nth_node i (t_nodes x))) (t_nodes x)).
    assert (H0 : gentle i x (set_nodes ns x)).
    { split; [reflexivity|]. split; [reflexivity|]. split; [reflexivity|]. split.
      - intros k a. unfold after_of. cbn [set_nodes t_nodes]. unfold ns.
        generalize (n_wbefore (nth_node i (t_nodes x))) as l. generalize (t_nodes x) as nodes.
        intros nodes l. revert nodes. induction l as [|m r IH]; intros nodes; cbn [fold_left]; [tauto|].
        set (g := fun d => mkRnode (n_before d) (n_after d) (n_wbefore d) (sdel i (n_wafter d))).
        assert (Hg : shrinks_after i g) by (intros nd b; unfold g; simpl; tauto).
        destruct (upd_node_after i g m nodes k a Hg) as [U1 U2]. destruct (IH (upd_node m g nodes)) as [I1 I2].
        split; [intros H; apply U1, I1, H|intros H Hn; apply I2; [apply U2; assumption|exact Hn]].
      - intros m Hq. left. exact Hq. }
    eapply gentle_trans; [exact H0|]. apply (fold_gentle i (fun x' m => release funcs m i x')). intros x' m. apply release_gentle.
  Qed.

  Lemma release_provider_gentle i p x : gentle i x (release_provider te funcs downTypes upTypes i p x).
  Proof.
    unfold release_provider. eapply gentle_trans.
    - apply (fold_gentle i (fun x' t => match alookup t downTypes with Some num => release funcs num i x' | None => x' end)).
      intros x' t. destruct (alookup t downTypes); [apply release_gentle|apply gentle_refl].
    - apply (fold_gentle i (fun x' t => match alookup t upTypes with Some num => release funcs num i x' | None => x' end)).
      intros x' t. destruct (alookup t upTypes); [apply release_gentle|apply gentle_refl].
  Qed.

  (* a gentle step after [i] has been marked done keeps the invariant *)
  Lemma oinv_gentle i x x' : In i (t_done x) -> gentle i x x' -> oinv x -> oinv x'.
  Proof.
    intros Hi (G1 & G2 & G3 & G4 & G5) [Is Ie Iq]. constructor.
    - rewrite G1, G2. exact Is.
    - intros l1 a b l2 E Hna. rewrite G1 in Hna. apply (G4 b a); [apply (Ie l1 a b l2 E Hna)|].
      intros ->. exact (Hna Hi).
    - intros m Hm Hq. destruct (G5 m Hq) as [Hx|[Hx|Hx]]; [|pose proof (cs_lt m Hm); lia|exact Hx].
      specialize (Iq m Hm Hx). destruct (after_of x' m) as [|a r] eqn:E; [reflexivity|].
      exfalso. assert (Hin : In a (after_of x m)) by (apply (G4 m a); rewrite E; left; reflexivity).
      rewrite Iq in Hin. destruct Hin.
  Qed.

  (* ---------- one node is processed ---------- *)
  Lemma app_split_unique (dn0 nd0 dn nd1 : list nat) i (done : list nat) :
    dn0 ++ nd0 = dn ++ i :: nd1 ->
    (forall j, In j dn0 -> In j done) -> (forall j, In j nd0 -> ~ In j done) ->
    (forall j, In j dn -> In j done) -> ~ In i done ->
    dn0 = dn /\ nd0 = i :: nd1.
  Proof.
    revert dn. induction dn0 as [|a r IH]; intros dn E H0 H1 H2 Hi.
    - simpl in E. destruct dn as [|b dn].
      + simpl in E. split; [reflexivity|exact E].
      + exfalso. simpl in E. subst nd0. apply (H1 b); [left; reflexivity|apply H2; left; reflexivity].
    - destruct dn as [|b dn].
      + exfalso. simpl in E. injection E as -> _. apply Hi, H0. left. reflexivity.
      + simpl in E. injection E as -> E. destruct (IH dn E) as [A B].
        * intros j Hj. apply H0. right. exact Hj.
        * exact H1.
        * intros j Hj. apply H2. right. exact Hj.
        * exact Hi.
        * subst. split; reflexivity.
  Qed.

  Definition first_undone (x : topo) (i : nat) : Prop :=
    In i cs -> ~ In i (t_done x) -> exists dn nd1, cs = dn ++ i :: nd1 /\ forall j, In j dn -> In j (t_done x).

  Lemma getp_cs i : In i cs -> exists p, getp funcs i = Some p.
  Proof. intros Hi. apply getp_lt_some. apply cs_lt, Hi. Qed.

  Lemma mark_oinv i x out' :
    oinv x -> first_undone x i -> ~ In i (t_done x) ->
    (out' = t_out x \/ (out' = t_out x ++ [i])) -> (In i cs -> out' = t_out x ++ [i]) ->
    oinv (mkTopo (t_nodes x) (t_cannot x) (t_unblocked x) (t_weak x) (i :: t_done x) out').
  Proof.
    intros [Is Ie Iq] Hf Hnd Hout Hcs. constructor.
    - destruct Is as (dn0 & nd0 & E & D1 & D2 & Fl). cbn [t_done t_out].
      destruct (in_dec Nat.eq_dec i cs) as [Hi|Hi].
      + destruct (Hf Hi Hnd) as (dn & nd1 & E' & Hdn).
        assert (U : dn0 = dn /\ nd0 = i :: nd1).
        { apply (app_split_unique dn0 nd0 dn nd1 i (t_done x)); [congruence|exact D1|exact D2|exact Hdn|exact Hnd]. }
        destruct U as [-> ->]. exists (dn ++ [i]), nd1. split; [rewrite <- app_assoc; exact E|].
        split; [intros j Hj; apply in_app_or in Hj; destruct Hj as [Hj|[<-|[]]]; [right; apply D1, Hj|left; reflexivity]|].
        split.
        * intros j Hj [<-|Hd]; [|apply (D2 j); [right; exact Hj|exact Hd]].
          rewrite E in cs_nodup. apply NoDup_remove_2 in cs_nodup. apply cs_nodup. apply in_or_app. right. exact Hj.
        * rewrite (Hcs Hi), filter_app, Fl. simpl. replace (memb i cs) with true; [reflexivity|].
          symmetry. apply memb_true_in, Hi.
      + exists dn0, nd0. split; [exact E|]. split; [intros j Hj; right; apply D1, Hj|]. split.
        * intros j Hj [<-|Hd]; [apply Hi; rewrite E; apply in_or_app; right; exact Hj|apply (D2 j Hj Hd)].
        * destruct Hout as [->| ->]; [exact Fl|]. rewrite filter_app, Fl. simpl.
          replace (memb i cs) with false; [apply app_nil_r|].
          destruct (memb i cs) eqn:Em; [apply memb_true_in in Em; contradiction|reflexivity].
    - intros l1 a b l2 E Hna. unfold after_of. cbn [t_nodes]. apply (Ie l1 a b l2 E). intros Hd. apply Hna. right. exact Hd.
    - intros m Hm Hq. apply (Iq m Hm Hq).
  Qed.

  Lemma process_one_oinv i rel x :
    oinv x -> first_undone x i -> oinv (process_one te funcs downTypes upTypes i rel x).
  Proof.
    intros Hinv Hf. unfold process_one.
    destruct (memb i (t_done x)) eqn:Ed; [exact Hinv|].
    assert (Hnd : ~ In i (t_done x)) by (intros H; apply memb_true_in in H; congruence).
    fold n. destruct (n <? i) eqn:En.
    - apply Nat.ltb_lt in En.
      assert (Hx1 : oinv (mkTopo (t_nodes x) (t_cannot x) (t_unblocked x) (t_weak x) (i :: t_done x) (t_out x))).
      { apply (mark_oinv i x (t_out x) Hinv Hf Hnd); [left; reflexivity|]. intros Hi. pose proof (cs_lt i Hi). lia. }
      destruct rel; [|exact Hx1].
      eapply (oinv_gentle i); [|apply release_node_gentle|exact Hx1]. left. reflexivity.
    - destruct (getp funcs i) as [p|] eqn:Hp.
      + assert (Hx2 : oinv (mkTopo (t_nodes x) (t_cannot x) (t_unblocked x) (t_weak x) (i :: t_done x) (t_out x ++ [i]))).
        { apply (mark_oinv i x (t_out x ++ [i]) Hinv Hf Hnd); [right; reflexivity|intros _; reflexivity]. }
        destruct (negb rel); [exact Hx2|].
        eapply (oinv_gentle i); [|apply release_provider_gentle|].
        * rewrite (proj1 (release_node_gentle i _)). left. reflexivity.
        * eapply (oinv_gentle i); [|apply release_node_gentle|exact Hx2]. left. reflexivity.
      + apply (mark_oinv i x (t_out x) Hinv Hf Hnd); [left; reflexivity|].
        intros Hi. destruct (getp_cs i Hi) as [q Hq]. congruence.
  Qed.

  (* ---------- the whole sort ---------- *)
  Definition cinv (x : topo) : Prop := exists pre, cs = pre ++ t_cannot x /\ forall i, In i pre -> In i (t_done x).

  Lemma process_one_facts i rel x :
    let x' := process_one te funcs downTypes upTypes i rel x in
    t_cannot x' = t_cannot x /\ (forall j, In j (t_done x) -> In j (t_done x')) /\ In i (t_done x').
  Proof.
    cbv zeta. unfold process_one. destruct (memb i (t_done x)) eqn:Ed.
    { split; [reflexivity|]. split; [auto|]. apply memb_true_in, Ed. }
    fold n. destruct (n <? i).
    - destruct rel.
      + destruct (release_node_gentle i (mkTopo (t_nodes x) (t_cannot x) (t_unblocked x) (t_weak x) (i :: t_done x) (t_out x))) as (G1 & _ & G3 & _).
        rewrite G1, G3. cbn [t_done t_cannot]. split; [reflexivity|]. split; [intros j Hj; right; exact Hj|left; reflexivity].
      + cbn [t_done t_cannot]. split; [reflexivity|]. split; [intros j Hj; right; exact Hj|left; reflexivity].
    - destruct (getp funcs i) as [p|].
      + destruct (negb rel).
        * cbn [t_done t_cannot]. split; [reflexivity|]. split; [intros j Hj; right; exact Hj|left; reflexivity].
        * match goal with |- context [release_provider _ _ _ _ i p (release_node funcs i ?y)] =>
            destruct (gentle_trans i y _ _ (release_node_gentle i y) (release_provider_gentle i p (release_node funcs i y))) as (G1 & _ & G3 & _)
          end.
          rewrite G1, G3. cbn [t_done t_cannot]. split; [reflexivity|]. split; [intros j Hj; right; exact Hj|left; reflexivity].
      + cbn [t_done t_cannot]. split; [reflexivity|]. split; [intros j Hj; right; exact Hj|left; reflexivity].
  Qed.

  Lemma in_split_adjacent (i : nat) : forall l, In i l -> (exists r, l = i :: r) \/ exists l1 a l2, l = l1 ++ a :: i :: l2.
  Proof.
    induction l as [|x r IH]; intros H; [destruct H|].
    destruct (Nat.eq_dec x i) as [->|Hx]; [left; eexists; reflexivity|].
    destruct H as [H|H]; [congruence|]. right.
    destruct (IH H) as [(r' & ->)|(l1 & a & l2 & ->)].
    - exists [], x, r'. reflexivity.
    - exists (x :: l1), a, l2. reflexivity.
  Qed.

  Lemma queue_first_undone x i : oinv x -> queued x i -> first_undone x i.
  Proof.
    intros [Is Ie Iq] Hq Hi Hnd. specialize (Iq i Hi Hq).
    destruct Is as (dn0 & nd0 & E & D1 & D2 & _).
    assert (Hin : In i nd0).
    { rewrite E in Hi. apply in_app_or in Hi. destruct Hi as [Hi|Hi]; [exfalso; apply Hnd, D1, Hi|exact Hi]. }
    destruct (in_split_adjacent i nd0 Hin) as [(r & ->)|(l1 & a & l2 & ->)].
    - exists dn0, r. split; [exact E|exact D1].
    - exfalso. assert (Ha : ~ In a (t_done x)) by (apply D2; apply in_or_app; right; left; reflexivity).
      pose proof (Ie (dn0 ++ l1) a i l2) as He. rewrite <- app_assoc in He. specialize (He E Ha). rewrite Iq in He. destruct He.
  Qed.

  Lemma oinv_pop x x' : t_nodes x' = t_nodes x -> t_done x' = t_done x -> t_out x' = t_out x ->
    (forall m, queued x' m -> queued x m) -> oinv x -> oinv x'.
  Proof.
    intros N D O Q [Is Ie Iq]. constructor.
    - rewrite D, O. exact Is.
    - intros l1 a b l2 E Ha. unfold after_of. rewrite N. rewrite D in Ha. apply (Ie l1 a b l2 E Ha).
    - intros m Hm Hq. unfold after_of. rewrite N. apply (Iq m Hm (Q m Hq)).
  Qed.

  Lemma topo_run_oinv : forall fuel x, oinv x -> cinv x ->
    oinv (topo_run te funcs downTypes upTypes fuel x) /\ cinv (topo_run te funcs downTypes upTypes fuel x).
  Proof.
    induction fuel as [|fuel IH]; intros x Hinv Hc; cbn [topo_run]; [split; assumption|].
    destruct (t_unblocked x) as [|[pr i] q] eqn:Eu.
    - destruct (t_weak x) as [|[pr i] q] eqn:Ew.
      + destruct (t_cannot x) as [|i r] eqn:Ec; [split; assumption|].
        set (x' := mkTopo (t_nodes x) r [] [] (t_done x) (t_out x)).
        destruct Hc as (pre & E & Hpre). rewrite Ec in E.
        assert (Hinv' : oinv x') by (apply (oinv_pop x x'); try reflexivity; [intros m [[]|[]]|exact Hinv]).
        assert (Hf : first_undone x' i) by (intros _ _; exists pre, r; split; [exact E|exact Hpre]).
        set (rel := match n_after (nth_node i (t_nodes x)) with [] => true | _ => false end).
        destruct (process_one_facts i rel x') as (F1 & F2 & F3). apply IH.
        * apply process_one_oinv; assumption.
        * exists (pre ++ [i]). rewrite F1. cbn [x' t_cannot]. split; [rewrite <- app_assoc; exact E|].
          intros j Hj. apply in_app_or in Hj. destruct Hj as [Hj|[<-|[]]]; [apply F2, Hpre, Hj|exact F3].
      + set (x' := mkTopo (t_nodes x) (t_cannot x) [] q (t_done x) (t_out x)).
        assert (Hqi : queued x i) by (right; rewrite Ew; left; reflexivity).
        assert (Hinv' : oinv x').
        { apply (oinv_pop x x'); try reflexivity; [|exact Hinv]. intros m [[]|Hm]. right. rewrite Ew. right. exact Hm. }
        assert (Hf : first_undone x' i) by (apply (queue_first_undone x i Hinv Hqi)).
        destruct (process_one_facts i true x') as (F1 & F2 & F3). apply IH.
        * apply process_one_oinv; assumption.
        * destruct Hc as (pre & E & Hpre). exists pre. rewrite F1. split; [exact E|]. intros j Hj. apply F2, Hpre, Hj.
    - set (x' := mkTopo (t_nodes x) (t_cannot x) q (t_weak x) (t_done x) (t_out x)).
      assert (Hqi : queued x i) by (left; rewrite Eu; left; reflexivity).
      assert (Hinv' : oinv x').
      { apply (oinv_pop x x'); try reflexivity; [|exact Hinv]. intros m [Hm|Hm]; [left; rewrite Eu; right; exact Hm|right; exact Hm]. }
      assert (Hf : first_undone x' i) by (apply (queue_first_undone x i Hinv Hqi)).
      destruct (process_one_facts i true x') as (F1 & F2 & F3). apply IH.
      + apply process_one_oinv; assumption.
      + destruct Hc as (pre & E & Hpre). exists pre. rewrite F1. split; [exact E|]. intros j Hj. apply F2, Hpre, Hj.
  Qed.
End Order.

(* ---------- the constraint graph reorder builds ---------- *)
Definition nums_high (n : nat) (st : rstate) : Prop :=
  S n <= rs_counter st /\ forall pr, In pr (rs_down st ++ rs_up st) -> S n <= snd pr.

Definition rmono (st st' : rstate) : Prop :=
  incl (rs_strong st) (rs_strong st') /\ rs_cannot st' = rs_cannot st /\ rs_lastNo st' = rs_lastNo st.

Lemma rmono_refl st : rmono st st.
Proof. split; [apply incl_refl|split; reflexivity]. Qed.
Lemma rmono_trans a b c : rmono a b -> rmono b c -> rmono a c.
Proof. intros (A1 & A2 & A3) (B1 & B2 & B3). split; [eapply incl_tran; eassumption|split; congruence]. Qed.

Lemma add_edge_spec strong i j st :
  rmono st (add_edge strong i j st) /\ rs_down (add_edge strong i j st) = rs_down st /\
  rs_up (add_edge strong i j st) = rs_up st /\ rs_counter (add_edge strong i j st) = rs_counter st.
Proof.
  unfold add_edge, pair_after. destruct strong, j as [b|]; cbn; repeat split; try apply incl_refl; try reflexivity.
  apply incl_appl, incl_refl.
Qed.

Lemma add_edge_strong i b st : In (i, b) (rs_strong (add_edge true i (Some b) st)).
Proof. unfold add_edge, pair_after. cbn. apply in_or_app. right. left. reflexivity. Qed.

Lemma fold_add_edge_spec n strong i : forall js st, nums_high n st ->
  let st' := fold_left (fun s j => add_edge strong i (Some j) s) js st in
  rmono st st' /\ nums_high n st'.
Proof.
  induction js as [|j r IH]; intros st Hn; cbn [fold_left]; [split; [apply rmono_refl|exact Hn]|].
  destruct (add_edge_spec strong i (Some j) st) as (M & D & U & C).
  assert (Hn1 : nums_high n (add_edge strong i (Some j) st)).
  { destruct Hn as [H1 H2]. split; [rewrite C; exact H1|]. rewrite D, U. exact H2. }
  destruct (IH _ Hn1) as [M2 N2]. split; [eapply rmono_trans; eassumption|exact N2].
Qed.

(* one type of one provider: an edge to the type's pseudo node (created on first use), weak edges *)
Lemma type_step_spec n (down : bool) strong i t (extra : list nat) st :
  nums_high n st ->
  let tbl := if down then rs_down st else rs_up st in
  let st1 := match alookup t tbl with
             | Some num => add_edge strong i (Some num) st
             | None =>
               let c := rs_counter st in
               let s := add_edge strong i (Some c) st in
               if down then mkRs (rs_strong s) (rs_weak s) (rs_down s ++ [(t, c)]) (rs_up s) (S c) (rs_cannot s) (rs_lastNo s)
               else mkRs (rs_strong s) (rs_weak s) (rs_down s) (rs_up s ++ [(t, c)]) (S c) (rs_cannot s) (rs_lastNo s)
             end in
  let st' := fold_left (fun s j => add_edge false i (Some j) s) extra st1 in
  rmono st st' /\ nums_high n st'.
Proof.
  intros Hn. cbv zeta.
  match goal with |- context [fold_left _ extra ?S1] => set (st1 := S1) end.
  assert (H1 : rmono st st1 /\ nums_high n st1).
  { unfold st1. destruct (alookup t (if down then rs_down st else rs_up st)) as [num|].
    - destruct (add_edge_spec strong i (Some num) st) as (M & D & U & C). split; [exact M|].
      destruct Hn as [A B]. split; [rewrite C; exact A|rewrite D, U; exact B].
    - destruct (add_edge_spec strong i (Some (rs_counter st)) st) as (M & D & U & C).
      destruct Hn as [A B]. destruct M as (M1 & M2 & M3).
      unfold rmono, nums_high. destruct down; cbn [rs_strong rs_cannot rs_lastNo rs_counter rs_down rs_up].
      + split; [split; [exact M1|split; assumption]|]. split; [lia|]. rewrite D, U.
        intros pr Hp. apply in_app_or in Hp. destruct Hp as [Hp|Hp]; [apply in_app_or in Hp; destruct Hp as [Hp|[<-|[]]]|].
        * apply B. apply in_or_app. left. exact Hp.
        * simpl. exact A.
        * apply B. apply in_or_app. right. exact Hp.
      + split; [split; [exact M1|split; assumption]|]. split; [lia|]. rewrite D, U.
        intros pr Hp. apply in_app_or in Hp. destruct Hp as [Hp|Hp]; [apply B; apply in_or_app; left; exact Hp|].
        apply in_app_or in Hp. destruct Hp as [Hp|[<-|[]]]; [apply B; apply in_or_app; right; exact Hp|simpl; exact A]. }
  destruct H1 as [M1 N1]. destruct (fold_add_edge_spec n false i extra st1 N1) as [M2 N2].
  split; [eapply rmono_trans; eassumption|exact N2].
Qed.

Lemma fold_rmono {A} n (f : rstate -> A -> rstate) :
  (forall st x, nums_high n st -> rmono st (f st x) /\ nums_high n (f st x)) ->
  forall l st, nums_high n st -> rmono st (fold_left f l st) /\ nums_high n (fold_left f l st).
Proof.
  intros Hf. induction l as [|x r IH]; intros st Hn; cbn [fold_left]; [split; [apply rmono_refl|exact Hn]|].
  destruct (Hf st x Hn) as [M1 N1]. destruct (IH _ N1) as [M2 N2]. split; [eapply rmono_trans; eassumption|exact N2].
Qed.

Section Edges.
  Variable te : tyenv.
  Variable funcs : list prov.
  Variable availDown availUp : list imd.
  Variable pbnr rnr : list (nat * list nat).
  Variable lastStatic : option nat.
  Variable n : nat.
  Let EF := edges_for te funcs availDown availUp pbnr rnr lastStatic.

  Lemma edges_for_spec i p st : nums_high n st ->
    nums_high n (EF i p st) /\ incl (rs_strong st) (rs_strong (EF i p st)) /\
    (is_reorder p = true -> rs_cannot (EF i p st) = rs_cannot st /\ rs_lastNo (EF i p st) = rs_lastNo st) /\
    (is_reorder p = false -> rs_cannot (EF i p st) = rs_cannot st ++ [i] /\ rs_lastNo (EF i p st) = Some i /\
                             forall b, rs_lastNo st = Some b -> In (i, b) (rs_strong (EF i p st))).
  Proof.
    intros Hn. unfold EF, edges_for.
    set (st1 := if is_reorder p && group_eqb (p_group p) GRun then add_edge true i lastStatic st else st).
    assert (H1 : rmono st st1 /\ nums_high n st1).
    { unfold st1. destruct (is_reorder p && group_eqb (p_group p) GRun); [|split; [apply rmono_refl|exact Hn]].
      destruct (add_edge_spec true i lastStatic st) as (M & D & U & C). split; [exact M|].
      destruct Hn as [A B]. split; [rewrite C; exact A|rewrite D, U; exact B]. }
    destruct H1 as [M1 N1].
    set (st2 := if negb (is_reorder p)
                then let s := add_edge true i (rs_lastNo st1) st1 in
                     mkRs (rs_strong s) (rs_weak s) (rs_down s) (rs_up s) (rs_counter s) (rs_cannot s ++ [i]) (Some i)
                else st1).
    assert (H2 : nums_high n st2 /\ incl (rs_strong st) (rs_strong st2) /\
                 (is_reorder p = true -> rs_cannot st2 = rs_cannot st /\ rs_lastNo st2 = rs_lastNo st) /\
                 (is_reorder p = false -> rs_cannot st2 = rs_cannot st ++ [i] /\ rs_lastNo st2 = Some i /\
                                          forall b, rs_lastNo st = Some b -> In (i, b) (rs_strong st2))).
    { unfold st2. destruct M1 as (I1 & C1 & L1). destruct (is_reorder p); cbn [negb].
      - split; [exact N1|]. split; [exact I1|]. split; [intros _; split; assumption|intros Hx; discriminate Hx].
      - destruct (add_edge_spec true i (rs_lastNo st1) st1) as ((I2 & C2 & L2) & D & U & C).
        cbv zeta. cbn [rs_strong rs_cannot rs_lastNo].
        split; [|split; [exact (incl_tran I1 I2)|split; [intros Hx; discriminate Hx|]]].
        + destruct N1 as [A B]. split; cbn [rs_counter rs_down rs_up]; [rewrite C; exact A|rewrite D, U; exact B].
        + intros _. split; [rewrite C2, C1; reflexivity|]. split; [reflexivity|].
          intros b Hb. rewrite L1, Hb. apply add_edge_strong. }
    destruct H2 as (N2 & I2 & R2 & NR2).
    match goal with |- context [fold_left ?F (no_no te (pflow p FRet)) (fold_left ?G (no_no te (pflow p FIn)) st2)] =>
      set (fup := F); set (fdown := G) end.
    assert (Hd : forall s x, nums_high n s -> rmono s (fdown s x) /\ nums_high n (fdown s x)).
    { intros s x Hs. unfold fdown. destruct (best_match te funcs availDown x) as [[t e]|]; [|split; [apply rmono_refl|exact Hs]].
      exact (type_step_spec n true true i t (mget t pbnr) s Hs). }
    assert (Hu : forall s x, nums_high n s -> rmono s (fup s x) /\ nums_high n (fup s x)).
    { intros s x Hs. unfold fup. destruct (best_match te funcs availUp x) as [[t e]|]; [|split; [apply rmono_refl|exact Hs]].
      exact (type_step_spec n false _ i t (mget t rnr) s Hs). }
    destruct (fold_rmono n fdown Hd (no_no te (pflow p FIn)) st2 N2) as [M3 N3].
    destruct (fold_rmono n fup Hu (no_no te (pflow p FRet)) _ N3) as [M4 N4].
    pose proof (rmono_trans _ _ _ M3 M4) as (I5 & C5 & L5).
    split; [exact N4|]. split; [exact (incl_tran I2 I5)|]. split.
    - intros Hr. destruct (R2 Hr) as [A B]. split; congruence.
    - intros Hr. destruct (NR2 Hr) as (A & B & C). split; [congruence|]. split; [congruence|].
      intros b Hb. apply I5, C, Hb.
  Qed.
End Edges.

(* ---------- the cannotReorder list and the edges between its neighbours ---------- *)
Definition last_opt (l : list nat) : option nat := match rev l with x :: _ => Some x | [] => None end.

Lemma adjacent_snoc (l1 : list nat) a b l2 c i : l1 ++ a :: b :: l2 = c ++ [i] ->
  (l2 = [] /\ b = i /\ c = l1 ++ [a]) \/ (exists l2', l2 = l2' ++ [i] /\ c = l1 ++ a :: b :: l2').
Proof.
  destruct l2 as [|x l2' _] using rev_ind; intros H.
  - left. change (l1 ++ [a; b]) with (l1 ++ [a] ++ [b]) in H. rewrite app_assoc in H.
    apply app_inj_tail in H. destruct H as [H1 H2]. repeat split; congruence.
  - right. exists l2'. change (l1 ++ a :: b :: l2' ++ [x]) with (l1 ++ (a :: b :: l2') ++ [x]) in H.
    rewrite app_assoc in H. apply app_inj_tail in H. destruct H as [H1 H2]. split; congruence.
Qed.

Definition not_reorder (funcs : list prov) (i : nat) : bool :=
  match getp funcs i with Some p => negb (is_reorder p) | None => false end.

Record ginv (n : nat) (funcs : list prov) (l : list nat) (st : rstate) : Prop := {
  gi_nums : nums_high n st;
  gi_cannot : rs_cannot st = filter (not_reorder funcs) l;
  gi_last : rs_lastNo st = last_opt (rs_cannot st);
  gi_adj : forall l1 a b l2, rs_cannot st = l1 ++ a :: b :: l2 -> In (b, a) (rs_strong st)
}.

Lemma edges_fold_ginv te funcs aD aU pbnr rnr ls n : forall r l st, ginv n funcs l st ->
  ginv n funcs (l ++ r)
    (fold_left (fun st i => match getp funcs i with
                            | Some p => edges_for te funcs aD aU pbnr rnr ls i p st
                            | None => st end) r st).
Proof.
  induction r as [|i r IH]; intros l st G; cbn [fold_left]; [rewrite app_nil_r; exact G|].
  replace (l ++ i :: r) with ((l ++ [i]) ++ r) by (rewrite <- app_assoc; reflexivity).
  apply IH. destruct G as [G1 G2 G3 G4].
  destruct (getp funcs i) as [p|] eqn:Ep.
  - destruct (edges_for_spec te funcs aD aU pbnr rnr ls n i p st G1) as (N & I & R & NR).
    destruct (is_reorder p) eqn:Er.
    + destruct (R eq_refl) as [C L]. split; [exact N| | |].
      * rewrite C, G2, filter_app. cbn [filter]. unfold not_reorder. rewrite Ep, Er. cbn [negb]. rewrite app_nil_r. reflexivity.
      * rewrite L, C. exact G3.
      * intros l1 a b l2 H. rewrite C in H. apply I. eapply G4. exact H.
    + destruct (NR eq_refl) as (C & L & S). split; [exact N| | |].
      * rewrite C, G2, filter_app. cbn [filter]. unfold not_reorder. rewrite Ep, Er. reflexivity.
      * rewrite L, C. unfold last_opt. rewrite rev_app_distr. reflexivity.
      * intros l1 a b l2 H. rewrite C in H. symmetry in H. apply adjacent_snoc in H.
        destruct H as [(-> & -> & Hc)|(l2' & -> & Hc)].
        -- apply S. rewrite G3, Hc. unfold last_opt. rewrite rev_app_distr. reflexivity.
        -- apply I. eapply G4. exact Hc.
  - split; [exact G1| |exact G3|exact G4].
    rewrite G2, filter_app. cbn [filter]. unfold not_reorder. rewrite Ep. rewrite app_nil_r. reflexivity.
Qed.

Lemma ginv_init n funcs : ginv n funcs [] (mkRs [] [] [] [] (S n) [] None).
Proof.
  split; cbn; [split; [cbn; lia|intros pr []]|reflexivity|reflexivity|].
  intros l1 a b l2 H. destruct l1; discriminate H.
Qed.

(* ---------- the node tables built from the edges ---------- *)
Lemma upd_node_length m f l : length (upd_node m f l) = length l.
Proof. unfold upd_node. revert m. induction l as [|x r IH]; intros [|m]; simpl; try reflexivity. rewrite IH. reflexivity. Qed.

Definition grows (ns ns' : list rnode) : Prop :=
  length ns' = length ns /\ forall k a, In a (n_after (nth_node k ns)) -> In a (n_after (nth_node k ns')).
Definition same_after (ns ns' : list rnode) : Prop :=
  length ns' = length ns /\ forall k, n_after (nth_node k ns') = n_after (nth_node k ns).

Lemma same_after_refl ns : same_after ns ns. Proof. split; reflexivity. Qed.
Lemma same_after_trans a b c : same_after a b -> same_after b c -> same_after a c.
Proof. intros [A1 A2] [B1 B2]. split; [congruence|]. intros k. rewrite B2. apply A2. Qed.

Lemma upd_same_after m g ns : (forall d, n_after (g d) = n_after d) -> same_after ns (upd_node m g ns).
Proof.
  intros Hg. split; [apply upd_node_length|]. intros k. destruct (Nat.eq_dec k m) as [->|Hk].
  - destruct (Nat.lt_ge_cases m (length ns)) as [Hlt|Hge].
    + rewrite nth_node_upd_same by exact Hlt. apply Hg.
    + rewrite nth_node_upd_out by exact Hge. reflexivity.
  - rewrite nth_node_upd_other by exact Hk. reflexivity.
Qed.

Lemma fold_same_after {A} (f : list rnode -> A -> list rnode) :
  (forall ns x, same_after ns (f ns x)) -> forall l ns, same_after ns (fold_left f l ns).
Proof.
  intros Hf. induction l as [|x r IH]; intros ns; cbn [fold_left]; [apply same_after_refl|].
  eapply same_after_trans; [apply Hf|apply IH].
Qed.

Lemma in_sadd x y l : In x (sadd y l) <-> x = y \/ In x l.
Proof.
  unfold sadd. destruct (memb y l) eqn:E.
  - apply AllocProofs.memb_true_in in E. split; [intros H; right; exact H|intros [->|H]; assumption].
  - simpl. intuition congruence.
Qed.

Definition strong_step (ns : list rnode) (pr : nat * nat) : list rnode :=
  upd_node (fst pr) (fun d => mkRnode (n_before d) (sadd (snd pr) (n_after d)) (n_wbefore d) (n_wafter d))
    (upd_node (snd pr) (fun d => mkRnode (sadd (fst pr) (n_before d)) (n_after d) (n_wbefore d) (n_wafter d)) ns).

Lemma strong_step_grows ns pr : grows ns (strong_step ns pr) /\
  (fst pr < length ns -> In (snd pr) (n_after (nth_node (fst pr) (strong_step ns pr)))).
Proof.
  unfold strong_step.
  set (g1 := fun d => mkRnode (sadd (fst pr) (n_before d)) (n_after d) (n_wbefore d) (n_wafter d)).
  set (g2 := fun d => mkRnode (n_before d) (sadd (snd pr) (n_after d)) (n_wbefore d) (n_wafter d)).
  destruct (upd_same_after (snd pr) g1 ns (fun d => eq_refl)) as [L1 S1].
  split; [split|].
  - rewrite upd_node_length. exact L1.
  - intros k a Ha. rewrite <- S1 in Ha. destruct (Nat.eq_dec k (fst pr)) as [->|Hk].
    + destruct (Nat.lt_ge_cases (fst pr) (length (upd_node (snd pr) g1 ns))) as [Hlt|Hge].
      * rewrite nth_node_upd_same by exact Hlt. unfold g2. cbn [n_after]. apply in_sadd. right. exact Ha.
      * rewrite nth_node_upd_out by exact Hge. exact Ha.
    + rewrite nth_node_upd_other by exact Hk. exact Ha.
  - intros Hlt. rewrite nth_node_upd_same by (rewrite L1; exact Hlt). unfold g2. cbn [n_after]. apply in_sadd. left. reflexivity.
Qed.

Lemma strong_fold : forall l ns,
  grows ns (fold_left strong_step l ns) /\
  forall pr, In pr l -> fst pr < length ns -> In (snd pr) (n_after (nth_node (fst pr) (fold_left strong_step l ns))).
Proof.
  induction l as [|pr r IH]; intros ns; cbn [fold_left]; [split; [split; [reflexivity|auto]|intros pr []]|].
  destruct (strong_step_grows ns pr) as [[L1 G1] H1]. destruct (IH (strong_step ns pr)) as [[L2 G2] H2].
  split; [split; [congruence|intros k a Ha; apply G2, G1, Ha]|].
  intros q [<-|Hq] Hlt; [apply G2, H1, Hlt|apply H2; [exact Hq|rewrite L1; exact Hlt]].
Qed.

(* ---------- the start of the sort ---------- *)
Lemma alookup_In {A} k (v : A) : forall m, alookup k m = Some v -> In (k, v) m.
Proof.
  induction m as [|[k' v'] r IH]; simpl; [discriminate|]. destruct (k =? k') eqn:E.
  - intros H. apply Nat.eqb_eq in E. left. congruence.
  - intros H. right. apply IH, H.
Qed.
Lemma init_push_facts te funcs dt x0 :
  let x1 := init_push te funcs dt x0 in
  t_nodes x1 = t_nodes x0 /\ t_cannot x1 = t_cannot x0 /\ t_done x1 = t_done x0 /\ t_out x1 = t_out x0 /\
  forall m, queued x1 m -> queued x0 m \/ exists t, In (t, m) dt.
Proof.
  cbv zeta. unfold init_push.
  assert (H : forall l x, let x1 := fold_left (fun x t => match alookup t dt with Some num => push_un funcs num x | None => x end) l x in
            t_nodes x1 = t_nodes x /\ t_cannot x1 = t_cannot x /\ t_done x1 = t_done x /\ t_out x1 = t_out x /\
            forall m, queued x1 m -> queued x m \/ exists t, In (t, m) dt).
  { induction l as [|t r IH]; intros x; cbn [fold_left]; cbv zeta; [repeat split; auto|].
    destruct (alookup t dt) as [num|] eqn:El; [|apply IH].
    destruct (IH (push_un funcs num x)) as (A & B & C & D & E). cbn [push_un t_nodes t_cannot t_done t_out] in *.
    repeat split; try assumption. intros m Hm. destruct (E m Hm) as [[Hq|Hq]|Hq]; [|left; right; exact Hq|right; exact Hq].
    cbn [push_un t_unblocked] in Hq. apply pq_push_in in Hq. destruct Hq as [->|Hq]; [|left; left; exact Hq].
    right. exists t. apply alookup_In. exact El. }
  destruct (find_class ClInit funcs 0) as [ip|]; [|repeat split; auto].
  destruct (getp funcs ip) as [p|]; [|repeat split; auto]. apply H.
Qed.

(* ---------- from positions to providers ---------- *)
Definition nrp (p : prov) : bool := negb (is_reorder p).
Section Key.
  Variable KT : Type.
  Variable key : prov -> KT.                (* what is observed of a provider *)
  Variable dflt : KT.
  Hypothesis key_cannot : forall p, key (set_cannot true p) = key p.

Definition nr_keys (l : list prov) : list KT := map key (filter nrp l).
Definition keyof (funcs : list prov) (i : nat) : KT := match getp funcs i with Some p => key p | None => dflt end.

Lemma pick_nr funcs l :
  nr_keys (flat_map (fun i => match getp funcs i with Some p => [p] | None => [] end) l)
  = map (keyof funcs) (filter (not_reorder funcs) l).
Proof.
  unfold nr_keys. induction l as [|i r IH]; cbn [flat_map filter]; [reflexivity|].
  rewrite filter_app, map_app, IH. unfold not_reorder at 2, keyof at 2. destruct (getp funcs i) as [p|] eqn:Ep; [|reflexivity].
  cbn [filter]. unfold nrp at 1. destruct (negb (is_reorder p)); cbn [map app]; [|reflexivity].
  unfold keyof. rewrite Ep. reflexivity.
Qed.

Lemma pick_cannot_nr funcs l :
  nr_keys (flat_map (fun i => map (set_cannot true) (match getp funcs i with Some p => [p] | None => [] end)) l)
  = map (keyof funcs) (filter (not_reorder funcs) l).
Proof.
  unfold nr_keys. induction l as [|i r IH]; cbn [flat_map filter]; [reflexivity|].
  rewrite filter_app, map_app, IH. unfold not_reorder at 2, keyof at 2. destruct (getp funcs i) as [p|] eqn:Ep; [|reflexivity].
  cbn [map filter]. unfold nrp at 1. change (is_reorder (set_cannot true p)) with (is_reorder p).
  destruct (negb (is_reorder p)); cbn [map app]; [|reflexivity].
  unfold keyof. rewrite Ep, key_cannot. reflexivity.
Qed.

Lemma idx_pick (funcs : list prov) :
  flat_map (fun i => match getp funcs i with Some p => [p] | None => [] end) (seq_from 0 (length funcs)) = funcs.
Proof.
  assert (H : forall (l pre : list prov), flat_map (fun i => match getp (pre ++ l) i with Some p => [p] | None => [] end)
                                           (seq_from (length pre) (length l)) = l).
  { induction l as [|x r IH]; intros pre; cbn [length seq_from flat_map]; [reflexivity|].
    assert (E : getp (pre ++ x :: r) (length pre) = Some x).
    { unfold getp. clear. induction pre as [|y d IHd]; simpl; [reflexivity | exact IHd]. }
    rewrite E. cbn [app]. f_equal.
    specialize (IH (pre ++ [x])). rewrite <- app_assoc in IH. cbn [app] in IH.
    rewrite app_length in IH. cbn [length] in IH. rewrite Nat.add_1_r in IH. exact IH. }
  apply (H funcs []).
Qed.

Lemma filter_none {A} (f : A -> bool) l : (forall x, In x l -> f x = false) -> filter f l = [].
Proof.
  induction l as [|x r IH]; intros H; cbn [filter]; [reflexivity|].
  rewrite (H x (or_introl eq_refl)). apply IH. intros y Hy. apply H. right. exact Hy.
Qed.
Lemma filter_all {A} (f : A -> bool) l : (forall x, In x l -> f x = true) -> filter f l = l.
Proof.
  induction l as [|x r IH]; intros H; cbn [filter]; [reflexivity|].
  rewrite (H x (or_introl eq_refl)). f_equal. apply IH. intros y Hy. apply H. right. exact Hy.
Qed.
Lemma filter_comm {A} (f g : A -> bool) l : filter f (filter g l) = filter g (filter f l).
Proof.
  induction l as [|x r IH]; cbn [filter]; [reflexivity|].
  destruct (g x) eqn:Eg, (f x) eqn:Ef; cbn [filter]; rewrite ?Eg, ?Ef, IH; reflexivity.
Qed.

(* membership in the cannotReorder list is exactly "holds a provider that is not marked Reorder" *)
Lemma memb_cs funcs i :
  memb i (filter (not_reorder funcs) (seq_from 0 (length funcs))) = not_reorder funcs i.
Proof.
  destruct (not_reorder funcs i) eqn:E.
  - apply AllocProofs.memb_true_in. apply filter_In. split; [|exact E].
    unfold not_reorder in E. destruct (getp funcs i) as [p|] eqn:Ep; [|discriminate E].
    apply seq_from_in. apply (getp_some_lt funcs) in Ep. lia.
  - destruct (memb i _) eqn:Em; [|reflexivity]. apply AllocProofs.memb_true_in, filter_In in Em. destruct Em as [_ Em]. congruence.
Qed.

(* ---------- Reorder keeps the listed order of the providers that are not marked Reorder ---------- *)
Theorem reorder_keeps_listed_order_key te funcs funcs' :
  reorder_funcs te funcs = Ok funcs' -> nr_keys funcs' = nr_keys funcs.
Proof.
  unfold reorder_funcs. destruct (negb (existsb is_reorder funcs)); [intros H; inversion H; reflexivity|].
  set (n := length funcs). set (idx := seq_from 0 n).
  match goal with |- context [fold_left ?F idx (mkRs [] [] [] [] (S n) [] None)] =>
    pose proof (edges_fold_ginv _ _ _ _ _ _ _ n idx [] _ (ginv_init n funcs) : ginv n funcs idx (fold_left F idx (mkRs [] [] [] [] (S n) [] None))) as G;
    set (st := fold_left F idx (mkRs [] [] [] [] (S n) [] None)) in * end.
  destruct G as [[Gc Gn] Gcs Glast Gadj].
  set (cs := rs_cannot st) in *.
  assert (cs_nodup : NoDup cs) by (rewrite Gcs; apply NoDup_filter, seq_from_nodup).
  assert (cs_lt : forall i, In i cs -> i < length funcs).
  { intros i Hi. rewrite Gcs in Hi. apply filter_In in Hi. destruct Hi as [Hi _]. apply seq_from_in in Hi. fold n. lia. }
  match goal with |- context [topo_run te funcs ?D ?U ?F ?X] =>
    pose proof (topo_run_oinv te funcs D U cs cs_nodup cs_lt F X) as Hrun; set (xf := topo_run te funcs D U F X) in * end.
  match type of Hrun with oinv cs (init_push te funcs _ (mkTopo ?N3 _ _ _ _ _)) -> _ => set (nodes3 := N3) in * end.
  (* the node table: an edge between neighbours of cs *)
  assert (Hnodes : forall l1 a b l2, cs = l1 ++ a :: b :: l2 -> In a (n_after (nth_node b nodes3))).
  { intros l1 a b l2 Hs. pose proof (Gadj l1 a b l2 Hs) as Hin.
    assert (Hb : b < rs_counter st).
    { assert (b < n) by (apply cs_lt; rewrite Hs; apply in_or_app; right; right; left; reflexivity). lia. }
    unfold nodes3.
    match goal with |- context [fold_left ?F3 (rs_weak st) (fold_left ?F2 (rs_weak st) (fold_left ?F1 (rs_strong st) ?N0))] =>
      set (nodes0 := N0);
      pose proof (strong_fold (rs_strong st) nodes0) as [[L1 _] H1];
      change (fold_left F1 (rs_strong st) nodes0) with (fold_left strong_step (rs_strong st) nodes0);
      set (nodes1 := fold_left strong_step (rs_strong st) nodes0) in *;
      assert (S2 : same_after nodes1 (fold_left F2 (rs_weak st) nodes1));
      [|set (nodes2 := fold_left F2 (rs_weak st) nodes1) in *;
        assert (S3 : same_after nodes2 (fold_left F3 (rs_weak st) nodes2))]
    end.
    - apply fold_same_after. intros ns pr.
      eapply same_after_trans; apply upd_same_after; intros d; reflexivity.
    - apply fold_same_after. intros ns pr. cbv zeta.
      destruct (negb (memb (snd pr) (n_wbefore (nth_node (fst pr) ns)))); [apply same_after_refl|].
      eapply same_after_trans; [|apply upd_same_after; intros d; reflexivity].
      eapply same_after_trans; [|apply upd_same_after; intros d; reflexivity].
      eapply same_after_trans; apply upd_same_after; intros d; reflexivity.
    - destruct S2 as [_ S2], S3 as [_ S3]. rewrite S3, S2.
      apply (H1 (b, a) Hin). cbn [fst]. unfold nodes0. rewrite repeat_length. exact Hb. }
  (* the invariant holds at the start *)
  match type of Hrun with oinv cs ?X1 -> _ => set (x1 := X1) in * end.
  destruct (init_push_facts te funcs (rs_down st) (mkTopo nodes3 cs [] [] [] [])) as (I1 & I2 & I3 & I4 & I5).
  fold x1 in I1, I2, I3, I4, I5. cbn [t_nodes t_cannot t_done t_out] in I1, I2, I3, I4.
  assert (O1 : oinv cs x1).
  { split.
    - exists [], cs. rewrite I3, I4. repeat split; auto.
    - intros l1 a b l2 Hs _. unfold after_of. rewrite I1. eapply Hnodes. exact Hs.
    - intros m Hm Hq. exfalso. destruct (I5 m Hq) as [[Hx|Hx]|[t Ht]]; [destruct Hx|destruct Hx|].
      assert (S n <= m) by (apply (Gn (t, m)); apply in_or_app; left; exact Ht).
      apply cs_lt in Hm. fold n in Hm. lia. }
  assert (C1 : cinv cs x1).
  { exists []. rewrite I2, I3. split; [reflexivity|intros i []]. }
  destruct (Hrun O1 C1) as [[(dn & nd & Hsplit & Hdn & Hnd & Hout) _ _] _].
  intros H.
  match type of H with (if ?c then _ else _) = _ => destruct c; [|discriminate] end.
  inversion H; subst funcs'; clear H.
  set (missing := filter (fun i => negb (memb i (t_done xf))) idx).
  unfold nr_keys at 1. rewrite filter_app, map_app.
  change (map key (filter nrp ?l)) with (nr_keys l).
  rewrite pick_nr, pick_cannot_nr, <- map_app, <- filter_app.
  rewrite <- (idx_pick funcs) at 3. rewrite pick_nr. f_equal. fold n. fold idx.
  rewrite <- Gcs. fold cs.
  rewrite (filter_ext (not_reorder funcs) (fun i => memb i cs)).
  2:{ intros i. rewrite Gcs. unfold idx, n. symmetry. apply memb_cs. }
  rewrite filter_app, Hout. unfold missing. rewrite filter_comm.
  rewrite (filter_ext (fun i => memb i cs) (not_reorder funcs)).
  2:{ intros i. rewrite Gcs. unfold idx, n. apply memb_cs. }
  rewrite <- Gcs. fold cs. rewrite Hsplit at 1. rewrite filter_app.
  rewrite (filter_none _ dn), (filter_all _ nd); [symmetry; exact Hsplit| |].
  - intros i Hi. apply negb_true_iff. destruct (memb i (t_done xf)) eqn:E; [|reflexivity].
    apply AllocProofs.memb_true_in in E. exfalso. exact (Hnd i Hi E).
  - intros i Hi. apply negb_false_iff. apply AllocProofs.memb_true_in. apply Hdn, Hi.
Qed.
End Key.

Definition nr_pids (l : list prov) : list nat := map p_pid (filter nrp l).

Theorem reorder_keeps_listed_order te funcs funcs' :
  reorder_funcs te funcs = Ok funcs' -> nr_pids funcs' = nr_pids funcs.
Proof. apply (reorder_keeps_listed_order_key nat p_pid 0). intros p. reflexivity. Qed.

(* ... as providers, not only as ids: classification, flows and annotations included *)
Theorem reorder_keeps_listed_providers te funcs funcs' :
  reorder_funcs te funcs = Ok funcs' -> map p_s (filter nrp funcs') = map p_s (filter nrp funcs).
Proof.
  destruct funcs as [|p0 r].
  - unfold reorder_funcs. cbn. intros H. injection H as <-. reflexivity.
  - apply (reorder_keeps_listed_order_key sprov p_s (p_s p0)). intros p. reflexivity.
Qed.
Print Assumptions reorder_keeps_listed_order.
