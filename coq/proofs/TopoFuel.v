(* Reorder (reorder.go): the topological sort of the model runs on fuel; reorder.go loops until its
   queues are empty.  A potential argument shows when the fuel is enough: every node is processed at
   most once, processing node i queues at most one node per entry of its before-list and one per
   produced / received type, and every step takes one entry off a queue.  With
      phi x = queued entries + sum over the nodes not yet done of (1 + what processing may queue)
   a run with at least phi x steps of fuel ends with all three queues empty, and its result does not
   depend on the amount of fuel. *)
From Coq Require Import List Arith Bool Lia.
Import ListNotations.
From NJ Require Import Base Registry Classify Select Reorder ReorderProofs AllocProofs OrderProofs.

Lemma pq_push_length pr y : forall q, length (pq_push pr y q) = S (length q).
Proof.
  induction q as [|[p z] r IH]; cbn [pq_push]; [reflexivity|].
  destruct (pr <=? p); cbn [length]; [reflexivity|]. rewrite IH. reflexivity.
Qed.

Lemma insert_sorted_length x : forall l, length (insert_sorted x l) = S (length l).
Proof.
  induction l as [|y r IH]; cbn [insert_sorted]; [reflexivity|].
  destruct (x <=? y); cbn [length]; [reflexivity|]. rewrite IH. reflexivity.
Qed.

Lemma sort_nat_length : forall l, length (sort_nat l) = length l.
Proof.
  unfold sort_nat. induction l as [|x r IH]; cbn [fold_right]; [reflexivity|].
  rewrite insert_sorted_length. cbn [length]. rewrite IH. reflexivity.
Qed.

Lemma befs_length ns : length (befs ns) = length ns.
Proof. apply map_length. Qed.

Lemma befs_upd m g : (forall d, n_before (g d) = n_before d) ->
  forall ns, befs (upd_node m g ns) = befs ns.
Proof.
  intros Hg ns. unfold upd_node, befs. revert m.
  induction ns as [|x r IH]; intros m; destruct m; cbn [upd_nth map]; try reflexivity.
  - rewrite Hg. reflexivity.
  - rewrite IH. reflexivity.
Qed.

Lemma befs_nth : forall ns i, n_before (nth_node i ns) = nth i (befs ns) [].
Proof.
  unfold befs. induction ns as [|x r IH]; intros i; destruct i; cbn [nth_node map nth]; try reflexivity.
  apply IH.
Qed.

Section TF.
  Variable te : tyenv.
  Variable funcs : list prov.
  Variable downTypes upTypes : list (nat * nat).
  Let n := length funcs.

  (* x' is x with at most k more queue entries; done-set, cannot-list and before-lists unchanged *)
  Definition adds (k : nat) (x x' : topo) : Prop :=
    qlen x' <= qlen x + k /\ t_done x' = t_done x /\ befs (t_nodes x') = befs (t_nodes x).

  Lemma adds_refl x : adds 0 x x.
  Proof. unfold adds. repeat split; lia. Qed.

  Lemma adds_weaken k k' x y : adds k x y -> k <= k' -> adds k' x y.
  Proof. unfold adds. intros [H1 [H2 H3]] Hk. repeat split; try assumption. lia. Qed.

  Lemma adds_trans a b x y z : adds a x y -> adds b y z -> adds (a + b) x z.
  Proof.
    unfold adds. intros [H1 [H2 H3]] [H4 [H5 H6]]. repeat split.
    - lia.
    - rewrite H5. exact H2.
    - rewrite H6. exact H3.
  Qed.

  Lemma push_un_adds i x : adds 1 x (push_un funcs i x).
  Proof.
    unfold adds, push_un, qlen. cbn [t_unblocked t_weak t_cannot t_done t_nodes].
    rewrite pq_push_length. repeat split; lia.
  Qed.

  Lemma push_weak_adds i x : adds 1 x (push_weak funcs i x).
  Proof.
    unfold adds, push_weak, qlen. cbn [t_unblocked t_weak t_cannot t_done t_nodes].
    rewrite pq_push_length. repeat split; lia.
  Qed.

  Lemma set_nodes_adds ns x : befs ns = befs (t_nodes x) -> adds 0 x (set_nodes ns x).
  Proof.
    intros H. unfold adds, set_nodes, qlen. cbn [t_unblocked t_weak t_cannot t_done t_nodes].
    repeat split; [lia|exact H].
  Qed.

  Lemma release_adds m i x : adds 1 x (release funcs m i x).
  Proof.
    unfold release. fold n. destruct (n <=? m); [apply push_un_adds|].
    match goal with |- context [set_nodes ?ns x] => set (ns1 := ns) end.
    assert (H0 : adds 0 x (set_nodes ns1 x)).
    { apply set_nodes_adds. unfold ns1. apply befs_upd. intros d. reflexivity. }
    destruct (n_after (nth_node m ns1)).
    - destruct (n_wafter (nth_node m ns1)).
      + apply (adds_trans 0 1 _ _ _ H0). apply push_un_adds.
      + apply (adds_trans 0 1 _ _ _ H0). apply push_weak_adds.
    - eapply adds_weaken; [exact H0|lia].
  Qed.

  Lemma fold_adds {A} (f : topo -> A -> topo) :
    (forall a x, adds 1 x (f x a)) -> forall l x, adds (length l) x (fold_left f l x).
  Proof.
    intros Hf. induction l as [|a r IH]; intros x; cbn [fold_left length]; [apply adds_refl|].
    replace (S (length r)) with (1 + length r) by lia.
    eapply adds_trans; [apply Hf|apply IH].
  Qed.

  Lemma fold_befs {A} (f : list rnode -> A -> list rnode) :
    (forall a ns, befs (f ns a) = befs ns) -> forall l ns, befs (fold_left f l ns) = befs ns.
  Proof.
    intros Hf. induction l as [|a r IH]; intros ns; cbn [fold_left]; [reflexivity|].
    rewrite IH. apply Hf.
  Qed.

  Lemma release_node_adds i x :
    adds (length (nth i (befs (t_nodes x)) [])) x (release_node funcs i x).
  Proof.
    unfold release_node. rewrite <- befs_nth.
    match goal with |- context [set_nodes ?ns x] => set (ns1 := ns) end.
    assert (H0 : adds 0 x (set_nodes ns1 x)).
    { apply set_nodes_adds. unfold ns1. apply fold_befs. intros a ns. apply befs_upd. intros d. reflexivity. }
    replace (length (n_before (nth_node i (t_nodes x)))) with (0 + length (sort_nat (n_before (nth_node i (t_nodes x)))))
      by (rewrite sort_nat_length; lia).
    eapply adds_trans; [exact H0|].
    apply (fold_adds (fun x' m => release funcs m i x')). intros a y. apply release_adds.
  Qed.

  Lemma release_provider_adds i p x :
    adds (length (no_no te (pflow p FOut)) + length (no_no te (pflow p FRecv))) x
         (release_provider te funcs downTypes upTypes i p x).
  Proof.
    unfold release_provider. eapply adds_trans.
    - apply (fold_adds (fun x' t => match alookup t downTypes with Some num => release funcs num i x' | None => x' end)).
      intros a y. destruct (alookup a downTypes); [apply release_adds|].
      eapply adds_weaken; [apply adds_refl|lia].
    - apply (fold_adds (fun x' t => match alookup t upTypes with Some num => release funcs num i x' | None => x' end)).
      intros a y. destruct (alookup a upTypes); [apply release_adds|].
      eapply adds_weaken; [apply adds_refl|lia].
  Qed.

  (* ---------- the potential ---------- *)
  Notation cost := (cost te funcs).
  Notation pend_from := (pend_from te funcs).
  Notation pend := (pend te funcs).
  Notation phi := (phi te funcs).

  Lemma memb_cons_other i j done : i <> j -> memb j (i :: done) = memb j done.
  Proof.
    intros H. cbn [memb]. destruct (j =? i) eqn:E; [apply Nat.eqb_eq in E; lia|reflexivity].
  Qed.

  Lemma pend_from_cons_le bs i done : forall l, pend_from bs (i :: done) l <= pend_from bs done l.
  Proof.
    induction l as [|j r IH]; cbn [pend_from]; [lia|].
    destruct (Nat.eq_dec i j) as [->|Hne].
    - assert (Hm : memb j (j :: done) = true) by (cbn [memb]; rewrite Nat.eqb_refl; reflexivity).
      rewrite Hm. destruct (memb j done); lia.
    - rewrite (memb_cons_other i j done Hne). lia.
  Qed.

  Lemma pend_from_cons_in bs i done : memb i done = false -> forall l, In i l ->
    pend_from bs (i :: done) l + cost bs i <= pend_from bs done l.
  Proof.
    intros Hd. induction l as [|j r IH]; intros Hin; [destruct Hin|]. cbn [pend_from].
    destruct (Nat.eq_dec i j) as [<-|Hne].
    - assert (Hm : memb i (i :: done) = true) by (cbn [memb]; rewrite Nat.eqb_refl; reflexivity).
      rewrite Hm, Hd. pose proof (pend_from_cons_le bs i done r). lia.
    - rewrite (memb_cons_other i j done Hne). destruct Hin as [Heq|Hin]; [congruence|].
      specialize (IH Hin). lia.
  Qed.

  Lemma pend_cons_le bs i done : pend bs (i :: done) <= pend bs done.
  Proof. apply pend_from_cons_le. Qed.

  Lemma pend_cons_in bs i done : memb i done = false -> i < length bs ->
    pend bs (i :: done) + cost bs i <= pend bs done.
  Proof.
    intros Hd Hi. apply pend_from_cons_in; [exact Hd|]. apply in_seq. lia.
  Qed.

  Lemma adds_phi k x y : adds k x y -> phi y <= phi x + k.
  Proof.
    unfold adds, phi. intros [H1 [H2 H3]]. rewrite H2, H3. lia.
  Qed.

  (* processing never raises the potential *)
  Lemma process_one_phi i rel x : n < length (t_nodes x) ->
    phi (process_one te funcs downTypes upTypes i rel x) <= phi x /\
    length (t_nodes (process_one te funcs downTypes upTypes i rel x)) = length (t_nodes x).
  Proof.
    intros Hn. unfold process_one. destruct (memb i (t_done x)) eqn:Hd; [split; [lia|reflexivity]|].
    set (x1 := mkTopo (t_nodes x) (t_cannot x) (t_unblocked x) (t_weak x) (i :: t_done x) (t_out x)).
    set (bs := befs (t_nodes x)).
    assert (Hq1 : qlen x1 = qlen x) by reflexivity.
    assert (Hlen : forall k y, adds k x1 y -> length (t_nodes y) = length (t_nodes x)).
    { intros k y [_ [_ Hb]]. rewrite <- (befs_length (t_nodes y)), Hb. apply befs_length. }
    assert (Hphi1 : forall k y, adds k x1 y -> phi y <= qlen x + k + pend bs (i :: t_done x)).
    { intros k y Hy. pose proof (adds_phi _ _ _ Hy) as H. unfold phi at 2 in H. rewrite Hq1 in H.
      cbn [t_nodes t_done x1] in H. fold bs in H. lia. }
    fold n.
    destruct (n <? i) eqn:Hni.
    - (* a type node *)
      destruct rel.
      + pose proof (release_node_adds i x1) as Ha. cbn [t_nodes x1] in Ha. fold bs in Ha.
        split; [|eapply Hlen; exact Ha].
        pose proof (Hphi1 _ _ Ha) as H. unfold phi at 2. fold bs.
        destruct (i <? length bs) eqn:Hil.
        * apply Nat.ltb_lt in Hil. pose proof (pend_cons_in bs i (t_done x) Hd Hil) as Hp.
          unfold cost in Hp. lia.
        * apply Nat.ltb_ge in Hil. rewrite (nth_overflow bs [] Hil) in H. cbn [length] in H.
          pose proof (pend_cons_le bs i (t_done x)). lia.
      + split; [|reflexivity]. unfold phi. rewrite Hq1. cbn [t_nodes t_done x1]. fold bs.
        pose proof (pend_cons_le bs i (t_done x)). lia.
    - apply Nat.ltb_ge in Hni.
      assert (Hil : i < length bs) by (unfold bs; rewrite befs_length; lia).
      pose proof (pend_cons_in bs i (t_done x) Hd Hil) as Hp. unfold cost in Hp.
      destruct (getp funcs i) as [p|] eqn:Hg.
      + set (x2 := mkTopo (t_nodes x1) (t_cannot x1) (t_unblocked x1) (t_weak x1) (t_done x1) (t_out x1 ++ [i])).
        assert (H12 : adds 0 x1 x2) by (unfold adds, qlen; cbn; repeat split; lia).
        destruct rel; cbn [negb].
        * assert (Ha : adds (0 + (length (nth i bs []) + (length (no_no te (pflow p FOut)) + length (no_no te (pflow p FRecv)))))
                            x1 (release_provider te funcs downTypes upTypes i p (release_node funcs i x2))).
          { eapply adds_trans; [exact H12|]. eapply adds_trans; [|apply release_provider_adds].
            pose proof (release_node_adds i x2) as Hr. cbn [t_nodes x2 x1] in Hr. fold bs in Hr. exact Hr. }
          split; [|eapply Hlen; exact Ha].
          pose proof (Hphi1 _ _ Ha) as H. unfold phi at 2. fold bs. lia.
        * split; [|reflexivity]. pose proof (Hphi1 _ _ H12) as H. unfold phi at 2. fold bs. lia.
      + split; [|reflexivity]. unfold phi. rewrite Hq1. cbn [t_nodes t_done x1]. fold bs. lia.
  Qed.

  Definition queues_empty (x : topo) : Prop := t_unblocked x = [] /\ t_weak x = [] /\ t_cannot x = [].

  Lemma topo_run_empty : forall fuel x, queues_empty x -> topo_run te funcs downTypes upTypes fuel x = x.
  Proof.
    intros fuel x [H1 [H2 H3]]. destruct fuel; cbn [topo_run]; [reflexivity|]. rewrite H1, H2, H3. reflexivity.
  Qed.

  (* with phi x steps of fuel the run ends with empty queues, and more fuel changes nothing *)
  Theorem topo_run_fuel : forall fuel x, n < length (t_nodes x) -> phi x <= fuel ->
    queues_empty (topo_run te funcs downTypes upTypes fuel x) /\
    forall extra, topo_run te funcs downTypes upTypes (fuel + extra) x = topo_run te funcs downTypes upTypes fuel x.
  Proof.
    induction fuel as [|fuel IH]; intros x Hn Hphi.
    - assert (Hq : queues_empty x).
      { unfold phi, qlen in Hphi. unfold queues_empty.
        destruct (t_unblocked x); [|cbn [length] in Hphi; lia].
        destruct (t_weak x); [|cbn [length] in Hphi; lia].
        destruct (t_cannot x); [|cbn [length] in Hphi; lia]. repeat split. }
      cbn [topo_run]. split; [exact Hq|]. intros extra. apply topo_run_empty. exact Hq.
    - cbn [topo_run Nat.add].
      assert (Hstep : forall i rel x0, t_nodes x0 = t_nodes x -> phi x0 + 1 <= phi x ->
                queues_empty (topo_run te funcs downTypes upTypes fuel (process_one te funcs downTypes upTypes i rel x0)) /\
                forall extra, topo_run te funcs downTypes upTypes (fuel + extra) (process_one te funcs downTypes upTypes i rel x0)
                              = topo_run te funcs downTypes upTypes fuel (process_one te funcs downTypes upTypes i rel x0)).
      { intros i rel x0 Hns H0. assert (Hn0 : n < length (t_nodes x0)) by (rewrite Hns; exact Hn).
        destruct (process_one_phi i rel x0 Hn0) as [Hp Hl].
        apply IH; [rewrite Hl; exact Hn0|lia]. }
      destruct (t_unblocked x) as [|[pr i] q] eqn:Hu.
      + destruct (t_weak x) as [|[pr i] q] eqn:Hw.
        * destruct (t_cannot x) as [|i r] eqn:Hc.
          -- split; [repeat split; assumption|]. intros extra. reflexivity.
          -- apply Hstep; [reflexivity|].
             unfold phi, qlen. cbn [t_nodes t_done t_unblocked t_weak t_cannot]. rewrite Hu, Hw, Hc. cbn [length]. lia.
        * apply Hstep; [reflexivity|].
          unfold phi, qlen. cbn [t_nodes t_done t_unblocked t_weak t_cannot]. rewrite Hu, Hw. cbn [length]. lia.
      + apply Hstep; [reflexivity|].
        unfold phi, qlen. cbn [t_nodes t_done t_unblocked t_weak t_cannot]. rewrite Hu. cbn [length]. lia.
  Qed.
End TF.

(* reorder_funcs runs its topological sort from the state reorder_prepare builds, with phi of that state as fuel *)
Lemma reorder_funcs_prepare te funcs :
  reorder_funcs te funcs =
  if negb (existsb is_reorder funcs) then Ok funcs else
  let '(st, x1) := reorder_prepare te funcs in
  let n := length funcs in
  let idx := seq_from 0 n in
  let xf := topo_run te funcs (rs_down st) (rs_up st) (phi te funcs x1) x1 in
  let out := t_out xf in
  let missing := filter (fun i => negb (memb i (t_done xf))) idx in
  let pick i := match getp funcs i with Some p => [p] | None => [] end in
  let result := flat_map pick out ++ flat_map (fun i => map (set_cannot true) (pick i)) missing in
  if length result =? n then Ok result else Err EB_INTERNAL.
Proof. reflexivity. Qed.

(* ---------- the node table of the start state has one entry per graph node, more than providers ---------- *)
Lemma fold_len {A} (f : list rnode -> A -> list rnode) :
  (forall a ns, length (f ns a) = length ns) -> forall l ns, length (fold_left f l ns) = length ns.
Proof.
  intros Hf. induction l as [|a r IH]; intros ns; cbn [fold_left]; [reflexivity|]. rewrite IH. apply Hf.
Qed.

Lemma prepare_nodes te funcs :
  length (t_nodes (snd (reorder_prepare te funcs))) = rs_counter (fst (reorder_prepare te funcs)) /\
  S (length funcs) <= rs_counter (fst (reorder_prepare te funcs)).
Proof.
  unfold reorder_prepare. cbv zeta. cbn [fst snd].
  match goal with |- context [init_push te funcs ?dt ?x0] =>
    destruct (init_push_facts te funcs dt x0) as (Hn & _) end.
  cbv zeta in Hn. rewrite Hn. cbn [t_nodes].
  split.
  - rewrite fold_len.
    + rewrite fold_len.
      * rewrite fold_len; [apply repeat_length|].
        intros a ns. rewrite !upd_node_length. reflexivity.
      * intros a ns. rewrite !upd_node_length. reflexivity.
    + intros a ns. destruct (negb _); [reflexivity|]. rewrite !upd_node_length. reflexivity.
  - match goal with |- context [edges_for te funcs ?aD ?aU ?pbnr ?rnr ?ls] =>
      pose proof (edges_fold_ginv te funcs aD aU pbnr rnr ls (length funcs) (seq_from 0 (length funcs)) []
                    (mkRs [] [] [] [] (S (length funcs)) [] None) (ginv_init (length funcs) funcs)) as G end.
    destruct G as [[G1 _] _ _ _]. exact G1.
Qed.

(* the sort inside reorder_funcs ends with empty queues and any larger amount of fuel gives the same
   run, for every list of providers: the model's Reorder is the unfuelled algorithm of reorder.go *)
Theorem reorder_fuel_sufficient te funcs :
  let '(st, x1) := reorder_prepare te funcs in
  queues_empty (topo_run te funcs (rs_down st) (rs_up st) (phi te funcs x1) x1) /\
  forall extra, topo_run te funcs (rs_down st) (rs_up st) (phi te funcs x1 + extra) x1
                = topo_run te funcs (rs_down st) (rs_up st) (phi te funcs x1) x1.
Proof.
  destruct (prepare_nodes te funcs) as [Hl Hc].
  destruct (reorder_prepare te funcs) as [st x1]. cbn [fst snd] in Hl, Hc.
  apply topo_run_fuel; lia.
Qed.
