(* What the init function returns has slots: for every working list that Bind's selection accepts,
   each (remapped) returned type of an included init function is put out by an included provider
   listed before the invoke function, hence has a down slot. *)
From Coq Require Import List Arith Bool Lia.
Import ListNotations.
From NJ Require Import Base Registry Classify Select Reorder Machine Spec Bind SelectProofs AllocProofs WiringProofs.
From NJ Require Import PreserveProofs CoverProofs BypassProofs.

Lemma find_class_ext c : forall a b s, map p_s a = map p_s b -> find_class c a s = find_class c b s.
Proof.
  induction a as [|x a IH]; intros [|y b] s H; cbn [map] in H; try discriminate H; [reflexivity|].
  injection H as H1 H2. cbn [find_class]. unfold p_class. rewrite H1. rewrite (IH b (S s) H2). reflexivity.
Qed.

Section CoversBypass.
  Variable te : tyenv.
  Variable F f10 : list prov.
  Hypothesis HF : forall p, In p F -> p_cannot p = p_excluded p.
  Hypothesis Hv : validate_chain te true (provides_returns te F) = (f10, None).

  Let PR := provides_returns te F.
  Let fs0 := map (set_deps no_deps) F.
  Let n := length F.

  Lemma same_classes : map p_s f10 = map p_s fs0.
  Proof.
    destruct (provides_returns_wired te F) as (Ws & _). fold PR fs0 in Ws.
    rewrite (same_s_map_eq _ _ (validate_same_s te true PR f10 None Hv)). apply same_s_map_eq. exact Ws.
  Qed.

  (* an included provider was not skipped by providesReturns; its wiring is that of providesReturns *)
  Lemma included_in_pr k p :
    getp f10 k = Some p -> p_include p = true ->
    checks_ok te f10 p = true /\
    (exists q, getp PR k = Some q /\ p_cannot q = false /\ wv p = wv q) /\
    (exists q0, getp fs0 k = Some q0 /\ p_s q0 = p_s p /\ p_cannot q0 = false) /\
    (forall d k', pflow_at fs0 d k' = pflow_at f10 d k').
  Proof.
    intros Hp Hi.
    destruct (provides_returns_wired te F) as (Ws & Wpc & Wd & Wu). fold PR fs0 in Ws, Wpc, Wd, Wu.
    destruct (validate_sound te true PR f10 (provides_returns_closed te F) Hv) as [Hm Hgood].
    destruct (Hgood k p Hp Hi) as [Hc Hchk].
    pose proof (Hm k) as Hmk. rewrite Hp in Hmk. destruct (getp PR k) as [q|] eqn:Hq; [|contradiction].
    destruct Hmk as (M1 & M2 & _ & _ & M5 & _ & M7 & M8 & M9).
    assert (Hex : p_excluded q = false).
    { destruct (p_excluded q) eqn:Ex; [|reflexivity]. exfalso.
      pose proof Hv as Hv'. unfold validate_chain in Hv'. fold PR in Hv'.
      destruct (mark_loop PR 0 PR []) as [[fs rem] [e|]] eqn:Em; [discriminate Hv'|].
      destruct (mark_loop_spec PR [] [] fs rem Em) as [Efs _]. simpl in Efs. subst fs.
      assert (Hk : flagp p_cannot (map mark PR) k = true).
      { unfold flagp, getp. rewrite nth_opt_map. unfold getp in Hq. rewrite Hq. simpl. unfold mark. rewrite Ex. reflexivity. }
      pose proof (check_passes_cannot_mono te true k _ _ _ _ _ Hv' Hk) as Hfin.
      unfold flagp in Hfin. rewrite Hp in Hfin. congruence. }
    assert (Hq0 : exists q0, getp fs0 k = Some q0 /\ p_s q0 = p_s q /\ p_cannot q0 = p_cannot q).
    { pose proof (Wpc k) as Hpc. pose proof (Ws k) as Hs. unfold pc_at in Hpc. rewrite Hq in Hpc, Hs.
      destruct (getp fs0 k) as [q0|]; [|discriminate Hs]. simpl in Hpc, Hs. exists q0. split; [reflexivity|]. split; congruence. }
    destruct Hq0 as (q0 & Hq0 & Hs0 & Hc0).
    assert (Hcq : p_cannot q = false).
    { pose proof (provides_returns_px te F k) as Hpx. fold PR in Hpx.
      unfold px_at in *. rewrite Hq in Hpx. unfold fs0, getp in Hq0. rewrite nth_opt_map in Hq0.
      unfold getp in Hpx. destruct (nth_opt k F) as [f|] eqn:Hf; [|discriminate]. simpl in *.
      injection Hq0 as <-. injection Hpx as Hpx. cbn [set_deps p_cannot] in Hc0. rewrite <- Hc0, (HF f (getp_in _ _ _ Hf)), <- Hpx. exact Hex. }
    assert (Wv : wv p = wv q) by (unfold wv; rewrite M1, M2, M7, M8, M9; reflexivity).
    split; [exact Hchk|]. split; [exists q; repeat split; assumption|].
    split; [exists q0; split; [exact Hq0|]; split; [congruence|congruence]|].
    intros d k'. rewrite <- (pflow_at_same_s PR fs0 d k' Ws).
    unfold pflow_at. pose proof (Hm d) as Hmd. destruct (getp PR d) as [a|], (getp f10 d) as [b|]; try contradiction; [|reflexivity].
    destruct Hmd as (E & _). unfold pflow. rewrite E. reflexivity.
  Qed.

  Theorem covers_bypass ii :
    find_class ClInvoke f10 0 = Some ii ->
    (forall v p, getp f10 v = Some p -> class_eqb (p_class p) ClInvoke = true -> v = ii) ->
    (exists p, getp f10 ii = Some p /\ p_include p = true /\ class_eqb (p_class p) ClInvoke = true) ->
    forall k p t, find_class ClInit f10 0 = Some k -> getp f10 k = Some p -> p_include p = true ->
      In t (pflow p FBypass) -> t <> te_noT te ->
      assigned (sl_down (allocate_slots f10 ii)) (remap (p_bypassR p) t).
  Proof.
    intros Hfc Huniq (pi & Hpi & Hpii & Hpic) k p t Hfk Hp Hi Ht Hn.
    destruct (allocate_slots_covers f10 ii) as (C1 & _). cbv zeta in C1.
    (* the invoke function was reached by the downward pass *)
    destruct (included_in_pr ii pi Hpi Hpii) as (_ & _ & (qi & Hqi & Hsi & Hci) & _).
    assert (Hlen : ii < n).
    { unfold fs0, getp in Hqi. rewrite nth_opt_map in Hqi. destruct (nth_opt ii F) eqn:E; [|discriminate]. apply nth_opt_lt in E. exact E. }
    assert (Hinv : inv_at fs0 ii).
    { exists qi. split; [exact Hqi|]. split; [|exact Hci]. unfold p_class. rewrite Hsi. exact Hpic. }
    destruct (included_in_pr k p Hp Hi) as (Hchk & (q & Hq & Hcq & Wv) & _ & Hfl).
    pose proof (provides_returns_bypass te F) as Wb. cbv zeta in Wb. fold PR fs0 n in Wb.
    assert (Hfk0 : find_class ClInit fs0 0 = Some k) by (rewrite <- (find_class_ext ClInit f10 fs0 0 same_classes); exact Hfk).
    assert (Ww : wired te fs0 (blim fs0 n k) FBypass FOut p).
    { apply (wired_wv te fs0 _ FBypass FOut q p Wv). apply (Wb k q); [|exact Hq|exact Hcq].
      split; [exact Hfk0|]. exists ii. split; [exact Hlen|exact Hinv]. }
    destruct (included_source te F f10 p FBypass FOut _ t Hchk Ww Hfl Ht Hn) as (found & d & r & Ha & Hlim & Hr & Hri & Hout).
    cbn [rmap_of] in Ha. assert (Er : remap (p_bypassR p) t = found) by (unfold remap; rewrite Ha; reflexivity).
    rewrite Er. destruct Hlim as (v & _ & (qv & Hqv & Hqc & _) & Hdv).
    (* the invoke function is the only one *)
    assert (Hv_ii : v = ii).
    { pose proof same_classes as Hsc. assert (Hnth : nth_opt v (map p_s f10) = nth_opt v (map p_s fs0)) by (rewrite Hsc; reflexivity).
      rewrite !nth_opt_map in Hnth. unfold getp in Hqv. rewrite Hqv in Hnth. cbn [option_map] in Hnth.
      destruct (nth_opt v f10) as [pv|] eqn:Epv; [|discriminate Hnth]. cbn [option_map] in Hnth. injection Hnth as Hnth.
      apply (Huniq v pv Epv). unfold p_class in *. rewrite Hnth. exact Hqc. }
    subst v.
    apply (C1 r found); [apply (getp_firstn _ d ii r Hr Hdv)|exact Hout|].
    apply (vm_keys_is_key f10 r found (getp_in _ _ _ Hr) Hri). apply in_or_app. right. apply in_or_app. left. exact Hout.
  Qed.
End CoversBypass.

(* for whatever Bind's selection accepts *)
Theorem select_covers_bypass te funcs1 funcs ii :
  select te funcs1 = Ok funcs ->
  find_class ClInvoke funcs 0 = Some ii ->
  (forall v p, getp funcs v = Some p -> class_eqb (p_class p) ClInvoke = true -> v = ii) ->
  (exists p, getp funcs ii = Some p /\ p_include p = true /\ class_eqb (p_class p) ClInvoke = true) ->
  forall k p t, find_class ClInit funcs 0 = Some k -> getp funcs k = Some p -> p_include p = true ->
    In t (pflow p FBypass) -> t <> te_noT te ->
    assigned (sl_down (allocate_slots funcs ii)) (remap (p_bypassR p) t).
Proof.
  unfold select. intros H.
  destruct (validate_chain te true (provides_returns te (map (init_marks te) funcs1))) as [f3 [e|]]; [discriminate|].
  match type of H with
  | match validate_chain te true (provides_returns te ?F8) with _ => _ end = _ =>
    destruct (validate_chain te true (provides_returns te F8)) as [f10 [e|]] eqn:Ev; [discriminate|];
    injection H as <-;
    apply (covers_bypass te F8 f10); [|exact Ev]
  end.
  intros p Hp. apply in_map_iff in Hp. destruct Hp as (p0 & <- & _).
  destruct (negb (p_excluded p0)) eqn:E; simpl; [apply negb_true_iff in E|apply negb_false_iff in E]; rewrite E; reflexivity.
Qed.
Print Assumptions select_covers_bypass.
