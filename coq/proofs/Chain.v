(* From the decidable check [plan_wf] to the hypotheses of the refinement theorems: a bound
   chain whose plan passes the check behaves, for every provider behaviour, world and session,
   exactly like the reference semantics of its plan. *)
From Coq Require Import List Arith Bool Lia.
Import ListNotations.
From NJ Require Import Base Registry Classify Select Reorder Machine Spec Bind Refine SpecLemmas.

(* ---------- reflection of the boolean equalities ---------- *)
Lemma on_eqb_eq a b : on_eqb a b = true -> a = b.
Proof. destruct a, b; simpl; try discriminate; intros H; [apply Nat.eqb_eq in H; subst|]; reflexivity. Qed.

Lemma ps_eqb_eq a : forall b, ps_eqb a b = true -> a = b.
Proof.
  induction a as [|[s t] a' IH]; intros [|[s' t'] b']; simpl; try discriminate; [reflexivity|].
  intros H. apply andb_true_iff in H. destruct H as [H H3]. apply andb_true_iff in H. destruct H as [H1 H2].
  apply on_eqb_eq in H1. apply Nat.eqb_eq in H2. subst. f_equal. apply IH. exact H3.
Qed.

Lemma zs_eqb_eq a : forall b, zs_eqb a b = true -> a = b.
Proof.
  induction a as [|[s t] a' IH]; intros [|[s' t'] b']; simpl; try discriminate; [reflexivity|].
  intros H. apply andb_true_iff in H. destruct H as [H H3]. apply andb_true_iff in H. destruct H as [H1 H2].
  apply Nat.eqb_eq in H1. apply Nat.eqb_eq in H2. subst. f_equal. apply IH. exact H3.
Qed.

Lemma class_eqb_eq a b : class_eqb a b = true -> a = b.
Proof. destruct a, b; simpl; try discriminate; reflexivity. Qed.

Ltac split_andb :=
  repeat match goal with
         | H : _ && _ = true |- _ => apply andb_true_iff in H; destruct H
         end.

Lemma cp_eqb_eq a b : cp_eqb a b = true -> a = b.
Proof.
  unfold cp_eqb. intros H. destruct a, b; simpl in *. split_andb.
  repeat match goal with
         | H : (_ =? _) = true |- _ => apply Nat.eqb_eq in H
         | H : class_eqb _ _ = true |- _ => apply class_eqb_eq in H
         | H : Bool.eqb _ _ = true |- _ => apply Bool.eqb_prop in H
         | H : ps_eqb _ _ = true |- _ => apply ps_eqb_eq in H
         | H : zs_eqb _ _ = true |- _ => apply zs_eqb_eq in H
         | H : on_eqb _ _ = true |- _ => apply on_eqb_eq in H
         end.
  subst. reflexivity.
Qed.

Lemma cps_eqb_eq a : forall b, cps_eqb a b = true -> a = b.
Proof.
  induction a as [|x a' IH]; intros [|y b']; simpl; try discriminate; [reflexivity|].
  intros H. apply andb_true_iff in H. destruct H as [H1 H2]. apply cp_eqb_eq in H1. subst. f_equal. apply IH. exact H2.
Qed.

Lemma bound_eqb_eq a b : bd_base0 a = bd_base0 b -> bound_eqb a b = true -> a = b.
Proof.
  unfold bound_eqb. intros Hb H. destruct a, b; simpl in *. split_andb.
  repeat match goal with
         | H : cps_eqb _ _ = true |- _ => apply cps_eqb_eq in H
         | H : cp_eqb _ _ = true |- _ => apply cp_eqb_eq in H
         end.
  assert (bd_init = bd_init0).
  { destruct bd_init, bd_init0; try discriminate; try reflexivity.
    match goal with H : cp_eqb _ _ = true |- _ => apply cp_eqb_eq in H; subst; reflexivity end. }
  subst. reflexivity.
Qed.

(* ---------- slots ---------- *)
Lemma memb_in x l : memb x l = true <-> In x l.
Proof.
  induction l as [|y r IH]; simpl; [split; [discriminate | intros []]|].
  rewrite orb_true_iff, Nat.eqb_eq, IH. split; intros [H|H]; auto.
Qed.

Lemma nodup_b_NoDup l : nodup_b l = true -> NoDup l.
Proof.
  induction l as [|x r IH]; simpl; intros H; [constructor|].
  apply andb_true_iff in H. destruct H as [H1 H2]. constructor; [|apply IH; exact H2].
  intros Hin. apply memb_in in Hin. rewrite Hin in H1. discriminate.
Qed.

Lemma alookup_in {A} k (v : A) m : alookup k m = Some v -> In (k, v) m.
Proof.
  induction m as [|[k' v'] r IH]; simpl; [discriminate|].
  destruct (k =? k') eqn:E; intros H.
  - apply Nat.eqb_eq in E. inversion H; subst. left. reflexivity.
  - right. apply IH. exact H.
Qed.

Lemma slot_idx_in vm t i : In (t, Some i) vm -> In i (slot_idx vm).
Proof.
  intros H. unfold slot_idx. apply in_flat_map. exists (t, Some i). split; [exact H | left; reflexivity].
Qed.

Lemma NoDup_app_l {A} (a b : list A) : NoDup (a ++ b) -> NoDup a.
Proof. induction a as [|x r IH]; simpl; intros H; [constructor|]. inversion H; subst. constructor; [|apply IH; assumption].
  intros Hin. apply H2. apply in_or_app. left. exact Hin. Qed.
Lemma NoDup_app_r {A} (a b : list A) : NoDup (a ++ b) -> NoDup b.
Proof. induction a as [|x r IH]; simpl; intros H; [exact H|]. inversion H; subst. apply IH. assumption. Qed.
Lemma NoDup_app_disj {A} (a b : list A) x : NoDup (a ++ b) -> In x a -> In x b -> False.
Proof.
  induction a as [|y r IH]; simpl; intros H Ha Hb; [destruct Ha|].
  inversion H; subst. destruct Ha as [Ha|Ha].
  - subst. apply H2. apply in_or_app. right. exact Hb.
  - apply IH; assumption.
Qed.

(* two entries of a table with the same index are the same entry when indices are unique *)
Lemma idx_unique vm : NoDup (slot_idx vm) -> forall t t' i, In (t, Some i) vm -> In (t', Some i) vm -> t = t'.
Proof.
  induction vm as [|[k v] r IH]; intros Hnd t t' i H1 H2; [destruct H1|].
  unfold slot_idx in Hnd. simpl in Hnd. fold (slot_idx r) in Hnd.
  destruct H1 as [H1|H1]; destruct H2 as [H2|H2].
  - inversion H1; inversion H2; subst. reflexivity.
  - inversion H1; subst. simpl in Hnd. inversion Hnd as [|? ? Hni _]; subst.
    exfalso. apply Hni. eapply slot_idx_in; eauto.
  - inversion H2; subst. simpl in Hnd. inversion Hnd as [|? ? Hni _]; subst.
    exfalso. apply Hni. eapply slot_idx_in; eauto.
  - apply (IH (NoDup_app_r _ _ Hnd) t t' i H1 H2).
Qed.

Section FromWf.
  Variable sl : slotted.
  Hypothesis Hok : slots_ok_b sl = true.

  Lemma sd_in t i : sd_of sl t = Some i -> In (t, Some i) (sl_down sl).
  Proof. unfold sd_of. destruct (alookup t (sl_down sl)) as [s|] eqn:E; [|discriminate]. intros H; subst. apply alookup_in. exact E. Qed.
  Lemma su_in t i : su_of sl t = Some i -> In (t, Some i) (sl_up sl).
  Proof. unfold su_of. destruct (alookup t (sl_up sl)) as [s|] eqn:E; [|discriminate]. intros H; subst. apply alookup_in. exact E. Qed.

  Lemma wf_nodup : NoDup (slot_idx (sl_down sl) ++ slot_idx (sl_up sl)).
  Proof.
    unfold slots_ok_b in Hok. apply andb_true_iff in Hok. destruct Hok as [H _].
    apply andb_true_iff in H. destruct H as [_ H]. apply nodup_b_NoDup. exact H.
  Qed.
  Lemma wf_bound i : In i (slot_idx (sl_down sl) ++ slot_idx (sl_up sl)) -> i < sl_count sl.
  Proof.
    unfold slots_ok_b in Hok. apply andb_true_iff in Hok. destruct Hok as [_ H].
    rewrite forallb_forall in H. intros Hin. apply Nat.ltb_lt. apply H. exact Hin.
  Qed.

  Lemma wf_sd_inj t t' i : sd_of sl t = Some i -> sd_of sl t' = Some i -> t = t'.
  Proof. intros H1 H2. eapply idx_unique; [exact (NoDup_app_l _ _ wf_nodup) | apply sd_in; eauto | apply sd_in; eauto]. Qed.
  Lemma wf_su_inj t t' i : su_of sl t = Some i -> su_of sl t' = Some i -> t = t'.
  Proof. intros H1 H2. eapply idx_unique; [exact (NoDup_app_r _ _ wf_nodup) | apply su_in; eauto | apply su_in; eauto]. Qed.
  Lemma wf_disj t t' i j : sd_of sl t = Some i -> su_of sl t' = Some j -> i <> j.
  Proof.
    intros H1 H2 E. subst j. eapply (NoDup_app_disj _ _ i wf_nodup).
    - eapply slot_idx_in. apply sd_in. eauto.
    - eapply slot_idx_in. apply su_in. eauto.
  Qed.
  Lemma wf_sd_bound t i : sd_of sl t = Some i -> i < sl_count sl.
  Proof. intros H. apply wf_bound. apply in_or_app. left. eapply slot_idx_in. apply sd_in. eauto. Qed.
  Lemma wf_su_bound t i : su_of sl t = Some i -> i < sl_count sl.
  Proof. intros H. apply wf_bound. apply in_or_app. right. eapply slot_idx_in. apply su_in. eauto. Qed.
End FromWf.

Lemma is_some_neq {A} (o : option A) : is_some o = true -> o <> None.
Proof. destruct o; [intros _ H; discriminate | discriminate]. Qed.

Lemma covered_b_covered sl errT r : covered_b sl errT r = true -> covered (sd_of sl) (su_of sl) errT r.
Proof.
  unfold covered_b, covered. intros H.
  apply andb_true_iff in H. destruct H as [H H3]. apply andb_true_iff in H. destruct H as [H1 H2].
  rewrite forallb_forall in H1, H2. repeat split.
  - intros t Ht. apply is_some_neq. apply H1. exact Ht.
  - intros t Ht. apply is_some_neq. apply H2. exact Ht.
  - intros Hc. rewrite Hc in H3. simpl in H3. apply is_some_neq. exact H3.
Qed.

Lemma covered_s_b_covered sl r : covered_s_b sl r = true -> covered_s (sd_of sl) r.
Proof.
  unfold covered_s_b, covered_s. intros H t Ht. rewrite forallb_forall in H. apply is_some_neq. apply H. exact Ht.
Qed.

Lemma forallb_Forall {A} (f : A -> bool) (P : A -> Prop) l :
  (forall x, f x = true -> P x) -> forallb f l = true -> Forall P l.
Proof.
  intros Hf. induction l as [|x r IH]; simpl; intros H; [constructor|].
  apply andb_true_iff in H. destruct H as [H1 H2]. constructor; [apply Hf; exact H1 | apply IH; exact H2].
Qed.

(* ---------- the chain-level theorem ---------- *)
(* the environment the base array of a bound chain represents *)
Definition base_env (sl : slotted) (base : list val) : nat -> val :=
  fun t => match sd_of sl t with Some i => aget i base | None => VInvalid end.

Theorem chain_refines :
  forall (c : bcase) (pl : plan) (b : bound),
    bind_chain c = Ok (pl, b) -> plan_wf (bc_te c) pl b = true ->
    exists sp, splan_of (bc_te c) pl = Some sp /\
    forall (W : Type) (beh_fn : nat -> W -> list val -> W * list val)
           (beh_wrap : nat -> W -> list val -> wtree W) (steps : list step) (w0 : W),
      let m := run_session W beh_fn beh_wrap b (mkSess W w0 (bd_base0 b) false true) steps in
      let s := sem_session W beh_fn beh_wrap (te_errorT (bc_te c)) sp
                           (mkSsess W w0 (base_env (pl_slots pl) (bd_base0 b)) false true) steps in
      snd m = snd s /\ ss_w W (fst m) = sq_w W (fst s).
Proof.
  intros c pl b _ Hwf. unfold plan_wf in Hwf.
  destruct (splan_of (bc_te c) pl) as [sp|] eqn:Esp; [|discriminate].
  exists sp. split; [reflexivity|].
  apply andb_true_iff in Hwf. destruct Hwf as [Hwf Hbeq].
  apply andb_true_iff in Hwf. destruct Hwf as [Hwf Hinvc].
  apply andb_true_iff in Hwf. destruct Hwf as [Hwf Hinitc].
  apply andb_true_iff in Hwf. destruct Hwf as [Hwf Hstc].
  apply andb_true_iff in Hwf. destruct Hwf as [Hwf Hrunc].
  apply andb_true_iff in Hwf. destruct Hwf as [Hwf Hwc].
  apply andb_true_iff in Hwf. destruct Hwf as [Hwf Hclean].
  apply andb_true_iff in Hwf. destruct Hwf as [Hwf Hlen].
  intros W beh_fn beh_wrap steps w0.
  set (sl := pl_slots pl) in *.
  assert (Hb : b = bound_of (sd_of sl) (su_of sl) (te_errorT (bc_te c)) (bd_base0 b) sp).
  { apply bound_eqb_eq; [reflexivity | exact Hbeq]. }
  cbv zeta. remember (bd_base0 b) as base eqn:Hbase.
  clear Hbeq. rewrite Hb. clear Hb Hbase.
  apply (session_refines W beh_fn beh_wrap (sd_of sl) (su_of sl) (te_errorT (bc_te c)) (sl_count sl)
           (wf_sd_inj sl Hwf) (wf_su_inj sl Hwf) (wf_disj sl Hwf) (wf_sd_bound sl Hwf) (wf_su_bound sl Hwf)).
  - (* wf_splan *)
    unfold wf_splan. repeat split.
    + eapply forallb_Forall; [|exact Hrunc]. intros r Hr. apply covered_b_covered. exact Hr.
    + eapply forallb_Forall; [|exact Hstc]. intros r Hr. apply covered_s_b_covered. exact Hr.
    + destruct (sp_init sp) as [ir|]; [|exact I].
      intros t Ht. rewrite forallb_forall in Hinitc. apply is_some_neq. apply Hinitc. exact Ht.
    + intros t Ht. rewrite forallb_forall in Hinvc. apply is_some_neq. apply Hinvc. exact Ht.
  - (* initial relation *)
    unfold Rs. simpl. repeat split; try reflexivity.
    + apply Nat.eqb_eq. exact Hlen.
    + intros t i Hs. unfold base_env. rewrite Hs. reflexivity.
    + intros t i Hs. rewrite forallb_forall in Hclean.
      assert (Hin : In i (slot_idx (sl_up sl))) by (eapply slot_idx_in; apply su_in; eauto).
      specialize (Hclean i Hin). destruct (aget i base); try discriminate. reflexivity.
Qed.

(* C04, run time: a bound chain never hands reflect.Call an invalid Value (the model's only
   run-time failure), for any provider behaviour and any session. *)
Theorem run_safe :
  forall (c : bcase) (pl : plan) (b : bound),
    bind_chain c = Ok (pl, b) -> plan_wf (bc_te c) pl b = true ->
    forall (W : Type) (beh_fn : nat -> W -> list val -> W * list val)
           (beh_wrap : nat -> W -> list val -> wtree W) (steps : list step) (w0 : W),
      ~ In RPanic (snd (run_session W beh_fn beh_wrap b (mkSess W w0 (bd_base0 b) false true) steps)).
Proof.
  intros c pl b Hb Hwf W beh_fn beh_wrap steps w0.
  destruct (chain_refines c pl b Hb Hwf) as (sp & Hsp & Href).
  destruct (Href W beh_fn beh_wrap steps w0) as [Hres _]. cbv zeta in Hres. rewrite Hres.
  assert (Hwc : forallb well_classed (sp_run sp) = true).
  { unfold plan_wf in Hwf. rewrite Hsp in Hwf.
    repeat (apply andb_true_iff in Hwf; destruct Hwf as [Hwf ?]).
    match goal with H : forallb well_classed (sp_run sp) = true |- _ => exact H end. }
  apply (SpecLemmas.sem_session_no_panic W beh_fn beh_wrap (te_errorT (bc_te c)) sp Hwc steps). reflexivity.
Qed.
