(* C19: what netFlows guarantees, for every list of providers. *)
From Coq Require Import List Arith Bool Lia.
Import ListNotations.
From NJ Require Import Base Collections Registry Classify Select Flows Machine Spec.

Lemma memb_In x l : memb x l = true <-> In x l.
Proof.
  induction l as [|y l IH]; simpl; [split; [discriminate|tauto]|].
  rewrite orb_true_iff, IH, Nat.eqb_eq. split; intros [H|H]; auto.
Qed.

Section NF.
  Variable te : tyenv.
  Variable funcs : list prov.

  (* ---- inputs of one provider ---- *)
  Lemma nf_inputs_spec avail ins : forall byT uIn uOut byT1 uIn1,
    nf_inputs te funcs avail ins byT uIn uOut = (byT1, uIn1) ->
    (forall x, In x uIn -> In x uIn1) /\
    (forall x, In x byT -> In x byT1) /\
    (forall x, In x byT1 -> In x byT \/ exists t, In t ins /\ x = resolve_input te funcs avail t) /\
    (forall t, In t ins -> let t' := resolve_input te funcs avail t in
                           In t' byT1 /\ (In t' uIn1 \/ In t' uOut)).
  Proof.
    induction ins as [|a r IH]; intros byT uIn uOut byT1 uIn1 H; cbn [nf_inputs] in H.
    - injection H as <- <-. split; [auto|]. split; [auto|]. split; [auto|]. intros t0 [].
    - apply IH in H. destruct H as (H1 & H2 & H3 & H4).
      set (a' := resolve_input te funcs avail a) in *.
      assert (Hmono : forall x, In x uIn -> In x (if memb a' uOut || memb a' uIn then uIn else uIn ++ [a'])).
      { intros x Hx. destruct (memb a' uOut || memb a' uIn); [exact Hx|apply in_or_app; left; exact Hx]. }
      split; [intros x Hx; apply H1, Hmono, Hx|].
      split; [intros x Hx; apply H2; right; exact Hx|].
      split.
      + intros x Hx. destruct (H3 x Hx) as [[<-|Hb]|(t & Ht & ->)].
        * right. exists a. split; [left; reflexivity|reflexivity].
        * left. exact Hb.
        * right. exists t. split; [right; exact Ht|reflexivity].
      + intros t [<-|Ht].
        * cbn zeta. fold a'. split; [apply H2; left; reflexivity|].
          destruct (memb a' uOut) eqn:E1; cbn [orb] in *.
          { right. apply memb_In, E1. }
          destruct (memb a' uIn) eqn:E2.
          { left. apply H1. apply memb_In, E2. }
          { left. apply H1. apply in_or_app. right. left. reflexivity. }
        * apply H4, Ht.
  Qed.

  (* ---- outputs of one provider ---- *)
  Lemma nf_outputs_spec i outs byT uIn : forall avail uOut avail1 uOut1,
    nf_outputs i outs byT uIn avail uOut = (avail1, uOut1) ->
    (forall x, In x uOut -> In x uOut1) /\
    (forall x, In x uOut1 -> In x uOut \/ In x outs) /\
    (forall o, In o outs -> In o byT \/ In o uIn \/ In o uOut1).
  Proof.
    induction outs as [|a r IH]; intros avail uOut avail1 uOut1 H; cbn [nf_outputs] in H.
    - injection H as <- <-. split; [auto|]. split; [auto|]. intros o [].
    - apply IH in H. destruct H as (H1 & H2 & H3).
      assert (Hmono : forall x, In x uOut -> In x (if memb a byT || memb a uIn || memb a uOut then uOut else uOut ++ [a])).
      { intros x Hx. destruct (memb a byT || memb a uIn || memb a uOut); [exact Hx|apply in_or_app; left; exact Hx]. }
      split; [intros x Hx; apply H1, Hmono, Hx|].
      split.
      + intros x Hx. destruct (H2 x Hx) as [Hu|Hr]; [|right; right; exact Hr].
        destruct (memb a byT || memb a uIn || memb a uOut); [left; exact Hu|].
        apply in_app_or in Hu. destruct Hu as [Hu|[<-|[]]]; [left; exact Hu|right; left; reflexivity].
      + intros o [<-|Ho]; [|apply H3, Ho].
        destruct (memb a byT) eqn:E1; [left; apply memb_In, E1|].
        destruct (memb a uIn) eqn:E2; [right; left; apply memb_In, E2|].
        destruct (memb a uOut) eqn:E3; cbn [orb] in *.
        * right. right. apply H1. apply memb_In, E3.
        * right. right. apply H1. apply in_or_app. right. left. reflexivity.
  Qed.

  Lemma nf_outputs_avail i outs byT uIn : forall avail uOut,
    fst (nf_outputs i outs byT uIn avail uOut) = fold_left (fun av o => im_add o i i av) outs avail.
  Proof. induction outs as [|a r IH]; intros avail uOut; cbn [nf_outputs fold_left]; [reflexivity|apply IH]. Qed.

  (* ---- the whole list ---- *)
  Lemma nf_loop_spec items : forall i avail uIn uOut fi fo,
    nf_loop te funcs items i avail uIn uOut = (fi, fo) ->
    (forall x, In x uIn -> In x fi) /\
    (forall x, In x uOut -> In x fo) /\
    (forall x, In x fo -> In x uOut \/ exists it, In it items /\ In x (snd it)) /\
    (forall pre ins outs post, items = pre ++ (ins, outs) :: post ->
       (forall t, In t ins ->
          let t' := resolve_input te funcs (avail_after pre i avail) t in
          In t' fi \/ In t' uOut \/ exists it, In it pre /\ In t' (snd it)) /\
       (forall o, In o outs -> In o fo \/ In o fi)).
  Proof.
    induction items as [|[ins0 outs0] r IH]; intros i avail uIn uOut fi fo H; cbn [nf_loop] in H.
    - injection H as <- <-. split; [auto|]. split; [auto|]. split; [auto|].
      intros pre ins outs post E. destruct pre; discriminate E.
    - destruct (nf_inputs te funcs avail ins0 [] uIn uOut) as [byT uIn1] eqn:EI.
      destruct (nf_outputs i outs0 byT uIn1 avail uOut) as [avail1 uOut1] eqn:EO.
      pose proof (nf_inputs_spec _ _ _ _ _ _ _ EI) as (I1 & _ & I3 & I4).
      pose proof (nf_outputs_spec _ _ _ _ _ _ _ _ EO) as (O1 & O2 & O3).
      pose proof (nf_outputs_avail i outs0 byT uIn1 avail uOut) as EA. rewrite EO in EA. cbn [fst] in EA.
      apply IH in H. destruct H as (R1 & R2 & R3 & R4).
      split; [intros x Hx; apply R1, I1, Hx|].
      split; [intros x Hx; apply R2, O1, Hx|].
      split.
      + intros x Hx. destruct (R3 x Hx) as [Hu|(it & Hit & Hxi)].
        * destruct (O2 x Hu) as [Hu0|Ho]; [left; exact Hu0|].
          right. exists (ins0, outs0). split; [left; reflexivity|exact Ho].
        * right. exists it. split; [right; exact Hit|exact Hxi].
      + intros pre ins outs post E. destruct pre as [|p0 pre].
        * cbn [app] in E. injection E as <- <- <-. cbn [avail_after]. split.
          -- intros t Ht. destruct (I4 t Ht) as (_ & [Hin|Hout]).
             ++ left. apply R1, Hin.
             ++ right. left. exact Hout.
          -- intros o Ho. destruct (O3 o Ho) as [Hb|[Hi|Hu]].
             ++ (* also one of its own inputs: that input was resolved or is unresolved *)
                destruct (I3 o Hb) as [[]|(t & Ht & ->)].
                destruct (I4 t Ht) as (_ & [Hin|Hout]).
                ** right. apply R1, Hin.
                ** left. apply R2, O1, Hout.
             ++ right. apply R1, Hi.
             ++ left. apply R2, Hu.
        * cbn [app] in E. injection E as <- E. cbn [avail_after]. rewrite <- EA.
          destruct (R4 pre ins outs post E) as (Q1 & Q2). split.
          -- intros t Ht. destruct (Q1 t Ht) as [Hf|[Hu|(it & Hit & Hx)]].
             ++ left. exact Hf.
             ++ destruct (O2 _ Hu) as [Hu0|Ho]; [right; left; exact Hu0|].
                right. right. exists (ins0, outs0). split; [left; reflexivity|exact Ho].
             ++ right. right. exists it. split; [right; exact Hit|exact Hx].
          -- exact Q2.
  Qed.
  (* ---- nothing but those: every reported input is needed ---- *)
  Lemma nf_inputs_nec avail ins : forall byT uIn uOut byT1 uIn1,
    nf_inputs te funcs avail ins byT uIn uOut = (byT1, uIn1) ->
    forall x, In x uIn1 ->
      In x uIn \/ exists p, In p ins /\ resolve_input te funcs avail p = x /\ ~ In x uOut /\ ~ In x uIn.
  Proof.
    induction ins as [|a r IH]; intros byT uIn uOut byT1 uIn1 H x Hx; cbn [nf_inputs] in H.
    - injection H as <- <-. left. exact Hx.
    - set (a' := resolve_input te funcs avail a) in *.
      destruct (IH _ _ _ _ _ H x Hx) as [Hu|(p & Hp & Hr & Ho & Hi)].
      + destruct (memb a' uOut) eqn:E1; cbn [orb] in Hu; [left; exact Hu|].
        destruct (memb a' uIn) eqn:E2; [left; exact Hu|].
        apply in_app_or in Hu. destruct Hu as [Hu|[<-|[]]]; [left; exact Hu|].
        right. exists a. split; [left; reflexivity|]. split; [reflexivity|].
        split; intros Hc; apply memb_In in Hc; congruence.
      + right. exists p. split; [right; exact Hp|]. split; [exact Hr|]. split; [exact Ho|].
        intros Hc. apply Hi. destruct (memb a' uOut || memb a' uIn); [exact Hc|apply in_or_app; left; exact Hc].
  Qed.

  Definition covered_outs (processed : list (list nat * list nat)) (uIn uOut : list nat) : Prop :=
    forall o, In o (flat_map snd processed) -> In o uIn \/ In o uOut.

  Lemma avail_after_app pre it i avail :
    avail_after (pre ++ [it]) i avail =
    fold_left (fun av o => im_add o (i + length pre) (i + length pre) av) (snd it) (avail_after pre i avail).
  Proof.
    revert i avail. induction pre as [|[a b] pre IH]; intros i avail; cbn [app avail_after length].
    - destruct it as [a b]. cbn [avail_after snd]. rewrite Nat.add_0_r. reflexivity.
    - rewrite IH. replace (S i + length pre) with (i + S (length pre)) by lia. reflexivity.
  Qed.

  Lemma nf_loop_nec items : forall processed avail uIn uOut fi fo,
    covered_outs processed uIn uOut ->
    nf_loop te funcs items (length processed) avail uIn uOut = (fi, fo) ->
    forall x, In x fi ->
      In x uIn \/
      exists pre ins outs post p, items = pre ++ (ins, outs) :: post /\ In p ins /\
        resolve_input te funcs (avail_after pre (length processed) avail) p = x /\
        ~ In x (flat_map snd (processed ++ pre)).
  Proof.
    induction items as [|[ins0 outs0] r IH]; intros processed avail uIn uOut fi fo Hcov H x Hx; cbn [nf_loop] in H.
    - injection H as <- <-. left. exact Hx.
    - destruct (nf_inputs te funcs avail ins0 [] uIn uOut) as [byT uIn1] eqn:EI.
      destruct (nf_outputs (length processed) outs0 byT uIn1 avail uOut) as [avail1 uOut1] eqn:EO.
      pose proof (nf_inputs_spec _ _ _ _ _ _ _ EI) as (I1 & _ & I3 & I4).
      pose proof (nf_outputs_spec _ _ _ _ _ _ _ _ EO) as (O1 & _ & O3).
      pose proof (nf_outputs_avail (length processed) outs0 byT uIn1 avail uOut) as EA. rewrite EO in EA. cbn [fst] in EA.
      assert (Hcov1 : covered_outs (processed ++ [(ins0, outs0)]) uIn1 uOut1).
      { intros o Ho. rewrite flat_map_app in Ho. apply in_app_or in Ho. destruct Ho as [Ho|Ho].
        - destruct (Hcov o Ho) as [Hi|Hu]; [left; apply I1, Hi|right; apply O1, Hu].
        - cbn [flat_map snd] in Ho. rewrite app_nil_r in Ho.
          destruct (O3 o Ho) as [Hb|[Hi|Hu]]; [|left; exact Hi|right; exact Hu].
          destruct (I3 o Hb) as [[]|(t & Ht & ->)].
          destruct (I4 t Ht) as (_ & [Hin|Hout]); [left; exact Hin|right; apply O1, Hout]. }
      replace (S (length processed)) with (length (processed ++ [(ins0, outs0)])) in H by (rewrite app_length; simpl; lia).
      destruct (IH _ _ _ _ _ _ Hcov1 H x Hx) as [Hu|(pre & ins & outs & post & p & E & Hp & Hr & Hn)].
      + destruct (nf_inputs_nec _ _ _ _ _ _ _ EI x Hu) as [Hu0|(p & Hp & Hr & Ho & Hi)]; [left; exact Hu0|].
        right. exists [], ins0, outs0, r, p. split; [reflexivity|]. split; [exact Hp|]. split; [exact Hr|].
        rewrite app_nil_r. intros Hc. destruct (Hcov x Hc) as [Hc1|Hc1]; [exact (Hi Hc1)|exact (Ho Hc1)].
      + right. exists ((ins0, outs0) :: pre), ins, outs, post, p.
        split; [cbn [app]; rewrite E; reflexivity|]. split; [exact Hp|]. split.
        * cbn [avail_after]. rewrite <- EA. rewrite app_length in Hr. cbn [length] in Hr.
          replace (length processed + 1) with (S (length processed)) in Hr by lia. exact Hr.
        * rewrite <- app_assoc in Hn. exact Hn.
  Qed.
End NF.

(* DownFlows is sufficient at the level of types: each parameter of each provider, resolved against
   what the providers listed before it offer (exact type or best Loose match), is either produced by
   one of them or is among the reported inputs. *)
Theorem down_inputs_sufficient te funcs items pre ins outs post :
  items = pre ++ (ins, outs) :: post ->
  forall t, In t ins ->
    let t' := resolve_input te funcs (avail_after pre 0 []) t in
    In t' (fst (net_flows te funcs items)) \/ exists it, In it pre /\ In t' (snd it).
Proof.
  intros E t Ht. unfold net_flows. destruct (nf_loop te funcs items 0 [] [] []) as [fi fo] eqn:EL.
  destruct (nf_loop_spec te funcs items 0 [] [] [] fi fo EL) as (_ & _ & _ & R4).
  destruct (R4 pre ins outs post E) as (Q1 & _). destruct (Q1 t Ht) as [H|[[]|H]]; [left; exact H|right; exact H].
Qed.

(* Every type a provider puts out is reported as produced, unless it is reported as an unresolved
   input; read for the up flows (items = received/returned types, last provider first): everything
   returned is in UpFlows' "produced" when nothing received is left unresolved. *)
Theorem outputs_reported te funcs items pre ins outs post :
  items = pre ++ (ins, outs) :: post ->
  forall o, In o outs ->
    In o (snd (net_flows te funcs items)) \/ In o (fst (net_flows te funcs items)).
Proof.
  intros E o Ho. unfold net_flows. destruct (nf_loop te funcs items 0 [] [] []) as [fi fo] eqn:EL.
  destruct (nf_loop_spec te funcs items 0 [] [] [] fi fo EL) as (_ & _ & _ & R4).
  destruct (R4 pre ins outs post E) as (_ & Q2). apply Q2, Ho.
Qed.

Corollary up_flows_complete te funcs items :
  fst (net_flows te funcs items) = [] ->
  forall it o, In it items -> In o (snd it) -> In o (snd (net_flows te funcs items)).
Proof.
  intros Hnil it o Hit Ho. destruct it as [ins outs].
  apply in_split in Hit. destruct Hit as (pre & post & E).
  destruct (outputs_reported te funcs items pre ins outs post E o Ho) as [H|H]; [exact H|].
  rewrite Hnil in H. destruct H.
Qed.

(* nothing is reported as produced that no provider puts out *)
Theorem produced_is_real te funcs items x :
  In x (snd (net_flows te funcs items)) -> exists it, In it items /\ In x (snd it).
Proof.
  unfold net_flows. destruct (nf_loop te funcs items 0 [] [] []) as [fi fo] eqn:EL. intros H.
  destruct (nf_loop_spec te funcs items 0 [] [] [] fi fo EL) as (_ & _ & R3 & _).
  destruct (R3 x H) as [[]|Hx]. exact Hx.
Qed.

(* ---------- the condensed provider in the reference semantics ---------- *)
Section CondensedNode.
  Variable W : Type.
  Variable beh_fn : nat -> W -> list val -> W * list val.
  Variable beh_wrap : nat -> W -> list val -> wtree W.
  Variable errT : nat.
  Variable pin : list rp.          (* the bound sub-chain *)
  Variable cin cout : list nat.    (* its unresolved inputs / what it returns (error excluded) *)
  Variable cpid : nat.

  (* calling the bound sub-chain with the given inputs *)
  Definition call_inner (w : W) (args : list val) : W * (nat -> val) :=
    let '(w1, u, _) := sem W beh_fn beh_wrap errT pin w (upd_list zero_env cin args) in (w1, u).

  (* error injected as a value: the condensed provider is an injector for cout ++ [error] *)
  Definition beh_value (pid : nat) (w : W) (args : list val) : W * list val :=
    if pid =? cpid then let (w1, u) := call_inner w args in (w1, look u (cout ++ [errT]))
    else beh_fn pid w args.
  Definition node_value : rp := mkRp cpid ClInjector false cin (cout ++ [errT]) [] [] [] 0.

  Theorem condensed_value rest w d :
    sem W beh_value beh_wrap errT (node_value :: rest) w d =
    let (w1, u) := call_inner w (look d cin) in
    sem W beh_value beh_wrap errT rest w1 (upd_list d (cout ++ [errT]) (look u (cout ++ [errT]))).
  Proof.
    cbn [sem node_value r_class r_pid r_ins r_outs]. unfold beh_value at 1. rewrite Nat.eqb_refl.
    destruct (call_inner w (look d cin)) as [w1 u]. reflexivity.
  Qed.

  (* error treated as terminal: a fallible injector whose error result comes first *)
  Definition beh_terminal (pid : nat) (w : W) (args : list val) : W * list val :=
    if pid =? cpid then let (w1, u) := call_inner w args in (w1, norm errT (u errT) :: look u cout)
    else beh_fn pid w args.
  Definition node_terminal : rp := mkRp cpid ClFallible false cin cout [] [] [] 0.

  Theorem condensed_terminal rest w d :
    sem W beh_terminal beh_wrap errT (node_terminal :: rest) w d =
    let (w1, u) := call_inner w (look d cin) in
    if negb (is_nil (norm errT (u errT)))
    then (w1, upd zero_env errT (norm errT (u errT)), true)      (* the outer chain stops here *)
    else sem W beh_terminal beh_wrap errT rest w1 (upd_list d cout (look u cout)).
  Proof.
    cbn [sem node_terminal r_class r_pid r_ins r_outs r_tepos]. unfold beh_terminal at 1. rewrite Nat.eqb_refl.
    destruct (call_inner w (look d cin)) as [w1 u]. cbn [nth remove_nth]. reflexivity.
  Qed.
End CondensedNode.

(* ... and reports nothing but those: every reported input is what some parameter resolves to while
   no provider listed before that one puts it out. *)
Theorem down_inputs_necessary te funcs items x :
  In x (fst (net_flows te funcs items)) ->
  exists pre ins outs post p, items = pre ++ (ins, outs) :: post /\ In p ins /\
    resolve_input te funcs (avail_after pre 0 []) p = x /\ ~ In x (flat_map snd pre).
Proof.
  unfold net_flows. destruct (nf_loop te funcs items 0 [] [] []) as [fi fo] eqn:EL. cbn [fst]. intros Hx.
  assert (Hcov : covered_outs [] [] []) by (intros o []).
  destruct (nf_loop_nec te funcs items [] [] [] [] fi fo Hcov EL x Hx) as [[]|H]. exact H.
Qed.

(* ---------- the declarative monitor accepts what netFlows computes ---------- *)
Lemma nth_opt_split {A} (l : list A) k x : nth_opt k l = Some x -> l = firstn k l ++ x :: skipn (S k) l.
Proof.
  revert k. induction l as [|y l IH]; intros k H; destruct k; simpl in *; try discriminate.
  - injection H as ->. reflexivity.
  - f_equal. apply IH, H.
Qed.

Lemma nth_opt_app_mid {A} (pre : list A) x post : nth_opt (length pre) (pre ++ x :: post) = Some x.
Proof. induction pre as [|y pre IH]; simpl; [reflexivity|exact IH]. Qed.

Lemma firstn_app_exact {A} (pre post : list A) : firstn (length pre) (pre ++ post) = pre.
Proof. induction pre as [|y pre IH]; simpl; [destruct post; reflexivity|rewrite IH; reflexivity]. Qed.

Lemma in_seq_from k : forall s n, In k (seq_from s n) <-> s <= k < s + n.
Proof.
  intros s n. revert s. induction n as [|n IH]; intros s; simpl; [lia|].
  rewrite IH. lia.
Qed.

Lemma nth_opt_lt_len {A} (l : list A) k x : nth_opt k l = Some x -> k < length l.
Proof.
  revert k. induction l as [|y l IH]; intros k H; destruct k; simpl in *; try discriminate; [lia|].
  apply IH in H. lia.
Qed.

Theorem mon_inputs_exact_model te funcs items :
  mon_inputs_exact te funcs items (fst (net_flows te funcs items)) = true.
Proof.
  unfold mon_inputs_exact. apply andb_true_iff. split.
  - apply forallb_forall. intros k _. destruct (nth_opt k items) as [[ins outs]|] eqn:E; [|reflexivity].
    apply forallb_forall. intros p Hp.
    pose proof (nth_opt_split _ _ _ E) as Es.
    destruct (down_inputs_sufficient te funcs items (firstn k items) ins outs (skipn (S k) items) Es p Hp) as [H|(it & Hit & Hin)].
    + apply orb_true_iff. left. apply memb_In. exact H.
    + apply orb_true_iff. right. apply memb_In. unfold outs_before. apply in_flat_map. exists it. split; assumption.
  - apply forallb_forall. intros t Ht.
    destruct (down_inputs_necessary te funcs items t Ht) as (pre & ins & outs & post & p & E & Hp & Hr & Hn).
    apply existsb_exists. exists (length pre). split.
    + apply in_seq_from. rewrite E, app_length. simpl. lia.
    + rewrite E, nth_opt_app_mid. apply existsb_exists. exists p. split; [exact Hp|].
      rewrite firstn_app_exact. apply andb_true_iff. split; [apply Nat.eqb_eq, Hr|].
      apply negb_true_iff. destruct (memb t (outs_before (pre ++ (ins, outs) :: post) (length pre))) eqn:Em; [|reflexivity].
      exfalso. apply memb_In in Em. unfold outs_before in Em. rewrite firstn_app_exact in Em. exact (Hn Em).
Qed.
