(* End to end, for chains without Reorder: which providers run, in which order and how often.
   With every provider logging its id and wrapper p calling inner() [ncalls p] times, the log of a
   session of k invocations of a chain bound without an init function is: per invocation the
   invoke function, then - in the first invocation only - the included static injectors in listed
   order, then the included per-invocation providers in listed order, everything below a wrapper
   once per inner() call. *)
From Coq Require Import List Arith Bool Lia.
Import ListNotations.
From NJ Require Import Base Registry Classify Select Reorder Machine Spec Bind Refine SpecLemmas Chain WfProofs.

Definition static_log (prog : list rp) : list nat :=
  flat_map (fun r => match r_class r with ClLiteral => [] | _ => [r_pid r] end) prog.

Lemma sem_static_order : forall prog w d,
  exists d', sem_static (list nat) o_fn prog false w d = (w ++ static_log prog, d', true).
Proof.
  induction prog as [|r rest IH]; intros w d; cbn [sem_static static_log flat_map].
  - exists d. rewrite app_nil_r. reflexivity.
  - destruct (r_class r) eqn:Ec; cbn [o_fn app];
      try (destruct (IH (w ++ [r_pid r]) (upd_list d (r_outs r) [])) as [d' Hd']; exists d'; rewrite Hd', <- app_assoc; reflexivity).
    + (* fallible static: never fails here *)
      assert (Hn : negb (is_nil (nth (r_tepos r) [] VInvalid)) = false) by (destruct (r_tepos r); reflexivity).
      rewrite Hn. destruct (IH (w ++ [r_pid r]) (upd_list d (r_outs r) [])) as [d' Hd']. exists d'. rewrite Hd', <- app_assoc. reflexivity.
    + (* literal *)
      apply IH.
Qed.

Section Log.
  Variable ncalls : nat -> nat.
  Variable errT : nat.

  (* sem_order for any error type (it only matters when a fallible injector fails) *)
  Lemma o_run_any r rest (IH : forall w d, fst (fst (sem (list nat) o_fn (o_wrap ncalls) errT rest w d)) = w ++ expected ncalls rest /\
                                     snd (sem (list nat) o_fn (o_wrap ncalls) errT rest w d) = true) d :
    forall n w lastu count,
      fst (fst (run_sem (list nat) r (sem (list nat) o_fn (o_wrap ncalls) errT rest) d (o_tree n w) lastu count))
        = w ++ repeat_app n (expected ncalls rest) /\
      snd (run_sem (list nat) r (sem (list nat) o_fn (o_wrap ncalls) errT rest) d (o_tree n w) lastu count) = true.
  Proof.
    induction n as [|n' IHn]; intros w lastu count; simpl.
    - rewrite app_nil_r. split; reflexivity.
    - destruct (IH w (upd_list d (r_outs r) [])) as [Hw Hok].
      destruct (sem (list nat) o_fn (o_wrap ncalls) errT rest w (upd_list d (r_outs r) [])) as [[w2 u2] ok].
      simpl in Hw, Hok. subst. simpl.
      destruct (IHn (w ++ expected ncalls rest) (if r_parallel r then lastu else u2) (S count)) as [H1 H2].
      rewrite H1, H2. rewrite app_assoc. split; reflexivity.
  Qed.

  Lemma sem_order_any : forall prog, forallb well_classed prog = true -> forall w d,
    fst (fst (sem (list nat) o_fn (o_wrap ncalls) errT prog w d)) = w ++ expected ncalls prog /\
    snd (sem (list nat) o_fn (o_wrap ncalls) errT prog w d) = true.
  Proof.
    induction prog as [|r rest IH]; intros Hwc w d; simpl.
    - rewrite app_nil_r. split; reflexivity.
    - simpl in Hwc. apply andb_true_iff in Hwc. destruct Hwc as [Hr Hrest]. specialize (IH Hrest).
      unfold well_classed in Hr.
      destruct (r_class r) eqn:Ec; try discriminate; simpl.
      + destruct (r_tepos r); simpl;
        destruct (IH (w ++ [r_pid r]) (upd_list d (r_outs r) [])) as [H1 H2];
        rewrite H1, H2; rewrite <- app_assoc; split; reflexivity.
      + destruct (IH (w ++ [r_pid r]) (upd_list d (r_outs r) [])) as [H1 H2].
        rewrite H1, H2. rewrite <- app_assoc. split; reflexivity.
      + destruct (o_run_any r rest IH d (ncalls (r_pid r)) (w ++ [r_pid r]) zero_env 0) as [H1 H2].
        split; [etransitivity; [exact H1|] | exact H2]. rewrite <- app_assoc. reflexivity.
      + split; reflexivity.
  Qed.

  Variable sp : splan.
  Hypothesis Hwc : forallb well_classed (sp_run sp) = true.
  Hypothesis Hni : sp_init sp = None.

  Fixpoint session_log (first : bool) (k : nat) : list nat :=
    match k with
    | 0 => []
    | S k' => [r_pid (sp_invoke sp)] ++ (if first then static_log (sp_static sp) else []) ++
              expected ncalls (sp_run sp) ++ session_log false k'
    end.

  Lemma sem_session_log : forall k w base done,
    sq_w (list nat) (fst (sem_session (list nat) o_fn (o_wrap ncalls) errT sp (mkSsess (list nat) w base done true) (repeat DoInvoke k)))
    = w ++ session_log (negb done) k.
  Proof.
    induction k as [|k IH]; intros w base done; cbn [repeat sem_session session_log]; [rewrite app_nil_r; reflexivity|].
    unfold sem_step. cbn [sq_ok negb sq_w sq_base sq_done o_fn]. rewrite Hni.
    destruct done; cbn [negb].
    - destruct (sem_order_any (sp_run sp) Hwc (w ++ [r_pid (sp_invoke sp)]) (upd_list base (r_outs (sp_invoke sp)) [])) as [H1 H2].
      destruct (sem (list nat) o_fn (o_wrap ncalls) errT (sp_run sp) (w ++ [r_pid (sp_invoke sp)]) (upd_list base (r_outs (sp_invoke sp)) [])) as [[w2 u2] ok2] eqn:Es.
      cbn [fst snd] in H1, H2. subst w2 ok2.
      match goal with |- context [sem_session _ _ _ _ _ ?S _] => destruct (sem_session (list nat) o_fn (o_wrap ncalls) errT sp S (repeat DoInvoke k)) as [s2 rs] eqn:E2 end.
      cbn [fst]. pose proof (IH (w ++ [r_pid (sp_invoke sp)] ++ expected ncalls (sp_run sp)) base true) as IHk.
      rewrite app_assoc in IHk. rewrite E2 in IHk. cbn [fst negb] in IHk. rewrite IHk. cbn [app]. rewrite <- !app_assoc. reflexivity.
    - destruct (sem_static_order (sp_static sp) (w ++ [r_pid (sp_invoke sp)]) base) as [d1 Hs]. rewrite Hs. cbn [negb].
      destruct (sem_order_any (sp_run sp) Hwc ((w ++ [r_pid (sp_invoke sp)]) ++ static_log (sp_static sp)) (upd_list d1 (r_outs (sp_invoke sp)) [])) as [H1 H2].
      destruct (sem (list nat) o_fn (o_wrap ncalls) errT (sp_run sp) ((w ++ [r_pid (sp_invoke sp)]) ++ static_log (sp_static sp)) (upd_list d1 (r_outs (sp_invoke sp)) [])) as [[w2 u2] ok2] eqn:Es.
      cbn [fst snd] in H1, H2. subst w2 ok2.
      match goal with |- context [sem_session _ _ _ _ _ ?S _] => destruct (sem_session (list nat) o_fn (o_wrap ncalls) errT sp S (repeat DoInvoke k)) as [s2 rs] eqn:E2 end.
      cbn [fst]. pose proof (IH (((w ++ [r_pid (sp_invoke sp)]) ++ static_log (sp_static sp)) ++ expected ncalls (sp_run sp)) d1 true) as IHk.
      rewrite E2 in IHk. cbn [fst negb] in IHk. rewrite IHk. cbn [app]. rewrite <- !app_assoc. reflexivity.
  Qed.
End Log.

(* which providers the reference plan holds: the included ones, by group, in working-list order *)
Lemma filter_map_fst {B} (g : prov -> bool) : forall (l : list (prov * B)),
  map fst (filter (fun pz => g (fst pz)) l) = filter g (map fst l).
Proof.
  induction l as [|x r IH]; cbn [filter map]; [reflexivity|]. destruct (g (fst x)); cbn [map]; rewrite IH; reflexivity.
Qed.

Lemma splan_pids te pl sp : splan_of te pl = Some sp ->
  pl_slots pl = allocate_slots (pl_funcs pl) (pl_invokeIndex pl) ->
  let inc g := map p_pid (filter (fun p => p_include p && g p) (pl_funcs pl)) in
  map r_pid (sp_static sp) = inc (fun p => group_eqb (p_group p) GStatic || group_eqb (p_group p) GLiteral) /\
  map r_pid (sp_run sp) = inc (fun p => group_eqb (p_group p) GRun) ++ inc (fun p => group_eqb (p_group p) GFinal).
Proof.
  intros H Hsl. cbv zeta.
  assert (Hf : map fst (sl_funcs (pl_slots pl)) = pl_funcs pl) by (rewrite Hsl; apply allocate_slots_funcs).
  assert (Hg : forall g, map r_pid (map (fun pz : prov * list nat => rp_of te (fst pz) (snd pz))
                     (filter (fun pz => g (fst pz)) (filter (fun pz : prov * list nat => p_include (fst pz)) (sl_funcs (pl_slots pl)))))
                   = map p_pid (filter (fun p => p_include p && g p) (pl_funcs pl))).
  { intros g. rewrite map_map. cbn [rp_of r_pid].
    rewrite <- Hf. rewrite <- (filter_map_fst (fun p => p_include p && g p)). rewrite map_map.
    f_equal. clear. induction (sl_funcs (pl_slots pl)) as [|x r IH]; cbn [filter]; [reflexivity|].
    destruct (p_include (fst x)); cbn [andb filter]; [destruct (g (fst x)); rewrite IH; reflexivity|exact IH]. }
  unfold splan_of in H. cbv zeta in H.
  destruct (filter (fun pz : prov * list nat => class_eqb (p_class (fst pz)) ClInvoke) _) as [|iv [|? ?]]; try discriminate H.
  destruct (filter (fun pz : prov * list nat => class_eqb (p_class (fst pz)) ClInit) _) as [|it [|? ?]]; try discriminate H;
    injection H as <-; cbn [sp_static sp_run];
    (split; [apply (Hg (fun p => group_eqb (p_group p) GStatic || group_eqb (p_group p) GLiteral))|
             rewrite map_app, (Hg (fun p => group_eqb (p_group p) GRun)), (Hg (fun p => group_eqb (p_group p) GFinal)); reflexivity]).
Qed.

Lemma splan_no_init c pl sp : plan_of c = Ok pl -> bc_init c = None -> splan_of (bc_te c) pl = Some sp -> sp_init sp = None.
Proof.
  intros Hp Hn H. destruct (plan_listq c pl Hp) as ((_ & Hcount & _) & Hsl & _).
  unfold init_bound in Hcount. rewrite Hn in Hcount.
  unfold splan_of in H. cbv zeta in H.
  destruct (filter (fun pz : prov * list nat => class_eqb (p_class (fst pz)) ClInvoke) _) as [|iv [|? ?]]; try discriminate H.
  destruct (filter (fun pz : prov * list nat => class_eqb (p_class (fst pz)) ClInit) _) as [|it [|? ?]] eqn:Ei; try discriminate H;
    injection H as <-; [reflexivity|]. exfalso.
  assert (Hit : In it (it :: nil)) by (left; reflexivity). rewrite <- Ei in Hit.
  apply filter_In in Hit. destruct Hit as [Hit Hc]. apply filter_In in Hit. destruct Hit as [Hit _].
  assert (Hin : In (p_s (fst it)) (filter is_init_s (map p_s (pl_funcs pl)))).
  { apply filter_In. split; [|exact Hc]. apply in_map. rewrite <- (allocate_slots_funcs (pl_funcs pl) (pl_invokeIndex pl)), <- Hsl. apply in_map, Hit. }
  destruct (filter is_init_s (map p_s (pl_funcs pl))); [destruct Hin|cbn [length] in Hcount; lia].
Qed.

(* The log of every chain bound from a case without Reorder annotations and init function. *)
Theorem plain_chain_log : forall (c : bcase) (pl : plan) (b : bound),
  plain_case c = true -> bc_init c = None -> bind_chain c = Ok (pl, b) ->
  exists sp, splan_of (bc_te c) pl = Some sp /\
    forall (ncalls : nat -> nat) (k : nat) (w0 : list nat),
      ss_w (list nat) (fst (run_session (list nat) o_fn (o_wrap ncalls) b (mkSess (list nat) w0 (bd_base0 b) false true) (repeat DoInvoke k)))
      = w0 ++ session_log ncalls sp true k.
Proof.
  intros c pl b Hpc Hni Hb.
  destruct (chain_refines_plain c pl b Hpc Hb) as (sp & Hsp & Href). exists sp. split; [exact Hsp|].
  intros ncalls k w0. destruct (Href (list nat) o_fn (o_wrap ncalls) (repeat DoInvoke k) w0) as [_ Hw]. cbv zeta in Hw. rewrite Hw.
  pose proof (bind_chain_plan c pl b Hb) as Hp.
  assert (Hwc : forallb well_classed (sp_run sp) = true).
  { assert (Hwf : plan_wf (bc_te c) pl b = true).
    { unfold plain_case in Hpc. apply andb_true_iff in Hpc. destruct Hpc as [Hpc Hi]. apply andb_true_iff in Hpc. destruct Hpc as [Hprovs Hinvk].
      apply negb_true_iff in Hinvk.
      destruct (assemble c) as [f0|e|e] eqn:Ea; [|unfold plan_of in Hp; rewrite Ea in Hp; discriminate Hp..].
      apply (bind_plan_wf c pl b Hb). apply (runs_after_invoke_no_reorder c pl b f0 Hb Ea). apply (assemble_no_reorder c f0 Ea Hprovs Hinvk).
      intros i Hi'. rewrite Hni in Hi'. discriminate Hi'. }
    unfold plan_wf in Hwf. rewrite Hsp in Hwf.
    repeat (apply andb_true_iff in Hwf; destruct Hwf as [Hwf ?]).
    match goal with H : forallb well_classed (sp_run sp) = true |- _ => exact H end. }
  apply (sem_session_log ncalls (te_errorT (bc_te c)) sp Hwc (splan_no_init c pl sp Hp Hni Hsp) k w0 _ false).
Qed.
Print Assumptions plain_chain_log.

(* only providers of the plan are ever logged *)
Lemma repeat_app_in x : forall n l, In x (repeat_app n l) -> In x l.
Proof. induction n as [|n IH]; intros l H; cbn [repeat_app] in H; [destruct H|]. apply in_app_or in H. destruct H as [H|H]; [exact H|apply IH, H]. Qed.

Lemma expected_in ncalls x : forall prog, In x (expected ncalls prog) -> In x (map r_pid prog).
Proof.
  induction prog as [|r rest IH]; intros H; cbn [expected] in H; [destruct H|]. cbn [map].
  destruct (r_class r); cbn [In] in H; try (exfalso; exact H).
  - destruct H as [H|H]; [left; exact H|right; apply IH, H].
  - destruct H as [H|H]; [left; exact H|right; apply IH, H].
  - destruct H as [H|H]; [left; exact H|]. right. apply IH. eapply repeat_app_in. exact H.
  - destruct H as [H|H]; [left; exact H|destruct H].
Qed.

Lemma static_log_in x : forall prog, In x (static_log prog) -> In x (map r_pid prog).
Proof.
  induction prog as [|r rest IH]; intros H; cbn [static_log flat_map] in H; [destruct H|]. cbn [map].
  apply in_app_or in H. destruct H as [H|H]; [|right; apply IH, H].
  destruct (r_class r); cbn [In] in H; try (exfalso; exact H); destruct H as [H|H]; try (left; exact H); destruct H.
Qed.

Lemma session_log_in ncalls sp x : forall k b0, In x (session_log ncalls sp b0 k) ->
  x = r_pid (sp_invoke sp) \/ In x (map r_pid (sp_static sp)) \/ In x (map r_pid (sp_run sp)).
Proof.
  induction k as [|k IH]; intros b0 H; cbn [session_log] in H; [destruct H|].
  destruct H as [H|H]; [left; symmetry; exact H|]. cbn [app] in H.
  apply in_app_or in H. destruct H as [H|H].
  - destruct b0; [right; left; apply static_log_in; exact H|destruct H].
  - apply in_app_or in H. destruct H as [H|H]; [right; right; eapply expected_in, H|apply (IH false H)].
Qed.

(* after the first invocation the static part is never logged again *)
Lemma session_log_rest ncalls sp : forall k,
  session_log ncalls sp false k = flat_map (fun _ => r_pid (sp_invoke sp) :: expected ncalls (sp_run sp)) (seq 0 k).
Proof.
  intros k. generalize 0. induction k as [|k IH]; intros s; cbn [session_log seq flat_map]; [reflexivity|].
  cbn [app]. rewrite (IH (S s)). reflexivity.
Qed.

Theorem plain_chain_static_once : forall (c : bcase) (pl : plan) (b : bound),
  plain_case c = true -> bc_init c = None -> bind_chain c = Ok (pl, b) ->
  exists sp, splan_of (bc_te c) pl = Some sp /\
    forall (ncalls : nat -> nat) (k : nat) (w0 : list nat),
      ss_w (list nat) (fst (run_session (list nat) o_fn (o_wrap ncalls) b (mkSess (list nat) w0 (bd_base0 b) false true) (repeat DoInvoke (S k))))
      = w0 ++ [r_pid (sp_invoke sp)] ++ static_log (sp_static sp) ++ expected ncalls (sp_run sp) ++
        flat_map (fun _ => r_pid (sp_invoke sp) :: expected ncalls (sp_run sp)) (seq 0 k).
Proof.
  intros c pl b Hpc Hni Hb. destruct (plain_chain_log c pl b Hpc Hni Hb) as (sp & Hsp & Hlog).
  exists sp. split; [exact Hsp|]. intros ncalls k w0. rewrite (Hlog ncalls (S k) w0). cbn [session_log].
  rewrite session_log_rest. reflexivity.
Qed.
