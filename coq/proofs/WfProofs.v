(* Every plan Bind arrives at satisfies the hypotheses of the refinement theorem: the compiled
   closures are exactly the reference projection of the plan, the base array is clean, the slot
   tables are well formed and cover everything an included provider reads. *)
From Coq Require Import List Arith Bool Lia Permutation.
Import ListNotations.
From NJ Require Import Base Collections Edits Registry Classify Select Reorder Machine Spec Bind.
From NJ Require Import AllocProofs ReorderProofs PreserveProofs CoverProofs CoverBypass Chain OrderProofs.

(* ---------- what the classification tables guarantee ---------- *)
Definition fe_none (e : flowE) : bool := match e with FE_none => true | _ => false end.
Definition fe_wrapperIn (e : flowE) : bool := match e with FE_wrapperIn => true | _ => false end.
Definition fe_errorOnly (e : flowE) : bool := match e with FE_errorOnly => true | _ => false end.

(* per class: the group, and the flows that must be absent (checked on the generated tables) *)
Definition entry_ok (e : entry) : bool :=
  match e_class e with
  | ClLiteral => group_eqb (e_group e) GLiteral && fe_none (e_in e)
  | ClStatic | ClFallibleStatic => group_eqb (e_group e) GStatic
  | ClInjector => group_eqb (e_group e) GRun && fe_none (e_ret e) && fe_none (e_recv e)
  | ClFallible => group_eqb (e_group e) GRun && fe_none (e_recv e) && fe_errorOnly (e_ret e)
  | ClWrapper => group_eqb (e_group e) GRun && fe_wrapperIn (e_in e)
  | ClFinal => group_eqb (e_group e) GFinal && fe_none (e_out e) && fe_none (e_recv e)
  | ClInit | ClInvoke => group_eqb (e_group e) GInvoke
  | ClUnset => false
  end.

Lemma handler_entries_ok : forallb entry_ok handlerRegistry = true.
Proof. vm_compute. reflexivity. Qed.
Lemma invoke_entries_ok : forallb entry_ok invokeRegistry = true.
Proof. vm_compute. reflexivity. Qed.

Definition none_b {A} (o : option A) : bool := match o with None => true | Some _ => false end.

Definition shape_ok (te : tyenv) (s : sprov) : bool :=
  let f := s_flows s in
  match s_class s with
  | ClLiteral => group_eqb (s_group s) GLiteral && none_b (f_in f)
  | ClStatic | ClFallibleStatic => group_eqb (s_group s) GStatic
  | ClInjector => group_eqb (s_group s) GRun && none_b (f_ret f) && none_b (f_recv f)
  | ClFallible => group_eqb (s_group s) GRun && none_b (f_recv f) && match f_ret f with Some [t] => t =? te_errorT te | _ => false end
  | ClWrapper => group_eqb (s_group s) GRun && match f_in f with Some (t :: _) => t =? te_noT te | _ => false end
  | ClFinal => group_eqb (s_group s) GFinal && none_b (f_out f) && none_b (f_recv f)
  | ClInit | ClInvoke => group_eqb (s_group s) GInvoke
  | ClUnset => false
  end.

Lemma eval_none te s e : fe_none e = true -> eval_flow te s e = None.
Proof. destruct e; try discriminate. reflexivity. Qed.

Lemma apply_entry_shape te d e : entry_ok e = true -> shape_ok te (apply_entry te d e) = true.
Proof.
  unfold entry_ok, shape_ok, apply_entry. cbn [s_class s_group s_flows f_in f_out f_ret f_recv].
  destruct (e_class e); intros H; try discriminate H; try exact H;
    repeat match goal with H : _ && _ = true |- _ => apply andb_true_iff in H; destruct H end;
    repeat match goal with H : fe_none _ = true |- _ => apply (eval_none te (d_shape d)) in H; rewrite H end;
    repeat match goal with H : group_eqb _ _ = true |- _ => rewrite H end; try reflexivity.
  - (* fallible *)
    match goal with H : fe_errorOnly ?x = true |- _ => destruct x; try discriminate H end.
    cbn [eval_flow]. rewrite Nat.eqb_refl. reflexivity.
  - (* wrapper *)
    match goal with H : fe_wrapperIn ?x = true |- _ => destruct x; try discriminate H end.
    cbn [eval_flow]. rewrite Nat.eqb_refl. reflexivity.
Qed.

Lemma classify_shape te reg d cc s :
  forallb entry_ok reg = true -> classify_in te reg d cc = Some s -> shape_ok te s = true.
Proof.
  intros Hreg. unfold classify_in. intros H.
  assert (Hc : classify_reg te reg d cc = Some s) by (destruct (d_shape d); try discriminate H; exact H).
  clear H. induction reg as [|e r IH]; cbn [classify_reg] in Hc; [discriminate|].
  cbn [forallb] in Hreg. apply andb_true_iff in Hreg. destruct Hreg as [He Hr].
  destruct (forallb (pred_holds te d cc) (e_tests e)).
  - injection Hc as <-. apply apply_entry_shape, He.
  - apply IH; assumption.
Qed.

Lemma as_synthetic_shape te sh req co s : shape_ok te (as_synthetic sh req co s) = shape_ok te s.
Proof. reflexivity. Qed.

(* the handler tables never make an init or invoke function; the invoke table makes an init
   function only in the static context *)
Definition not_ii (c : classT) : bool := match c with ClInit | ClInvoke => false | _ => true end.
Lemma handler_not_ii : forallb (fun e => not_ii (e_class e)) handlerRegistry = true.
Proof. vm_compute. reflexivity. Qed.
Lemma invoke_init_static :
  forallb (fun e => match e_class e with ClInit => existsb (fun p => match p with P_inStatic => true | _ => false end) (e_tests e)
                                    | ClInvoke => true | _ => false end) invokeRegistry = true.
Proof. vm_compute. reflexivity. Qed.

Lemma classify_class te reg d cc s (P : classT -> bool) :
  forallb (fun e => P (e_class e)) reg = true -> classify_in te reg d cc = Some s -> P (s_class s) = true.
Proof.
  intros Hreg. unfold classify_in. intros H.
  assert (Hc : classify_reg te reg d cc = Some s) by (destruct (d_shape d); try discriminate H; exact H).
  clear H. induction reg as [|e r IH]; cbn [classify_reg] in Hc; [discriminate|].
  cbn [forallb] in Hreg. apply andb_true_iff in Hreg. destruct Hreg as [He Hr].
  destruct (forallb (pred_holds te d cc) (e_tests e)).
  - injection Hc as <-. exact He.
  - apply IH; assumption.
Qed.

(* ---------- generateParameterMap against the reference projection ---------- *)
Definition vlook (vm : list (nat * option nat)) (t : nat) : option nat :=
  match alookup t vm with Some s => s | None => None end.
Definition rmapf (rm : option (list (nat * nat))) (t : nat) : nat :=
  match rm with Some m => remap m t | None => t end.

Lemma param_slots_spec te rm vm : forall tys l, param_slots te tys rm vm = Some l ->
  (forall t, In t tys -> t <> te_noT te) /\ l = map (fun t => (vlook vm (rmapf rm t), rmapf rm t)) tys.
Proof.
  induction tys as [|t r IH]; intros l H; cbn [param_slots] in H.
  - injection H as <-. split; [intros t []|reflexivity].
  - destruct (t =? te_noT te) eqn:En; [discriminate|]. apply Nat.eqb_neq in En.
    set (useP := match rm with None => Some t | Some m => alookup t m end) in H.
    destruct useP as [t'|] eqn:Eu; [|discriminate].
    destruct (alookup t' vm) as [slot|] eqn:Ea; [|discriminate].
    destruct (param_slots te r rm vm) as [rest|] eqn:Er; [|discriminate].
    injection H as <-. destruct (IH rest eq_refl) as [A B]. split.
    + intros x [<-|Hx]; [exact En|apply A, Hx].
    + cbn [map]. f_equal; [|exact B].
      assert (Et : rmapf rm t = t').
      { unfold useP in Eu. unfold rmapf, remap. destruct rm as [m|]; [rewrite Eu; reflexivity|congruence]. }
      rewrite Et. unfold vlook. rewrite Ea. reflexivity.
Qed.

Lemma zero_slots_spec vm : forall zs l, zero_slots zs vm = Some l ->
  l = flat_map (fun t => match vlook vm t with Some i => [(i, t)] | None => [] end) zs.
Proof.
  induction zs as [|t r IH]; intros l H; cbn [zero_slots] in H; [injection H as <-; reflexivity|].
  destruct (alookup t vm) as [[i|]|] eqn:Ea; try discriminate.
  destruct (zero_slots r vm) as [rest|] eqn:Er; [|discriminate]. injection H as <-.
  cbn [flat_map]. unfold vlook at 1. rewrite Ea. cbn [app]. f_equal. apply IH. reflexivity.
Qed.

Lemma filter_no_noT te l : (forall t, In t l -> t <> te_noT te) -> filter (fun t => negb (t =? te_noT te)) l = l.
Proof.
  induction l as [|x r IH]; intros H; cbn [filter]; [reflexivity|].
  assert (Hx : (x =? te_noT te) = false) by (apply Nat.eqb_neq, H; left; reflexivity).
  rewrite Hx. cbn [negb]. f_equal. apply IH. intros t Ht. apply H. right. exact Ht.
Qed.

Lemma sd_vlook sl t : sd_of sl t = vlook (sl_down sl) t. Proof. reflexivity. Qed.
Lemma su_vlook sl t : su_of sl t = vlook (sl_up sl) t. Proof. reflexivity. Qed.

Lemma none_fl (o : option (list nat)) : none_b o = true -> fl o = [].
Proof. destruct o; [discriminate|reflexivity]. Qed.

(* ---------- the compiled provider is the reference projection ---------- *)
Section Agree.
  Variable te : tyenv.
  Variable sl : slotted.
  Let dn := sl_down sl.
  Let up := sl_up sl.
  Let sd := sd_of sl.
  Let su := su_of sl.
  Let errT := te_errorT te.

  Lemma compile_run_agrees p zero c :
    shape_ok te (p_s p) = true -> compile_one te dn up (p, zero) = Some c ->
    group_eqb (p_group p) GRun || group_eqb (p_group p) GFinal = true ->
    c = cp_of sd su errT (rp_of te p zero) /\ well_classed (rp_of te p zero) = true.
  Proof.
    intros Hs Hc Hg. unfold compile_one in Hc. unfold shape_ok in Hs.
    unfold p_group in Hg. unfold p_class in Hc. fold (p_class p) in Hc.
    unfold cp_of, rp_of, well_classed. cbn [r_pid r_class r_parallel r_ins r_outs r_rets r_recv r_zero r_tepos].
    unfold p_class in *. unfold pflow, flow_of in *.
    destruct (s_class (p_s p)) eqn:Ec;
      repeat match goal with H : _ && _ = true |- _ => apply andb_true_iff in H; destruct H end;
      try discriminate Hs;
      try (match goal with H : group_eqb (s_group (p_s p)) ?G = true |- _ =>
             destruct (s_group (p_s p)); try discriminate H; try discriminate Hg end).
    - (* fallible *)
      destruct (param_slots te (fl (f_in (s_flows (p_s p)))) (Some (p_downR p)) dn) as [i|] eqn:E1; [|discriminate].
      destruct (param_slots te (fl (f_out (s_flows (p_s p)))) None dn) as [o|] eqn:E2; [|discriminate].
      destruct (zero_slots zero up) as [z|] eqn:E3; [|discriminate].
      destruct (index_of (te_terminalT te) (orig_outs p) 0) as [tp|] eqn:E4; [|discriminate].
      destruct (alookup (te_errorT te) up) as [es|] eqn:E5; [|discriminate].
      injection Hc as <-. apply param_slots_spec in E1, E2. destruct E1 as [N1 ->], E2 as [N2 ->].
      apply zero_slots_spec in E3. subst z.
      match goal with H : none_b (f_recv _) = true |- _ => apply none_fl in H; rewrite H end.
      rewrite (filter_no_noT te _ N1). split; [|reflexivity].
      unfold p_pid. f_equal; try (rewrite map_map; reflexivity); try reflexivity.
      unfold su, su_of, errT. fold up. rewrite E5. reflexivity.
    - (* injector *)
      destruct (param_slots te (fl (f_in (s_flows (p_s p)))) (Some (p_downR p)) dn) as [i|] eqn:E1; [|discriminate].
      destruct (param_slots te (fl (f_out (s_flows (p_s p)))) None dn) as [o|] eqn:E2; [|discriminate].
      injection Hc as <-. apply param_slots_spec in E1, E2. destruct E1 as [N1 ->], E2 as [N2 ->].
      repeat match goal with H : none_b _ = true |- _ => apply none_fl in H; rewrite H end.
      rewrite (filter_no_noT te _ N1). split; [|reflexivity].
      unfold p_pid. f_equal; try (rewrite map_map; reflexivity); reflexivity.
    - (* wrapper *)
      destruct (f_in (s_flows (p_s p))) as [[|t0 ins]|] eqn:Ein; try discriminate.
      match goal with H : (t0 =? te_noT te) = true |- _ => apply Nat.eqb_eq in H; subst t0 end.
      cbn [fl tl] in Hc.
      destruct (param_slots te ins (Some (p_downR p)) dn) as [i|] eqn:E1; [|discriminate].
      destruct (param_slots te (fl (f_out (s_flows (p_s p)))) None dn) as [o|] eqn:E2; [|discriminate].
      destruct (param_slots te (fl (f_ret (s_flows (p_s p)))) None up) as [r|] eqn:E3; [|discriminate].
      destruct (param_slots te (fl (f_recv (s_flows (p_s p)))) (Some (p_upR p)) up) as [rc|] eqn:E4; [|discriminate].
      destruct (zero_slots zero up) as [z|] eqn:E5; [|discriminate].
      injection Hc as <-. apply param_slots_spec in E1, E2, E3, E4.
      destruct E1 as [N1 ->], E2 as [N2 ->], E3 as [N3 ->], E4 as [N4 ->]. apply zero_slots_spec in E5. subst z.
      cbn [fl filter]. rewrite Nat.eqb_refl. cbn [negb]. rewrite (filter_no_noT te _ N1). split; [|reflexivity].
      unfold p_pid. f_equal; try (rewrite map_map; reflexivity); reflexivity.
    - (* final *)
      destruct (param_slots te (fl (f_in (s_flows (p_s p)))) (Some (p_downR p)) dn) as [i|] eqn:E1; [|discriminate].
      destruct (param_slots te (fl (f_ret (s_flows (p_s p)))) None up) as [r|] eqn:E3; [|discriminate].
      injection Hc as <-. apply param_slots_spec in E1, E3. destruct E1 as [N1 ->], E3 as [N3 ->].
      repeat match goal with H : none_b _ = true |- _ => apply none_fl in H; rewrite H end.
      rewrite (filter_no_noT te _ N1). split; [|reflexivity].
      unfold p_pid. f_equal; try (rewrite map_map; reflexivity); reflexivity.
  Qed.

  Lemma compile_static_agrees p zero c :
    shape_ok te (p_s p) = true -> compile_one te dn up (p, zero) = Some c ->
    group_eqb (p_group p) GStatic || group_eqb (p_group p) GLiteral = true ->
    c = cp_of_static sd (rp_of te p zero).
  Proof.
    intros Hs Hc Hg. unfold compile_one in Hc. unfold shape_ok in Hs.
    unfold p_group in Hg. unfold cp_of_static, rp_of.
    cbn [r_pid r_class r_parallel r_ins r_outs r_rets r_recv r_zero r_tepos].
    unfold p_class in *. unfold pflow, flow_of in *.
    destruct (s_class (p_s p)) eqn:Ec;
      repeat match goal with H : _ && _ = true |- _ => apply andb_true_iff in H; destruct H end;
      try discriminate Hs;
      try (match goal with H : group_eqb (s_group (p_s p)) ?G = true |- _ =>
             destruct (s_group (p_s p)); try discriminate H; try discriminate Hg end).
    - (* fallible static *)
      destruct (param_slots te (fl (f_in (s_flows (p_s p)))) (Some (p_downR p)) dn) as [i|] eqn:E1; [|discriminate].
      destruct (param_slots te (fl (f_out (s_flows (p_s p)))) None dn) as [o|] eqn:E2; [|discriminate].
      destruct (zero_slots zero dn) as [z|] eqn:E3; [|discriminate].
      destruct (index_of (te_terminalT te) (orig_outs p) 0) as [tp|] eqn:E4; [|discriminate].
      injection Hc as <-. apply param_slots_spec in E1, E2. destruct E1 as [N1 ->], E2 as [N2 ->].
      apply zero_slots_spec in E3. subst z. rewrite (filter_no_noT te _ N1).
      unfold p_pid. f_equal; try (rewrite map_map; reflexivity); reflexivity.
    - (* static *)
      destruct (param_slots te (fl (f_in (s_flows (p_s p)))) (Some (p_downR p)) dn) as [i|] eqn:E1; [|discriminate].
      destruct (param_slots te (fl (f_out (s_flows (p_s p)))) None dn) as [o|] eqn:E2; [|discriminate].
      injection Hc as <-. apply param_slots_spec in E1, E2. destruct E1 as [N1 ->], E2 as [N2 ->].
      rewrite (filter_no_noT te _ N1).
      unfold p_pid. f_equal; try (rewrite map_map; reflexivity); reflexivity.
    - (* literal *)
      destruct (param_slots te (fl (f_out (s_flows (p_s p)))) None dn) as [o|] eqn:E2; [|discriminate].
      injection Hc as <-. apply param_slots_spec in E2. destruct E2 as [N2 ->].
      match goal with H : none_b _ = true |- _ => apply none_fl in H; rewrite H end.
      unfold p_pid. f_equal; reflexivity.
  Qed.

  Lemma compile_invoke_agrees p zero c :
    p_class p = ClInvoke -> compile_one te dn up (p, zero) = Some c ->
    c = cp_of_invoke sd su (rp_of te p []).
  Proof.
    intros Hcl Hc. unfold compile_one in Hc. rewrite Hcl in Hc.
    destruct (param_slots te (pflow p FOut) None dn) as [o|] eqn:E1; [|discriminate].
    destruct (param_slots te (pflow p FRecv) (Some (p_upR p)) up) as [rc|] eqn:E2; [|discriminate].
    injection Hc as <-. apply param_slots_spec in E1, E2. destruct E1 as [N1 ->], E2 as [N2 ->].
    unfold cp_of_invoke, rp_of. cbn [r_pid r_class r_outs r_recv]. rewrite Hcl.
    f_equal; try (rewrite map_map; reflexivity); reflexivity.
  Qed.

  Lemma compile_init_agrees p zero c :
    p_class p = ClInit -> compile_one te dn up (p, zero) = Some c ->
    c = cp_of_init sd (mkRp (p_pid p) ClInit false (map (remap (p_bypassR p)) (pflow p FBypass)) (pflow p FOut) [] [] [] 0).
  Proof.
    intros Hcl Hc. unfold compile_one in Hc. rewrite Hcl in Hc.
    destruct (param_slots te (pflow p FOut) None dn) as [o|] eqn:E1; [|discriminate].
    destruct (param_slots te (pflow p FBypass) (Some (p_bypassR p)) dn) as [b|] eqn:E2; [|discriminate].
    injection Hc as <-. apply param_slots_spec in E1, E2. destruct E1 as [N1 ->], E2 as [N2 ->].
    unfold cp_of_init. cbn [r_pid r_class r_outs r_ins].
    f_equal; try (rewrite map_map; reflexivity); reflexivity.
  Qed.
End Agree.

(* ---------- compile_all ---------- *)
Definition compiled te dn up (pz : prov * list nat) (pc : prov * cp) : Prop :=
  fst pc = fst pz /\ compile_one te dn up pz = Some (snd pc).

Lemma compile_all_spec te dn up : forall l cps, compile_all te dn up l = Some cps ->
  Forall2 (compiled te dn up) (filter (fun pz => p_include (fst pz)) l) cps.
Proof.
  induction l as [|pz r IH]; intros cps H; cbn [compile_all] in H.
  - injection H as <-. constructor.
  - cbn [filter]. destruct (p_include (fst pz)); [|apply IH, H].
    destruct (compile_one te dn up pz) as [c|] eqn:Ec; [|discriminate].
    destruct (compile_all te dn up r) as [rest|] eqn:Er; [|discriminate].
    injection H as <-. constructor; [split; [reflexivity|exact Ec]|apply IH; reflexivity].
Qed.

Lemma compiled_filter_map te dn up (g : prov -> bool) (F : prov * list nat -> cp) : forall inc cps,
  Forall2 (compiled te dn up) inc cps ->
  (forall pz c, In pz inc -> g (fst pz) = true -> compile_one te dn up pz = Some c -> c = F pz) ->
  map snd (filter (fun pc : prov * cp => g (fst pc)) cps) = map F (filter (fun pz => g (fst pz)) inc).
Proof.
  intros inc cps H. induction H as [|pz pc inc' cps' [H1 H2] _ IH]; intros HF; [reflexivity|].
  cbn [filter]. rewrite H1. destruct (g (fst pz)) eqn:Eg.
  - cbn [map]. f_equal; [apply (HF pz (snd pc)); [left; reflexivity|exact Eg|exact H2]|].
    apply IH. intros q c Hq. apply HF. right. exact Hq.
  - apply IH. intros q c Hq. apply HF. right. exact Hq.
Qed.

(* ---------- the slotted list is the working list ---------- *)
Lemma static_slots_fst : forall l st, map fst (fst (static_slots l st)) = l.
Proof.
  induction l as [|p r IH]; intros st; cbn [static_slots]; [reflexivity|].
  destruct (static_slots r (add_to_vmap (pflow p FOut) [] st)) as [done st''] eqn:E.
  cbn [fst map]. f_equal. specialize (IH (add_to_vmap (pflow p FOut) [] st)). rewrite E in IH. exact IH.
Qed.

Lemma run_slots_fst : forall l dn up cnt, map fst (fst (fst (fst (run_slots l dn up cnt)))) = l.
Proof.
  induction l as [|p r IH]; intros dn up cnt; cbn [run_slots]; [reflexivity|].
  destruct (add_to_vmap (pflow p FIn) (p_downR p) (dn, cnt)) as [dn1 c1].
  destruct (add_to_vmap (pflow p FRet) [] (up, c1)) as [up1 c2].
  specialize (IH dn1 up1 c2). destruct (run_slots r dn1 up1 c2) as [[[done dn2] up2] c3].
  cbn [fst map] in *. f_equal. exact IH.
Qed.

Lemma allocate_slots_funcs funcs ii : map fst (sl_funcs (allocate_slots funcs ii)) = funcs.
Proof.
  unfold allocate_slots.
  pose proof (static_slots_fst (rev (firstn ii funcs)) (vm_keys funcs, 0)) as Hs.
  destruct (static_slots (rev (firstn ii funcs)) (vm_keys funcs, 0)) as [sdone st].
  pose proof (run_slots_fst (rev (skipn ii funcs)) (fst st) (vm_keys funcs) (snd st)) as Hr.
  destruct (run_slots (rev (skipn ii funcs)) (fst st) (vm_keys funcs) (snd st)) as [[[rdone dn] up] cnt].
  cbn [fst sl_funcs] in *. rewrite map_app, !map_rev, Hs, Hr, !rev_involutive. apply firstn_skipn.
Qed.

(* ---------- the base array ---------- *)
Lemma aput_length : forall a i v, length (aput i v a) = length a.
Proof. induction a as [|x r IH]; intros [|i] v; simpl; try reflexivity. rewrite IH. reflexivity. Qed.

Lemma aget_aput_other : forall a i j v, i <> j -> aget j (aput i v a) = aget j a.
Proof.
  induction a as [|x r IH]; intros [|i] [|j] v H; simpl; try reflexivity; try lia.
  apply IH. lia.
Qed.

Lemma aget_repeat n : forall i, aget i (repeat VInvalid n) = VInvalid.
Proof. induction n as [|n IH]; intros [|i]; simpl; try reflexivity. apply IH. Qed.

(* ---------- the working list consists of table-shaped providers, at most one init ---------- *)
Definition is_init_s (s : sprov) : bool := class_eqb (s_class s) ClInit.
Definition is_invoke_s (s : sprov) : bool := class_eqb (s_class s) ClInvoke.
Definition listq (te : tyenv) (n : nat) (L : list sprov) : Prop :=
  Forall (fun s => shape_ok te s = true) L /\ length (filter is_init_s L) <= n /\ length (filter is_invoke_s L) <= 1.

Lemma perm_filter_length {A} (f : A -> bool) (l l' : list A) :
  Permutation l l' -> length (filter f l) = length (filter f l').
Proof.
  induction 1 as [|x l l' _ IH|x y l|l l' l'' _ IH1 _ IH2]; cbn [filter]; try reflexivity.
  - destruct (f x); cbn [length]; congruence.
  - destruct (f x), (f y); reflexivity.
  - congruence.
Qed.

Lemma listq_perm te n L L' : Permutation L L' -> listq te n L -> listq te n L'.
Proof.
  intros HP (A & B & C). split; [|split].
  - eapply Permutation_Forall; eassumption.
  - rewrite <- (perm_filter_length is_init_s L L' HP). exact B.
  - rewrite <- (perm_filter_length is_invoke_s L L' HP). exact C.
Qed.

(* Reorder permutes the providers themselves (up to the cannotInclude mark) *)
Lemma reorder_perm_s te funcs funcs' :
  reorder_funcs te funcs = Ok funcs' -> Permutation (map p_s funcs') (map p_s funcs).
Proof.
  unfold reorder_funcs. destruct (negb (existsb is_reorder funcs)); [intros H; inversion H; apply Permutation_refl|].
  set (n := length funcs).
  match goal with |- context [topo_run te funcs ?D ?U ?F ?X] =>
    pose proof (topo_run_inv te funcs D U F X) as Hinv; set (xf := topo_run te funcs D U F X) in * end.
  intros H.
  match type of H with (if ?c then _ else _) = _ => destruct c eqn:El; [|discriminate] end.
  inversion H; subst funcs'; clear H. apply Nat.eqb_eq in El.
  assert (Hxf : tinv funcs xf).
  { apply Hinv. eapply tinv_od; [apply init_push_od|]. split; simpl; [constructor | intros i []]. }
  destruct Hxf as [Hnd Hin].
  set (out := t_out xf) in *.
  set (missing := filter (fun i => negb (memb i (t_done xf))) (seq_from 0 n)) in *.
  set (pick := fun i => match getp funcs i with Some p => [p] | None => [] end) in *.
  change (length (flat_map pick out ++ flat_map (fun i => map (set_cannot true) (pick i)) missing) = n) in El.
  change (Permutation (map p_s (flat_map pick out ++ flat_map (fun i => map (set_cannot true) (pick i)) missing)) (map p_s funcs)).
  assert (Hout_lt : forall i, In i out -> i < n) by (intros i Hi; apply (Hin i Hi)).
  assert (Hmiss_lt : forall i, In i missing -> i < n).
  { intros i Hi. apply filter_In in Hi. destruct Hi as [Hi _]. apply seq_from_in in Hi. lia. }
  assert (Hlen : forall l, (forall i, In i l -> i < n) -> length (flat_map pick l) = length l).
  { induction l as [|i r IH]; intros Hl; cbn [flat_map length]; [reflexivity|].
    rewrite app_length. unfold pick at 1.
    destruct (getp_lt_some funcs i (Hl i (or_introl eq_refl))) as [p Hp]. rewrite Hp. cbn [length].
    rewrite IH; [reflexivity|]. intros j Hj. apply Hl. right. exact Hj. }
  assert (Hsc : forall l, map p_s (flat_map (fun i => map (set_cannot true) (pick i)) l) = map p_s (flat_map pick l)).
  { induction l as [|i r IH]; cbn [flat_map]; [reflexivity|]. rewrite !map_app, IH. f_equal.
    unfold pick. destruct (getp funcs i); reflexivity. }
  assert (Hlen2 : length (flat_map (fun i => map (set_cannot true) (pick i)) missing) = length missing).
  { rewrite <- (map_length p_s), Hsc, map_length. apply Hlen, Hmiss_lt. }
  assert (HP : Permutation (out ++ missing) (seq_from 0 n)).
  { apply NoDup_Permutation_bis.
    - apply NoDup_app_intro; [exact Hnd|apply NoDup_filter, seq_from_nodup|].
      intros i Ho Hm. apply filter_In in Hm. destruct Hm as [_ Hm]. apply negb_true_iff in Hm.
      destruct (Hin i Ho) as [Hd _]. apply AllocProofs.memb_true_in in Hd. rewrite Hd in Hm. discriminate.
    - rewrite seq_from_length. rewrite app_length in El. rewrite (Hlen out Hout_lt), Hlen2 in El. rewrite app_length. lia.
    - intros i Hi. apply seq_from_in. apply in_app_or in Hi. destruct Hi as [Hi|Hi]; [apply Hout_lt in Hi | apply Hmiss_lt in Hi]; lia. }
  rewrite map_app, Hsc, <- map_app, <- flat_map_app. apply Permutation_map.
  apply (Permutation_trans (l' := flat_map pick (seq_from 0 n))); [apply Permutation_flat_map; exact HP|].
  unfold pick, n. rewrite OrderProofs.idx_pick. apply Permutation_refl.
Qed.

(* ---------- assemble ---------- *)
Definition okp (te : tyenv) (s : sprov) : Prop := shape_ok te s = true /\ not_ii (s_class s) = true.

Lemma characterizeFunc_okp te d cc s : characterizeFunc te d cc = Some s -> okp te s.
Proof.
  intros H. split.
  - eapply classify_shape; [exact handler_entries_ok|exact H].
  - eapply (classify_class te handlerRegistry d cc s not_ii); [exact handler_not_ii|exact H].
Qed.

Lemma char_one_okp te d l lf ns s : char_one te d l lf ns = Some s -> okp te s.
Proof.
  unfold char_one. destruct (characterizeFunc te d (mkCC l true)) as [s0|] eqn:E0; [|discriminate].
  destruct (group_eqb (s_group s0) GStatic && existsb (tainted_in lf ns) (fl (f_in (s_flows s0)))).
  - apply characterizeFunc_okp.
  - intros H. injection H as <-. eapply characterizeFunc_okp. exact E0.
Qed.

Lemma char_loop_okp te lf : forall l ns a b ra rb,
  Forall (okp te) a -> Forall (okp te) b -> char_loop te l lf ns a b = Ok (ra, rb) ->
  Forall (okp te) ra /\ Forall (okp te) rb.
Proof.
  induction l as [|d r IH]; intros ns a b ra rb Ha Hb H; cbn [char_loop] in H.
  - injection H as <- <-. split; apply Forall_rev; assumption.
  - destruct (char_one te d match r with [] => true | _ :: _ => false end lf ns) as [s|] eqn:E1; [|discriminate].
    pose proof (char_one_okp _ _ _ _ _ _ E1) as Hs.
    destruct (s_group s); try discriminate H;
      (eapply IH; [| |exact H]; try assumption; constructor; assumption).
Qed.

Lemma insert_at_perm {A} (x : A) : forall k l, Permutation (insert_at k x l) (x :: l).
Proof.
  induction k as [|k IH]; intros l; cbn [insert_at]; [apply Permutation_refl|].
  destruct l as [|y r]; [apply Permutation_refl|].
  eapply Permutation_trans; [apply perm_skip, IH|apply perm_swap].
Qed.

Lemma okp_noninit te s : okp te s -> is_init_s s = false.
Proof. intros [_ H]. unfold is_init_s. destruct (s_class s); try reflexivity; discriminate H. Qed.

Lemma invoke_not_init te d l s : characterizeInitInvoke te d (mkCC l false) = Some s -> is_init_s s = false.
Proof.
  unfold characterizeInitInvoke, classify_in. intros H.
  assert (Hc : classify_reg te invokeRegistry d (mkCC l false) = Some s) by (destruct (d_shape d); try discriminate H; exact H).
  clear H. pose proof invoke_init_static as Hreg. revert Hreg Hc. generalize invokeRegistry as reg.
  induction reg as [|e r IH]; intros Hreg Hc; cbn [classify_reg] in Hc; [discriminate|].
  cbn [forallb] in Hreg. apply andb_true_iff in Hreg. destruct Hreg as [He Hr].
  destruct (forallb (pred_holds te d (mkCC l false)) (e_tests e)) eqn:Et; [|apply IH; assumption].
  injection Hc as <-. unfold is_init_s, apply_entry. cbn [s_class].
  destruct (e_class e); try reflexivity. exfalso.
  apply existsb_exists in He. destruct He as (p & Hp & Hq). destruct p; try discriminate Hq.
  rewrite forallb_forall in Et. specialize (Et _ Hp). discriminate Et.
Qed.

Lemma filter_len_le {A} (f : A -> bool) l : length (filter f l) <= length l.
Proof. induction l as [|x r IH]; cbn [filter length]; [lia|]. destruct (f x); cbn [length]; lia. Qed.

Lemma listq_pieces te n (il rest : list sprov) :
  Forall (fun s => shape_ok te s = true) (il ++ rest) -> length il <= n ->
  Forall (fun s => is_init_s s = false) rest -> length (filter is_invoke_s (il ++ rest)) <= 1 -> listq te n (il ++ rest).
Proof.
  intros HF Hl Hr Hi. split; [exact HF|]. split; [|exact Hi]. rewrite filter_app, app_length.
  rewrite (filter_none is_init_s rest) by (rewrite Forall_forall in Hr; exact Hr). cbn [length].
  pose proof (filter_len_le is_init_s il). lia.
Qed.

Lemma okp_noninvoke te s : okp te s -> is_invoke_s s = false.
Proof. intros [_ H]. unfold is_invoke_s. destruct (s_class s); try reflexivity; discriminate H. Qed.

(* in the static context the invoke table makes an init function (the table's init entry comes
   first and asks for nothing more); shape by shape, so that any table whose tests are determined
   by the shape goes through *)
Lemma init_entry_is_init te d l s : characterizeInitInvoke te d (mkCC l true) = Some s -> is_init_s s = true.
Proof.
  unfold characterizeInitInvoke, classify_in, invokeRegistry.
  destruct (d_shape d) eqn:Es; cbn [classify_reg forallb e_tests pred_holds cc_isLast cc_inputsAreStatic andb negb];
    rewrite ?Es; cbn [andb negb is_func_shape]; intros H; try discriminate H; injection H as <-; reflexivity.
Qed.

Definition init_bound (c : bcase) : nat := match bc_init c with Some _ => 1 | None => 0 end.

Lemma assemble_listq c f0 : assemble c = Ok f0 -> listq (bc_te c) (init_bound c) (map p_s f0).
Proof.
  unfold assemble. set (te := bc_te c).
  destruct (characterizeInitInvoke te (bc_invoke c) (mkCC false false)) as [invS|] eqn:Einv; cbn [opt_res bindr]; [|discriminate].
  destruct (apply_edits (bc_provs c)) as [provs|e|e]; cbn [bindr]; try discriminate.
  destruct (characterize_and_flatten te provs (fl (f_out (s_flows invS)))) as [ba|e|e] eqn:Eba; cbn [bindr]; try discriminate.
  destruct (characterizeFunc te (debug_pd te) (mkCC false true)) as [dbg0|] eqn:Edbg; cbn [opt_res bindr]; [|discriminate].
  set (dbg := as_synthetic false (s_required dbg0) (s_consOpt dbg0) dbg0).
  assert (Hba : Forall (okp te) (fst ba) /\ Forall (okp te) (snd ba)).
  { unfold characterize_and_flatten in Eba. destruct ba as [a b]. eapply char_loop_okp; [| |exact Eba]; constructor. }
  destruct Hba as [Hba1 Hba2].
  assert (Hdbg : okp te dbg) by (apply characterizeFunc_okp in Edbg; exact Edbg).
  assert (Hinv : shape_ok te invS = true /\ is_init_s invS = false).
  { split; [eapply classify_shape; [exact invoke_entries_ok|exact Einv]|eapply invoke_not_init; exact Einv]. }
  (* the init function, if any *)
  match goal with |- context [bindr ?IL _] => destruct IL as [il|e|e] eqn:Eil end; cbn [bindr]; try discriminate.
  assert (Hil : length il <= init_bound c /\ Forall (fun s => shape_ok te s = true) il /\ Forall (fun s => is_invoke_s s = false) il).
  { unfold init_bound. destruct (bc_init c) as [ipd|].
    - destruct (characterizeInitInvoke te ipd (mkCC false true)) as [s|] eqn:Es; cbn [opt_res bindr] in Eil; [|discriminate].
      injection Eil as <-. split; [cbn; lia|]. split; (constructor; [|constructor]).
      + eapply classify_shape; [exact invoke_entries_ok|exact Es].
      + pose proof (init_entry_is_init _ _ _ _ Es) as Hi. unfold is_init_s in Hi. unfold is_invoke_s.
        destruct (s_class s); try discriminate Hi; reflexivity.
    - injection Eil as <-. split; [cbn; lia|split; constructor]. }
  destruct Hil as (Hil1 & Hil2 & Hil3).
  set (funcs := [dbg] ++ il ++ fst ba ++ [invS] ++ snd ba).
  set (rest := [dbg] ++ fst ba ++ [invS] ++ snd ba).
  assert (Hrest_ni : Forall (fun s => is_init_s s = false) rest).
  { unfold rest. repeat (apply Forall_app; split); try (constructor; [|constructor]).
    - eapply okp_noninit, Hdbg.
    - eapply Forall_impl; [|exact Hba1]. intros s. apply okp_noninit.
    - apply Hinv.
    - eapply Forall_impl; [|exact Hba2]. intros s. apply okp_noninit. }
  assert (Hrest_sh : Forall (fun s => shape_ok te s = true) rest).
  { unfold rest. repeat (apply Forall_app; split); try (constructor; [|constructor]).
    - apply Hdbg.
    - eapply Forall_impl; [|exact Hba1]. intros s Hs. apply Hs.
    - apply Hinv.
    - eapply Forall_impl; [|exact Hba2]. intros s Hs. apply Hs. }
  assert (Hperm : Permutation funcs (il ++ rest)).
  { unfold funcs, rest. cbn [app]. apply Permutation_middle. }
  assert (Hq : listq te (init_bound c) funcs).
  { eapply listq_perm; [apply Permutation_sym, Hperm|]. apply listq_pieces; [apply Forall_app; split; assumption|exact Hil1|exact Hrest_ni|].
    unfold rest. rewrite !filter_app. cbn [filter]. rewrite !app_length.
    rewrite (filter_none is_invoke_s il) by (rewrite Forall_forall in Hil3; exact Hil3).
    rewrite (filter_none is_invoke_s (fst ba)) by (intros x Hx; rewrite Forall_forall in Hba1; eapply okp_noninvoke, Hba1, Hx).
    rewrite (filter_none is_invoke_s (snd ba)) by (intros x Hx; rewrite Forall_forall in Hba2; eapply okp_noninvoke, Hba2, Hx).
    rewrite (okp_noninvoke te dbg Hdbg). destruct (is_invoke_s invS); cbn [length app]; lia. }
  (* the synthetic Unused providers *)
  assert (Hadd : forall u L, okp te u -> listq te (init_bound c) L -> listq te (init_bound c) (u :: L)).
  { intros u L Hu (A & B & C). split; [constructor; [apply Hu|exact A]|]. cbn [filter]. rewrite (okp_noninit te u Hu), (okp_noninvoke te u Hu). split; assumption. }
  match goal with |- context [bindr ?F1 _] => destruct F1 as [f1|e|e] eqn:Ef1 end; cbn [bindr]; try discriminate.
  assert (Hq1 : listq te (init_bound c) f1).
  { destruct (existsb _ funcs) in Ef1.
    - destruct (characterizeFunc te (unused_in_pd te) (mkCC false true)) as [u|] eqn:Eu; cbn [opt_res bindr] in Ef1; [|discriminate].
      injection Ef1 as <-. apply Hadd; [|exact Hq]. apply characterizeFunc_okp in Eu. exact Eu.
    - injection Ef1 as <-. exact Hq. }
  match goal with |- context [bindr ?F2 _] => destruct F2 as [f2|e|e] eqn:Ef2 end; cbn [bindr]; try discriminate.
  assert (Hq2 : listq te (init_bound c) f2).
  { destruct (existsb _ funcs) in Ef2.
    - destruct (characterizeFunc te (unused_ret_pd te) (mkCC false true)) as [u|] eqn:Eu; cbn [opt_res bindr] in Ef2; [|discriminate].
      injection Ef2 as <-. eapply listq_perm; [apply Permutation_sym, insert_at_perm|].
      apply Hadd; [|exact Hq1]. apply characterizeFunc_okp in Eu. exact Eu.
    - injection Ef2 as <-. exact Hq1. }
  intros H. injection H as <-. rewrite map_map. cbn [mk_prov p_s]. rewrite map_id. exact Hq2.
Qed.

Lemma plan_listq c pl : plan_of c = Ok pl ->
  listq (bc_te c) (init_bound c) (map p_s (pl_funcs pl)) /\
  pl_slots pl = allocate_slots (pl_funcs pl) (pl_invokeIndex pl) /\
  find_class ClInvoke (pl_funcs pl) 0 = Some (pl_invokeIndex pl).
Proof.
  unfold plan_of. intros H.
  destruct (assemble c) as [f0|e|e] eqn:Ea; cbn [bindr] in H; try discriminate.
  destruct (reorder_funcs (bc_te c) f0) as [f1|e|e] eqn:Er; cbn [bindr] in H; try discriminate.
  destruct (select (bc_te c) f1) as [funcs|e|e] eqn:Es; cbn [bindr] in H; try discriminate.
  destruct (find_class ClInvoke funcs 0) as [ii|] eqn:Ei; cbn [opt_res bindr] in H; try discriminate.
  destruct (negb (check_shadowing (bc_te c) funcs)); [discriminate|].
  destruct (negb (init_bypass_ok funcs (sl_down0 (allocate_slots funcs ii)))); [discriminate|].
  injection H as <-. cbn [pl_funcs pl_slots pl_invokeIndex]. split; [|split; [reflexivity|exact Ei]].
  rewrite (select_preserves _ _ _ Es).
  eapply listq_perm; [apply Permutation_sym, (reorder_perm_s _ _ _ Er)|]. apply assemble_listq. exact Ea.
Qed.

(* ---------- coverage of one provider ---------- *)
Lemma is_some_ex {A} (o : option A) : (exists i, o = Some i) -> is_some o = true.
Proof. intros [i ->]. reflexivity. Qed.

Lemma ins_covered te sl p :
  (forall t, In t (pflow p FIn) -> t <> te_noT te -> exists i, sd_of sl (remap (p_downR p) t) = Some i) ->
  forallb (fun t => is_some (sd_of sl t))
          (map (remap (p_downR p)) (filter (fun t => negb (t =? te_noT te)) (pflow p FIn))) = true.
Proof.
  intros H. apply forallb_forall. intros t' Ht'. apply in_map_iff in Ht'. destruct Ht' as (t & <- & Ht).
  apply filter_In in Ht. destruct Ht as [Ht Hn]. apply negb_true_iff, Nat.eqb_neq in Hn.
  apply is_some_ex, H; assumption.
Qed.

Lemma run_covered te sl p zero c :
  shape_ok te (p_s p) = true -> compile_one te (sl_down sl) (sl_up sl) (p, zero) = Some c ->
  group_eqb (p_group p) GRun || group_eqb (p_group p) GFinal = true ->
  (forall t, In t (pflow p FIn) -> t <> te_noT te -> exists i, sd_of sl (remap (p_downR p) t) = Some i) ->
  (forall t, In t (pflow p FRecv) -> t <> te_noT te -> exists i, su_of sl (remap (p_upR p) t) = Some i) ->
  (forall t, In t (pflow p FRet) -> exists i, su_of sl t = Some i) ->
  covered_b sl (te_errorT te) (rp_of te p zero) = true.
Proof.
  intros Hs Hc Hg HA HB HC. unfold covered_b.
  assert (H1 : forallb (fun t => is_some (sd_of sl t)) (r_ins (rp_of te p zero)) = true) by (apply ins_covered, HA).
  rewrite H1. cbn [andb]. unfold rp_of. cbn [r_recv r_class].
  unfold compile_one in Hc. unfold shape_ok in Hs. unfold p_group in Hg.
  unfold p_class in *. unfold pflow, flow_of in *.
  destruct (s_class (p_s p)) eqn:Ec;
    repeat match goal with H : _ && _ = true |- _ => apply andb_true_iff in H; destruct H end;
    try discriminate Hs;
    try (match goal with H : group_eqb (s_group (p_s p)) ?G = true |- _ =>
           destruct (s_group (p_s p)); try discriminate H; try discriminate Hg end);
    try (match goal with H : none_b (f_recv _) = true |- _ => apply none_fl in H; rewrite H; cbn [map forallb andb class_eqb class_code Nat.eqb] end);
    try reflexivity.
  - (* fallible: the error slot *)
    destruct (f_ret (s_flows (p_s p))) as [[|t0 [|? ?]]|] eqn:Er; try discriminate.
    match goal with H : (t0 =? te_errorT te) = true |- _ => apply Nat.eqb_eq in H; subst t0 end.
    apply is_some_ex, HC. cbn [fl]. left. reflexivity.
  - (* wrapper: the received values *)
    destruct (f_in (s_flows (p_s p))) as [[|t0 ins]|] eqn:Ein; try discriminate.
    cbn [fl tl] in Hc.
    destruct (param_slots te ins (Some (p_downR p)) (sl_down sl)) as [i|] eqn:E1; [|discriminate].
    destruct (param_slots te (fl (f_out (s_flows (p_s p)))) None (sl_down sl)) as [o|] eqn:E2; [|discriminate].
    destruct (param_slots te (fl (f_ret (s_flows (p_s p)))) None (sl_up sl)) as [r|] eqn:E3; [|discriminate].
    destruct (param_slots te (fl (f_recv (s_flows (p_s p)))) (Some (p_upR p)) (sl_up sl)) as [rc|] eqn:E4; [|discriminate].
    apply param_slots_spec in E4. destruct E4 as [N4 _].
    cbn [class_eqb class_code Nat.eqb]. rewrite andb_true_r.
    apply forallb_forall. intros t' Ht'. apply in_map_iff in Ht'. destruct Ht' as (t & <- & Ht).
    apply is_some_ex, HB; [exact Ht|apply N4, Ht].
Qed.

(* ---------- the boolean equalities are reflexive ---------- *)
Lemma on_eqb_refl a : on_eqb a a = true.
Proof. destruct a; simpl; [apply Nat.eqb_refl|reflexivity]. Qed.
Lemma ps_eqb_refl a : ps_eqb a a = true.
Proof. induction a as [|[s t] r IH]; simpl; [reflexivity|]. rewrite on_eqb_refl, Nat.eqb_refl, IH. reflexivity. Qed.
Lemma zs_eqb_refl a : zs_eqb a a = true.
Proof. induction a as [|[s t] r IH]; simpl; [reflexivity|]. rewrite !Nat.eqb_refl, IH. reflexivity. Qed.
Lemma class_eqb_refl a : class_eqb a a = true.
Proof. destruct a; reflexivity. Qed.
Lemma cp_eqb_refl a : cp_eqb a a = true.
Proof.
  unfold cp_eqb. rewrite !Nat.eqb_refl, class_eqb_refl, Bool.eqb_reflx, !ps_eqb_refl, zs_eqb_refl, on_eqb_refl. reflexivity.
Qed.
Lemma cps_eqb_refl a : cps_eqb a a = true.
Proof. induction a as [|x r IH]; simpl; [reflexivity|]. rewrite cp_eqb_refl, IH. reflexivity. Qed.
Lemma bound_eqb_refl a : bound_eqb a a = true.
Proof.
  unfold bound_eqb. rewrite !cps_eqb_refl, cp_eqb_refl. destruct (bd_init a); [rewrite cp_eqb_refl|]; reflexivity.
Qed.

(* ---------- small list facts ---------- *)
Lemma in_nth_opt {A} (x : A) : forall l, In x l -> exists k, nth_opt k l = Some x.
Proof.
  induction l as [|y r IH]; intros H; [destruct H|]. destruct H as [H|H]; [subst; exists 0; reflexivity|].
  destruct (IH H) as [k Hk]. exists (S k). exact Hk.
Qed.

Lemma find_class_first c : forall l s ii, find_class c l s = Some ii ->
  s <= ii /\ forall k p, nth_opt k l = Some p -> class_eqb (p_class p) c = true -> ii <= s + k.
Proof.
  induction l as [|x r IH]; intros s ii H; cbn [find_class] in H; [discriminate|].
  destruct (class_eqb (p_class x) c) eqn:E.
  - injection H as <-. split; [lia|]. intros k p _ _. lia.
  - destruct (IH _ _ H) as [A B]. split; [lia|]. intros [|k] p Hp Hc; cbn in Hp.
    + injection Hp as <-. congruence.
    + specialize (B k p Hp Hc). lia.
Qed.

Lemma compiled_some te dn up : forall inc cps, Forall2 (compiled te dn up) inc cps ->
  forall pz, In pz inc -> exists c, compile_one te dn up pz = Some c.
Proof.
  intros inc cps H. induction H as [|pz pc inc' cps' [_ H2] _ IH]; intros q Hq; [destruct Hq|].
  destruct Hq as [<-|Hq]; [eexists; exact H2|apply IH, Hq].
Qed.

Lemma filter_filter_len {A} (f g : A -> bool) l : length (filter f (filter g l)) <= length (filter f l).
Proof.
  induction l as [|x r IH]; cbn [filter length]; [lia|].
  destruct (g x) eqn:Eg, (f x) eqn:Ef; cbn [filter length]; rewrite ?Ef; cbn [length]; lia.
Qed.

Lemma filter_map_len {A B} (f : B -> bool) (g : A -> B) l : length (filter (fun x => f (g x)) l) = length (filter f (map g l)).
Proof. induction l as [|x r IH]; cbn [filter map length]; [reflexivity|]. destruct (f (g x)); cbn [length]; rewrite IH; reflexivity. Qed.

(* ---------- the base array ---------- *)
Lemma base_clean sl : slots_ok_b sl = true -> forall lits,
  (forall c, In c lits -> exists r, c = cp_of_static (sd_of sl) r) ->
  forall a, length a = sl_count sl -> (forall i, In i (slot_idx (sl_up sl)) -> aget i a = VInvalid) ->
  let base := fold_left (fun a lc => apply_literal lc a) lits a in
  length base = sl_count sl /\ forall i, In i (slot_idx (sl_up sl)) -> aget i base = VInvalid.
Proof.
  intros Hok. induction lits as [|c r IH]; intros Hl a Ha Hu; cbn [fold_left]; [split; assumption|].
  apply IH.
  - intros c' Hc'. apply Hl. right. exact Hc'.
  - unfold apply_literal. destruct (cp_out c) as [|[[i|] t] rest]; try exact Ha. rewrite aput_length. exact Ha.
  - intros j Hj. unfold apply_literal. destruct (cp_out c) as [|[[i|] t] rest] eqn:Eo; try (apply Hu, Hj).
    rewrite aget_aput_other; [apply Hu, Hj|].
    destruct (Hl c (or_introl eq_refl)) as [rp Hrp]. subst c. unfold cp_of_static in Eo. cbn [cp_out] in Eo.
    destruct (r_outs rp) as [|t0 outs]; [discriminate|]. cbn [map] in Eo. injection Eo as Es _ _.
    intros ->. eapply (NoDup_app_disj _ _ j (wf_nodup sl Hok)); [|exact Hj].
    eapply slot_idx_in. apply (sd_in sl). exact Es.
Qed.

(* the side condition that remains a hypothesis: runs_after_invoke (Bind.v) *)

(* ---------- splan_of, case by case ---------- *)
Section SplanOf.
  Variable te : tyenv.
  Variable pl : plan.
  Let inc := filter (fun pz : prov * list nat => p_include (fst pz)) (sl_funcs (pl_slots pl)).
  Let rps (g : prov -> bool) := map (fun pz : prov * list nat => rp_of te (fst pz) (snd pz)) (filter (fun pz => g (fst pz)) inc).
  Let statics := rps (fun p => group_eqb (p_group p) GStatic || group_eqb (p_group p) GLiteral).
  Let runs := rps (fun p => group_eqb (p_group p) GRun) ++ rps (fun p => group_eqb (p_group p) GFinal).
  Let inits := filter (fun pz : prov * list nat => class_eqb (p_class (fst pz)) ClInit) inc.
  Let invs := filter (fun pz : prov * list nat => class_eqb (p_class (fst pz)) ClInvoke) inc.

  Lemma splan_of_noinit iv : invs = [iv] -> inits = [] ->
    splan_of te pl = Some (mkSplan statics runs None (rp_of te (fst iv) [])).
  Proof. intros H1 H2. unfold splan_of. cbv zeta. fold inc. fold invs. fold inits. rewrite H1, H2. reflexivity. Qed.

  Lemma splan_of_init iv it : invs = [iv] -> inits = [it] ->
    splan_of te pl = Some (mkSplan statics runs
      (Some (mkRp (p_pid (fst it)) ClInit false (map (remap (p_bypassR (fst it))) (pflow (fst it) FBypass)) (pflow (fst it) FOut) [] [] [] 0))
      (rp_of te (fst iv) [])).
  Proof. intros H1 H2. unfold splan_of. cbv zeta. fold inc. fold invs. fold inits. rewrite H1, H2. reflexivity. Qed.
End SplanOf.

(* ---------- uniqueness of the init and invoke functions; the init function's returns ---------- *)
Lemma unique_pos {A} (f : A -> bool) : forall (l : list A) a b x y,
  length (filter f l) <= 1 -> nth_opt a l = Some x -> nth_opt b l = Some y -> f x = true -> f y = true -> a = b.
Proof.
  induction l as [|z r IH]; intros a b x y Hc Ha Hb Hx Hy; [destruct a; discriminate Ha|].
  cbn [filter] in Hc. destruct a as [|a], b as [|b]; cbn [nth_opt] in Ha, Hb.
  - reflexivity.
  - exfalso. injection Ha as ->. rewrite Hx in Hc. cbn [length] in Hc.
    assert (Hin : In y (filter f r)) by (apply filter_In; split; [eapply getp_in; exact Hb|exact Hy]).
    destruct (filter f r); [destruct Hin|cbn [length] in Hc; lia].
  - exfalso. injection Hb as ->. rewrite Hy in Hc. cbn [length] in Hc.
    assert (Hin : In x (filter f r)) by (apply filter_In; split; [eapply getp_in; exact Ha|exact Hx]).
    destruct (filter f r); [destruct Hin|cbn [length] in Hc; lia].
  - f_equal. apply (IH a b x y); try assumption. destruct (f z); cbn [length] in Hc; lia.
Qed.

Lemma find_class_some c : forall l s k p, nth_opt k l = Some p -> class_eqb (p_class p) c = true ->
  exists k0 p0, find_class c l s = Some (s + k0) /\ nth_opt k0 l = Some p0 /\ class_eqb (p_class p0) c = true.
Proof.
  induction l as [|x r IH]; intros s k p Hk Hc; [destruct k; discriminate Hk|].
  cbn [find_class]. destruct (class_eqb (p_class x) c) eqn:E.
  - exists 0, x. rewrite Nat.add_0_r. split; [reflexivity|]. split; [reflexivity|exact E].
  - destruct k as [|k]; cbn [nth_opt] in Hk; [injection Hk as ->; congruence|].
    destruct (IH (S s) k p Hk Hc) as (k0 & p0 & A & B & C). exists (S k0), p0.
    replace (s + S k0) with (S s + k0) by lia. split; [exact A|]. split; [exact B|exact C].
Qed.

Lemma find_class_unique c (funcs : list prov) k p :
  length (filter (fun s => class_eqb (s_class s) c) (map p_s funcs)) <= 1 ->
  getp funcs k = Some p -> class_eqb (p_class p) c = true -> find_class c funcs 0 = Some k.
Proof.
  intros Hc Hk Hp. destruct (find_class_some c funcs 0 k p Hk Hp) as (k0 & p0 & A & B & C). rewrite A. cbn [Nat.add]. f_equal.
  rewrite <- (filter_map_len (fun s => class_eqb (s_class s) c) p_s) in Hc.
  apply (unique_pos (fun q => class_eqb (s_class (p_s q)) c) funcs k0 k p0 p Hc B Hk); assumption.
Qed.

Theorem plan_covers_bypass c pl : plan_of c = Ok pl ->
  (exists p, getp (pl_funcs pl) (pl_invokeIndex pl) = Some p /\ p_include p = true /\ class_eqb (p_class p) ClInvoke = true) ->
  forall k p t, getp (pl_funcs pl) k = Some p -> p_include p = true -> class_eqb (p_class p) ClInit = true ->
    In t (pflow p FBypass) -> t <> te_noT (bc_te c) ->
    exists i, sd_of (pl_slots pl) (remap (p_bypassR p) t) = Some i.
Proof.
  intros Hp Hinv k p t Hk Hi Hc Ht Hn.
  destruct (plan_listq c pl Hp) as ((_ & Hcount & Hcinv) & Hsl & Hfc).
  assert (Hcount1 : length (filter is_init_s (map p_s (pl_funcs pl))) <= 1) by (unfold init_bound in Hcount; destruct (bc_init c); lia).
  pose proof Hp as Hp'. unfold plan_of in Hp'.
  destruct (assemble c) as [f0|e|e]; cbn [bindr] in Hp'; try discriminate.
  destruct (reorder_funcs (bc_te c) f0) as [f1|e|e]; cbn [bindr] in Hp'; try discriminate.
  destruct (select (bc_te c) f1) as [funcs|e|e] eqn:Es; cbn [bindr] in Hp'; try discriminate.
  destruct (opt_res (find_class ClInvoke funcs 0) EB_INTERNAL) as [ii|e|e]; cbn [bindr] in Hp'; try discriminate.
  destruct (negb (check_shadowing (bc_te c) funcs)); [discriminate|].
  destruct (negb (init_bypass_ok funcs (sl_down0 (allocate_slots funcs ii)))); [discriminate|].
  injection Hp' as <-. cbn [pl_funcs pl_slots pl_invokeIndex] in *.
  destruct (select_covers_bypass (bc_te c) f1 funcs ii Es Hfc) with (k := k) (p := p) (t := t) as [i Hi']; try assumption.
  - intros v q Hq Hqc. pose proof (find_class_unique ClInvoke funcs v q Hcinv Hq Hqc) as Hf. congruence.
  - apply (find_class_unique ClInit funcs k p Hcount1 Hk Hc).
  - exists i. unfold sd_of. rewrite Hi'. reflexivity.
Qed.

(* ---------- every bound chain satisfies the hypotheses of the refinement theorem ---------- *)
Theorem bind_plan_wf c pl b :
  bind_chain c = Ok (pl, b) -> runs_after_invoke pl = true ->
  plan_wf (bc_te c) pl b = true.
Proof.
  intros Hb Hrai. unfold bind_chain in Hb. set (te := bc_te c) in *.
  destruct (plan_of c) as [pl0|e|e] eqn:Epl; cbn [bindr] in Hb; try discriminate.
  destruct (compile_all te (sl_down (pl_slots pl0)) (sl_up (pl_slots pl0)) (sl_funcs (pl_slots pl0))) as [cps|] eqn:Ec;
    cbn [opt_res bindr] in Hb; [|discriminate].
  destruct (of_group GFinal cps) as [|fin [|? ?]] eqn:Efin; try discriminate.
  destruct (of_class ClInvoke cps) as [|inv [|? ?]] eqn:Einv; try discriminate.
  injection Hb as -> <-.
  destruct (plan_listq c pl Epl) as ((Hshape & Hcount & Hcinv) & Hsl & Hfc). fold te in Hshape, Hcount.
  destruct (plan_covers c pl Epl) as [CA CB]. fold te in CA, CB.
  set (sl := pl_slots pl) in *. set (funcs := pl_funcs pl) in *. set (ii := pl_invokeIndex pl) in *.
  assert (Hok : slots_ok_b sl = true) by (rewrite Hsl; apply allocate_slots_ok).
  assert (Hfst : map fst (sl_funcs sl) = funcs) by (rewrite Hsl; apply allocate_slots_funcs).
  set (inc := filter (fun pz : prov * list nat => p_include (fst pz)) (sl_funcs sl)).
  pose proof (compile_all_spec _ _ _ _ _ Ec) as F1. fold inc in F1.
  set (sd := sd_of sl). set (su := su_of sl). set (errT := te_errorT te).
  (* facts about every included provider *)
  assert (Hinc : forall pz, In pz inc ->
            p_include (fst pz) = true /\ shape_ok te (p_s (fst pz)) = true /\ In (fst pz) funcs /\
            (exists k, getp funcs k = Some (fst pz)) /\ exists cc, compile_one te (sl_down sl) (sl_up sl) pz = Some cc).
  { intros pz Hpz. pose proof Hpz as Hpz'. apply filter_In in Hpz'. destruct Hpz' as [Hin Hi].
    assert (Hf : In (fst pz) funcs) by (rewrite <- Hfst; apply in_map, Hin).
    split; [exact Hi|]. split; [|split; [exact Hf|split; [apply in_nth_opt, Hf|apply (compiled_some _ _ _ _ _ F1 pz Hpz)]]].
    rewrite Forall_forall in Hshape. apply Hshape. apply in_map, Hf. }
  (* per-invocation providers other than plain injectors sit from the invoke function on *)
  assert (Hpos : forall p, In p funcs -> p_include p = true ->
            group_eqb (p_group p) GRun || group_eqb (p_group p) GFinal = true ->
            class_eqb (p_class p) ClInjector = false ->
            forall k, getp funcs k = Some p -> ii <= k).
  { intros p _ Hi Hg Hnj k Hk. destruct (Nat.lt_ge_cases k ii) as [Hlt|Hge]; [exfalso|exact Hge].
    unfold runs_after_invoke in Hrai. rewrite forallb_forall in Hrai.
    specialize (Hrai p (getp_firstn _ _ _ _ Hk Hlt)). rewrite Hi, Hg, Hnj in Hrai. discriminate Hrai. }
  (* what they return has an up slot *)
  assert (Hret : forall p k t, getp funcs k = Some p -> ii <= k -> p_include p = true -> In t (pflow p FRet) ->
            exists i, su t = Some i).
  { intros p k t Hk Hge Hi Ht.
    destruct (allocate_slots_covers funcs ii) as (_ & _ & C3). cbv zeta in C3.
    destruct (C3 p t (getp_skipn _ _ _ _ Hk Hge) Ht) as [i Hi'].
    - eapply vm_keys_is_key; [eapply getp_in; exact Hk|exact Hi|apply in_or_app; left; exact Ht].
    - exists i. unfold su, su_of. rewrite Hsl. rewrite Hi'. reflexivity. }
  (* the compiled lists are the reference projections *)
  assert (Erun : forall g, (forall p, g p = true -> group_eqb (p_group p) GRun || group_eqb (p_group p) GFinal = true) ->
            map snd (filter (fun pc : prov * cp => g (fst pc)) cps)
            = map (fun pz => cp_of sd su errT (rp_of te (fst pz) (snd pz))) (filter (fun pz => g (fst pz)) inc)).
  { intros g Hg. apply (compiled_filter_map te (sl_down sl) (sl_up sl) g _ inc cps F1).
    intros [p zero] cc Hpz Hgp Hcc. destruct (Hinc _ Hpz) as (_ & Hs & _).
    apply (compile_run_agrees te sl p zero cc Hs Hcc (Hg p Hgp)). }
  assert (Estat : map snd (filter (fun pc : prov * cp => group_eqb (p_group (fst pc)) GStatic || group_eqb (p_group (fst pc)) GLiteral) cps)
            = map (fun pz => cp_of_static sd (rp_of te (fst pz) (snd pz)))
                  (filter (fun pz => group_eqb (p_group (fst pz)) GStatic || group_eqb (p_group (fst pz)) GLiteral) inc)).
  { apply (compiled_filter_map te (sl_down sl) (sl_up sl) (fun p => group_eqb (p_group p) GStatic || group_eqb (p_group p) GLiteral) _ inc cps F1).
    intros [p zero] cc Hpz Hgp Hcc. destruct (Hinc _ Hpz) as (_ & Hs & _).
    apply (compile_static_agrees te sl p zero cc Hs Hcc Hgp). }
  assert (Einvk : map snd (filter (fun pc : prov * cp => class_eqb (p_class (fst pc)) ClInvoke) cps)
            = map (fun pz => cp_of_invoke sd su (rp_of te (fst pz) []))
                  (filter (fun pz => class_eqb (p_class (fst pz)) ClInvoke) inc)).
  { apply (compiled_filter_map te (sl_down sl) (sl_up sl) (fun p => class_eqb (p_class p) ClInvoke) _ inc cps F1).
    intros [p zero] cc Hpz Hgp Hcc. apply class_eqb_eq in Hgp.
    apply (compile_invoke_agrees te sl p zero cc Hgp Hcc). }
  assert (Einit : map snd (filter (fun pc : prov * cp => class_eqb (p_class (fst pc)) ClInit) cps)
            = map (fun pz => cp_of_init sd (mkRp (p_pid (fst pz)) ClInit false (map (remap (p_bypassR (fst pz))) (pflow (fst pz) FBypass))
                                                 (pflow (fst pz) FOut) [] [] [] 0))
                  (filter (fun pz => class_eqb (p_class (fst pz)) ClInit) inc)).
  { apply (compiled_filter_map te (sl_down sl) (sl_up sl) (fun p => class_eqb (p_class p) ClInit) _ inc cps F1).
    intros [p zero] cc Hpz Hgp Hcc. apply class_eqb_eq in Hgp.
    apply (compile_init_agrees te sl p zero cc Hgp Hcc). }
  (* exactly one invoke function, at most one init function *)
  set (invs := filter (fun pz : prov * list nat => class_eqb (p_class (fst pz)) ClInvoke) inc) in *.
  set (inits := filter (fun pz : prov * list nat => class_eqb (p_class (fst pz)) ClInit) inc) in *.
  unfold of_class in Einv. rewrite Einvk in Einv.
  destruct invs as [|iv [|? ?]] eqn:Einvs; try discriminate Einv. cbn [map] in Einv. injection Einv as Einv.
  assert (Hinits : length inits <= 1).
  { unfold inits, inc. eapply Nat.le_trans; [apply filter_filter_len|].
    rewrite (filter_map_len (fun p => class_eqb (p_class p) ClInit) fst), Hfst.
    rewrite (filter_map_len is_init_s p_s). unfold init_bound in Hcount. destruct (bc_init c); lia. }
  (* the run list *)
  assert (Hrunlist : of_group GRun cps ++ [fin]
            = map (cp_of sd su errT)
                  (map (fun pz : prov * list nat => rp_of te (fst pz) (snd pz)) (filter (fun pz => group_eqb (p_group (fst pz)) GRun) inc) ++
                   map (fun pz : prov * list nat => rp_of te (fst pz) (snd pz)) (filter (fun pz => group_eqb (p_group (fst pz)) GFinal) inc))).
  { rewrite map_app, !map_map. f_equal.
    - unfold of_group. apply (Erun (fun p => group_eqb (p_group p) GRun)). intros p ->. reflexivity.
    - rewrite <- Efin. unfold of_group. apply (Erun (fun p => group_eqb (p_group p) GFinal)). intros p ->. apply orb_true_r. }
  (* the base array *)
  assert (Hlits : forall lc, In lc (of_group GLiteral cps) -> exists r, lc = cp_of_static sd r).
  { unfold of_group.
    rewrite (compiled_filter_map te (sl_down sl) (sl_up sl) (fun p => group_eqb (p_group p) GLiteral)
               (fun pz => cp_of_static sd (rp_of te (fst pz) (snd pz))) inc cps F1).
    - intros lc Hlc. apply in_map_iff in Hlc. destruct Hlc as (pz & <- & _). eexists; reflexivity.
    - intros [p zero] cc Hpz Hgp Hcc. destruct (Hinc _ Hpz) as (_ & Hs & _).
      apply (compile_static_agrees te sl p zero cc Hs Hcc). cbn [fst] in Hgp. rewrite Hgp. apply orb_true_r. }
  destruct (base_clean sl Hok (of_group GLiteral cps) Hlits (repeat VInvalid (sl_count sl))
              (repeat_length _ _) (fun i _ => aget_repeat _ i)) as [Hlen Hclean].
  set (base := fold_left (fun (a : list val) (lc : cp) => apply_literal lc a) (of_group GLiteral cps) (repeat VInvalid (sl_count sl))) in *.
  (* coverage *)
  set (rpf := fun pz : prov * list nat => rp_of te (fst pz) (snd pz)) in *.
  set (runs := map rpf (filter (fun pz => group_eqb (p_group (fst pz)) GRun) inc) ++
               map rpf (filter (fun pz => group_eqb (p_group (fst pz)) GFinal) inc)) in *.
  set (statics := map rpf (filter (fun pz => group_eqb (p_group (fst pz)) GStatic || group_eqb (p_group (fst pz)) GLiteral) inc)) in *.
  assert (Hrun1 : forall pz, In pz inc -> group_eqb (p_group (fst pz)) GRun || group_eqb (p_group (fst pz)) GFinal = true ->
            covered_b sl errT (rpf pz) = true /\ well_classed (rpf pz) = true).
  { intros [p zero] Hpz Hg. destruct (Hinc _ Hpz) as (Hi & Hs & Hf & [k Hk] & [cc Hcc]). cbn [fst snd] in *.
    unfold rpf. cbn [fst snd]. split; [|apply (compile_run_agrees te sl p zero cc Hs Hcc Hg)].
    apply (run_covered te sl p zero cc Hs Hcc Hg).
    - intros t Ht Hn. apply (CA k p t Hk Hi Ht Hn).
    - destruct (class_eqb (p_class p) ClInjector) eqn:Enj.
      + (* a plain injector receives nothing *)
        apply class_eqb_eq in Enj. unfold shape_ok in Hs. unfold p_class in Enj. rewrite Enj in Hs.
        apply andb_true_iff in Hs. destruct Hs as [_ Hs]. apply none_fl in Hs.
        intros t Ht. unfold pflow, flow_of in Ht. rewrite Hs in Ht. destruct Ht.
      + pose proof (Hpos p Hf Hi Hg Enj k Hk) as Hge. intros t Ht Hn. apply (CB k p t Hge Hk Hi Ht Hn).
    - destruct (class_eqb (p_class p) ClInjector) eqn:Enj.
      + (* ... and returns nothing *)
        apply class_eqb_eq in Enj. unfold shape_ok in Hs. unfold p_class in Enj. rewrite Enj in Hs.
        apply andb_true_iff in Hs. destruct Hs as [Hs _]. apply andb_true_iff in Hs. destruct Hs as [_ Hs]. apply none_fl in Hs.
        intros t Ht. unfold pflow, flow_of in Ht. rewrite Hs in Ht. destruct Ht.
      + pose proof (Hpos p Hf Hi Hg Enj k Hk) as Hge. intros t Ht. apply (Hret p k t Hk Hge Hi Ht). }
  assert (Hruns : forallb (covered_b sl errT) runs = true /\ forallb well_classed runs = true).
  { unfold runs. rewrite !forallb_app. 
    assert (Hone : forall g, (forall p, g p = true -> group_eqb (p_group p) GRun || group_eqb (p_group p) GFinal = true) ->
              forallb (covered_b sl errT) (map rpf (filter (fun pz => g (fst pz)) inc)) = true /\
              forallb well_classed (map rpf (filter (fun pz => g (fst pz)) inc)) = true).
    { intros g Hg. split; apply forallb_forall; intros r Hr; apply in_map_iff in Hr; destruct Hr as (pz & <- & Hpz);
        apply filter_In in Hpz; destruct Hpz as [Hpz Hgp]; apply (Hrun1 pz Hpz (Hg _ Hgp)). }
    destruct (Hone (fun p => group_eqb (p_group p) GRun)) as [A1 B1]; [intros p ->; reflexivity|].
    destruct (Hone (fun p => group_eqb (p_group p) GFinal)) as [A2 B2]; [intros p ->; apply orb_true_r|].
    rewrite A1, A2, B1, B2. split; reflexivity. }
  destruct Hruns as [Hruns Hwc].
  assert (Hstat : forallb (covered_s_b sl) statics = true).
  { unfold statics. apply forallb_forall. intros r Hr. apply in_map_iff in Hr. destruct Hr as ([p zero] & <- & Hpz).
    apply filter_In in Hpz. destruct Hpz as [Hpz _]. destruct (Hinc _ Hpz) as (Hi & _ & _ & [k Hk] & _). cbn [fst snd] in *.
    unfold covered_s_b, rpf, rp_of. cbn [fst snd r_ins]. apply ins_covered. intros t Ht Hn. apply (CA k p t Hk Hi Ht Hn). }
  assert (Hiv : In iv inc /\ class_eqb (p_class (fst iv)) ClInvoke = true).
  { assert (H : In iv invs) by (rewrite Einvs; left; reflexivity). unfold invs in H. apply filter_In in H. exact H. }
  destruct Hiv as [Hiv Hivc].
  assert (Hinvcov : forallb (fun t => is_some (su_of sl t)) (r_recv (rp_of te (fst iv) [])) = true).
  { destruct iv as [p zero]. cbn [fst] in *. destruct (Hinc _ Hiv) as (Hi & _ & _ & [k Hk] & [cc Hcc]). cbn [fst] in *.
    destruct (find_class_first _ _ _ _ Hfc) as [_ Hfirst]. pose proof (Hfirst k p Hk Hivc) as Hge. cbn [Nat.add] in Hge.
    unfold compile_one in Hcc. apply class_eqb_eq in Hivc. rewrite Hivc in Hcc.
    destruct (param_slots te (pflow p FOut) None (sl_down sl)) as [o|]; [|discriminate].
    destruct (param_slots te (pflow p FRecv) (Some (p_upR p)) (sl_up sl)) as [rc|] eqn:E2; [|discriminate].
    apply param_slots_spec in E2. destruct E2 as [N2 _].
    unfold rp_of. cbn [r_recv]. apply forallb_forall. intros t' Ht'. apply in_map_iff in Ht'. destruct Ht' as (t & <- & Ht).
    apply is_some_ex. apply (CB k p t Hge Hk Hi Ht (N2 t Ht)). }
  (* assemble the check *)
  assert (Hfinish : forall sp oi, splan_of te pl = Some sp ->
            sp_static sp = statics -> sp_run sp = runs -> sp_invoke sp = rp_of te (fst iv) [] ->
            match sp_init sp with Some ir => forallb (fun t => is_some (sd_of sl t)) (r_ins ir) | None => true end = true ->
            oi = match sp_init sp with Some i => Some (cp_of_init sd i) | None => None end ->
            plan_wf te pl (mkBound base
               (map snd (filter (fun pc : prov * cp => group_eqb (p_group (fst pc)) GStatic || group_eqb (p_group (fst pc)) GLiteral) cps))
               (of_group GRun cps ++ [fin]) oi inv) = true).
  { intros sp oi Hsp Hs Hr Hi Hicov Hoi. unfold plan_wf. rewrite Hsp. fold sl. fold errT. cbn [bd_base0].
    rewrite Hok, Hlen, Nat.eqb_refl, Hr, Hwc, Hruns, Hs, Hstat, Hicov, Hi, Hinvcov. cbn [andb].
    replace (forallb (fun i => is_invalid (aget i base)) (slot_idx (sl_up sl))) with true
      by (symmetry; apply forallb_forall; intros i Hi'; rewrite (Hclean i Hi'); reflexivity).
    cbn [andb].
    match goal with |- bound_eqb ?x ?y = true => replace y with x; [apply bound_eqb_refl|] end.
    unfold bound_of. rewrite Hs, Hr, Hi. f_equal.
    - rewrite Estat. unfold statics. rewrite map_map. reflexivity.
    - exact Hrunlist.
    - exact Hoi.
    - symmetry. exact Einv. }
  destruct inits as [|it [|? ?]] eqn:Einits; [| |cbn [length] in Hinits; lia].
  - (* no init function *)
    unfold of_class. rewrite Einit. cbn [map].
    eapply Hfinish; [apply (splan_of_noinit te pl iv Einvs Einits)| | | | |]; reflexivity.
  - (* one init function *)
    unfold of_class. rewrite Einit. cbn [map].
    eapply Hfinish; [apply (splan_of_init te pl iv it Einvs Einits)| | | | |]; try reflexivity.
    cbn [sp_init r_ins].
    assert (Hit : In it inc /\ class_eqb (p_class (fst it)) ClInit = true).
    { assert (H : In it inits) by (rewrite Einits; left; reflexivity). unfold inits in H. apply filter_In in H. exact H. }
    destruct Hit as [Hit Hitc]. destruct it as [p zero]. cbn [fst] in *.
    destruct (Hinc _ Hit) as (Hi & _ & Hf & [k Hk] & [cc Hcc]). cbn [fst] in *.
    (* the invoke function is included, at the invoke index *)
    assert (Hinvii : exists q, getp funcs ii = Some q /\ p_include q = true /\ class_eqb (p_class q) ClInvoke = true).
    { destruct iv as [q zq]. cbn [fst] in *. destruct (Hinc _ Hiv) as (Hqi & _ & _ & [kq Hkq] & _). cbn [fst] in *.
      pose proof (find_class_unique ClInvoke funcs kq q Hcinv Hkq Hivc) as Hfq. rewrite Hfc in Hfq. injection Hfq as Hfq. subst kq.
      exists q. repeat split; assumption. }
    unfold compile_one in Hcc. pose proof Hitc as Hitc'. apply class_eqb_eq in Hitc'. rewrite Hitc' in Hcc.
    destruct (param_slots te (pflow p FOut) None (sl_down sl)) as [o|]; [|discriminate].
    destruct (param_slots te (pflow p FBypass) (Some (p_bypassR p)) (sl_down sl)) as [bb|] eqn:E2; [|discriminate].
    apply param_slots_spec in E2. destruct E2 as [N2 _].
    apply forallb_forall. intros t' Ht'. apply in_map_iff in Ht'. destruct Ht' as (t & <- & Ht).
    apply is_some_ex. apply (plan_covers_bypass c pl Epl Hinvii k p t Hk Hi Hitc Ht (N2 t Ht)).
Qed.

Lemma bind_chain_plan c pl b : bind_chain c = Ok (pl, b) -> plan_of c = Ok pl.
Proof.
  unfold bind_chain. destruct (plan_of c) as [pl0|e|e]; cbn [bindr]; try discriminate.
  destruct (compile_all _ _ _ _); cbn [opt_res bindr]; [|discriminate].
  destruct (of_group GFinal _) as [|? [|? ?]]; try discriminate.
  destruct (of_class ClInvoke _) as [|? [|? ?]]; try discriminate.
  intros H. injection H as -> _. reflexivity.
Qed.

(* The refinement theorem without the decidable well-formedness hypothesis: every chain that binds
   runs, for every provider behaviour, world and session, exactly as the reference semantics of its
   plan - provided only that no included per-invocation provider other than a plain injector was placed
   before the invoke function. *)
Theorem chain_refines_bound :
  forall (c : bcase) (pl : plan) (b : bound),
    bind_chain c = Ok (pl, b) -> runs_after_invoke pl = true ->
    exists sp, splan_of (bc_te c) pl = Some sp /\
    forall (W : Type) (beh_fn : nat -> W -> list val -> W * list val)
           (beh_wrap : nat -> W -> list val -> wtree W) (steps : list step) (w0 : W),
      let m := run_session W beh_fn beh_wrap b (mkSess W w0 (bd_base0 b) false true) steps in
      let s := sem_session W beh_fn beh_wrap (te_errorT (bc_te c)) sp
                           (mkSsess W w0 (base_env (pl_slots pl) (bd_base0 b)) false true) steps in
      snd m = snd s /\ ss_w W (fst m) = sq_w W (fst s).
Proof.
  intros c pl b Hb H1. apply (chain_refines c pl b Hb). apply bind_plan_wf; assumption.
Qed.

Theorem run_safe_bound :
  forall (c : bcase) (pl : plan) (b : bound),
    bind_chain c = Ok (pl, b) -> runs_after_invoke pl = true ->
    forall (W : Type) (beh_fn : nat -> W -> list val -> W * list val)
           (beh_wrap : nat -> W -> list val -> wtree W) (steps : list step) (w0 : W),
      ~ In RPanic (snd (run_session W beh_fn beh_wrap b (mkSess W w0 (bd_base0 b) false true) steps)).
Proof.
  intros c pl b Hb H1. apply (run_safe c pl b Hb). apply bind_plan_wf; assumption.
Qed.
Print Assumptions chain_refines_bound.

(* ---------- without Reorder, per-invocation providers follow the invoke function ---------- *)
Definition nonrun_s (s : sprov) : bool := negb (group_eqb (s_group s) GRun || group_eqb (s_group s) GFinal).
Definition nonfinal_s (s : sprov) : bool := negb (group_eqb (s_group s) GFinal).

Lemma classify_pred te reg d cc s (Q : entry -> bool) (X : predT -> bool) :
  forallb (fun e => Q e || existsb X (e_tests e)) reg = true ->
  (forall p, X p = true -> pred_holds te d cc p = false) ->
  classify_in te reg d cc = Some s -> exists e, Q e = true /\ s = apply_entry te d e.
Proof.
  intros Hreg HX. unfold classify_in. intros H.
  assert (Hc : classify_reg te reg d cc = Some s) by (destruct (d_shape d); try discriminate H; exact H).
  clear H. induction reg as [|e r IH]; cbn [classify_reg] in Hc; [discriminate|].
  cbn [forallb] in Hreg. apply andb_true_iff in Hreg. destruct Hreg as [He Hr].
  destruct (forallb (pred_holds te d cc) (e_tests e)) eqn:Et; [|apply IH; assumption].
  injection Hc as <-. exists e. split; [|reflexivity].
  destruct (Q e); [reflexivity|]. cbn [orb] in He. exfalso.
  apply existsb_exists in He. destruct He as (p & Hp & Hq).
  rewrite forallb_forall in Et. specialize (Et _ Hp). rewrite (HX p Hq) in Et. discriminate Et.
Qed.

Lemma handler_run_unstatic :
  forallb (fun e => negb (group_eqb (e_group e) GRun || group_eqb (e_group e) GFinal)
                    || existsb (fun p => match p with P_unstaticOkay => true | _ => false end) (e_tests e)) handlerRegistry = true.
Proof. vm_compute. reflexivity. Qed.
Lemma handler_final_last :
  forallb (fun e => negb (group_eqb (e_group e) GFinal)
                    || existsb (fun p => match p with P_isLast => true | _ => false end) (e_tests e)) handlerRegistry = true.
Proof. vm_compute. reflexivity. Qed.
Lemma invoke_classes :
  forallb (fun e => match e_class e with ClInit | ClInvoke => true | _ => false end) invokeRegistry = true.
Proof. vm_compute. reflexivity. Qed.

Lemma mustcache_nonrun te d cc s : d_mustCache d = true -> characterizeFunc te d cc = Some s -> nonrun_s s = true.
Proof.
  intros Hm H. destruct (classify_pred te handlerRegistry d cc s _ _ handler_run_unstatic) as (e & He & ->); [|exact H|exact He].
  intros p Hp. destruct p; try discriminate Hp. cbn [pred_holds]. rewrite Hm. reflexivity.
Qed.

Lemma notlast_nonfinal te d s l : characterizeFunc te d (mkCC false l) = Some s -> nonfinal_s s = true.
Proof.
  intros H. destruct (classify_pred te handlerRegistry d (mkCC false l) s _ _ handler_final_last) as (e & He & ->); [|exact H|exact He].
  intros p Hp. destruct p; try discriminate Hp. reflexivity.
Qed.

Lemma invoke_table_group te d cc s : characterizeInitInvoke te d cc = Some s ->
  nonrun_s s = true /\ (is_init_s s = false -> s_class s = ClInvoke).
Proof.
  intros H.
  pose proof (classify_shape te invokeRegistry d cc s invoke_entries_ok H) as Hs.
  pose proof (classify_class te invokeRegistry d cc s (fun k => match k with ClInit | ClInvoke => true | _ => false end) invoke_classes H) as Hc.
  cbv beta in Hc.
  unfold shape_ok in Hs. unfold nonrun_s, is_init_s.
  destruct (s_class s); try discriminate Hc; destruct (s_group s); try discriminate Hs; split; try reflexivity; intros; try reflexivity; discriminate.
Qed.

Lemma char_loop_nonrun te lf : forall l ns a b ra rb,
  Forall (fun s => nonrun_s s = true) a -> char_loop te l lf ns a b = Ok (ra, rb) ->
  Forall (fun s => nonrun_s s = true) ra.
Proof.
  induction l as [|d r IH]; intros ns a b ra rb Ha H; cbn [char_loop] in H.
  - injection H as <- _. apply Forall_rev. exact Ha.
  - destruct (char_one te d match r with [] => true | _ :: _ => false end lf ns) as [s|] eqn:E1; [|discriminate].
    destruct (s_group s) eqn:Eg; try discriminate H; (eapply IH; [|exact H]); try exact Ha;
      constructor; try exact Ha; unfold nonrun_s; rewrite Eg; reflexivity.
Qed.

Lemma insert_at_app {A} (x : A) : forall (P Q : list A) k, insert_at (length P + k) x (P ++ Q) = P ++ insert_at k x Q.
Proof. induction P as [|y r IH]; intros Q k; cbn [length Nat.add app insert_at]; [reflexivity|]. rewrite IH. reflexivity. Qed.

Lemma classify_sd te reg d cc s : classify_in te reg d cc = Some s -> s_d s = d.
Proof.
  unfold classify_in. intros H.
  assert (Hc : classify_reg te reg d cc = Some s) by (destruct (d_shape d); try discriminate H; exact H).
  clear H. induction reg as [|e r IH]; cbn [classify_reg] in Hc; [discriminate|].
  destruct (forallb (pred_holds te d cc) (e_tests e)); [injection Hc as <-; reflexivity|apply IH, Hc].
Qed.

(* the assembled list: providers of the static, literal and invoke groups, then the invoke
   function, then the rest - or a list without a final function, which never binds *)
Lemma assemble_layout c f0 : assemble c = Ok f0 ->
  (exists X invS Y, map p_s f0 = X ++ invS :: Y /\ Forall (fun s => nonrun_s s = true) X /\ s_class invS = ClInvoke /\
                    s_d invS = bc_invoke c) \/
  Forall (fun s => nonfinal_s s = true) (map p_s f0).
Proof.
  unfold assemble. set (te := bc_te c).
  destruct (characterizeInitInvoke te (bc_invoke c) (mkCC false false)) as [invS|] eqn:Einv; cbn [opt_res bindr]; [|discriminate].
  destruct (apply_edits (bc_provs c)) as [provs|e|e]; cbn [bindr]; try discriminate.
  destruct (characterize_and_flatten te provs (fl (f_out (s_flows invS)))) as [ba|e|e] eqn:Eba; cbn [bindr]; try discriminate.
  destruct (characterizeFunc te (debug_pd te) (mkCC false true)) as [dbg0|] eqn:Edbg; cbn [opt_res bindr]; [|discriminate].
  set (dbg := as_synthetic false (s_required dbg0) (s_consOpt dbg0) dbg0).
  match goal with |- context [bindr ?IL _] => destruct IL as [il|e|e] eqn:Eil end; cbn [bindr]; try discriminate.
  assert (Hba : Forall (fun s => nonrun_s s = true) (fst ba)).
  { unfold characterize_and_flatten in Eba. destruct ba as [a b]. eapply char_loop_nonrun; [|exact Eba]. constructor. }
  assert (Hdbg : nonrun_s dbg = true) by (apply (mustcache_nonrun te (debug_pd te) _ dbg0 eq_refl Edbg)).
  assert (Hil : Forall (fun s => nonrun_s s = true) il).
  { destruct (bc_init c) as [ipd|].
    - destruct (characterizeInitInvoke te ipd (mkCC false true)) as [s|] eqn:Es; cbn [opt_res bindr] in Eil; [|discriminate].
      injection Eil as <-. constructor; [apply (invoke_table_group te ipd _ s Es)|constructor].
    - injection Eil as <-. constructor. }
  destruct (invoke_table_group te _ _ _ Einv) as [Hinvnr Hinvc].
  specialize (Hinvc (invoke_not_init te _ _ _ Einv)).
  set (X0 := [dbg] ++ il ++ fst ba).
  assert (HX0 : Forall (fun s => nonrun_s s = true) X0).
  { unfold X0. apply Forall_app. split; [constructor; [exact Hdbg|constructor]|]. apply Forall_app. split; assumption. }
  assert (Efuncs : [dbg] ++ il ++ fst ba ++ [invS] ++ snd ba = X0 ++ invS :: snd ba).
  { unfold X0. rewrite <- !app_assoc. reflexivity. }
  rewrite Efuncs.
  match goal with |- context [bindr ?F1 _] => destruct F1 as [f1|e|e] eqn:Ef1 end; cbn [bindr]; try discriminate.
  assert (H1 : exists X, f1 = X ++ invS :: snd ba /\ Forall (fun s => nonrun_s s = true) X).
  { destruct (existsb _ (X0 ++ invS :: snd ba)) in Ef1.
    - destruct (characterizeFunc te (unused_in_pd te) (mkCC false true)) as [u|] eqn:Eu; cbn [opt_res bindr] in Ef1; [|discriminate].
      injection Ef1 as <-. exists (as_synthetic true (s_required u) (Some [te_unusedT te]) u :: X0). split; [reflexivity|].
      constructor; [|exact HX0]. apply (mustcache_nonrun te (unused_in_pd te) _ u eq_refl Eu).
    - injection Ef1 as <-. exists X0. split; [reflexivity|exact HX0]. }
  destruct H1 as (X & -> & HX).
  match goal with |- context [bindr ?F2 _] => destruct F2 as [f2|e|e] eqn:Ef2 end; cbn [bindr]; try discriminate.
  intros H. injection H as <-. rewrite map_map. cbn [mk_prov p_s]. rewrite map_id.
  assert (Hsd : s_d invS = bc_invoke c) by (eapply classify_sd; exact Einv).
  destruct (existsb _ _) in Ef2; [|injection Ef2 as <-; left; exists X, invS, (snd ba); auto].
  destruct (characterizeFunc te (unused_ret_pd te) (mkCC false true)) as [u|] eqn:Eu; cbn [opt_res bindr] in Ef2; [|discriminate].
  injection Ef2 as <-. set (u' := as_synthetic true false (Some [te_unusedT te]) u).
  destruct (snd ba) as [|y Y] eqn:Esb.
  - (* no per-invocation provider at all: no final function *)
    right. rewrite app_length. cbn [length]. replace (length X + 1 - 1) with (length X + 0) by lia.
    rewrite insert_at_app. cbn [insert_at]. apply Forall_app. split.
    + eapply Forall_impl; [|exact HX]. intros s Hs. unfold nonrun_s in Hs. unfold nonfinal_s.
      apply negb_true_iff, orb_false_iff in Hs. destruct Hs as [_ Hs]. rewrite Hs. reflexivity.
    + constructor; [apply (notlast_nonfinal te (unused_ret_pd te) u true Eu)|]. constructor; [|constructor].
      unfold nonrun_s in Hinvnr. unfold nonfinal_s. apply negb_true_iff, orb_false_iff in Hinvnr. destruct Hinvnr as [_ Hs]. rewrite Hs. reflexivity.
  - left. exists X, invS. rewrite app_length. cbn [length].
    replace (length X + S (S (length Y)) - 1) with (length X + S (length Y)) by lia.
    rewrite insert_at_app. cbn [insert_at]. eexists. split; [reflexivity|]. split; [assumption|]. split; assumption.
Qed.

Lemma compiled_back te dn up : forall inc cps, Forall2 (compiled te dn up) inc cps ->
  forall pc, In pc cps -> exists pz, In pz inc /\ fst pc = fst pz.
Proof.
  intros inc cps H. induction H as [|pz pc inc' cps' [H1 _] _ IH]; intros q Hq; [destruct Hq|].
  destruct Hq as [<-|Hq]; [exists pz; split; [left; reflexivity|exact H1]|].
  destruct (IH q Hq) as (z & Hz & E). exists z. split; [right; exact Hz|exact E].
Qed.

Lemma nth_opt_mapf {A B} (f : A -> B) : forall l k, nth_opt k (map f l) = option_map f (nth_opt k l).
Proof. induction l as [|x r IH]; intros [|k]; simpl; try reflexivity. apply IH. Qed.

Lemma nth_opt_app_at {A} (X : list A) x Y : nth_opt (length X) (X ++ x :: Y) = Some x.
Proof. induction X as [|y r IH]; simpl; [reflexivity|exact IH]. Qed.

Lemma nth_opt_app_lt {A} (X : list A) Y k : k < length X -> nth_opt k (X ++ Y) = nth_opt k X.
Proof. revert k. induction X as [|y r IH]; intros k Hk; simpl in Hk; [lia|]. destruct k; simpl; [reflexivity|]. apply IH. lia. Qed.

Lemma in_firstn_pos {A} (x : A) : forall n l, In x (firstn n l) -> exists k, k < n /\ nth_opt k l = Some x.
Proof.
  induction n as [|n IH]; intros l H; [destruct H|]. destruct l as [|y r]; [destruct H|].
  cbn [firstn] in H. destruct H as [<-|H]; [exists 0; split; [lia|reflexivity]|].
  destruct (IH r H) as (k & Hk & E). exists (S k). split; [lia|exact E].
Qed.

Theorem runs_after_invoke_no_reorder c pl b f0 :
  bind_chain c = Ok (pl, b) -> assemble c = Ok f0 -> existsb is_reorder f0 = false ->
  runs_after_invoke pl = true.
Proof.
  intros Hb Ha Hr. pose proof (bind_chain_plan c pl b Hb) as Hp.
  assert (Hfuncs : map p_s (pl_funcs pl) = map p_s f0 /\ find_class ClInvoke (pl_funcs pl) 0 = Some (pl_invokeIndex pl)).
  { unfold plan_of in Hp. rewrite Ha in Hp. cbn [bindr] in Hp.
    assert (Er : reorder_funcs (bc_te c) f0 = Ok f0) by (unfold reorder_funcs; rewrite Hr; reflexivity).
    rewrite Er in Hp. cbn [bindr] in Hp.
    destruct (select (bc_te c) f0) as [funcs|e|e] eqn:Es; cbn [bindr] in Hp; try discriminate.
    destruct (find_class ClInvoke funcs 0) as [ii|] eqn:Ei; cbn [opt_res bindr] in Hp; try discriminate.
    destruct (negb (check_shadowing (bc_te c) funcs)); [discriminate|].
    destruct (negb (init_bypass_ok funcs (sl_down0 (allocate_slots funcs ii)))); [discriminate|].
    injection Hp as <-. cbn [pl_funcs pl_invokeIndex]. split; [apply (select_preserves _ _ _ Es)|exact Ei]. }
  destruct Hfuncs as [Hs Hfc]. set (funcs := pl_funcs pl) in *. set (ii := pl_invokeIndex pl) in *.
  destruct (assemble_layout c f0 Ha) as [(X & invS & Y & El & HX & Hc & _)|Hnf].
  - rewrite <- Hs in El.
    assert (Hii : ii <= length X).
    { pose proof (nth_opt_app_at X invS Y) as Hn. rewrite <- El, nth_opt_mapf in Hn.
      destruct (nth_opt (length X) funcs) as [p|] eqn:Ep; [|discriminate Hn]. cbn [option_map] in Hn. injection Hn as Hn.
      destruct (find_class_first _ _ _ _ Hfc) as [_ Hfirst]. apply (Hfirst (length X) p Ep).
      unfold p_class. rewrite Hn, Hc. reflexivity. }
    unfold runs_after_invoke. fold funcs ii. apply forallb_forall. intros p Hp'.
    destruct (in_firstn_pos p ii funcs Hp') as (k & Hk & Ek).
    assert (Hps : nth_opt k X = Some (p_s p)).
    { rewrite <- (nth_opt_app_lt X (invS :: Y)) by lia. rewrite <- El, nth_opt_mapf, Ek. reflexivity. }
    rewrite Forall_forall in HX. specialize (HX (p_s p) (getp_in _ _ _ Hps)).
    unfold nonrun_s in HX. unfold p_group. apply negb_true_iff in HX. rewrite HX. rewrite andb_false_r. reflexivity.
  - (* no final function: the chain does not bind *)
    exfalso. unfold bind_chain in Hb. rewrite Hp in Hb. cbn [bindr] in Hb.
    destruct (compile_all (bc_te c) (sl_down (pl_slots pl)) (sl_up (pl_slots pl)) (sl_funcs (pl_slots pl))) as [cps|] eqn:Ec;
      cbn [opt_res bindr] in Hb; [|discriminate].
    destruct (of_group GFinal cps) as [|fin [|? ?]] eqn:Efin; try discriminate.
    unfold of_group in Efin.
    destruct (filter (fun pc : prov * cp => group_eqb (p_group (fst pc)) GFinal) cps) as [|pc rest] eqn:Ef; [discriminate|].
    assert (Hpc : In pc cps /\ group_eqb (p_group (fst pc)) GFinal = true).
    { assert (H : In pc (pc :: rest)) by (left; reflexivity). rewrite <- Ef in H. apply filter_In in H. exact H. }
    destruct Hpc as [Hpc Hg].
    destruct (compiled_back _ _ _ _ _ (compile_all_spec _ _ _ _ _ Ec) pc Hpc) as (pz & Hpz & Efst).
    apply filter_In in Hpz. destruct Hpz as [Hpz _].
    destruct (plan_listq c pl Hp) as (_ & Hsl & _).
    assert (Hin : In (fst pz) funcs).
    { unfold funcs. rewrite <- (allocate_slots_funcs (pl_funcs pl) (pl_invokeIndex pl)), <- Hsl. apply in_map, Hpz. }
    rewrite <- Hs in Hnf. rewrite Forall_forall in Hnf. specialize (Hnf _ (in_map p_s _ _ Hin)).
    unfold nonfinal_s in Hnf. rewrite Efst in Hg. unfold p_group in Hg. rewrite Hg in Hnf. discriminate Hnf.
Qed.
Print Assumptions runs_after_invoke_no_reorder.

(* ---------- cases without Reorder annotations ---------- *)
Definition nre (s : sprov) : Prop := d_reorder (s_d s) = false.

Lemma char_one_sd te d l lf ns s : char_one te d l lf ns = Some s -> s_d s = d.
Proof.
  unfold char_one. destruct (characterizeFunc te d (mkCC l true)) as [s0|] eqn:E0; [|discriminate].
  destruct (group_eqb (s_group s0) GStatic && existsb (tainted_in lf ns) (fl (f_in (s_flows s0)))).
  - apply classify_sd.
  - intros H. injection H as <-. eapply classify_sd. exact E0.
Qed.

Lemma char_loop_nre te lf : forall l ns a b ra rb,
  (forall d, In d l -> d_reorder d = false) -> Forall nre a -> Forall nre b ->
  char_loop te l lf ns a b = Ok (ra, rb) -> Forall nre ra /\ Forall nre rb.
Proof.
  induction l as [|d r IH]; intros ns a b ra rb Hl Ha Hb H; cbn [char_loop] in H.
  - injection H as <- <-. split; apply Forall_rev; assumption.
  - destruct (char_one te d match r with [] => true | _ :: _ => false end lf ns) as [s|] eqn:E1; [|discriminate].
    assert (Hs : nre s) by (unfold nre; rewrite (char_one_sd _ _ _ _ _ _ E1); apply Hl; left; reflexivity).
    assert (Hl' : forall d', In d' r -> d_reorder d' = false) by (intros d' Hd'; apply Hl; right; exact Hd').
    destruct (s_group s); try discriminate H;
      (eapply IH; [exact Hl'| | |exact H]); try assumption; constructor; assumption.
Qed.

Lemma split_last_final_eq : forall l pre f post, split_last_final l = Some (pre, f, post) -> l = pre ++ f :: post.
Proof.
  induction l as [|x r IH]; intros pre f post H; cbn [split_last_final] in H; [discriminate|].
  destruct (split_last_final r) as [[[pre' f'] post']|] eqn:E.
  - injection H as <- <- <-. cbn [app]. f_equal. apply IH. reflexivity.
  - destruct (d_nonFinal x); [discriminate|]. injection H as <- <- <-. reflexivity.
Qed.

Lemma reorder_nonfinal_in l d : In d (reorder_nonfinal l) -> In d l.
Proof.
  unfold reorder_nonfinal. destruct (split_last_final l) as [[[pre f] post]|] eqn:E; [|auto].
  rewrite (split_last_final_eq _ _ _ _ E). intros H. apply in_app_or in H. apply in_or_app.
  destruct H as [H|H]; [left; exact H|]. right. apply in_app_or in H. destruct H as [H|[<-|[]]]; [right; exact H|left; reflexivity].
Qed.

Lemma apply_edits_in l r d : apply_edits l = Ok r -> In d r -> exists d0, In d0 l /\ d = erase_names d0.
Proof.
  unfold apply_edits. destruct (edits _) as [res|e]; [|discriminate]. intros H. injection H as <-. intros Hd.
  apply in_map_iff in Hd. destruct Hd as (d0 & <- & Hd0). apply in_flat_map in Hd0. destruct Hd0 as (n & _ & Hn).
  destruct (nth_opt (eid n) l) as [x|] eqn:E; [|destruct Hn]. destruct Hn as [<-|[]].
  exists x. split; [eapply getp_in; exact E|reflexivity].
Qed.

Definition plain_case (c : bcase) : bool :=
  forallb (fun d => negb (d_reorder d)) (bc_provs c) && negb (d_reorder (bc_invoke c)) &&
  match bc_init c with None => true | Some i => negb (d_reorder i) end.

Lemma assemble_no_reorder c f0 : assemble c = Ok f0 ->
  forallb (fun d => negb (d_reorder d)) (bc_provs c) = true -> d_reorder (bc_invoke c) = false ->
  (forall i, bc_init c = Some i -> d_reorder i = false) -> existsb is_reorder f0 = false.
Proof.
  intros Ha Hprovs Hinvk Hini.
  assert (HF : Forall (fun p => is_reorder p = false) f0); [|].
  2:{ destruct (existsb is_reorder f0) eqn:E; [|reflexivity]. apply existsb_exists in E. destruct E as (p & Hp & E).
      rewrite Forall_forall in HF. rewrite (HF p Hp) in E. discriminate E. }
  revert Ha. unfold assemble. set (te := bc_te c).
  destruct (characterizeInitInvoke te (bc_invoke c) (mkCC false false)) as [invS|] eqn:Einv; cbn [opt_res bindr]; [|discriminate].
  destruct (apply_edits (bc_provs c)) as [provs|e|e] eqn:Eed; cbn [bindr]; try discriminate.
  destruct (characterize_and_flatten te provs (fl (f_out (s_flows invS)))) as [ba|e|e] eqn:Eba; cbn [bindr]; try discriminate.
  destruct (characterizeFunc te (debug_pd te) (mkCC false true)) as [dbg0|] eqn:Edbg; cbn [opt_res bindr]; [|discriminate].
  set (dbg := as_synthetic false (s_required dbg0) (s_consOpt dbg0) dbg0).
  match goal with |- context [bindr ?IL _] => destruct IL as [il|e|e] eqn:Eil end; cbn [bindr]; try discriminate.
  assert (Hba : Forall nre (fst ba) /\ Forall nre (snd ba)).
  { unfold characterize_and_flatten in Eba. destruct ba as [a b]. eapply char_loop_nre; [| | |exact Eba]; try constructor.
    intros d Hd. apply reorder_nonfinal_in in Hd. destruct (apply_edits_in _ _ d Eed Hd) as (d0 & Hd0 & ->).
    cbn [erase_names d_reorder]. rewrite forallb_forall in Hprovs. apply negb_true_iff, Hprovs, Hd0. }
  destruct Hba as [Hba1 Hba2].
  assert (Hdbg : nre dbg) by (unfold nre, dbg; cbn [as_synthetic s_d]; rewrite (classify_sd _ _ _ _ _ Edbg); reflexivity).
  assert (Hinv : nre invS) by (unfold nre; rewrite (classify_sd _ _ _ _ _ Einv); exact Hinvk).
  assert (Hil : Forall nre il).
  { destruct (bc_init c) as [ipd|] eqn:Ei.
    - destruct (characterizeInitInvoke te ipd (mkCC false true)) as [s|] eqn:Es; cbn [opt_res bindr] in Eil; [|discriminate].
      injection Eil as <-. constructor; [|constructor]. unfold nre. rewrite (classify_sd _ _ _ _ _ Es). apply Hini. reflexivity.
    - injection Eil as <-. constructor. }
  assert (Hfuncs : Forall nre ([dbg] ++ il ++ fst ba ++ [invS] ++ snd ba)).
  { repeat (apply Forall_app; split); try assumption; constructor; try assumption; constructor. }
  match goal with |- context [bindr ?F1 _] => destruct F1 as [f1|e|e] eqn:Ef1 end; cbn [bindr]; try discriminate.
  assert (H1 : Forall nre f1).
  { destruct (existsb _ _) in Ef1.
    - destruct (characterizeFunc te (unused_in_pd te) (mkCC false true)) as [u|] eqn:Eu; cbn [opt_res bindr] in Ef1; [|discriminate].
      injection Ef1 as <-. constructor; [|exact Hfuncs]. unfold nre. cbn [as_synthetic s_d]. rewrite (classify_sd _ _ _ _ _ Eu). reflexivity.
    - injection Ef1 as <-. exact Hfuncs. }
  match goal with |- context [bindr ?F2 _] => destruct F2 as [f2|e|e] eqn:Ef2 end; cbn [bindr]; try discriminate.
  assert (H2 : Forall nre f2).
  { destruct (existsb _ _) in Ef2.
    - destruct (characterizeFunc te (unused_ret_pd te) (mkCC false true)) as [u|] eqn:Eu; cbn [opt_res bindr] in Ef2; [|discriminate].
      injection Ef2 as <-. eapply Permutation_Forall; [apply Permutation_sym, insert_at_perm|].
      constructor; [|exact H1]. unfold nre. cbn [as_synthetic s_d]. rewrite (classify_sd _ _ _ _ _ Eu). reflexivity.
    - injection Ef2 as <-. exact H1. }
  intros H. injection H as <-. apply Forall_map. eapply Forall_impl; [|exact H2]. intros s Hs. exact Hs.
Qed.

(* The headline: for every case without Reorder annotations, a chain that binds runs - for every
   provider behaviour, world and session - exactly as the reference semantics of its plan.  No
   hypothesis is left to be validated on the case. *)
Theorem chain_refines_plain :
  forall (c : bcase) (pl : plan) (b : bound),
    plain_case c = true -> bind_chain c = Ok (pl, b) ->
    exists sp, splan_of (bc_te c) pl = Some sp /\
    forall (W : Type) (beh_fn : nat -> W -> list val -> W * list val)
           (beh_wrap : nat -> W -> list val -> wtree W) (steps : list step) (w0 : W),
      let m := run_session W beh_fn beh_wrap b (mkSess W w0 (bd_base0 b) false true) steps in
      let s := sem_session W beh_fn beh_wrap (te_errorT (bc_te c)) sp
                           (mkSsess W w0 (base_env (pl_slots pl) (bd_base0 b)) false true) steps in
      snd m = snd s /\ ss_w W (fst m) = sq_w W (fst s).
Proof.
  intros c pl b Hpc Hb. unfold plain_case in Hpc.
  apply andb_true_iff in Hpc. destruct Hpc as [Hpc Hni]. apply andb_true_iff in Hpc. destruct Hpc as [Hprovs Hinvk].
  apply negb_true_iff in Hinvk.
  pose proof (bind_chain_plan c pl b Hb) as Hp.
  destruct (assemble c) as [f0|e|e] eqn:Ea; [|unfold plan_of in Hp; rewrite Ea in Hp; discriminate Hp..].
  apply (chain_refines_bound c pl b Hb).
  apply (runs_after_invoke_no_reorder c pl b f0 Hb Ea). apply (assemble_no_reorder c f0 Ea Hprovs Hinvk).
  intros i Hi. rewrite Hi in Hni. apply negb_true_iff in Hni. exact Hni.
Qed.
Print Assumptions chain_refines_plain.

Theorem run_safe_plain :
  forall (c : bcase) (pl : plan) (b : bound),
    plain_case c = true -> bind_chain c = Ok (pl, b) ->
    forall (W : Type) (beh_fn : nat -> W -> list val -> W * list val)
           (beh_wrap : nat -> W -> list val -> wtree W) (steps : list step) (w0 : W),
      ~ In RPanic (snd (run_session W beh_fn beh_wrap b (mkSess W w0 (bd_base0 b) false true) steps)).
Proof.
  intros c pl b Hpc Hb. pose proof Hpc as Hpc'. unfold plain_case in Hpc.
  apply andb_true_iff in Hpc. destruct Hpc as [Hpc Hni]. apply andb_true_iff in Hpc. destruct Hpc as [Hprovs Hinvk].
  apply negb_true_iff in Hinvk.
  pose proof (bind_chain_plan c pl b Hb) as Hp.
  destruct (assemble c) as [f0|e|e] eqn:Ea; [|unfold plan_of in Hp; rewrite Ea in Hp; discriminate Hp..].
  apply (run_safe_bound c pl b Hb).
  apply (runs_after_invoke_no_reorder c pl b f0 Hb Ea). apply (assemble_no_reorder c f0 Ea Hprovs Hinvk).
  intros i Hi. rewrite Hi in Hni. apply negb_true_iff in Hni. exact Hni.
Qed.
