(* A function that returns a TerminalError is never classified as an ordinary injector: whenever
   the prototype of an ordinary (static or per-invocation) injector matches it, an earlier
   prototype of a fallible injector asks for nothing more, so that one is chosen.  The check is a
   computation on the table GENERATED from /repo/characterize.go. *)
From Coq Require Import List Arith Bool.
Import ListNotations.
From NJ Require Import Base Registry Classify.

Scheme Equality for predT.

Definition is_rte (t : predT) : bool := match t with P_returnsTerminalError => true | _ => false end.
Definition plain_producer (c : classT) : bool := match c with ClInjector | ClStatic => true | _ => false end.
Definition fallible_class (c : classT) : bool := match c with ClFallible | ClFallibleStatic => true | _ => false end.

(* every test of e0 is "returns a TerminalError" or a test of e *)
Definition asks_no_more (e0 e : entry) : bool :=
  forallb (fun t => is_rte t || existsb (predT_beq t) (e_tests e)) (e_tests e0).

Fixpoint te_check (earlier reg : list entry) : bool :=
  match reg with
  | [] => true
  | e :: r =>
    (if plain_producer (e_class e)
     then existsb (fun e0 => fallible_class (e_class e0) && asks_no_more e0 e) earlier
     else true) && te_check (earlier ++ [e]) r
  end.

Lemma handler_te_check : te_check [] handlerRegistry = true.
Proof. vm_compute. reflexivity. Qed.

Lemma te_reg te d cc s : memb (te_terminalT te) (typesOut (d_shape d)) = true ->
  forall reg earlier, te_check earlier reg = true ->
    (forall e0, In e0 earlier -> forallb (pred_holds te d cc) (e_tests e0) = false) ->
    classify_reg te reg d cc = Some s -> plain_producer (s_class s) = false.
Proof.
  intros Hte. induction reg as [|e r IH]; intros earlier Hc Hearlier H; cbn [classify_reg] in H; [discriminate|].
  cbn [te_check] in Hc. apply andb_true_iff in Hc. destruct Hc as [Hce Hcr].
  destruct (forallb (pred_holds te d cc) (e_tests e)) eqn:Em.
  - injection H as <-. cbn [apply_entry s_class].
    destruct (plain_producer (e_class e)) eqn:Ep; [|reflexivity]. exfalso.
    apply existsb_exists in Hce. destruct Hce as (e0 & Hin & Hfa). apply andb_true_iff in Hfa. destruct Hfa as [_ Hask].
    specialize (Hearlier e0 Hin).
    assert (Hall : forallb (pred_holds te d cc) (e_tests e0) = true).
    { apply forallb_forall. intros t Ht. unfold asks_no_more in Hask. rewrite forallb_forall in Hask. specialize (Hask t Ht).
      apply orb_true_iff in Hask. destruct Hask as [Hr|Hr].
      - destruct t; try discriminate Hr. cbn [pred_holds]. exact Hte.
      - apply existsb_exists in Hr. destruct Hr as (t' & Ht' & Heq). apply internal_predT_dec_bl in Heq. subst t'.
        rewrite forallb_forall in Em. apply Em, Ht'. }
    congruence.
  - apply (IH (earlier ++ [e]) Hcr); [|exact H].
    intros e0 Hin. apply in_app_or in Hin. destruct Hin as [Hin|[<-|[]]]; [apply Hearlier, Hin|exact Em].
Qed.

Theorem terminal_error_never_plain te d cc s :
  characterizeFunc te d cc = Some s -> memb (te_terminalT te) (typesOut (d_shape d)) = true ->
  plain_producer (s_class s) = false.
Proof.
  intros H Hte. unfold characterizeFunc, classify_in in H.
  assert (Hc : classify_reg te handlerRegistry d cc = Some s) by (destruct (d_shape d); try discriminate H; exact H).
  apply (te_reg te d cc s Hte handlerRegistry [] handler_te_check); [intros e0 []|exact Hc].
Qed.
Print Assumptions terminal_error_never_plain.
