(* C20: Curry's argument maps, SaveTo, MakeStructBuilder's field mapping. *)
From Coq Require Import List Arith Bool Lia Permutation.
Import ListNotations.
From NJ Require Import Base Generated.

(* ---------- small list facts ---------- *)
Lemma nth_opt_app1 {A} (l r : list A) k x : nth_opt k l = Some x -> nth_opt k (l ++ r) = Some x.
Proof.
  revert k. induction l as [|y l IH]; intros k H; destruct k; simpl in *; try discriminate; auto.
Qed.

Lemma nth_opt_len {A} (l : list A) x : nth_opt (length l) (l ++ [x]) = Some x.
Proof. induction l as [|y l IH]; simpl; auto. Qed.

Lemma nth_opt_nth {A} (l : list A) k x d : nth_opt k l = Some x -> nth k l d = x.
Proof.
  revert k. induction l as [|y l IH]; intros k H; destruct k; simpl in *; try discriminate; [congruence|auto].
Qed.

Lemma nth_opt_map_some {A B} (f : A -> B) (l : list A) k x : nth_opt k l = Some x -> nth_opt k (map f l) = Some (f x).
Proof.
  revert k. induction l as [|y l IH]; intros k H; destruct k; simpl in *; try discriminate; [congruence|auto].
Qed.

Lemma map_nth_opt {A B} (f : A -> B) (l : list A) k y : nth_opt k (map f l) = Some y -> exists x, nth_opt k l = Some x /\ f x = y.
Proof.
  revert k. induction l as [|z l IH]; intros k H; destruct k; simpl in *; try discriminate.
  - injection H as <-. eauto.
  - auto.
Qed.

Lemma positions_spec t l : forall i cp, In cp (positions t l i) -> i <= cp /\ nth_opt (cp - i) l = Some t.
Proof.
  induction l as [|x r IH]; intros i cp H; simpl in H; [destruct H|].
  destruct (x =? t) eqn:E.
  - destruct H as [<-|H].
    + split; [lia|]. rewrite Nat.sub_diag. simpl. apply Nat.eqb_eq in E. congruence.
    + apply IH in H. destruct H as [H1 H2]. split; [lia|].
      replace (cp - i) with (S (cp - S i)) by lia. simpl. exact H2.
  - apply IH in H. destruct H as [H1 H2]. split; [lia|].
    replace (cp - i) with (S (cp - S i)) by lia. simpl. exact H2.
Qed.

Lemma positions_nil_notin t l i : positions t l i = [] -> ~ In t l.
Proof.
  revert i. induction l as [|x r IH]; intros i H; simpl in *; [tauto|].
  destruct (x =? t) eqn:E; [discriminate|]. apply Nat.eqb_neq in E.
  intros [Hx|Hr]; [congruence|exact (IH _ H Hr)].
Qed.

Lemma nth_opt_In {A} (l : list A) k x : nth_opt k l = Some x -> In x l.
Proof.
  revert k. induction l as [|y l IH]; intros k H; destruct k; simpl in *; try discriminate.
  - left. congruence.
  - right. eauto.
Qed.

Lemma firstn_S_nth {A} (l : list A) c x : nth_opt c l = Some x -> firstn (S c) l = firstn c l ++ [x].
Proof.
  revert c. induction l as [|y l IH]; intros c H; destruct c; simpl in *; try discriminate.
  - injection H as <-. reflexivity.
  - f_equal. apply IH, H.
Qed.

Lemma count_incr_same t used : count_of t (incr_of t used) = S (count_of t used).
Proof.
  induction used as [|[k c] r IH]; simpl; [rewrite Nat.eqb_refl; reflexivity|].
  destruct (k =? t) eqn:E; simpl; rewrite E; [reflexivity|exact IH].
Qed.

Lemma count_incr_other t u used : t <> u -> count_of t (incr_of u used) = count_of t used.
Proof.
  intros Hn. induction used as [|[k c] r IH]; simpl.
  - destruct (u =? t) eqn:E; [apply Nat.eqb_eq in E; congruence|reflexivity].
  - destruct (k =? u) eqn:E; simpl.
    + destruct (k =? t) eqn:E2; [|reflexivity]. apply Nat.eqb_eq in E, E2. congruence.
    + destruct (k =? t); [reflexivity|exact IH].
Qed.

Lemma memb_In' x l : memb x l = true <-> In x l.
Proof.
  induction l as [|y l IH]; simpl; [split; [discriminate|tauto]|].
  rewrite orb_true_iff, IH, Nat.eqb_eq. split; intros [H|H]; auto.
Qed.

Lemma NoDup_app_intro_single {A} (l : list A) x : NoDup l -> ~ In x l -> NoDup (l ++ [x]).
Proof.
  induction l as [|y l IH]; intros Hn Hx; simpl; [constructor; [tauto|constructor]|].
  inversion Hn as [|y' l' Hy Hl]; subst. constructor.
  - intros Hin. apply in_app_or in Hin. destruct Hin as [Hin|[->|[]]]; [exact (Hy Hin)|apply Hx; left; reflexivity].
  - apply IH; [exact Hl|]. intros Hin. apply Hx. right. exact Hin.
Qed.

Lemma Forall2_impl' {A B} (P Q : A -> B -> Prop) l1 l2 :
  (forall a b, P a b -> Q a b) -> Forall2 P l1 l2 -> Forall2 Q l1 l2.
Proof. intros H F. induction F; constructor; auto. Qed.

(* ---------- Curry ---------- *)
Section Curry.
  Variable cur : list nat.

  Definition src_type (curried : list nat) (s : csrc) : option nat :=
    match s with SInj k => nth_opt k curried | SPass cp => nth_opt cp cur end.

  Definition passes (srcs : list csrc) : list nat :=
    flat_map (fun s => match s with SPass cp => [cp] | SInj _ => [] end) srcs.
  Definition has_type (t : nat) (cp : nat) : bool :=
    match nth_opt cp cur with Some x => x =? t | None => false end.

  Record cinv (done : list nat) (used : list (nat * nat)) (curried : list nat) (srcs : list csrc) : Prop := {
    ci_typed : Forall2 (fun s t => src_type curried s = Some t) srcs done;
    ci_nodup : NoDup curried;
    ci_notcur : forall t, In t curried -> ~ In t cur;
    ci_order : forall t, filter (has_type t) (passes srcs) = firstn (count_of t used) (positions t cur 0)
  }.

  Lemma passes_app a b : passes (a ++ b) = passes a ++ passes b.
  Proof. unfold passes. apply flat_map_app. Qed.

  Lemma src_type_mono curried x s t : src_type curried s = Some t -> src_type (curried ++ [x]) s = Some t.
  Proof. destruct s as [k|cp]; simpl; [apply nth_opt_app1|auto]. Qed.

  Lemma curry_loop_inv orig : forall done used curried srcs curried' srcs' used',
    cinv done used curried srcs ->
    curry_loop cur orig used curried srcs = Some (curried', srcs', used') ->
    cinv (done ++ orig) used' curried' srcs'.
  Proof.
    induction orig as [|t r IH]; intros done used curried srcs curried' srcs' used' Hinv H; cbn [curry_loop] in H.
    - injection H as <- <- <-. rewrite app_nil_r. exact Hinv.
    - destruct Hinv as [Ht Hn Hc Ho].
      replace (done ++ t :: r) with ((done ++ [t]) ++ r) by (rewrite <- app_assoc; reflexivity).
      destruct (positions t cur 0) as [|p0 pl] eqn:EP.
      + destruct (memb t curried) eqn:EM; [discriminate|].
        apply (IH (done ++ [t]) used (curried ++ [t]) (srcs ++ [SInj (length curried)])); [|exact H].
        constructor.
        * apply Forall2_app.
          -- eapply Forall2_impl'; [|exact Ht]. intros s x Hs. apply src_type_mono, Hs.
          -- constructor; [|constructor]. simpl. apply nth_opt_len.
        * apply NoDup_app_intro_single; [exact Hn|].
          intros Hin. apply (proj2 (memb_In' t curried)) in Hin. congruence.
        * intros x Hx. apply in_app_or in Hx. destruct Hx as [Hx|[<-|[]]]; [apply Hc, Hx|].
          apply (positions_nil_notin _ _ _ EP).
        * intros x. rewrite passes_app. simpl. rewrite app_nil_r. apply Ho.
      + destruct (nth_opt (count_of t used) (p0 :: pl)) as [cp|] eqn:EN; [|discriminate].
        apply (IH (done ++ [t]) (incr_of t used) curried (srcs ++ [SPass cp])); [|exact H].
        assert (Hcp : nth_opt cp cur = Some t).
        { pose proof (nth_opt_In _ _ _ EN) as Hin. rewrite <- EP in Hin.
          apply positions_spec in Hin. rewrite Nat.sub_0_r in Hin. apply Hin. }
        constructor.
        * apply Forall2_app; [exact Ht|]. constructor; [|constructor]. simpl. exact Hcp.
        * exact Hn.
        * exact Hc.
        * intros x. rewrite passes_app, filter_app. simpl. unfold has_type at 2. rewrite Hcp.
          destruct (t =? x) eqn:E.
          -- apply Nat.eqb_eq in E. subst x. rewrite count_incr_same, Ho.
             rewrite EP. symmetry. apply firstn_S_nth, EN.
          -- apply Nat.eqb_neq in E. rewrite count_incr_other by congruence. rewrite app_nil_r. apply Ho.
  Qed.
End Curry.

(* every parameter of the original function gets a value of its own type: the injected value of
   that type, or an argument of the curried function of that type *)
Theorem curry_typed is_func orig cur p :
  curry_plan is_func orig cur = Some p ->
  Forall2 (fun s t => src_type cur (cp_curried p) s = Some t) (cp_srcs p) orig.
Proof.
  unfold curry_plan. destruct (length orig <=? length cur); [discriminate|].
  destruct (curry_loop cur orig [] [] []) as [[[curried srcs] used]|] eqn:EL; [|discriminate].
  assert (I0 : cinv cur [] [] [] []).
  { constructor; [constructor|constructor|intros t []|]. intros t. simpl. reflexivity. }
  pose proof (curry_loop_inv cur orig [] [] [] [] curried srcs used I0 EL) as [Ht _ _ _]. simpl in Ht.
  destruct (negb (forallb _ cur)); [discriminate|].
  destruct curried as [|t0 cr]; [intros H; injection H as <-; exact Ht|].
  destruct (is_func t0); [discriminate|]. intros H. injection H as <-. exact Ht.
Qed.

Corollary curry_args_typed {V} (ty : V -> nat) (dflt : V) is_func orig cur p passed injected :
  curry_plan is_func orig cur = Some p ->
  map ty passed = cur -> map ty injected = cp_curried p ->
  map ty (curry_args V dflt p passed injected) = orig.
Proof.
  intros Hp Hpass Hinj. pose proof (curry_typed _ _ _ _ Hp) as HT. clear Hp.
  unfold curry_args. rewrite map_map. set (l := cp_srcs p) in *. clearbody l.
  induction HT as [|s t srcs o Hs _ IH]; simpl; [reflexivity|]. f_equal; [|exact IH].
  destruct s as [k|cp]; simpl in Hs.
  - rewrite <- Hinj in Hs. apply map_nth_opt in Hs. destruct Hs as (x & Hx & <-).
    rewrite (nth_opt_nth _ _ _ dflt Hx). reflexivity.
  - rewrite <- Hpass in Hs. apply map_nth_opt in Hs. destruct Hs as (x & Hx & <-).
    rewrite (nth_opt_nth _ _ _ dflt Hx). reflexivity.
Qed.

(* the curried-away types are pairwise different and none of them is a parameter of the curried function *)
Theorem curry_curried_distinct is_func orig cur p :
  curry_plan is_func orig cur = Some p ->
  NoDup (cp_curried p) /\ forall t, In t (cp_curried p) -> ~ In t cur.
Proof.
  unfold curry_plan. destruct (length orig <=? length cur); [discriminate|].
  destruct (curry_loop cur orig [] [] []) as [[[curried srcs] used]|] eqn:EL; [|discriminate].
  assert (I0 : cinv cur [] [] [] []).
  { constructor; [constructor|constructor|intros t []|]. intros t. simpl. reflexivity. }
  pose proof (curry_loop_inv cur orig [] [] [] [] curried srcs used I0 EL) as [_ Hn Hc _].
  destruct (negb (forallb _ cur)); [discriminate|].
  destruct curried as [|t0 cr]; [intros H; injection H as <-; split; assumption|].
  destruct (is_func t0); [discriminate|]. intros H. injection H as <-. split; assumption.
Qed.

(* the arguments of the curried function are all used, each once, and among parameters of one type
   the k-th argument of the curried function becomes the k-th such parameter of the original *)
Theorem curry_pass_order is_func orig cur p :
  curry_plan is_func orig cur = Some p ->
  forall t, In t cur -> filter (has_type cur t) (passes (cp_srcs p)) = positions t cur 0.
Proof.
  unfold curry_plan. destruct (length orig <=? length cur); [discriminate|].
  destruct (curry_loop cur orig [] [] []) as [[[curried srcs] used]|] eqn:EL; [|discriminate].
  assert (I0 : cinv cur [] [] [] []).
  { constructor; [constructor|constructor|intros t []|]. intros t. simpl. reflexivity. }
  pose proof (curry_loop_inv cur orig [] [] [] [] curried srcs used I0 EL) as [_ _ _ Ho].
  destruct (forallb (fun t => count_of t used =? length (positions t cur 0)) cur) eqn:EF; [|discriminate].
  cbn [negb]. intros H t Ht.
  assert (Hs : cp_srcs p = srcs).
  { destruct curried as [|t0 cr]; [injection H as <-; reflexivity|].
    destruct (is_func t0); [discriminate|]. injection H as <-. reflexivity. }
  rewrite Hs, Ho. rewrite forallb_forall in EF. specialize (EF t Ht). apply Nat.eqb_eq in EF.
  rewrite EF. apply firstn_all.
Qed.

(* ---------- SaveTo ---------- *)
Theorem saveto_spec is_func ptr_types ins :
  saveto_plan is_func ptr_types = Some ins -> ins = ptr_types.
Proof.
  unfold saveto_plan. destruct ptr_types as [|t r]; [intros H; injection H as <-; reflexivity|].
  destruct (is_func t); [discriminate|]. intros H. injection H as <-. reflexivity.
Qed.

(* ---------- MakeStructBuilder ---------- *)
From NJ Require Import SelectProofs.

Section FillProofs.
  Variable V : Type.
  Variable zv : nat -> V.
  Notation vt := (vtree V).

  Definition is_prefix (p q : list nat) : Prop := exists r, q = p ++ r.
  Definition incomparable (p q : list nat) : Prop := ~ is_prefix p q /\ ~ is_prefix q p.

  Lemma incomparable_sym p q : incomparable p q -> incomparable q p.
  Proof. intros [A B]. split; assumption. Qed.

  Lemma incomparable_cons i p q : incomparable (i :: p) (i :: q) -> incomparable p q.
  Proof.
    intros [A B]. split; intros [r Hr]; [apply A|apply B]; exists r; simpl; rewrite Hr; reflexivity.
  Qed.

  Lemma incomparable_diff pre i j r1 r2 : i <> j -> incomparable (pre ++ i :: r1) (pre ++ j :: r2).
  Proof.
    intros Hn. split; intros [r Hr]; rewrite <- app_assoc in Hr; apply app_inv_head in Hr; simpl in Hr; congruence.
  Qed.

  Lemma vget_vset_same : forall p (t : vt) x y, vget V p t = Some y -> vget V p (vset V p x t) = Some x.
  Proof.
    induction p as [|i p IH]; intros t x y H; simpl in *; [reflexivity|].
    destruct t as [v|l]; [discriminate|].
    destruct (nth_opt i l) as [c|] eqn:E; [|discriminate].
    rewrite (nth_opt_upd_same _ _ _ _ E). apply (IH c x y H).
  Qed.

  Lemma vget_vset_other : forall p q (t : vt) x, incomparable p q -> vget V q (vset V p x t) = vget V q t.
  Proof.
    induction p as [|i p IH]; intros q t x Hi.
    - exfalso. apply (proj1 Hi). exists q. reflexivity.
    - destruct q as [|j q].
      + exfalso. apply (proj2 Hi). exists (i :: p). reflexivity.
      + simpl. destruct t as [v|l]; [reflexivity|].
        destruct (Nat.eq_dec i j) as [->|Hn].
        * destruct (nth_opt j l) as [c|] eqn:E.
          -- rewrite (nth_opt_upd_same _ _ _ _ E). apply IH. apply (incomparable_cons j), Hi.
          -- rewrite (nth_opt_upd_none _ _ _ _ E). reflexivity.
        * rewrite (nth_opt_upd_other _ _ _ _ Hn). reflexivity.
  Qed.

  Definition fill_step (t : vt) (pv : nat * list nat * vt) : vt := vset V (snd (fst pv)) (snd pv) t.

  Lemma fill_preserves q : forall (ivs : list (nat * list nat * vt)) (t : vt),
    Forall (fun pv => incomparable (snd (fst pv)) q) ivs ->
    vget V q (fold_left fill_step ivs t) = vget V q t.
  Proof.
    induction ivs as [|pv r IH]; intros t HF; simpl; [reflexivity|].
    inversion HF as [|? ? H1 H2]; subst. rewrite (IH _ H2). unfold fill_step. apply vget_vset_other, H1.
  Qed.

  Inductive pairwise {A} (R : A -> A -> Prop) : list A -> Prop :=
  | pw_nil : pairwise R []
  | pw_cons x l : Forall (R x) l -> pairwise R l -> pairwise R (x :: l).

  (* filler.Call: every input lands at its path, nothing else changes *)
  Theorem fill_spec : forall (inputs : list (nat * list nat)) (vals : list vt) (zero : vt),
    length vals = length inputs ->
    pairwise incomparable (map snd inputs) ->
    (forall p, In p (map snd inputs) -> exists y, vget V p zero = Some y) ->
    (forall k tp v, nth_opt k inputs = Some tp -> nth_opt k vals = Some v ->
       vget V (snd tp) (fill V (mkFplan inputs []) zero vals) = Some v) /\
    (forall q, Forall (fun p => incomparable p q) (map snd inputs) ->
       vget V q (fill V (mkFplan inputs []) zero vals) = vget V q zero).
  Proof.
    unfold fill. cbn [fp_inputs].
    induction inputs as [|[t0 p0] r IH]; intros vals zero Hl Hpw Hv.
    - split; [intros k tp v H; destruct k; discriminate H|]. intros q _. reflexivity.
    - destruct vals as [|v0 vals]; [discriminate Hl|]. simpl in Hl. injection Hl as Hl.
      simpl in Hpw. inversion Hpw as [|? ? Hf Hr]; subst.
      cbn [combine fold_left snd fst].
      assert (Hv' : forall p, In p (map snd r) -> exists y, vget V p (vset V p0 v0 zero) = Some y).
      { intros p Hp. rewrite vget_vset_other.
        - apply Hv. right. exact Hp.
        - rewrite Forall_forall in Hf. apply Hf, Hp. }
      destruct (IH vals (vset V p0 v0 zero) Hl Hr Hv') as [IH1 IH2]. split.
      + intros k tp v Hk Hvk. destruct k as [|k]; simpl in Hk, Hvk.
        * injection Hk as <-. injection Hvk as <-. cbn [snd fst].
          change (fold_left (fun t pv => vset V (snd (fst pv)) (snd pv) t) (combine r vals) (vset V p0 v0 zero))
            with (fold_left fill_step (combine r vals) (vset V p0 v0 zero)).
          rewrite fill_preserves.
          -- destruct (Hv p0 (or_introl eq_refl)) as [y Hy]. apply (vget_vset_same _ _ _ _ Hy).
          -- clear -Hf Hl. revert vals Hl. induction r as [|[t1 p1] r IHr]; intros vals Hl; [constructor|].
             destruct vals as [|v1 vals]; [constructor|]. simpl in Hl. injection Hl as Hl.
             inversion Hf as [|? ? H1 H2]; subst. constructor; [apply incomparable_sym, H1|apply IHr; assumption].
        * apply (IH1 k tp v Hk Hvk).
      + intros q Hq. inversion Hq as [|? ? Hq1 Hq2]; subst. rewrite (IH2 q Hq2).
        apply vget_vset_other, Hq1.
  Qed.
End FillProofs.

Section MapFields.
  Variable V : Type.
  Variable zv : nat -> V.

  Fixpoint zero_of (ft : ftype) : vtree V :=
    match ft with
    | FLeaf t => VL V (zv t)
    | FStruct _ fields =>
      VS V ((fix zs (l : list ffield) : list (vtree V) :=
               match l with [] => [] | mkFfield _ _ _ sub :: r => zero_of sub :: zs r end) fields)
    end.

  Definition field_ft (f : ffield) : ftype := match f with mkFfield _ _ _ sub => sub end.
  Definition zero_fields (l : list ffield) : list (vtree V) := map (fun f => zero_of (field_ft f)) l.

  Lemma zero_of_struct tid fields : zero_of (FStruct tid fields) = VS V (zero_fields fields).
  Proof.
    cbn [zero_of]. f_equal. induction fields as [|[ex nm tg sub] r IH]; [reflexivity|].
    cbn [zero_fields map field_ft]. f_equal. exact IH.
  Qed.

  Definition valid_from (fields : list ffield) (i j : nat) (rest : list nat) : Prop :=
    i <= j /\ exists f, nth_opt (j - i) fields = Some f /\ exists y, vget V rest (zero_of (field_ft f)) = Some y.

  Definition under (fields : list ffield) (i : nat) (path : list nat) (tp : nat * list nat) : Prop :=
    exists j rest, snd tp = path ++ j :: rest /\ valid_from fields i j rest.

  Lemma under_lift f0 r i path tp : under r (S i) path tp -> under (f0 :: r) i path tp.
  Proof.
    intros (j & rest & E & Hle & f & Hf & Hy). exists j, rest. split; [exact E|]. split; [lia|].
    exists f. split; [|exact Hy]. replace (j - i) with (S (j - S i)) by lia. exact Hf.
  Qed.

  Lemma pairwise_app {A} (R : A -> A -> Prop) a b :
    pairwise R a -> pairwise R b -> (forall x y, In x a -> In y b -> R x y) -> pairwise R (a ++ b).
  Proof.
    induction 1 as [|x l Hx Hl IH]; intros Hb Hab; simpl; [exact Hb|]. constructor.
    - apply Forall_app. split; [exact Hx|]. apply Forall_forall. intros y Hy. apply Hab; [left; reflexivity|exact Hy].
    - apply IH; [exact Hb|]. intros x' y Hx' Hy. apply Hab; [right; exact Hx'|exact Hy].
  Qed.

  Lemma cross_incomparable fields1 i path (a b : list (nat * list nat)) :
    Forall (fun tp => exists rest, snd tp = path ++ i :: rest) a ->
    Forall (under fields1 (S i) path) b ->
    forall x y, In x (map snd a) -> In y (map snd b) -> incomparable x y.
  Proof.
    intros Ha Hb x y Hx Hy. apply in_map_iff in Hx. destruct Hx as (tx & <- & Hx).
    apply in_map_iff in Hy. destruct Hy as (ty & <- & Hy).
    rewrite Forall_forall in Ha, Hb. destruct (Ha _ Hx) as (r1 & ->).
    destruct (Hb _ Hy) as (j & r2 & -> & Hle & _). apply incomparable_diff. lia.
  Qed.
  Arguments cross_incomparable : clear implicits.

  Lemma mf_spec : forall fuel acts ptr fields i path acc acc',
    map_fields fuel acts ptr fields i path acc = Some acc' ->
    exists new, fp_inputs acc' = fp_inputs acc ++ new /\
      Forall (under fields i path) new /\ pairwise incomparable (map snd new).
  Proof.
    induction fuel as [|fuel IH]; intros acts ptr fields i path acc acc' H; [discriminate H|].
    cbn [map_fields] in H.
    destruct fields as [|[ex name tags ft] r].
    { injection H as <-. exists []. rewrite app_nil_r. repeat split; constructor. }
    destruct (negb ex).
    { destruct (IH _ _ _ _ _ _ _ H) as (new & E & HF & HP). exists new. split; [exact E|]. split; [|exact HP].
      eapply Forall_impl; [|exact HF]. intros tp. apply under_lift. }
    destruct (tags_loop acts (path ++ [i]) ft tags _) as [st1|]; [|discriminate].
    destruct (handle_actions (path ++ [i]) ft _ st1) as [st2|]; [|discriminate].
    destruct (handle_actions (path ++ [i]) ft _ st2) as [st3|]; [|discriminate].
    set (acc1 := mkFplan (fp_inputs acc) (fp_acts acc ++ fs_acts st3)) in *.
    assert (Hhere : forall tc, under (mkFfield ex name tags ft :: r) i path (tc, path ++ [i])).
    { intros tc. exists i, []. split; [reflexivity|]. split; [lia|]. exists (mkFfield ex name tags ft).
      rewrite Nat.sub_diag. split; [reflexivity|]. simpl. eauto. }
    assert (Hone : forall tc new, Forall (under r (S i) path) new -> pairwise incomparable (map snd new) ->
                   Forall (under (mkFfield ex name tags ft :: r) i path) ((tc, path ++ [i]) :: new) /\
                   pairwise incomparable (map snd ((tc, path ++ [i]) :: new))).
    { intros tc new HF HP. split.
      - constructor; [apply Hhere|]. eapply Forall_impl; [|exact HF]. intros tp. apply under_lift.
      - simpl. constructor; [|exact HP]. apply Forall_forall. intros y Hy.
        apply (cross_incomparable r i path [(tc, path ++ [i])] new); [| exact HF | left; reflexivity | exact Hy].
        constructor; [|constructor]. exists []. reflexivity. }
    destruct (fs_skip st3).
    { destruct (IH _ _ _ _ _ _ _ H) as (new & E & HF & HP). exists new. split; [exact E|]. split; [|exact HP].
      eapply Forall_impl; [|exact HF]. intros tp. apply under_lift. }
    destruct ft as [t|tid sub].
    - destruct (IH _ _ _ _ _ _ _ H) as (new & E & HF & HP). cbn [fp_inputs] in E.
      exists ((t, path ++ [i]) :: new). split; [rewrite E, <- app_assoc; reflexivity|]. apply Hone; assumption.
    - destruct (fs_whole st3).
      + destruct (IH _ _ _ _ _ _ _ H) as (new & E & HF & HP). cbn [fp_inputs] in E.
        exists ((type_code (FStruct tid sub), path ++ [i]) :: new). split; [rewrite E, <- app_assoc; reflexivity|].
        apply Hone; assumption.
      + destruct (map_fields fuel acts ptr sub 0 (path ++ [i]) acc1) as [acc2|] eqn:Es; [|discriminate].
        destruct (IH _ _ _ _ _ _ _ Es) as (ns & Es' & HFs & HPs).
        destruct (IH _ _ _ _ _ _ _ H) as (nr & Er & HFr & HPr). cbn [fp_inputs] in Es'.
        exists (ns ++ nr). split; [rewrite Er, Es', <- app_assoc; reflexivity|].
        assert (Hs_form : Forall (fun tp => exists rest, snd tp = path ++ i :: rest) ns).
        { eapply Forall_impl; [|exact HFs]. intros tp (j & rest & E & _). exists (j :: rest).
          rewrite E, <- app_assoc. reflexivity. }
        split.
        * apply Forall_app. split.
          -- eapply Forall_impl; [|exact HFs]. intros tp (j & rest & E & _ & f & Hf & y & Hy).
             exists i, (j :: rest). split; [rewrite E, <- app_assoc; reflexivity|]. split; [lia|].
             exists (mkFfield ex name tags (FStruct tid sub)). rewrite Nat.sub_diag. split; [reflexivity|].
             cbn [field_ft]. rewrite zero_of_struct. cbn [vget]. rewrite Nat.sub_0_r in Hf.
             unfold zero_fields. rewrite (nth_opt_map_some _ _ _ _ Hf). eauto.
          -- eapply Forall_impl; [|exact HFr]. intros tp. apply under_lift.
        * rewrite map_app. apply pairwise_app; [exact HPs|exact HPr|].
          apply (cross_incomparable r i path ns nr Hs_form HFr).
  Qed.

  (* whatever the tags and post-actions: the inputs of a struct builder are stored at pairwise
     independent places that exist in the struct, so each lands where it belongs (fill_spec) *)
  Theorem struct_plan_paths acts ptr model plan :
    struct_plan acts ptr model = Some plan ->
    pairwise incomparable (map snd (fp_inputs plan)) /\
    forall p, In p (map snd (fp_inputs plan)) -> exists y, vget V p (zero_of model) = Some y.
  Proof.
    unfold struct_plan. destruct model as [t|tid fields]; [discriminate|]. intros H.
    destruct (mf_spec _ _ _ _ _ _ _ _ H) as (new & E & HF & HP). cbn [fp_inputs app] in E. rewrite E.
    split; [exact HP|]. intros p Hp. apply in_map_iff in Hp. destruct Hp as (tp & <- & Htp).
    rewrite Forall_forall in HF. destruct (HF _ Htp) as (j & rest & -> & _ & f & Hf & y & Hy).
    rewrite zero_of_struct. cbn [app vget]. rewrite Nat.sub_0_r in Hf.
    unfold zero_fields. rewrite (nth_opt_map_some _ _ _ _ Hf). eauto.
  Qed.
End MapFields.

(* ---------- structs without tags and without post-actions: every exported field, recursively ---------- *)
Definition f_exported (f : ffield) : bool := match f with mkFfield ex _ _ _ => ex end.
Definition f_tags (f : ffield) : list nat := match f with mkFfield _ _ tg _ => tg end.
Definition f_ft (f : ffield) : ftype := match f with mkFfield _ _ _ sub => sub end.

Fixpoint eleaves (ft : ftype) (path : list nat) {struct ft} : list (nat * list nat) :=
  match ft with
  | FLeaf t => [(t, path)]
  | FStruct _ fields =>
    (fix go (l : list ffield) (i : nat) : list (nat * list nat) :=
       match l with
       | [] => []
       | mkFfield ex _ _ sub :: r => (if ex then eleaves sub (path ++ [i]) else []) ++ go r (S i)
       end) fields 0
  end.

Fixpoint eleaves_fields (l : list ffield) (i : nat) (path : list nat) : list (nat * list nat) :=
  match l with
  | [] => []
  | f :: r => (if f_exported f then eleaves (f_ft f) (path ++ [i]) else []) ++ eleaves_fields r (S i) path
  end.

Lemma eleaves_struct tid fields path : eleaves (FStruct tid fields) path = eleaves_fields fields 0 path.
Proof.
  cbn [eleaves]. generalize 0. induction fields as [|[ex nm tg sub] r IH]; intros i; [reflexivity|].
  cbn [eleaves_fields f_exported f_ft]. rewrite IH. reflexivity.
Qed.

Fixpoint plain (ft : ftype) : bool :=
  match ft with
  | FLeaf _ => true
  | FStruct _ fields =>
    (fix go (l : list ffield) : bool :=
       match l with
       | [] => true
       | mkFfield _ _ tags sub :: r => match tags with [] => true | _ => false end && plain sub && go r
       end) fields
  end.
Definition plain_fields (l : list ffield) : bool :=
  forallb (fun f => match f_tags f with [] => true | _ => false end && plain (f_ft f)) l.
Lemma plain_struct tid fields : plain (FStruct tid fields) = plain_fields fields.
Proof.
  cbn [plain]. induction fields as [|[ex nm tg sub] r IH]; [reflexivity|].
  cbn [plain_fields forallb f_tags f_ft]. rewrite IH. reflexivity.
Qed.

Fixpoint need (ft : ftype) : nat :=
  match ft with
  | FLeaf _ => 0
  | FStruct _ fields =>
    (fix go (l : list ffield) : nat :=
       match l with [] => 1 | mkFfield _ _ _ sub :: r => S (Nat.max (need sub) (go r)) end) fields
  end.
Fixpoint need_fields (l : list ffield) : nat :=
  match l with [] => 1 | f :: r => S (Nat.max (need (f_ft f)) (need_fields r)) end.
Lemma need_struct tid fields : need (FStruct tid fields) = need_fields fields.
Proof.
  cbn [need]. induction fields as [|[ex nm tg sub] r IH]; [reflexivity|].
  cbn [need_fields f_ft]. rewrite IH. reflexivity.
Qed.

Fixpoint sz_fields (l : list ffield) : nat :=
  match l with [] => 1 | f :: r => fsize (f_ft f) + sz_fields r end.
Lemma fsize_struct tid fields : fsize (FStruct tid fields) = sz_fields fields.
Proof.
  cbn [fsize]. induction fields as [|[ex nm tg sub] r IH]; [reflexivity|].
  cbn [fold_right sz_fields f_ft] in *. lia.
Qed.
Lemma fsize_pos ft : 1 <= fsize ft.
Proof. destruct ft; simpl; lia. Qed.
Lemma sz_pos l : 1 <= sz_fields l.
Proof. destruct l; simpl; [lia|]. pose proof (fsize_pos (f_ft f)). lia. Qed.

Lemma need_bound : forall n ft, fsize ft <= n -> need ft <= 2 * fsize ft.
Proof.
  induction n as [|n IH]; intros ft Hn; [pose proof (fsize_pos ft); lia|].
  destruct ft as [t|tid fields]; [simpl; lia|].
  rewrite need_struct, fsize_struct in *.
  induction fields as [|f r IHr]; [simpl; lia|].
  cbn [need_fields sz_fields] in *.
  pose proof (fsize_pos (f_ft f)). pose proof (sz_pos r).
  assert (need (f_ft f) <= 2 * fsize (f_ft f)) by (apply IH; lia).
  assert (need_fields r <= 2 * sz_fields r) by (apply IHr; lia).
  lia.
Qed.

Lemma by_type_nil ptr t : by_type [] ptr t = [].
Proof. unfold by_type. destruct ptr; reflexivity. Qed.

Lemma mf_plain ptr : forall fuel fields i path acc,
  plain_fields fields = true -> need_fields fields <= fuel ->
  map_fields fuel [] ptr fields i path acc =
  Some (mkFplan (fp_inputs acc ++ eleaves_fields fields i path) (fp_acts acc)).
Proof.
  induction fuel as [|fuel IH]; intros fields i path acc Hp Hn.
  { destruct fields; simpl in Hn; lia. }
  destruct fields as [|[ex nm tg sub] r].
  { cbn [map_fields eleaves_fields]. rewrite app_nil_r. destruct acc; reflexivity. }
  cbn [plain_fields forallb f_tags f_ft] in Hp. apply andb_prop in Hp. destruct Hp as [Hp0 Hpr].
  apply andb_prop in Hp0. destruct Hp0 as [Htg Hps]. destruct tg as [|? ?]; [|discriminate]. clear Htg.
  cbn [need_fields f_ft] in Hn.
  cbn [map_fields eleaves_fields f_exported f_ft].
  destruct ex; cbn [negb].
  2:{ rewrite (IH r (S i) path acc Hpr) by lia. reflexivity. }
  cbn [tags_loop filter handle_actions].
  rewrite by_type_nil. cbn [handle_actions fs_skip fs_whole fs_acts].
  rewrite app_nil_r.
  destruct sub as [t|tid fields].
  - rewrite (IH r (S i) path _ Hpr) by lia. cbn [fp_inputs fp_acts eleaves]. rewrite <- app_assoc. reflexivity.
  - rewrite plain_struct in Hps. rewrite need_struct in Hn.
    rewrite (IH fields 0 (path ++ [i]) _ Hps) by lia. cbn [fp_inputs fp_acts].
    rewrite (IH r (S i) path _ Hpr) by lia. cbn [fp_inputs fp_acts].
    rewrite eleaves_struct, <- app_assoc. reflexivity.
Qed.

(* a struct without tags, built without post-actions: the inputs are exactly the exported fields,
   recursively through nested structs, in declaration order *)
Theorem struct_plan_plain ptr tid fields :
  plain (FStruct tid fields) = true ->
  struct_plan [] ptr (FStruct tid fields) = Some (mkFplan (eleaves (FStruct tid fields) []) []).
Proof.
  intros Hp. unfold struct_plan. rewrite plain_struct in Hp.
  rewrite (mf_plain ptr _ fields 0 [] (mkFplan [] []) Hp).
  - cbn [fp_inputs fp_acts app]. rewrite eleaves_struct. reflexivity.
  - pose proof (need_bound (fsize (FStruct tid fields)) (FStruct tid fields) (le_n _)) as B.
    rewrite need_struct in B. lia.
Qed.

(* field_param: the selected parameter has the field's type, no parameter before it has, and with no
   parameter of that type there is no match *)
Lemma field_param_spec t : forall params i k p,
  field_param t params i = Some (k, p) ->
  exists j, k = i + j /\ nth_error params j = Some (t, p) /\
            forall j', j' < j -> forall ty q, nth_error params j' = Some (ty, q) -> ty <> t.
Proof.
  induction params as [|[ty q] r IH]; intros i k p H; cbn [field_param] in H; [discriminate|].
  destruct (ty =? t) eqn:E.
  - inversion H; subst. apply Nat.eqb_eq in E. subst ty. exists 0. split; [lia|]. split; [reflexivity|].
    intros j' Hj. lia.
  - destruct (IH _ _ _ H) as [j [Hk [Hn Hb]]]. exists (S j). split; [lia|]. split; [exact Hn|].
    intros j' Hj ty' q' Hn'. destruct j' as [|j'].
    + cbn in Hn'. inversion Hn'; subst. apply Nat.eqb_neq in E. exact E.
    + cbn in Hn'. eapply Hb; [|exact Hn']. lia.
Qed.

Lemma field_param_none t : forall params i,
  field_param t params i = None <-> (forall ty q, In (ty, q) params -> ty <> t).
Proof.
  induction params as [|[ty q] r IH]; intros i; cbn [field_param].
  - split; [intros _ ty q []|reflexivity].
  - destruct (ty =? t) eqn:E.
    + split; [discriminate|]. intros H. apply Nat.eqb_eq in E. exfalso. apply (H ty q); [left; reflexivity|exact E].
    + rewrite IH. apply Nat.eqb_neq in E. split.
      * intros H ty' q' [Heq|Hin]; [inversion Heq; subst; exact E|eapply H; exact Hin].
      * intros H ty' q' Hin. eapply H. right. exact Hin.
Qed.

(* the fuel of map_fields: with need_fields steps the result does not depend on the fuel, whatever the
   tags and post-actions *)
Lemma need_fields_pos l : 1 <= need_fields l.
Proof. destruct l; cbn [need_fields]; lia. Qed.

Lemma mf_fuel acts ptr : forall fuel fields i path acc k,
  need_fields fields <= fuel ->
  map_fields (fuel + k) acts ptr fields i path acc = map_fields fuel acts ptr fields i path acc.
Proof.
  induction fuel as [|fuel IH]; intros fields i path acc k Hn; [pose proof (need_fields_pos fields); lia|].
  cbn [Nat.add map_fields]. destruct fields as [|[ex nm tags ft] r]; [reflexivity|].
  cbn [need_fields f_ft] in Hn.
  destruct ex; cbn [negb]; [|apply IH; lia].
  destruct (tags_loop acts (path ++ [i]) ft tags _) as [st1|]; [|reflexivity].
  destruct (handle_actions (path ++ [i]) ft _ st1) as [st2|]; [|reflexivity].
  destruct (handle_actions (path ++ [i]) ft _ st2) as [st3|]; [|reflexivity].
  destruct (fs_skip st3); [apply IH; lia|].
  destruct ft as [t|tid sub]; [apply IH; lia|].
  destruct (fs_whole st3); [apply IH; lia|].
  rewrite need_struct in Hn.
  rewrite (IH sub 0 (path ++ [i]) _ k) by lia.
  destruct (map_fields fuel acts ptr sub 0 (path ++ [i]) _) as [acc2|]; [apply IH; lia|reflexivity].
Qed.

Lemma struct_plan_fuel acts ptr tid fields k :
  map_fields (2 * fsize (FStruct tid fields) + 2 + k) acts ptr fields 0 [] (mkFplan [] [])
  = struct_plan acts ptr (FStruct tid fields).
Proof.
  unfold struct_plan. apply mf_fuel.
  pose proof (need_bound (fsize (FStruct tid fields)) (FStruct tid fields) (le_n _)) as H.
  rewrite need_struct in H. lia.
Qed.
