(* The log of arbitrary sessions (init and invoke steps in any order), with or without an init
   function: the static part is logged once, by the first init step when there is an init function,
   by the first invoke step otherwise; an invoke step of a chain with an init function never runs
   the static part itself. *)
From Coq Require Import List Arith Bool Lia.
Import ListNotations.
From NJ Require Import Base Registry Classify Select Reorder Machine Spec Bind Refine SpecLemmas Chain WfProofs EndToEnd.

Section Log2.
  Variable ncalls : nat -> nat.
  Variable errT : nat.
  Variable sp : splan.
  Hypothesis Hwc : forallb well_classed (sp_run sp) = true.

  Definition has_init : bool := match sp_init sp with Some _ => true | None => false end.

  (* the log of a session, given whether the static part has run *)
  Fixpoint steps_log (done : bool) (steps : list step) : list nat :=
    match steps with
    | [] => []
    | DoInit :: r =>
      match sp_init sp with
      | None => steps_log done r
      | Some ir => [r_pid ir] ++ (if done then [] else static_log (sp_static sp)) ++ steps_log true r
      end
    | DoInvoke :: r =>
      [r_pid (sp_invoke sp)] ++
      (if has_init || done then [] else static_log (sp_static sp)) ++
      expected ncalls (sp_run sp) ++
      steps_log (if has_init then done else true) r
    end.

  Lemma sem_session_steps_log : forall steps w base done,
    sq_w (list nat) (fst (sem_session (list nat) o_fn (o_wrap ncalls) errT sp (mkSsess (list nat) w base done true) steps))
    = w ++ steps_log done steps.
  Proof.
    induction steps as [|st r IH]; intros w base done; cbn [sem_session steps_log]; [rewrite app_nil_r; reflexivity|].
    unfold sem_step. cbn [sq_ok negb sq_w sq_base sq_done o_fn].
    destruct st.
    - (* init *)
      destruct (sp_init sp) as [ir|] eqn:Ei.
      + destruct done.
        * match goal with |- context [sem_session _ _ _ _ _ ?S r] => destruct (sem_session (list nat) o_fn (o_wrap ncalls) errT sp S r) as [s2 rs] eqn:E2 end.
          cbn [fst]. pose proof (IH (w ++ [r_pid ir]) base true) as IHk. rewrite E2 in IHk. cbn [fst] in IHk.
          rewrite IHk. cbn [app]. rewrite <- app_assoc. reflexivity.
        * destruct (sem_static_order (sp_static sp) (w ++ [r_pid ir]) (upd_list base (r_outs ir) [])) as [d1 Hs]. rewrite Hs.
          match goal with |- context [sem_session _ _ _ _ _ ?S r] => destruct (sem_session (list nat) o_fn (o_wrap ncalls) errT sp S r) as [s2 rs] eqn:E2 end.
          cbn [fst]. pose proof (IH ((w ++ [r_pid ir]) ++ static_log (sp_static sp)) d1 true) as IHk. rewrite E2 in IHk. cbn [fst] in IHk.
          rewrite IHk. cbn [app]. rewrite <- !app_assoc. reflexivity.
      + match goal with |- context [sem_session _ _ _ _ _ ?S r] => destruct (sem_session (list nat) o_fn (o_wrap ncalls) errT sp S r) as [s2 rs] eqn:E2 end.
        cbn [fst]. pose proof (IH w base done) as IHk. rewrite E2 in IHk. exact IHk.
    - (* invoke *)
      unfold has_init. destruct (sp_init sp) as [ir|] eqn:Ei; cbn [orb].
      + destruct (sem_order_any ncalls errT (sp_run sp) Hwc (w ++ [r_pid (sp_invoke sp)]) (upd_list base (r_outs (sp_invoke sp)) [])) as [H1 H2].
        destruct (sem (list nat) o_fn (o_wrap ncalls) errT (sp_run sp) (w ++ [r_pid (sp_invoke sp)]) (upd_list base (r_outs (sp_invoke sp)) [])) as [[w2 u2] ok2] eqn:Es.
        cbn [fst snd] in H1, H2. subst w2 ok2. cbn [negb].
        match goal with |- context [sem_session _ _ _ _ _ ?S r] => destruct (sem_session (list nat) o_fn (o_wrap ncalls) errT sp S r) as [s2 rs] eqn:E2 end.
        cbn [fst]. pose proof (IH ((w ++ [r_pid (sp_invoke sp)]) ++ expected ncalls (sp_run sp)) base done) as IHk. rewrite E2 in IHk. cbn [fst] in IHk.
        rewrite IHk. cbn [app]. rewrite <- !app_assoc. reflexivity.
      + destruct done; cbn [negb].
        * destruct (sem_order_any ncalls errT (sp_run sp) Hwc (w ++ [r_pid (sp_invoke sp)]) (upd_list base (r_outs (sp_invoke sp)) [])) as [H1 H2].
          destruct (sem (list nat) o_fn (o_wrap ncalls) errT (sp_run sp) (w ++ [r_pid (sp_invoke sp)]) (upd_list base (r_outs (sp_invoke sp)) [])) as [[w2 u2] ok2] eqn:Es.
          cbn [fst snd] in H1, H2. subst w2 ok2.
          match goal with |- context [sem_session _ _ _ _ _ ?S r] => destruct (sem_session (list nat) o_fn (o_wrap ncalls) errT sp S r) as [s2 rs] eqn:E2 end.
          cbn [fst]. pose proof (IH ((w ++ [r_pid (sp_invoke sp)]) ++ expected ncalls (sp_run sp)) base true) as IHk. rewrite E2 in IHk. cbn [fst] in IHk.
          rewrite IHk. cbn [app]. rewrite <- !app_assoc. reflexivity.
        * destruct (sem_static_order (sp_static sp) (w ++ [r_pid (sp_invoke sp)]) base) as [d1 Hs]. rewrite Hs. cbn [negb].
          destruct (sem_order_any ncalls errT (sp_run sp) Hwc ((w ++ [r_pid (sp_invoke sp)]) ++ static_log (sp_static sp)) (upd_list d1 (r_outs (sp_invoke sp)) [])) as [H1 H2].
          destruct (sem (list nat) o_fn (o_wrap ncalls) errT (sp_run sp) ((w ++ [r_pid (sp_invoke sp)]) ++ static_log (sp_static sp)) (upd_list d1 (r_outs (sp_invoke sp)) [])) as [[w2 u2] ok2] eqn:Es.
          cbn [fst snd] in H1, H2. subst w2 ok2.
          match goal with |- context [sem_session _ _ _ _ _ ?S r] => destruct (sem_session (list nat) o_fn (o_wrap ncalls) errT sp S r) as [s2 rs] eqn:E2 end.
          cbn [fst]. pose proof (IH (((w ++ [r_pid (sp_invoke sp)]) ++ static_log (sp_static sp)) ++ expected ncalls (sp_run sp)) d1 true) as IHk. rewrite E2 in IHk. cbn [fst] in IHk.
          rewrite IHk. cbn [app]. rewrite <- !app_assoc. reflexivity.
  Qed.
End Log2.

(* every chain bound from a case without Reorder annotations: any session *)
Theorem plain_chain_session_log : forall (c : bcase) (pl : plan) (b : bound),
  plain_case c = true -> bind_chain c = Ok (pl, b) ->
  exists sp, splan_of (bc_te c) pl = Some sp /\
    forall (ncalls : nat -> nat) (steps : list step) (w0 : list nat),
      ss_w (list nat) (fst (run_session (list nat) o_fn (o_wrap ncalls) b (mkSess (list nat) w0 (bd_base0 b) false true) steps))
      = w0 ++ steps_log ncalls sp false steps.
Proof.
  intros c pl b Hpc Hb.
  destruct (chain_refines_plain c pl b Hpc Hb) as (sp & Hsp & Href). exists sp. split; [exact Hsp|].
  intros ncalls steps w0. destruct (Href (list nat) o_fn (o_wrap ncalls) steps w0) as [_ Hw]. cbv zeta in Hw. rewrite Hw.
  pose proof (bind_chain_plan c pl b Hb) as Hp.
  assert (Hwc : forallb well_classed (sp_run sp) = true).
  { assert (Hwf : plan_wf (bc_te c) pl b = true).
    { unfold plain_case in Hpc. apply andb_true_iff in Hpc. destruct Hpc as [Hpc Hi]. apply andb_true_iff in Hpc. destruct Hpc as [Hprovs Hinvk].
      apply negb_true_iff in Hinvk.
      destruct (assemble c) as [f0|e|e] eqn:Ea; [|unfold plan_of in Hp; rewrite Ea in Hp; discriminate Hp..].
      apply (bind_plan_wf c pl b Hb). apply (runs_after_invoke_no_reorder c pl b f0 Hb Ea). apply (assemble_no_reorder c f0 Ea Hprovs Hinvk).
      intros i Hi'. rewrite Hi' in Hi. apply negb_true_iff in Hi. exact Hi. }
    unfold plan_wf in Hwf. rewrite Hsp in Hwf.
    repeat (apply andb_true_iff in Hwf; destruct Hwf as [Hwf ?]).
    match goal with H : forallb well_classed (sp_run sp) = true |- _ => exact H end. }
  apply (sem_session_steps_log ncalls (te_errorT (bc_te c)) sp Hwc steps w0 _ false).
Qed.
Print Assumptions plain_chain_session_log.
