(* Extraction of the executable model for the correspondence check.
   ExtrOcamlBasic only: bool, option, unit, list, prod, sumbool, sumor map to OCaml's; nat stays Peano. *)
From Coq Require Import Extraction ExtrOcamlBasic.
From NJ Require Import Base Edits Registry Classify Select Reorder Machine Bind Monitors Conc Flows Generated.
Extraction Language OCaml.
Extraction "model.ml" edits_obs mon_C18 model_run mkCase mkTyenv mkTy mkPdesc mon_C03_plan mon_C03_plan_strict mon_C15_plan mkOprov run mstep minit calls_for ustep uinit dstep dinit dfinished condense_sig raw_down_flows raw_up_flows mon_C19_sig curry_plan curry_args saveto_plan struct_plan field_param fill vget.
