(* S6: selection — match.go (interfaceMap/bestMatch) and include.go
   (providesReturns, checkFlows, eliminateUnused, proposeEliminations, tryWithout). *)
From Coq Require Import List Arith Bool.
Import ListNotations.
From NJ Require Import Base Registry Classify.

(* dependency bookkeeping of one provider (includeWorkingData) *)
Record depsT := mkDeps {
  usesDetail : list (nat * nat * list nat);    (* (flow code, requested type, candidate positions) *)
  usesError : list (nat * nat);                (* (flow code, type) with no possible source *)
  uses : list nat;
  usedBy : list nat;
  usedByDetail : list (nat * nat * list nat)   (* (flow code, requested type, consumer positions) *)
}.
Definition no_deps := mkDeps [] [] [] [] [].

Record prov := mkProv {
  p_s : sprov;
  p_include : bool;
  p_cannot : bool;                 (* cannotInclude != nil *)
  p_excluded : bool;               (* d.excluded != nil *)
  p_wanted : bool;
  p_wic : bool;                    (* d.wantedInCluster *)
  p_members : option (list nat);   (* d.clusterMembers (positions) *)
  p_downR : list (nat * nat);
  p_upR : list (nat * nat);
  p_bypassR : list (nat * nat);
  p_mcOut : bool;                  (* d.mustConsumeFlow[outputParams] *)
  p_mcRet : bool;                  (* d.mustConsumeFlow[returnParams] *)
  p_deps : depsT
}.

Definition mk_prov (s : sprov) : prov :=
  mkProv s false false false false false None [] [] [] false false no_deps.

(* field setters *)
Definition set_include b p := mkProv (p_s p) b (p_cannot p) (p_excluded p) (p_wanted p) (p_wic p) (p_members p) (p_downR p) (p_upR p) (p_bypassR p) (p_mcOut p) (p_mcRet p) (p_deps p).
Definition set_cannot b p := mkProv (p_s p) (p_include p) b (p_excluded p) (p_wanted p) (p_wic p) (p_members p) (p_downR p) (p_upR p) (p_bypassR p) (p_mcOut p) (p_mcRet p) (p_deps p).
Definition set_excluded b p := mkProv (p_s p) (p_include p) (p_cannot p) b (p_wanted p) (p_wic p) (p_members p) (p_downR p) (p_upR p) (p_bypassR p) (p_mcOut p) (p_mcRet p) (p_deps p).
Definition set_wanted b p := mkProv (p_s p) (p_include p) (p_cannot p) (p_excluded p) b (p_wic p) (p_members p) (p_downR p) (p_upR p) (p_bypassR p) (p_mcOut p) (p_mcRet p) (p_deps p).
Definition set_wic b p := mkProv (p_s p) (p_include p) (p_cannot p) (p_excluded p) (p_wanted p) b (p_members p) (p_downR p) (p_upR p) (p_bypassR p) (p_mcOut p) (p_mcRet p) (p_deps p).
Definition set_members m p := mkProv (p_s p) (p_include p) (p_cannot p) (p_excluded p) (p_wanted p) (p_wic p) m (p_downR p) (p_upR p) (p_bypassR p) (p_mcOut p) (p_mcRet p) (p_deps p).
Definition set_downR m p := mkProv (p_s p) (p_include p) (p_cannot p) (p_excluded p) (p_wanted p) (p_wic p) (p_members p) m (p_upR p) (p_bypassR p) (p_mcOut p) (p_mcRet p) (p_deps p).
Definition set_upR m p := mkProv (p_s p) (p_include p) (p_cannot p) (p_excluded p) (p_wanted p) (p_wic p) (p_members p) (p_downR p) m (p_bypassR p) (p_mcOut p) (p_mcRet p) (p_deps p).
Definition set_bypassR m p := mkProv (p_s p) (p_include p) (p_cannot p) (p_excluded p) (p_wanted p) (p_wic p) (p_members p) (p_downR p) (p_upR p) m (p_mcOut p) (p_mcRet p) (p_deps p).
Definition set_mc o r p := mkProv (p_s p) (p_include p) (p_cannot p) (p_excluded p) (p_wanted p) (p_wic p) (p_members p) (p_downR p) (p_upR p) (p_bypassR p) o r (p_deps p).
Definition set_deps d p := mkProv (p_s p) (p_include p) (p_cannot p) (p_excluded p) (p_wanted p) (p_wic p) (p_members p) (p_downR p) (p_upR p) (p_bypassR p) (p_mcOut p) (p_mcRet p) d.

(* shorthands over the static part *)
Definition pflow (p : prov) (k : flowK) : list nat := flow_of (s_flows (p_s p)) k.
Definition p_required p := s_required (p_s p).
Definition p_desired p := d_desired (s_d (p_s p)).
Definition p_shun p := s_shun (p_s p).
Definition p_cluster p := d_cluster (s_d (p_s p)).
Definition p_class p := s_class (p_s p).
Definition p_group p := s_group (p_s p).
Definition p_pid p := d_pid (s_d (p_s p)).
Definition p_loose p := d_loose (s_d (p_s p)).

Definition getp (l : list prov) (i : nat) : option prov := nth_opt i l.
Definition updp (i : nat) (f : prov -> prov) (l : list prov) : list prov := upd_nth i f l.
Definition flagp (f : prov -> bool) (l : list prov) (i : nat) : bool :=
  match getp l i with Some p => f p | None => false end.

(* ---------- interfaceMap ---------- *)
Record imd := mkImd { im_tc : nat; im_layer : nat; im_plist : list nat }.
Notation imap := (list imd) (only parsing).

Fixpoint im_add (t layer pos : nat) (m : list imd) : list imd :=
  match m with
  | [] => [mkImd t layer [pos]]
  | e :: r => if im_tc e =? t then mkImd t (im_layer e) (im_plist e ++ [pos]) :: r
              else e :: im_add t layer pos r
  end.

Fixpoint im_find (t : nat) (m : list imd) : option imd :=
  match m with [] => None | e :: r => if im_tc e =? t then Some e else im_find t r end.

(* lexicographic a >= b on equal-length score vectors *)
Fixpoint ge_lex (a b : list nat) : bool :=
  match a, b with
  | x :: a', y :: b' => if y <? x then true else if x <? y then false else ge_lex a' b'
  | _, [] => true
  | [], _ :: _ => false
  end.

Definition score (te : tyenv) (wanted : nat) (e : imd) : list nat :=
  [im_layer e; (if pkg_of te (im_tc e) =? pkg_of te wanted then 1 else 0); nmeth_of te (im_tc e); im_tc e].

Fixpoint best_entry (te : tyenv) (wanted : nat) (m : list imd) (best : option imd) : option imd :=
  match m with
  | [] => best
  | e :: r =>
    if implements te (im_tc e) wanted then
      match best with
      | None => best_entry te wanted r (Some e)
      | Some b => if ge_lex (score te wanted e) (score te wanted b)
                  then best_entry te wanted r (Some e) else best_entry te wanted r best
      end
    else best_entry te wanted r best
  end.

(* bestMatch: Some (type found, providers to depend on) or None (error) *)
Definition best_match (te : tyenv) (funcs : list prov) (m : list imd) (wanted : nat) : option (nat * list nat) :=
  match im_find wanted m with
  | Some e => Some (wanted, im_plist e)
  | None =>
    if negb (is_iface te wanted) then None else
    match best_entry te wanted m None with
    | None => None
    | Some b =>
      let loose := filter (fun pos => flagp (fun p => memb wanted (p_loose p)) funcs pos) (im_plist b) in
      match loose with [] => None | _ => Some (im_tc b, loose) end
    end
  end.

(* ---------- providesReturns ---------- *)
Fixpoint detail_add (k t pos : nat) (d : list (nat * nat * list nat)) : list (nat * nat * list nat) :=
  match d with
  | [] => [(k, t, [pos])]
  | (k', t', l) :: r => if (k =? k') && (t =? t') then (k', t', l ++ [pos]) :: r
                        else (k', t', l) :: detail_add k t pos r
  end.
Definition detail_clear (k : nat) (d : list (nat * nat * list nat)) : list (nat * nat * list nat) :=
  filter (fun e => negb (fst (fst e) =? k)) d.
Fixpoint detail_get (k t : nat) (d : list (nat * nat * list nat)) : list nat :=
  match d with
  | [] => []
  | (k', t', l) :: r => if (k =? k') && (t =? t') then l else detail_get k t r
  end.

Definition rmap_of (k : flowK) (p : prov) : list (nat * nat) :=
  match k with FIn => p_downR p | FRecv => p_upR p | FBypass => p_bypassR p | _ => [] end.
Definition set_rmap (k : flowK) (m : list (nat * nat)) (p : prov) : prov :=
  match k with FIn => set_downR m p | FRecv => set_upR m p | FBypass => set_bypassR m p | _ => p end.

(* one dependency edge fm(at pos) --uses--> dep, for requested type t *)
Definition add_dep (pos : nat) (param outParam : flowK) (t : nat) (funcs : list prov) (dep : nat) : list prov :=
  let kc := flowk_code param in
  let oc := flowk_code outParam in
  let funcs1 := updp pos (fun p => set_deps (let d := p_deps p in
                   mkDeps (detail_add kc t dep (usesDetail d)) (usesError d) (uses d ++ [dep]) (usedBy d) (usedByDetail d)) p) funcs in
  let funcs2 := updp dep (fun p => set_deps (let d := p_deps p in
                   mkDeps (usesDetail d) (usesError d) (uses d) (usedBy d ++ [pos]) (detail_add oc t pos (usedByDetail d))) p) funcs1 in
  let depMC := flagp (fun p => match outParam with FOut => p_mcOut p | FRet => p_mcRet p | _ => false end) funcs2 dep in
  if depMC then updp pos (fun p => set_deps (let d := p_deps p in
                   mkDeps (usesDetail d) (usesError d) (uses d) (usedBy d ++ [dep]) (usedByDetail d)) p) funcs2
  else funcs2.

Definition require_parameters (te : tyenv) (pos : nat) (avail : list imd) (param outParam : flowK)
           (funcs : list prov) : list prov :=
  let kc := flowk_code param in
  (* reset usesError[param], usesDetail[param] *)
  let funcs0 := updp pos (fun p => set_deps (let d := p_deps p in
                   mkDeps (detail_clear kc (usesDetail d))
                          (filter (fun e => negb (fst e =? kc)) (usesError d))
                          (uses d) (usedBy d) (usedByDetail d)) p) funcs in
  let tys := match getp funcs pos with Some p => pflow p param | None => [] end in
  fold_left (fun fs t =>
    if t =? te_noT te then fs else
    match best_match te fs avail t with
    | None => updp pos (fun p => set_deps (let d := p_deps p in
                   mkDeps (usesDetail d) (usesError d ++ [(kc, t)]) (uses d) (usedBy d) (usedByDetail d)) p) fs
    | Some (found, deps) =>
      let fs1 := updp pos (fun p => set_rmap param (aset t found (rmap_of param p)) p) fs in
      fold_left (add_dep pos param outParam t) deps fs1
    end) tys funcs0.

Definition provide_parameters (te : tyenv) (pos : nat) (avail : list imd) (param : flowK) (layer : nat)
           (funcs : list prov) : list prov * list imd :=
  let kc := flowk_code param in
  let funcs0 := updp pos (fun p => set_deps (let d := p_deps p in
                   mkDeps (usesDetail d) (usesError d) (uses d) (usedBy d) (detail_clear kc (usedByDetail d))) p) funcs in
  let tys := match getp funcs pos with Some p => pflow p param | None => [] end in
  (funcs0, fold_left (fun m t => if t =? te_noT te then m else im_add t layer pos m) tys avail).

Fixpoint find_class (c : classT) (l : list prov) (i : nat) : option nat :=
  match l with
  | [] => None
  | p :: r => if class_eqb (p_class p) c then Some i else find_class c r (S i)
  end.

Definition provides_returns (te : tyenv) (funcs : list prov) : list prov :=
  let n := length funcs in
  let funcs0 := map (set_deps no_deps) funcs in
  let initPos := find_class ClInit funcs0 0 in
  (* downward pass *)
  let down := fold_left (fun (st : list prov * list imd) i =>
      let (fs, avail) := st in
      if flagp p_cannot fs i then st else
      let fs1 := if flagp (fun p => class_eqb (p_class p) ClInvoke) fs i then
                   match initPos with
                   | Some ip => require_parameters te ip avail FBypass FOut (updp ip (set_bypassR []) fs)
                   | None => fs
                   end
                 else fs in
      let fs2 := require_parameters te i avail FIn FOut fs1 in
      provide_parameters te i avail FOut (i + 2) fs2)
    (seq_from 0 n) (funcs0, []) in
  (* upward pass *)
  let up := fold_left (fun (st : list prov * list imd) i =>
      let (fs, avail) := st in
      if flagp p_cannot fs i then st else
      let fs1 := require_parameters te i avail FRecv FRet fs in
      provide_parameters te i avail FRet (n - i + 2) fs1)
    (rev (seq_from 0 n)) (fst down, []) in
  fst up.

(* ---------- checkFlows ---------- *)
Definition any_included (funcs : list prov) (l : list nat) : bool := existsb (flagp p_include funcs) l.

(* does the provider pass its three checks under the current include marks? *)
Definition mc_types (te : tyenv) (p : prov) (k : flowK) : list nat :=
  match k with
  | FOut => if p_mcOut p then
              filter (fun t => match s_mustConsume (p_s p) with Some mc => memb t mc | None => false end
                               && negb (t =? te_unusedT te)) (pflow p FOut)
            else []
  | FRet => if p_mcRet p then
              filter (fun t => negb (match s_consOpt (p_s p) with Some co => memb t co | None => false end)
                               && negb (t =? te_unusedT te)) (pflow p FRet)
            else []
  | _ => []
  end.

Definition checks_ok (te : tyenv) (funcs : list prov) (p : prov) : bool :=
  let d := p_deps p in
  match usesError d with _ :: _ => false | [] =>
    forallb (fun e => any_included funcs (snd e)) (usesDetail d) &&
    forallb (fun t => any_included funcs (detail_get (flowk_code FRet) t (usedByDetail d))) (mc_types te p FRet) &&
    forallb (fun t => any_included funcs (detail_get (flowk_code FOut) t (usedByDetail d))) (mc_types te p FOut)
  end.

Record cfstate := mkCf { cf_funcs : list prov; cf_redo : list nat; cf_seen : list nat; cf_err : option nat }.

Definition check_one (te : tyenv) (canRemoveDesired : bool) (st : cfstate) (i : nat) : cfstate :=
  match cf_err st with Some _ => st | None =>
  if memb i (cf_seen st) then st else
  let st1 := mkCf (cf_funcs st) (cf_redo st) (i :: cf_seen st) None in
  match getp (cf_funcs st) i with
  | None => st1
  | Some p =>
    if p_cannot p then
      if p_required p then mkCf (cf_funcs st1) (cf_redo st1) (cf_seen st1) (Some EB_REQUIRED)
      else if (p_wanted p || p_desired p) && negb canRemoveDesired && negb (p_excluded p)
      then mkCf (cf_funcs st1) (cf_redo st1) (cf_seen st1) (Some EB_WANTED)
      else if p_include p
      then mkCf (updp i (set_include false) (cf_funcs st1)) (cf_redo st1 ++ usedBy (p_deps p)) (cf_seen st1) None
      else st1
    else if checks_ok te (cf_funcs st) p then st1
    else mkCf (updp i (set_cannot true) (cf_funcs st1)) (cf_redo st1 ++ [i]) (cf_seen st1) None
  end end.

Fixpoint check_passes (te : tyenv) (canRemoveDesired : bool) (fuel : nat) (funcs : list prov) (todo : list nat)
  : list prov * option nat :=
  match todo with
  | [] => (funcs, None)
  | _ =>
    match fuel with
    | 0 => (funcs, Some EB_INTERNAL)
    | S fuel' =>
      let st := fold_left (check_one te canRemoveDesired) todo (mkCf funcs [] [] None) in
      match cf_err st with
      | Some e => (cf_funcs st, Some e)
      | None => check_passes te canRemoveDesired fuel' (cf_funcs st) (cf_redo st)
      end
    end
  end.

(* validateChainMarkIncludeExclude *)
Fixpoint mark_loop (funcs : list prov) (i : nat) (todo : list prov) (remaining : list nat)
  : list prov * list nat * option nat :=
  match todo with
  | [] => (funcs, rev remaining, None)
  | p :: r =>
    if negb (p_excluded p) then
      mark_loop (updp i (fun q => set_cannot false (set_include true q)) funcs) (S i) r (i :: remaining)
    else if p_required p then (funcs, rev remaining, Some EB_REQUIRED)
    else mark_loop (updp i (fun q => set_include false (set_cannot true q)) funcs) (S i) r remaining
  end.

Definition validate_chain (te : tyenv) (canRemoveDesired : bool) (funcs : list prov) : list prov * option nat :=
  match mark_loop funcs 0 funcs [] with
  | (fs, _, Some e) => (fs, Some e)
  | (fs, remaining, None) => check_passes te canRemoveDesired (2 * length funcs + 3) fs remaining
  end.

(* ---------- eliminateUnused ---------- *)
Fixpoint elim_unused (fuel : nat) (funcs : list prov) (check : list nat) : list prov :=
  match fuel with
  | 0 => funcs
  | S fuel' =>
    match check with
    | [] => funcs
    | i :: rest =>
      match getp funcs i with
      | None => elim_unused fuel' funcs rest
      | Some p =>
        if p_required p || p_desired p || p_wanted p || negb (p_include p) || p_excluded p
           || negb (p_cluster p =? 0)
        then elim_unused fuel' funcs rest
        else if any_included funcs (usedBy (p_deps p)) then elim_unused fuel' funcs rest
        else elim_unused fuel'
               (updp i (fun q => set_excluded true (set_cannot true (set_include false q))) funcs)
               (rest ++ uses (p_deps p))
      end
    end
  end.

Definition total_uses (funcs : list prov) : nat :=
  fold_left (fun a p => a + length (uses (p_deps p))) funcs 0.

Definition eliminate_unused (funcs : list prov) : list prov :=
  elim_unused (length funcs + total_uses funcs + 1) funcs (seq_from 0 (length funcs)).

(* ---------- proposeEliminations ---------- *)
Fixpoint keep_closure (fuel : nat) (useLast : bool) (groups : list nat) (funcs : list prov)
         (toKeep keep : list nat) : list nat :=
  match fuel with
  | 0 => keep
  | S fuel' =>
    match toKeep with
    | [] => keep
    | i :: rest =>
      if memb i keep then keep_closure fuel' useLast groups funcs rest keep else
      match getp funcs i with
      | None => keep_closure fuel' useLast groups funcs rest keep
      | Some p =>
        let keep' := i :: keep in
        let picks := flat_map (fun e : nat * nat * list nat =>
            if memb (fst (fst e)) groups then
              let deps := filter (fun j => flagp (fun q => negb (p_cannot q) && negb (p_excluded q)) funcs j) (snd e) in
              match (if useLast then rev deps else deps) with
              | [] => []
              | k :: _ => if memb k keep' then [] else [k]
              end
            else []) (usesDetail (p_deps p)) in
        keep_closure fuel' useLast groups funcs (rest ++ picks) keep'
      end
    end
  end.

Definition total_details (funcs : list prov) : nat :=
  fold_left (fun a p => a + length (usesDetail (p_deps p))) funcs 0.

Definition propose_eliminations (funcs : list prov) : list nat :=
  let n := length funcs in
  let idx := seq_from 0 n in
  let roots := filter (fun i => flagp (fun p => negb (p_excluded p) &&
                   (p_required p || p_desired p || (p_wanted p && negb (p_wic p)))) funcs i) idx in
  let fuel := (n + 1) * (total_details funcs + 2) + n + 1 in
  let keepDown := keep_closure fuel true [flowk_code FIn; flowk_code FBypass] funcs roots [] in
  let keepUp := keep_closure fuel false [flowk_code FRecv] funcs roots [] in
  let kept := keepDown ++ keepUp in
  let cand := filter (fun i => negb (memb i kept) && negb (flagp p_shun funcs i)) idx in
  (* the synthetic (Debugging) provider is tried last *)
  filter (flagp p_shun funcs) idx ++
  filter (fun i => negb (flagp (fun p => s_synthetic (p_s p)) funcs i)) cand ++
  filter (flagp (fun p => s_synthetic (p_s p)) funcs) cand.

(* ---------- tryWithout ---------- *)
Definition try_without (te : tyenv) (funcs : list prov) (without : list nat) : list prov :=
  let single := match without with [_] => true | _ => false end in
  if single && forallb (flagp (fun p => p_wanted p && p_wic p) funcs) without then funcs else
  let multi := negb single in
  let fs1 := fold_left (fun fs i => updp i (fun p =>
                 let p1 := set_excluded true p in
                 if multi && p_wic p then set_wanted false p1 else p1) fs) without funcs in
  let (fs2, err) := validate_chain te false fs1 in
  fold_left (fun fs i => updp i (fun p =>
       let p1 := match err with None => p | Some _ => set_excluded false p end in
       if multi && p_wic p then set_wanted true p1 else p1) fs) without fs2.

(* ---------- computeDependenciesAndInclusion (after reorder) ---------- *)
Definition init_marks (te : tyenv) (p : prov) : prov :=
  let s := p_s p in
  let p1 := set_mc (match s_mustConsume s with Some _ => true | None => false end) true p in
  if s_required s then p1
  else if d_desired (s_d s) then p1
  else match f_out (s_flows s) with
       | Some outs =>
         if length (strip_unused te outs) =? 0
         then set_wanted true (if negb (d_cluster (s_d s) =? 0) then set_wic true p1 else p1)
         else p1
       | None => p1
       end.

Fixpoint cluster_loop (funcs : list prov) (i : nat) (todo : list prov) (leaders : list (nat * nat)) : list prov :=
  match todo with
  | [] => funcs
  | _ :: r =>
    match getp funcs i with
    | None => funcs
    | Some p =>
      if (p_cluster p =? 0) || p_excluded p then cluster_loop funcs (S i) r leaders else
      let (funcs1, leaders1) :=
        match alookup (p_cluster p) leaders with
        | Some ld =>
          (updp i (set_members None)
             (updp ld (fun q => set_members (Some (match p_members q with Some m => m ++ [i] | None => [i] end)) q) funcs),
           leaders)
        | None => (updp i (set_members (Some [i])) funcs, (p_cluster p, i) :: leaders)
        end in
      let funcs2 := if negb (p_required p) && negb (p_desired p) && p_wanted p
                    then updp i (set_wic true) funcs1 else funcs1 in
      cluster_loop funcs2 (S i) r leaders1
    end
  end.

Definition select (te : tyenv) (funcs0 : list prov) : res (list prov) :=
  let funcs1 := map (init_marks te) funcs0 in
  let funcs2 := provides_returns te funcs1 in
  match validate_chain te true funcs2 with
  | (_, Some e) => Err e
  | (funcs3, None) =>
    let funcs4 := map (fun p => if p_cannot p then set_include false (set_excluded true p) else p) funcs3 in
    let funcs5 := cluster_loop funcs4 0 funcs4 [] in
    let funcs6 := eliminate_unused funcs5 in
    let proposal := propose_eliminations funcs6 in
    let funcs7 := fold_left (fun fs i =>
        match getp fs i with
        | None => fs
        | Some p =>
          if p_excluded p then fs
          else if negb (p_cluster p =? 0) then
            match p_members p with Some m => try_without te fs m | None => fs end
          else if s_synthetic (p_s p) && negb (p_shun p) then
            (* the Debugging provider goes only when none of the providers asking for it remains *)
            let users := filter (fun u => flagp (fun q => negb (p_wanted q) && negb (p_excluded q)) fs u)
                                (usedBy (p_deps p)) in
            let fs1 := fold_left (fun f u => updp u (set_wanted true) f) users fs in
            let fs2 := try_without te fs1 [i] in
            fold_left (fun f u => updp u (set_wanted false) f) users fs2
          else try_without te fs [i]
        end) proposal funcs6 in
    let funcs8 := map (fun p => if negb (p_excluded p) then set_cannot false p
                                else set_cannot true p) funcs7 in
    let funcs9 := provides_returns te funcs8 in
    match validate_chain te true funcs9 with
    | (_, Some e) => Err EB_INTERNAL
    | (funcs10, None) => Ok funcs10
    end
  end.
