(* S10/S11: interleaving models of nject's process-wide synchronisation.

   A schedule is a list of thread ids; [step t s] is the atomic step of thread t in state s
   ([None] when t is blocked or finished).  All theorems quantify over every schedule, every number
   of threads and every assignment of keys / outcomes to threads.  sync.Mutex, sync.RWMutex and
   sync.Once are assumed to meet their documented specification (a held lock blocks the others). *)
From Coq Require Import List Arith Bool.
Import ListNotations.
From NJ Require Import Base.

Section Sched.
  Variable St : Type.
  Variable step : nat -> St -> option St.

  Fixpoint run (sched : list nat) (s : St) : St :=
    match sched with
    | [] => s
    | t :: r => match step t s with Some s' => run r s' | None => run r s end
    end.
End Sched.

(* ---------- the memoize cache (cache.go:defineCacher) and, with a single key, sync.Once users ---------- *)
(* One thread = one use of the cacher with a fixed key:
     pc 0: before lock.Lock()
     pc 1: holds the lock, looked the key up and missed
     pc 2: holds the lock, has called the function, result not stored yet
     pc 3: returned (m_res holds what it returned)
   A hit (lock, lookup, unlock) is one atomic step, as is each of call / store+unlock. *)
Record mthread := mkMt { m_key : nat; m_pc : nat; m_res : option nat }.

Record mstate := mkMs {
  ms_lock : option nat;              (* thread holding the cache mutex *)
  ms_cache : list (nat * nat);       (* key -> result *)
  ms_calls : list (nat * nat);       (* log of real calls: (key, result), newest first *)
  ms_threads : list mthread;
  ms_next : nat                      (* results are numbered so that distinct calls are distinguishable *)
}.

Definition mstep (t : nat) (s : mstate) : option mstate :=
  match nth_opt t (ms_threads s) with
  | None => None
  | Some th =>
    match m_pc th with
    | 0 =>
      match ms_lock s with
      | Some _ => None                                    (* blocked on the mutex *)
      | None =>
        match alookup (m_key th) (ms_cache s) with
        | Some r =>                                        (* hit: return the stored result *)
          Some (mkMs None (ms_cache s) (ms_calls s)
                     (upd_nth t (fun _ => mkMt (m_key th) 3 (Some r)) (ms_threads s)) (ms_next s))
        | None =>                                          (* miss: keep the lock *)
          Some (mkMs (Some t) (ms_cache s) (ms_calls s)
                     (upd_nth t (fun _ => mkMt (m_key th) 1 None) (ms_threads s)) (ms_next s))
        end
      end
    | 1 =>                                                 (* out := fv.Call(in), still under the lock *)
      Some (mkMs (ms_lock s) (ms_cache s) ((m_key th, ms_next s) :: ms_calls s)
                 (upd_nth t (fun _ => mkMt (m_key th) 2 (Some (ms_next s))) (ms_threads s)) (S (ms_next s)))
    | 2 =>                                                 (* cache[key] = out; unlock; return *)
      match m_res th with
      | Some r =>
        Some (mkMs None ((m_key th, r) :: ms_cache s) (ms_calls s)
                   (upd_nth t (fun _ => mkMt (m_key th) 3 (Some r)) (ms_threads s)) (ms_next s))
      | None => None
      end
    | _ => None
    end
  end.

Definition minit (keys : list nat) : mstate :=
  mkMs None [] [] (map (fun k => mkMt k 0 None) keys) 0.

Definition calls_for (k : nat) (s : mstate) : list nat :=
  map snd (filter (fun c => fst c =? k) (ms_calls s)).

(* ---------- uses whose input cannot serve as a map key (cache.go: okayCheck fails) ----------
   The cacher calls the function directly: no lock, no lookup, no store.  One thread = one use.
     pc 0: before the call        pc 3: returned (u_res holds what it returned) *)
Record uthread := mkUt { u_pc : nat; u_res : option nat }.
Record ustate := mkUs {
  us_calls : list (nat * nat);       (* log of real calls: (use, result), newest first *)
  us_threads : list uthread;
  us_next : nat
}.
Definition ustep (t : nat) (s : ustate) : option ustate :=
  match nth_opt t (us_threads s) with
  | Some (mkUt 0 _) =>
    Some (mkUs ((t, us_next s) :: us_calls s)
               (upd_nth t (fun _ => mkUt 3 (Some (us_next s))) (us_threads s)) (S (us_next s)))
  | _ => None
  end.
Definition uinit (n : nat) : ustate := mkUs [] (repeat (mkUt 0 None) n) 0.

(* ---------- the debug lock (api.go:bindFast / Bind, debug.go:captureDoBindDebugging) ---------- *)
(* One thread = one Bind call; [fails] says whether its doBind returns an error.
     pc 0: before debugLock.RLock()          pc 1: in doBind under the read lock
     pc 2: before RUnlock                     pc 3: (failing only) before debugLock.Lock()
     pc 4: holds the write lock, debug = 1, replays doBind and logs
     pc 5: before Unlock (debug reset)        pc 6: returned
   Go's RWMutex blocks new readers while a writer is waiting. *)
Record dthread := mkDt { d_fails : bool; d_pc : nat }.

Record dstate := mkDs {
  ds_readers : nat;
  ds_writer : option nat;
  ds_debug : bool;
  ds_log : list (nat * nat);          (* (author, writer at that time) of every line logged while debug was on *)
  ds_threads : list dthread
}.

Definition writer_waiting (s : dstate) : bool := existsb (fun th => d_pc th =? 3) (ds_threads s).

Definition set_pc (t pc : nat) (s : dstate) : list dthread :=
  upd_nth t (fun th => mkDt (d_fails th) pc) (ds_threads s).

Definition dstep (t : nat) (s : dstate) : option dstate :=
  match nth_opt t (ds_threads s) with
  | None => None
  | Some th =>
    match d_pc th with
    | 0 => (* RLock *)
      match ds_writer s with
      | Some _ => None
      | None => if writer_waiting s then None
                else Some (mkDs (S (ds_readers s)) None (ds_debug s) (ds_log s) (set_pc t 1 s))
      end
    | 1 => (* doBind: logs a line if debugging happens to be enabled *)
      Some (mkDs (ds_readers s) (ds_writer s) (ds_debug s)
                 (if ds_debug s then (t, match ds_writer s with Some w => w | None => t end) :: ds_log s else ds_log s)
                 (set_pc t 2 s))
    | 2 => (* RUnlock *)
      Some (mkDs (pred (ds_readers s)) (ds_writer s) (ds_debug s) (ds_log s)
                 (set_pc t (if d_fails th then 3 else 6) s))
    | 3 => (* Lock: needs no reader and no writer *)
      match ds_writer s with
      | Some _ => None
      | None => if ds_readers s =? 0
                then Some (mkDs 0 (Some t) true (ds_log s) (set_pc t 4 s))
                else None
      end
    | 4 => (* replay doBind with debugging on: logs its own lines *)
      Some (mkDs (ds_readers s) (ds_writer s) (ds_debug s) ((t, t) :: ds_log s) (set_pc t 5 s))
    | 5 => (* debug off, Unlock *)
      Some (mkDs (ds_readers s) None false (ds_log s) (set_pc t 6 s))
    | _ => None
    end
  end.

Definition dinit (fails : list bool) : dstate :=
  mkDs 0 None false [] (map (fun f => mkDt f 0) fails).

Definition dfinished (s : dstate) : bool := forallb (fun th => d_pc th =? 6) (ds_threads s).

(* ---------- concurrent invocations (bind.go invoke: values := baseValues.Copy()) ---------- *)
(* After init the base collection is only read; every invocation works on its own copy.  A thread
   is one invocation: a list of operations, each a function of the (read-only) base and of the
   thread's private collection. *)
Section Iso.
  Variable V : Type.
  Record istate := mkIs {
    is_base : list V;
    is_priv : list (list V);                             (* private collection of each invocation *)
    is_todo : list (list (list V -> list V -> list V))   (* operations each invocation still has to do *)
  }.

  Definition istep (t : nat) (s : istate) : option istate :=
    match nth_opt t (is_todo s), nth_opt t (is_priv s) with
    | Some (op :: rest), Some a =>
      Some (mkIs (is_base s) (upd_nth t (fun _ => op (is_base s) a) (is_priv s)) (upd_nth t (fun _ => rest) (is_todo s)))
    | _, _ => None
    end.

  (* what invocation t computes when it runs alone for n steps *)
  Fixpoint solo (base : list V) (ops : list (list V -> list V -> list V)) (n : nat) (a : list V) : list V :=
    match n, ops with
    | S n', op :: rest => solo base rest n' (op base a)
    | _, _ => a
    end.
End Iso.
