(* Property monitors: each property written over observables only.
   mon_Cnn case observation = true  iff  the observation satisfies the property on that case. *)
From Coq Require Import List Arith Bool.
Import ListNotations.
From NJ Require Import Edits.

Fixpoint list_nat_eqb (a b : list nat) : bool :=
  match a, b with
  | [], [] => true
  | x :: a', y :: b' => (x =? y) && list_nat_eqb a' b'
  | _, _ => false
  end.

(* C18: the observed execution order is exactly the edited list; an invalid directive is an
   error (the error class is informational). *)
Definition mon_C18 (l : list enode) (obs : eres (list nat)) : bool :=
  match edits_obs l, obs with
  | EOk a, EOk b => list_nat_eqb a b
  | EErr _, EErr _ => true
  | _, _ => false
  end.

(* ---------- monitors over the implementation's plan (ORDER + RMAP of a bound chain) ---------- *)
From NJ Require Import Base Registry Classify Select Reorder Machine Spec Bind.

(* what the implementation reported for one entry of its final working list *)
Record oprov := mkOprov {
  op_pid : nat; op_class : nat; op_group : nat; op_inc : bool;
  op_down : list (nat * nat);     (* input type > source type *)
  op_up : list (nat * nat);       (* received type > source type *)
  op_bypass : list (nat * nat)    (* init return type > source type *)
}.

(* static facts about the providers of a case, by pid: from the model's classification *)
Definition static_of (c : bcase) : list (nat * sprov) :=
  match assemble c with
  | Ok funcs => map (fun p => (p_pid p, p_s p)) funcs
  | _ => []
  end.

Definition sflow (st : list (nat * sprov)) (pid : nat) (k : flowK) : list nat :=
  match alookup pid st with Some s => flow_of (s_flows s) k | None => [] end.

Fixpoint nth_o (n : nat) (l : list oprov) : option oprov :=
  match l, n with [] , _ => None | x :: _, 0 => Some x | _ :: r, S n' => nth_o n' r end.

Definition inc_at (l : list oprov) (i : nat) : bool := match nth_o i l with Some o => op_inc o | None => false end.

(* positions strictly between a and b *)
Definition between (a b : nat) : list nat := seq_from (S a) (b - a - 1).

(* nearest included producer of type t' before position k is exactly position i *)
Definition down_produces (st : list (nat * sprov)) (l : list oprov) (i : nat) (t' : nat) : bool :=
  match nth_o i l with
  | Some o => op_inc o && memb t' (sflow st (op_pid o) FOut)
  | None => false
  end.
Definition nearest_down (st : list (nat * sprov)) (l : list oprov) (i k : nat) (t' : nat) : bool :=
  (i <? k) && down_produces st l i t' && negb (existsb (fun j => down_produces st l j t') (between i k)).

Definition up_returns (st : list (nat * sprov)) (l : list oprov) (i : nat) (t' : nat) : bool :=
  match nth_o i l with
  | Some o => op_inc o && memb t' (sflow st (op_pid o) FRet)
  | None => false
  end.
(* the value of t' that k receives comes from the nearest returner below k *)
Definition up_overwrites (st : list (nat * sprov)) (l : list oprov) (i : nat) (t' : nat) : bool :=
  up_returns st l i t' && match nth_o i l with Some o => (op_class o =? 4) || (op_class o =? 5) | None => false end.
(* fallible injectors write error only when they cut the chain: they never overwrite a value on its way up *)
Definition nearest_up (st : list (nat * sprov)) (l : list oprov) (k i : nat) (t' : nat) : bool :=
  (k <? i) && up_returns st l i t' && negb (existsb (fun j => up_overwrites st l j t') (between k i)).

Definition is_auto_desired (te : tyenv) (s : sprov) : bool :=
  match f_out (s_flows s) with
  | Some outs => length (strip_unused te outs) =? 0
  | None => false
  end.

Definition idxs (l : list oprov) : list nat := seq_from 0 (length l).

(* position of the invoke entry: init's returns are read there *)
Fixpoint find_pos (f : oprov -> bool) (l : list oprov) (i : nat) : option nat :=
  match l with [] => None | x :: r => if f x then Some i else find_pos f r (S i) end.

(* C03: an included provider that is not Required/Desired/auto-desired/clustered must have
   something it produced actually received: it is the nearest producer of a type some included
   consumer reads, or the nearest returner of a type some included provider above receives, or it
   consumes (as nearest consumer) a value its producer marked MustConsume *)
Definition justified (te : tyenv) (st : list (nat * sprov)) (l : list oprov) (i : nat) : bool :=
  match nth_o i l with
  | None => true
  | Some o =>
    let invPos := match find_pos (fun x => op_class x =? 9) l 0 with Some p => p | None => 0 end in
    existsb (fun k => match nth_o k l with
                      | Some c => op_inc c &&
                                  (existsb (fun e : nat * nat => nearest_down st l i k (snd e)) (op_down c) ||
                                   existsb (fun e : nat * nat => nearest_down st l i invPos (snd e)) (op_bypass c))
                      | None => false end) (idxs l)
    || existsb (fun k => match nth_o k l with
                         | Some c => op_inc c && existsb (fun e : nat * nat => nearest_up st l k i (snd e)) (op_up c)
                         | None => false end) (idxs l)
    (* a fallible injector's error reaches the nearest receiver of error above it whenever it fails,
       whatever other fallible injectors sit in between *)
    || ((op_class o =? 1) &&
        existsb (fun k => match nth_o k l with
                          | Some c => op_inc c && existsb (fun e : nat * nat => snd e =? te_errorT te) (op_up c)
                          | None => false end) (seq_from 0 i))
    || existsb (fun e : nat * nat =>
         existsb (fun j => nearest_down st l j i (snd e) &&
                           match nth_o j l with
                           | Some pj => match alookup (op_pid pj) st with
                                        | Some sj => match s_mustConsume sj with Some mc => memb (snd e) mc | None => false end
                                        | None => false end
                           | None => false end) (idxs l)) (op_down o)
  end.

Definition required_ok (c : bcase) (l : list oprov) : bool :=
  let st := static_of c in
  forallb (fun o => match alookup (op_pid o) st with
                    | Some s => if s_required s then op_inc o else true
                    | None => true end) l.

Definition justified_all (c : bcase) (l : list oprov) : bool :=
  let te := bc_te c in
  let st := static_of c in
  forallb (fun i => match nth_o i l with
                    | Some o =>
                      if negb (op_inc o) then true else
                      match alookup (op_pid o) st with
                      | Some s =>
                        if s_required s || d_desired (s_d s) || is_auto_desired te s || negb (d_cluster (s_d s) =? 0)
                           || s_synthetic s
                        then true else justified te st l i
                      | None => true end
                    | None => true end) (idxs l).

(* C03 on the implementation's plan.  Known finding D6 (include.go never re-prunes after its trial
   eliminations) makes the algorithm itself leave unjustified providers on some chains; the
   justification clause is claimed on the chains where the faithful model's plan is justified. *)
Definition mon_C03_plan (c : bcase) (model_plan impl_plan : list oprov) : bool :=
  required_ok c impl_plan && (if justified_all c model_plan then justified_all c impl_plan else true).
Definition mon_C03_plan_strict (c : bcase) (impl_plan : list oprov) : bool :=
  required_ok c impl_plan && justified_all c impl_plan.

(* C15: every type returned by an included final function, wrapper or (as error) fallible
   injector is received by an included wrapper above it or by invoke, unless ConsumptionOptional;
   no included wrapper overrides a type returned un-received below it unless announced *)
Definition mon_C15_plan (c : bcase) (l : list oprov) : bool :=
  let te := bc_te c in
  let st := static_of c in
  forallb (fun i => match nth_o i l with
    | Some o =>
      if negb (op_inc o) then true else
      match alookup (op_pid o) st with
      | Some s =>
        let co := match s_consOpt s with Some x => x | None => [] end in
        forallb (fun t =>
            memb t co || (t =? te_unusedT te) ||
            existsb (fun k => match nth_o k l with
                              | Some r => op_inc r && existsb (fun e : nat * nat => snd e =? t) (op_up r)
                              | None => false end) (seq_from 0 i))
          (flow_of (s_flows s) FRet) &&
        (* shadowing *)
        forallb (fun t =>
            memb t (flow_of (s_flows s) FRecv) ||
            memb t (d_shadowingAllowed (s_d s)) ||
            ((class_eqb (s_class s) ClFallible || class_eqb (s_class s) ClFallibleStatic) &&
             ((t =? te_errorT te) || (t =? te_terminalT te))) ||
            negb (existsb (fun j => match nth_o j l with
                                    | Some q => op_inc q && memb t (sflow st (op_pid q) FRet)
                                                && negb (memb t (sflow st (op_pid q) FRecv))
                                    | None => false end) (seq_from (S i) (length l - S i))))
          (flow_of (s_flows s) FRet)
      | None => true end
    | None => true end) (idxs l).
