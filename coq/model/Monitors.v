(* Property monitors: each property written over observables only.
   mon_Cnn case observation = true  iff  the observation satisfies the property on that case. *)
From Coq Require Import List Arith Bool.
Import ListNotations.
From NJ Require Import Edits.

Fixpoint list_nat_eqb (a b : list nat) : bool :=
  match a, b with
  | [], [] => true
  | x :: a', y :: b' => (x =? y) && list_nat_eqb a' b'
  | _, _ => false
  end.

(* C18: the observed execution order is exactly the edited list; an invalid directive is an
   error (the error class is informational). *)
Definition mon_C18 (l : list enode) (obs : eres (list nat)) : bool :=
  match edits_obs l, obs with
  | EOk a, EOk b => list_nat_eqb a b
  | EErr _, EErr _ => true
  | _, _ => false
  end.
