(* S2/S3: NonFinal shifting, classification (table interpreter over Registry.v), static/run taint. *)
From Coq Require Import List Arith Bool.
Import ListNotations.
From NJ Require Import Base Registry.

Record charContext := mkCC { cc_isLast : bool; cc_inputsAreStatic : bool }.

(* typesIn / typesOut as characterize.go sees them; the inner func parameter of a wrapper is the
   pseudo type INNER (an unnamed func) *)
Inductive ptype := PT (t : nat) | PInner.

Definition typesIn (s : shape) : list ptype :=
  match s with
  | ShFn ins _ => map PT ins
  | ShWrap ins _ _ _ => PInner :: map PT ins
  | _ => []
  end.
Definition typesOut (s : shape) : list nat :=
  match s with
  | ShFn _ outs => outs
  | ShWrap _ _ _ outs => outs
  | _ => []
  end.

Definition is_func_shape (s : shape) : bool :=
  match s with ShFn _ _ | ShWrap _ _ _ _ => true | _ => false end.

Definition pt_anon (te : tyenv) (p : ptype) : bool :=
  match p with PT t => anonfunc_t te t | PInner => true end.
Definition pt_mappable (te : tyenv) (p : ptype) : bool :=
  match p with PT t => mappable_t te t | PInner => false end.
Definition pt_mapkey (te : tyenv) (p : ptype) : bool :=
  match p with PT t => mapkey_t te t | PInner => false end.

Definition strip_unused (te : tyenv) (l : list nat) : list nat :=
  filter (fun t => negb (t =? te_unusedT te)) l.

Definition pred_holds (te : tyenv) (d : pdesc) (cc : charContext) (p : predT) : bool :=
  let s := d_shape d in
  match p with
  | P_notNil => match s with ShNil => false | _ => true end
  | P_notFunc => negb (is_func_shape s)
  | P_isFunc => is_func_shape s
  | P_isLast => cc_isLast cc
  | P_notLast => negb (cc_isLast cc)
  | P_unstaticOkay => negb (d_mustCache d)
  | P_inStatic => cc_inputsAreStatic cc
  | P_hasOutputs => negb (length (strip_unused te (typesOut s)) =? 0)
  | P_mustNotMemoize => negb (d_memoize d)
  | P_markedMemoized => d_memoize d
  | P_markedCacheable => d_cacheable d
  | P_markedSingleton => d_singleton d
  | P_notMarkedReorder => negb (d_reorder d)
  | P_notMarkedSingleton => negb (d_singleton d)
  | P_notMarkedNoCache => negb (d_notCacheable d)
  | P_mappableInputs => forallb (pt_mappable te) (typesIn s)
  | P_possibleMapKey => forallb (pt_mapkey te) (typesIn s)
  | P_returnsTerminalError => memb (te_terminalT te) (typesOut s)
  | P_noAnonymousFuncs =>
      match s with
      | ShWrap _ _ _ _ => false   (* the inner parameter is an unnamed func (or it is a ReflectiveWrapper) *)
      | _ => negb (existsb (pt_anon te) (typesIn s)) && negb (existsb (anonfunc_t te) (typesOut s))
      end
  | P_noAnonymousExceptFirstInput =>
      negb (existsb (pt_anon te) (tl (typesIn s))) && negb (existsb (anonfunc_t te) (typesOut s))
  | P_hasInner => match s with ShWrap _ _ _ _ => true | _ => false end
  | P_isFuncPointer => match s with ShFnPtr _ _ => true | _ => false end
  | P_isNotFuncPointer => match s with ShFnPtr _ _ => false | _ => true end
  end.

Definition remapTE (te : tyenv) (l : list nat) : list nat :=
  map (fun t => if t =? te_terminalT te then te_errorT te else t) l.
Definition redactTE (te : tyenv) (l : list nat) : list nat :=
  filter (fun t => negb (t =? te_terminalT te)) l.

Definition plain_ins (s : shape) : list nat :=
  match s with ShFn ins _ => ins | ShWrap ins _ _ _ => ins | _ => [] end.

Definition eval_flow (te : tyenv) (s : shape) (e : flowE) : option (list nat) :=
  match e with
  | FE_none => None
  | FE_typesIn => Some (plain_ins s)
  | FE_typesOut => Some (typesOut s)
  | FE_remapTE_typesOut => Some (remapTE te (typesOut s))
  | FE_redactTE_typesOut => Some (redactTE te (typesOut s))
  | FE_errorOnly => Some [te_errorT te]
  | FE_self => match s with ShLit t => Some [t] | ShFnPtr _ _ => Some [0] | _ => Some [] end
  | FE_wrapperIn => Some (te_noT te :: plain_ins s)
  | FE_innerIn => match s with ShWrap _ ii _ _ => Some ii | _ => Some [] end
  | FE_innerOut => match s with ShWrap _ _ io _ => Some io | _ => Some [] end
  | FE_elemIn => match s with ShFnPtr ins _ => Some ins | _ => Some [] end
  | FE_elemOut => match s with ShFnPtr _ outs => Some outs | _ => Some [] end
  end.

(* static part of a provider after characterization *)
Record sprov := mkSprov {
  s_d : pdesc;
  s_class : classT;
  s_group : groupT;
  s_flows : flowsT;
  s_memoized : bool;
  s_required : bool;
  s_synthetic : bool;
  s_shun : bool;
  s_consOpt : option (list nat);
  s_mustConsume : option (list nat)
}.

Definition apply_entry (te : tyenv) (d : pdesc) (e : entry) : sprov :=
  let s := d_shape d in
  mkSprov d (e_class e) (e_group e)
    (mkFlows (eval_flow te s (e_ret e)) (eval_flow te s (e_out e)) (eval_flow te s (e_in e))
             (eval_flow te s (e_recv e)) (eval_flow te s (e_bypass e)))
    (e_memoized e) (d_required d || e_required e) (e_synthetic e)
    (d_shun d) (d_consumptionOptional d) (d_mustConsume d).

Fixpoint classify_reg (te : tyenv) (reg : list entry) (d : pdesc) (cc : charContext) : option sprov :=
  match reg with
  | [] => None
  | e :: r => if forallb (pred_holds te d cc) (e_tests e) then Some (apply_entry te d e)
              else classify_reg te r d cc
  end.

(* characterizeFuncDetails: a nil function is rejected before the table is consulted *)
Definition classify_in (te : tyenv) (reg : list entry) (d : pdesc) (cc : charContext) : option sprov :=
  match d_shape d with
  | ShNilFn _ _ => None
  | _ => classify_reg te reg d cc
  end.

Definition characterizeFunc te d cc := classify_in te handlerRegistry d cc.
Definition characterizeInitInvoke te d cc := classify_in te invokeRegistry d cc.

(* ---------- NonFinal shifting (nject.go:reorderNonFinal) ---------- *)
(* move the last provider that is not marked nonFinal to the end *)
Fixpoint split_last_final (l : list pdesc) : option (list pdesc * pdesc * list pdesc) :=
  match l with
  | [] => None
  | x :: r =>
    match split_last_final r with
    | Some (pre, f, post) => Some (x :: pre, f, post)
    | None => if d_nonFinal x then None else Some ([], x, r)
    end
  end.

Definition reorder_nonfinal (l : list pdesc) : list pdesc :=
  match split_last_final l with
  | Some (pre, f, post) => pre ++ post ++ [f]
  | None => l
  end.

(* ---------- characterizeAndFlatten ---------- *)
Definition taints (s : sprov) : bool :=
  match s_group s with GRun | GInvoke => true | _ => false end.

(* one provider of characterizeAndFlatten: characterize as if its inputs were static; if that makes
   it static but one of its inputs is tainted (comes from invoke or a run-group provider listed
   earlier), characterize again with inputsAreStatic = false *)
(* what a provider that has not been characterized puts out downward (flows.go: provider.DownFlows) *)
Definition down_outs_of (te : tyenv) (d : pdesc) : list nat :=
  match d_shape d with
  | ShLit t => [t]
  | ShFn _ outs => filter (fun t => negb (t =? te_terminalT te)) outs
  | ShWrap _ ii _ _ => ii
  | _ => []
  end.

(* (interface, type) pairs: the interface may be satisfied by that output of a provider Loose for it *)
Definition loose_for (te : tyenv) (l : list pdesc) : list (nat * nat) :=
  flat_map (fun d => flat_map (fun i => if is_iface te i
                                        then flat_map (fun out => if implements te out i then [(i, out)] else []) (down_outs_of te d)
                                        else []) (d_loose d)) l.

(* an input is non-static if its type is, or if it is an interface that a Loose provider may
   satisfy with a non-static type *)
Definition tainted_in (looseFor : list (nat * nat)) (nonStatic : list nat) (t : nat) : bool :=
  memb t nonStatic || existsb (fun pr : nat * nat => (fst pr =? t) && memb (snd pr) nonStatic) looseFor.

Definition char_one (te : tyenv) (d : pdesc) (isLast : bool) (looseFor : list (nat * nat)) (nonStatic : list nat) : option sprov :=
  match characterizeFunc te d (mkCC isLast true) with
  | None => None
  | Some s0 =>
    if group_eqb (s_group s0) GStatic && existsb (tainted_in looseFor nonStatic) (fl (f_in (s_flows s0)))
    then characterizeFunc te d (mkCC isLast false) else Some s0
  end.

Fixpoint char_loop (te : tyenv) (l : list pdesc) (looseFor : list (nat * nat)) (nonStatic : list nat)
         (accInit accInvoke : list sprov) : res (list sprov * list sprov) :=
  match l with
  | [] => Ok (rev accInit, rev accInvoke)
  | d :: r =>
    let isLast := match r with [] => true | _ => false end in
    match char_one te d isLast looseFor nonStatic with
    | None => Err EB_NOMATCH
    | Some s =>
      let nonStatic' := if taints s then fl (f_out (s_flows s)) ++ nonStatic else nonStatic in
      match s_group s with
      | GStatic | GLiteral => char_loop te r looseFor nonStatic' (s :: accInit) accInvoke
      | GFinal | GRun => char_loop te r looseFor nonStatic' accInit (s :: accInvoke)
      | GInvoke => Err EB_INTERNAL
      end
    end
  end.

(* what a Reorder'd per-invocation provider outputs is non-static wherever it is listed *)
Fixpoint pretaint (te : tyenv) (l : list pdesc) : list nat :=
  match l with
  | [] => []
  | d :: r =>
    let isLast := match r with [] => true | _ => false end in
    (if d_reorder d then
       match characterizeFunc te d (mkCC isLast true) with
       | Some s => if group_eqb (s_group s) GRun then fl (f_out (s_flows s)) else []
       | None => []
       end
     else []) ++ pretaint te r
  end.

Definition characterize_and_flatten (te : tyenv) (l : list pdesc) (nonStatic : list nat)
  : res (list sprov * list sprov) :=
  let l' := reorder_nonfinal l in
  char_loop te l' (loose_for te l') (pretaint te l' ++ nonStatic) [] [].
