(* Base definitions of the nject model: type codes, type environment, provider descriptors,
   flows, association lists, result type. *)
From Coq Require Import List Arith Bool.
Import ListNotations.

Notation tc := nat (only parsing).

(* ---------- small utilities ---------- *)
Fixpoint memb (x : nat) (l : list nat) : bool :=
  match l with [] => false | y :: r => (x =? y) || memb x r end.

Fixpoint alookup {A} (k : nat) (m : list (nat * A)) : option A :=
  match m with
  | [] => None
  | (k', v) :: r => if k =? k' then Some v else alookup k r
  end.

(* replace the binding of k, or append a new one *)
Fixpoint aset {A} (k : nat) (v : A) (m : list (nat * A)) : list (nat * A) :=
  match m with
  | [] => [(k, v)]
  | (k', v') :: r => if k =? k' then (k, v) :: r else (k', v') :: aset k v r
  end.

Definition akeys {A} (m : list (nat * A)) : list nat := map fst m.

Fixpoint nth_opt {A} (n : nat) (l : list A) : option A :=
  match l, n with
  | [], _ => None
  | x :: _, 0 => Some x
  | _ :: r, S n' => nth_opt n' r
  end.

Fixpoint upd_nth {A} (n : nat) (f : A -> A) (l : list A) : list A :=
  match l, n with
  | [], _ => []
  | x :: r, 0 => f x :: r
  | x :: r, S n' => x :: upd_nth n' f r
  end.

Fixpoint list_eqb (a b : list nat) : bool :=
  match a, b with
  | [], [] => true
  | x :: a', y :: b' => (x =? y) && list_eqb a' b'
  | _, _ => false
  end.

Fixpoint remove_all (x : nat) (l : list nat) : list nat :=
  match l with [] => [] | y :: r => if x =? y then remove_all x r else y :: remove_all x r end.

Fixpoint dedup (l : list nat) : list nat :=
  match l with [] => [] | x :: r => x :: remove_all x (dedup r) end.

Fixpoint seq_from (start len : nat) : list nat :=
  match len with 0 => [] | S n => start :: seq_from (S start) n end.

Fixpoint insert_sorted (x : nat) (l : list nat) : list nat :=
  match l with
  | [] => [x]
  | y :: r => if x <=? y then x :: l else y :: insert_sorted x r
  end.
Definition sort_nat (l : list nat) : list nat := fold_right insert_sorted [] l.

(* ---------- type environment ---------- *)
Record tyinfo := mkTy {
  ty_code : nat;
  ty_iface : bool;          (* Kind() == Interface *)
  ty_pkg : nat;             (* package id, for the same-package score *)
  ty_nmeth : nat;           (* NumMethod() *)
  ty_mappable : bool;       (* mappable(): no map/slice/func inside *)
  ty_mapkey : bool;         (* canBeMapKey(): statically possible map key *)
  ty_anonfunc : bool;       (* unnamed func type *)
  ty_impl : list nat;       (* interface types this type implements *)
  ty_prod : nat             (* for an interface: the concrete type scripts produce for it *)
}.

Record tyenv := mkTyenv {
  te_types : list tyinfo;
  te_noT : nat;        (* placeholder for a wrapper's inner func parameter *)
  te_unusedT : nat;
  te_errorT : nat;
  te_terminalT : nat;
  te_debugT : nat
}.

Fixpoint find_ty (t : nat) (l : list tyinfo) : option tyinfo :=
  match l with [] => None | x :: r => if ty_code x =? t then Some x else find_ty t r end.

Definition ty_of (te : tyenv) (t : nat) : option tyinfo := find_ty t (te_types te).
Definition is_iface (te : tyenv) (t : nat) : bool :=
  match ty_of te t with Some i => ty_iface i | None => false end.
Definition implements (te : tyenv) (a b : nat) : bool :=
  match ty_of te a with Some i => memb b (ty_impl i) | None => false end.
Definition pkg_of (te : tyenv) (t : nat) : nat := match ty_of te t with Some i => ty_pkg i | None => 0 end.
Definition nmeth_of (te : tyenv) (t : nat) : nat := match ty_of te t with Some i => ty_nmeth i | None => 0 end.
Definition mappable_t (te : tyenv) (t : nat) : bool := match ty_of te t with Some i => ty_mappable i | None => true end.
Definition mapkey_t (te : tyenv) (t : nat) : bool := match ty_of te t with Some i => ty_mapkey i | None => true end.
Definition anonfunc_t (te : tyenv) (t : nat) : bool := match ty_of te t with Some i => ty_anonfunc i | None => false end.
Definition prod_of (te : tyenv) (t : nat) : nat := match ty_of te t with Some i => ty_prod i | None => t end.

(* ---------- provider descriptors (what the user hands to nject) ---------- *)
Inductive shape :=
| ShNil
| ShLit (t : nat)
| ShFn (ins outs : list nat)
| ShWrap (ins innerIns innerOuts outs : list nat)   (* ins: parameters after the inner func *)
| ShFnPtr (ins outs : list nat)
| ShNilFn (ins outs : list nat).        (* a typed nil func value *)

Record pdesc := mkPdesc {
  d_pid : nat;
  d_origin : nat;              (* Provide() name / collection name, 0 = "" *)
  d_rep : nat;                 (* ReplaceNamed target, 0 = none *)
  d_bef : nat;                 (* InsertBeforeNamed target *)
  d_aft : nat;                 (* InsertAfterNamed target *)
  d_shape : shape;
  d_reflective : bool;
  d_nonFinal : bool;
  d_cacheable : bool;
  d_mustCache : bool;
  d_required : bool;
  d_memoize : bool;
  d_reorder : bool;
  d_desired : bool;
  d_shun : bool;
  d_notCacheable : bool;
  d_singleton : bool;
  d_parallel : bool;
  d_cluster : nat;
  d_loose : list nat;
  d_mustConsume : option (list nat);          (* None = nil map *)
  d_consumptionOptional : option (list nat);
  d_shadowingAllowed : list nat;
  (* behaviour script of the correspondence providers *)
  d_failmask : nat;            (* fallible injector fails when bit (serial mod 8) is set *)
  d_calls : list nat;          (* wrapper: number of inner() calls, indexed by serial mod length *)
  d_passthru : bool            (* wrapper returns what the last inner() call returned, per type *)
}.

(* ---------- classes, groups, flows ---------- *)
Inductive classT := ClUnset | ClFallible | ClFallibleStatic | ClInjector | ClWrapper | ClFinal
                  | ClStatic | ClLiteral | ClInit | ClInvoke.
Definition class_code (c : classT) : nat :=
  match c with ClUnset => 0 | ClFallible => 1 | ClFallibleStatic => 2 | ClInjector => 3 | ClWrapper => 4
             | ClFinal => 5 | ClStatic => 6 | ClLiteral => 7 | ClInit => 8 | ClInvoke => 9 end.
Definition class_eqb (a b : classT) : bool := class_code a =? class_code b.

Inductive groupT := GInvoke | GLiteral | GStatic | GRun | GFinal.
Definition group_code (g : groupT) : nat :=
  match g with GInvoke => 0 | GLiteral => 1 | GStatic => 2 | GRun => 3 | GFinal => 4 end.
Definition group_eqb (a b : groupT) : bool := group_code a =? group_code b.

(* flows: nil (None) vs empty list matters for auto-desired *)
Record flowsT := mkFlows {
  f_ret : option (list nat);     (* returnParams *)
  f_out : option (list nat);     (* outputParams *)
  f_in : option (list nat);      (* inputParams *)
  f_recv : option (list nat);    (* receivedParams *)
  f_bypass : option (list nat)   (* bypassParams *)
}.
Definition no_flows := mkFlows None None None None None.
Definition fl (o : option (list nat)) : list nat := match o with Some l => l | None => [] end.

Inductive flowK := FRet | FOut | FIn | FRecv | FBypass.
Definition flowk_code (k : flowK) : nat :=
  match k with FRet => 0 | FOut => 1 | FIn => 2 | FRecv => 3 | FBypass => 4 end.
Definition flow_of (f : flowsT) (k : flowK) : list nat :=
  match k with FRet => fl (f_ret f) | FOut => fl (f_out f) | FIn => fl (f_in f)
             | FRecv => fl (f_recv f) | FBypass => fl (f_bypass f) end.

(* ---------- results ---------- *)
Inductive res (A : Type) : Type := Ok (a : A) | Err (code : nat) | Panic (code : nat).
Arguments Ok {A} a.
Arguments Err {A} code.
Arguments Panic {A} code.

Definition bindr {A B} (r : res A) (f : A -> res B) : res B :=
  match r with Ok a => f a | Err c => Err c | Panic c => Panic c end.

(* error classes of Bind *)
Definition EB_NOMATCH := 1.          (* Could not match type to any prototype *)
Definition EB_REQUIRED := 2.         (* required but ... / is required and excluded *)
Definition EB_WANTED := 3.           (* wanted but ... *)
Definition EB_SHADOW := 4.           (* return shadowing *)
Definition EB_INITTYPE := 5.         (* Type required by init func ... not provided *)
Definition EB_NOFINAL := 6.          (* internal error #1 no final func *)
Definition EB_INTERNAL := 7.
Definition EB_EDIT := 8.             (* named edit errors *)
Definition EB_ZERO := 9.             (* cannot create useful zero value *)
Definition EB_FATAL := 10.           (* delayed provider error *)
