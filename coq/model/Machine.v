(* S7-S9: shadowing check, slot allocation, code generation and the slot machine
   (shadowing.go, bind.go:140-412, generate.go). *)
From Coq Require Import List Arith Bool.
Import ListNotations.
From NJ Require Import Base Registry Classify Select.

(* ---------- values ---------- *)
Inductive val :=
| VTag (t p s : nat)      (* value of concrete type t made by producer p at serial s *)
| VErr (p s : nat)        (* non-nil error / TerminalError value *)
| VZero (t : nat)         (* reflect.Zero(t) *)
| VInvalid.               (* the zero reflect.Value: a slot never written *)

Definition norm (t : nat) (v : val) : val := match v with VInvalid => VZero t | _ => v end.
Definition is_nil (v : val) : bool := match v with VZero _ | VInvalid => true | _ => false end.

Definition val_eqb (a b : val) : bool :=
  match a, b with
  | VTag t p s, VTag t' p' s' => (t =? t') && (p =? p') && (s =? s')
  | VErr p s, VErr p' s' => (p =? p') && (s =? s')
  | VZero t, VZero t' => t =? t'
  | VInvalid, VInvalid => true
  | _, _ => false
  end.

(* ---------- S7: return shadowing ---------- *)
Fixpoint shadow_loop (te : tyenv) (rfuncs : list prov) (returned : list nat) : bool :=
  match rfuncs with
  | [] => true
  | p :: r =>
    let recvd := pflow p FRecv in
    let fallible := class_eqb (p_class p) ClFallible || class_eqb (p_class p) ClFallibleStatic in
    let step := fold_left (fun (st : list nat * bool) t =>
        let (ret, ok) := st in
        if negb ok then st
        else if memb t recvd then st
        else if negb (memb t ret) then (t :: ret, true)
        else if fallible && ((t =? te_errorT te) || (t =? te_terminalT te)) then st
        else if memb t (d_shadowingAllowed (s_d (p_s p))) then st
        else (ret, false)) (pflow p FRet) (returned, true) in
    if snd step then shadow_loop te r (fst step) else false
  end.

Definition check_shadowing (te : tyenv) (funcs : list prov) : bool := shadow_loop te (rev funcs) [].

(* ---------- S8: slots ---------- *)
(* vmap: type -> -1 (None) or index (Some i); a type that is absent is not a key of the Go map *)
Notation vmap := (list (nat * option nat)) (only parsing).

Definition vm_keys (funcs : list prov) : list (nat * option nat) :=
  map (fun t => (t, @None nat))
      (dedup (flat_map (fun p => if p_include p then
                 pflow p FRet ++ pflow p FOut ++ pflow p FIn ++ pflow p FRecv ++ pflow p FBypass else []) funcs)).

Definition remap (m : list (nat * nat)) (t : nat) : nat :=
  match alookup t m with Some t' => t' | None => t end.

(* addToVmap *)
Definition add_to_vmap (tys : list nat) (rm : list (nat * nat)) (st : list (nat * option nat) * nat)
  : list (nat * option nat) * nat :=
  fold_left (fun (st : list (nat * option nat) * nat) t =>
      let (vm, cnt) := st in
      let t' := remap rm t in
      match alookup t' vm with
      | Some None => (aset t' (Some cnt) vm, S cnt)
      | _ => st
      end) tys st.

Definition vm_mapped (vm : list (nat * option nat)) : list nat :=
  flat_map (fun e : nat * option nat => match snd e with Some _ => [fst e] | None => [] end) vm.

Record slotted := mkSlotted {
  sl_funcs : list (prov * list nat);   (* provider with its must-zero list *)
  sl_down : list (nat * option nat);
  sl_up : list (nat * option nat);
  sl_count : nat;
  sl_down0 : list (nat * option nat)   (* the down map when only the static part has been allocated *)
}.

(* static part: i = invokeIndex-1 downto 0 *)
Fixpoint static_slots (rstatic : list prov) (st : list (nat * option nat) * nat)
  : list (prov * list nat) * (list (nat * option nat) * nat) :=
  match rstatic with
  | [] => ([], st)
  | p :: r =>
    (* mustZeroIfRemainderSkipped; a run-group provider that (through Reorder) sits before invoke
       has no mustZeroIfInnerNotCalled list *)
    let zero := match p_class p with ClWrapper | ClFallible => [] | _ => vm_mapped (fst st) end in
    let st' := add_to_vmap (pflow p FOut) [] st in     (* outputs are stored under their own types *)
    let (done, st'') := static_slots r st' in
    ((p, zero) :: done, st'')
  end.

(* run part: i = len-1 downto invokeIndex; up and down share the counter *)
Fixpoint run_slots (rrun : list prov) (dn up : list (nat * option nat)) (cnt : nat)
  : list (prov * list nat) * list (nat * option nat) * list (nat * option nat) * nat :=
  match rrun with
  | [] => ([], dn, up, cnt)
  | p :: r =>
    let (dn1, c1) := add_to_vmap (pflow p FIn) (p_downR p) (dn, cnt) in
    let (up1, c2) := add_to_vmap (pflow p FRet) [] (up, c1) in     (* returned values: under their own types *)
    (* mustZeroIfInnerNotCalled; a static provider after invoke has no mustZeroIfRemainderSkipped list *)
    let zero := match p_class p with ClFallibleStatic => [] | _ => vm_mapped up1 end in
    match run_slots r dn1 up1 c2 with
    | (done, dn2, up2, c3) => ((p, zero) :: done, dn2, up2, c3)
    end
  end.

Definition allocate_slots (funcs : list prov) (invokeIndex : nat) : slotted :=
  let keys := vm_keys funcs in
  let pre := firstn invokeIndex funcs in
  let post := skipn invokeIndex funcs in
  let (sdone, st) := static_slots (rev pre) (keys, 0) in
  match run_slots (rev post) (fst st) keys (snd st) with
  | (rdone, dn, up, cnt) => mkSlotted (rev sdone ++ rev rdone) dn up cnt (fst st)
  end.

(* ---------- S9: compiled providers ---------- *)
Record cp := mkCp {
  cp_pid : nat;
  cp_class : classT;
  cp_parallel : bool;
  cp_in : list (option nat * nat);     (* per parameter: slot (None = -1) and the type used for zeroing *)
  cp_out : list (option nat * nat);    (* down slots written with the outputs / inner() arguments *)
  cp_ret : list (option nat * nat);    (* up slots written with the returned values *)
  cp_recv : list (option nat * nat);   (* up slots read after inner() returns *)
  cp_zero : list (nat * nat);          (* (slot, type) to zero *)
  cp_tepos : nat;                      (* position of the TerminalError among the results *)
  cp_errslot : option nat              (* up slot of error *)
}.

(* generateParameterMap: every type must be a key of rmap (when given) and of vmap *)
Fixpoint param_slots (te : tyenv) (tys : list nat) (rm : option (list (nat * nat))) (vm : list (nat * option nat))
  : option (list (option nat * nat)) :=
  match tys with
  | [] => Some []
  | t :: r =>
    if t =? te_noT te then None else
    let useP := match rm with
                | None => Some t
                | Some m => alookup t m
                end in
    match useP with
    | None => None
    | Some t' =>
      match alookup t' vm with
      | None => None
      | Some slot =>
        match param_slots te r rm vm with
        | None => None
        | Some rest => Some ((slot, t') :: rest)
        end
      end
    end
  end.

Fixpoint zero_slots (zs : list nat) (vm : list (nat * option nat)) : option (list (nat * nat)) :=
  match zs with
  | [] => Some []
  | t :: r =>
    match alookup t vm with
    | Some (Some i) =>
      match zero_slots r vm with Some rest => Some ((i, t) :: rest) | None => None end
    | _ => None
    end
  end.

Fixpoint index_of (x : nat) (l : list nat) (i : nat) : option nat :=
  match l with [] => None | y :: r => if x =? y then Some i else index_of x r (S i) end.

Definition orig_outs (p : prov) : list nat :=
  match d_shape (s_d (p_s p)) with ShFn _ outs => outs | ShWrap _ _ _ outs => outs | _ => [] end.

Definition compile_one (te : tyenv) (dn up : list (nat * option nat)) (pz : prov * list nat) : option cp :=
  let (p, zero) := pz in
  let pid := p_pid p in
  let par := d_parallel (s_d (p_s p)) in
  let dR := Some (p_downR p) in
  match p_class p with
  | ClFinal =>
    match param_slots te (pflow p FIn) dR dn, param_slots te (pflow p FRet) None up with
    | Some i, Some r => Some (mkCp pid ClFinal par i [] r [] [] 0 None)
    | _, _ => None
    end
  | ClWrapper =>
    match param_slots te (tl (pflow p FIn)) dR dn, param_slots te (pflow p FOut) None dn,
          param_slots te (pflow p FRet) None up, param_slots te (pflow p FRecv) (Some (p_upR p)) up,
          zero_slots zero up with
    | Some i, Some o, Some r, Some rc, Some z => Some (mkCp pid ClWrapper par i o r rc z 0 None)
    | _, _, _, _, _ => None
    end
  | ClFallible =>
    match param_slots te (pflow p FIn) dR dn, param_slots te (pflow p FOut) None dn, zero_slots zero up,
          index_of (te_terminalT te) (orig_outs p) 0, alookup (te_errorT te) up with
    | Some i, Some o, Some z, Some tp, Some es => Some (mkCp pid ClFallible par i o [] [] z tp es)
    | _, _, _, _, _ => None
    end
  | ClInjector =>
    match param_slots te (pflow p FIn) dR dn, param_slots te (pflow p FOut) None dn with
    | Some i, Some o => Some (mkCp pid ClInjector par i o [] [] [] 0 None)
    | _, _ => None
    end
  | ClStatic =>
    match param_slots te (pflow p FIn) dR dn, param_slots te (pflow p FOut) None dn with
    | Some i, Some o => Some (mkCp pid ClStatic par i o [] [] [] 0 None)
    | _, _ => None
    end
  | ClFallibleStatic =>
    match param_slots te (pflow p FIn) dR dn, param_slots te (pflow p FOut) None dn, zero_slots zero dn,
          index_of (te_terminalT te) (orig_outs p) 0 with
    | Some i, Some o, Some z, Some tp => Some (mkCp pid ClFallibleStatic par i o [] [] z tp None)
    | _, _, _, _ => None
    end
  | ClLiteral =>
    match param_slots te (pflow p FOut) None dn with
    | Some o => Some (mkCp pid ClLiteral par [] o [] [] [] 0 None)
    | None => None
    end
  | ClInit =>
    match param_slots te (pflow p FOut) None dn, param_slots te (pflow p FBypass) (Some (p_bypassR p)) dn with
    | Some o, Some b => Some (mkCp pid ClInit false b o [] [] [] 0 None)
    | _, _ => None
    end
  | ClInvoke =>
    match param_slots te (pflow p FOut) None dn, param_slots te (pflow p FRecv) (Some (p_upR p)) up with
    | Some o, Some rc => Some (mkCp pid ClInvoke false [] o [] rc [] 0 None)
    | _, _ => None
    end
  | ClUnset => None
  end.

(* ---------- the slot machine ---------- *)
Notation arr := (list val) (only parsing).

Fixpoint aget (i : nat) (a : list val) : val :=
  match a, i with
  | [], _ => VInvalid
  | x :: _, 0 => x
  | _ :: r, S i' => aget i' r
  end.
Fixpoint aput (i : nat) (v : val) (a : list val) : list val :=
  match a, i with
  | [], _ => []
  | _ :: r, 0 => v :: r
  | x :: r, S i' => x :: aput i' v r
  end.

(* generateInputMapper: -1 slots leave the zero reflect.Value (VInvalid); unset slots read as Zero *)
Definition read_params (ps : list (option nat * nat)) (a : list val) : list val :=
  map (fun st : option nat * nat => match fst st with
                 | Some i => norm (snd st) (aget i a)
                 | None => VInvalid
                 end) ps.

(* generateOutputMapper *)
Fixpoint write_params (ps : list (option nat * nat)) (vs : list val) (a : list val) : list val :=
  match ps, vs with
  | (Some i, t) :: ps', v :: vs' => write_params ps' vs' (aput i (norm t v) a)
  | (None, _) :: ps', _ :: vs' => write_params ps' vs' a
  | _, _ => a
  end.

Definition zero_arr (zs : list (nat * nat)) (a : list val) : list val :=
  fold_left (fun a' (z : nat * nat) => aput (fst z) (VZero (snd z)) a') zs a.

Fixpoint remove_nth {A} (n : nat) (l : list A) : list A :=
  match l, n with
  | [], _ => []
  | _ :: r, 0 => r
  | x :: r, S n' => x :: remove_nth n' r
  end.

Section Exec.
  Variable W : Type.

  (* a wrapper's behaviour: an interaction tree over inner() calls *)
  Inductive wtree :=
  | WRet (w : W) (rets : list val)
  | WInner (w : W) (args : list val) (k : W -> list val -> wtree).

  (* user code: what a provider function does with its arguments, over an abstract world W
     (logging, counters, caches ... all live in W) *)
  Variable beh_fn : nat -> W -> list val -> W * list val.
  Variable beh_wrap : nat -> W -> list val -> wtree.

  Definition has_invalid (l : list val) : bool := existsb (fun v => match v with VInvalid => true | _ => false end) l.

  (* result: world, array, ok (false: reflect.Call was handed an invalid Value = panic) *)
  Definition xres := (W * list val * bool)%type.

  (* a wrapper: snapshot at entry, restore in place before the 2nd+ inner() call, zero the
     returns if inner() was never called, then write the wrapper's own returns *)
  Fixpoint run_wrap (c : cp) (exec_rest : W -> list val -> xres) (snapshot : list val)
           (t : wtree) (cur : list val) (count : nat) {struct t} : xres :=
    match t with
    | WRet w1 rets =>
      let cur1 := if count =? 0 then zero_arr (cp_zero c) cur else cur in
      (w1, write_params (cp_ret c) rets cur1, true)
    | WInner w1 iargs k =>
      let start := if cp_parallel c then snapshot
                   else if count =? 0 then cur else snapshot in
      match exec_rest w1 (write_params (cp_out c) iargs start) with
      | (w2, a2, ok) =>
        if negb ok then (w2, a2, false) else
        run_wrap c exec_rest snapshot (k w2 (read_params (cp_recv c) a2))
                 (if cp_parallel c then cur else a2) (S count)
      end
    end.

  Fixpoint exec (prog : list cp) (w : W) (a : list val) {struct prog} : xres :=
    match prog with
    | [] => (w, a, true)
    | c :: rest =>
      let args := read_params (cp_in c) a in
      if has_invalid args then (w, a, false) else
      match cp_class c with
      | ClInjector =>
        let (w1, outs) := beh_fn (cp_pid c) w args in
        exec rest w1 (write_params (cp_out c) outs a)
      | ClFallible =>
        let (w1, outs) := beh_fn (cp_pid c) w args in
        let te := nth (cp_tepos c) outs VInvalid in
        if negb (is_nil te) then
          let a1 := zero_arr (cp_zero c) a in
          (w1, match cp_errslot c with Some i => aput i te a1 | None => a1 end, true)
        else exec rest w1 (write_params (cp_out c) (remove_nth (cp_tepos c) outs) a)
      | ClWrapper => run_wrap c (exec rest) a (beh_wrap (cp_pid c) w args) a 0
      | ClFinal =>
        let (w1, rets) := beh_fn (cp_pid c) w args in
        (w1, write_params (cp_ret c) rets a, true)
      | _ => (w, a, false)
      end
    end.

  (* static chain over the base array: literals and static injectors in listed order; after a
     failing fallible static injector the remaining injectors are skipped, literals still apply *)
  Definition lit_value (c : cp) : val :=
    match cp_out c with (_, t) :: _ => VTag t (cp_pid c) 0 | [] => VInvalid end.
  Definition apply_literal (c : cp) (a : list val) : list val :=
    match cp_out c with (Some i, _) :: _ => aput i (lit_value c) a | _ => a end.

  Fixpoint exec_static (prog : list cp) (failed : bool) (w : W) (a : list val) : xres :=
    match prog with
    | [] => (w, a, true)
    | c :: rest =>
      match cp_class c with
      | ClLiteral => exec_static rest failed w (apply_literal c a)
      | _ =>
        if failed then exec_static rest true w a else
        let args := read_params (cp_in c) a in
        if has_invalid args then (w, a, false) else
        let (w1, outs) := beh_fn (cp_pid c) w args in
        let a1 := write_params (cp_out c) outs a in
        match cp_class c with
        | ClFallibleStatic =>
          if negb (is_nil (nth (cp_tepos c) outs VInvalid))
          then exec_static rest true w1 (write_params (cp_out c) outs (zero_arr (cp_zero c) a1))
          else exec_static rest false w1 a1
        | _ => exec_static rest false w1 a1
        end
      end
    end.

  (* a bound chain *)
  Record bound := mkBound {
    bd_base0 : list val;          (* baseValues with the literals filled in *)
    bd_static : list cp;         (* literals and static injectors, in listed order *)
    bd_run : list cp;
    bd_init : option cp;
    bd_invoke : cp
  }.

  (* session steps; the arguments the caller passes are produced by the world too
     (beh_fn on the init / invoke pseudo-provider with no inputs) *)
  Inductive step := DoInit | DoInvoke.
  Inductive sres := RInit (vals : list val) | RInvoke (vals : list val) | RPanic | RNoInit.

  Record sess := mkSess { ss_w : W; ss_base : list val; ss_done : bool; ss_ok : bool }.

  Definition run_step (b : bound) (s : sess) (st : step) : sess * sres :=
    if negb (ss_ok s) then (s, RPanic) else
    match st with
    | DoInit =>
      match bd_init b with
      | None => (s, RNoInit)
      | Some ic =>
        let (w0, args) := beh_fn (cp_pid ic) (ss_w s) [] in
        let '(w1, base1, ok) :=
          if ss_done s then (w0, ss_base s, true)
          else exec_static (bd_static b) false w0 (write_params (cp_out ic) args (ss_base s)) in
        (mkSess w1 base1 true ok, if ok then RInit (read_params (cp_in ic) base1) else RPanic)
      end
    | DoInvoke =>
      let (w0, args) := beh_fn (cp_pid (bd_invoke b)) (ss_w s) [] in
      let '(w1, base1, ok, done) :=
        match bd_init b with
        | Some _ => (w0, ss_base s, true, ss_done s)
        | None =>
          if ss_done s then (w0, ss_base s, true, true)
          else match exec_static (bd_static b) false w0 (ss_base s) with
               | (w1, a1, ok) => (w1, a1, ok, true)
               end
        end in
      if negb ok then (mkSess w1 base1 done false, RPanic) else
      match exec (bd_run b) w1 (write_params (cp_out (bd_invoke b)) args base1) with
      | (w2, a2, ok2) =>
        (mkSess w2 base1 done ok2,
         if ok2 then RInvoke (read_params (cp_recv (bd_invoke b)) a2) else RPanic)
      end
    end.

  Fixpoint run_session (b : bound) (s : sess) (steps : list step) : sess * list sres :=
    match steps with
    | [] => (s, [])
    | st :: r =>
      let (s1, r1) := run_step b s st in
      let (s2, rs) := run_session b s1 r in
      (s2, r1 :: rs)
    end.
End Exec.

Arguments WRet {W} w rets.
Arguments WInner {W} w args k.
