(* S12: histories of API operations over a pool of collections that share providers.
   The specification nject is held to (C11): a collection is a value.  Operations that derive
   (Sequence, Append, annotation functions) add a new collection to the pool; operations that use a
   collection (Bind + run, Condense, DownFlows/UpFlows, String) return something computed from its
   contents and change nothing.  The correspondence check runs the same histories against the real
   package, where collections are slices of shared provider pointers. *)
From Coq Require Import List Arith Bool.
Import ListNotations.
From NJ Require Import Base Collections Edits Registry Classify Select Reorder Machine Spec Bind.

Inductive harg := AProv (d : pdesc) | AColl (h : nat).   (* an argument: a new provider or an existing collection *)

Inductive hop :=
| HSequence (name : nat) (args : list harg)
| HAppend (h : nat) (name : nat) (args : list harg)
| HAnnotate (f : pdesc -> pdesc) (h : nat)
| HBind (h : nat) (te : tyenv) (inv : pdesc) (init : option pdesc) (sess : list bool)
| HInspect (h : nat).

Inductive hout := ONew (h : nat) | OBound (o : obs) | OContents (l : list pdesc) | OBad.

Notation store := (list (list pdesc)) (only parsing).

Definition arg_thing (st : list (list pdesc)) (a : harg) : thing :=
  match a with AProv d => TProv d | AColl h => TColl (match nth_opt h st with Some c => c | None => [] end) end.

Definition hstep (st : list (list pdesc)) (op : hop) : list (list pdesc) * hout :=
  match op with
  | HSequence name args =>
    (st ++ [contents (sequence name (map (arg_thing st) args))], ONew (length st))
  | HAppend h name args =>
    match nth_opt h st with
    | Some c => (st ++ [contents (append_to (TColl c) name (map (arg_thing st) args))], ONew (length st))
    | None => (st, OBad)
    end
  | HAnnotate f h =>
    match nth_opt h st with
    | Some c => (st ++ [contents (modify f (TColl c))], ONew (length st))
    | None => (st, OBad)
    end
  | HBind h te inv init sess =>
    match nth_opt h st with
    | Some c => (st, OBound (model_run (mkCase te c inv init sess)))
    | None => (st, OBad)
    end
  | HInspect h =>
    match nth_opt h st with
    | Some c => (st, OContents c)
    | None => (st, OBad)
    end
  end.

Fixpoint hrun (st : list (list pdesc)) (ops : list hop) : list (list pdesc) * list hout :=
  match ops with
  | [] => (st, [])
  | op :: r => let (st1, o) := hstep st op in let (st2, os) := hrun st1 r in (st2, o :: os)
  end.
