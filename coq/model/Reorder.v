(* S5: Reorder (reorder.go).  PLACEHOLDER: identity when no provider is marked Reorder. *)
From Coq Require Import List Arith Bool.
Import ListNotations.
From NJ Require Import Base Registry Classify Select.

Definition reorder_funcs (te : tyenv) (funcs : list prov) : res (list prov) :=
  if existsb (fun p => d_reorder (s_d (p_s p))) funcs then Err EB_INTERNAL else Ok funcs.
