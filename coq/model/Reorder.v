(* S5: Reorder (reorder.go): constraint graph (strong / weak "comes after" edges, one pseudo node
   per type and direction) and a priority topological sort. *)
From Coq Require Import List Arith Bool.
Import ListNotations.
From NJ Require Import Base Registry Classify Select.

Definition is_reorder (p : prov) : bool := d_reorder (s_d (p_s p)).

Definition no_no (te : tyenv) (l : list nat) : list nat := filter (fun t => negb (t =? te_noT te)) l.

(* sets of node numbers *)
Definition sadd (x : nat) (l : list nat) : list nat := if memb x l then l else x :: l.
Definition sdel (x : nat) (l : list nat) : list nat := remove_all x l.

Record rnode := mkRnode { n_before : list nat; n_after : list nat; n_wbefore : list nat; n_wafter : list nat }.
Definition empty_node := mkRnode [] [] [] [].

Fixpoint nth_node (i : nat) (l : list rnode) : rnode :=
  match l, i with
  | [], _ => empty_node
  | x :: _, 0 => x
  | _ :: r, S i' => nth_node i' r
  end.
Definition upd_node (i : nat) (f : rnode -> rnode) (l : list rnode) : list rnode := upd_nth i f l.

(* append to the list stored under key t *)
Fixpoint madd (t x : nat) (m : list (nat * list nat)) : list (nat * list nat) :=
  match m with
  | [] => [(t, [x])]
  | (k, l) :: r => if k =? t then (k, l ++ [x]) :: r else (k, l) :: madd t x r
  end.
Definition mget (t : nat) (m : list (nat * list nat)) : list nat :=
  match alookup t m with Some l => l | None => [] end.

(* -1 is represented by None *)
Definition pair_after (i j : option nat) (acc : list (nat * nat)) : list (nat * nat) :=
  match i, j with Some a, Some b => acc ++ [(a, b)] | _, _ => acc end.

Record rstate := mkRs {
  rs_strong : list (nat * nat);
  rs_weak : list (nat * nat);
  rs_down : list (nat * nat);        (* downTypes: type -> pseudo node *)
  rs_up : list (nat * nat);          (* upTypes *)
  rs_counter : nat;
  rs_cannot : list nat;              (* cannotReorder *)
  rs_lastNo : option nat             (* lastNoReorder *)
}.

Definition add_edge (strong : bool) (i : nat) (j : option nat) (st : rstate) : rstate :=
  if strong then mkRs (pair_after (Some i) j (rs_strong st)) (rs_weak st) (rs_down st) (rs_up st) (rs_counter st) (rs_cannot st) (rs_lastNo st)
  else mkRs (rs_strong st) (pair_after (Some i) j (rs_weak st)) (rs_down st) (rs_up st) (rs_counter st) (rs_cannot st) (rs_lastNo st).

Section Build.
  Variable te : tyenv.
  Variable funcs : list prov.
  Variable availDown availUp : list imd.
  Variable provideByNotRequire : list (nat * list nat).   (* init's entries are recorded as absent (-1): skipped *)
  Variable receivedNotReturned : list (nat * list nat).
  Variable lastStatic : option nat.

  Definition edges_for (i : nat) (p : prov) (st0 : rstate) : rstate :=
    let st1 := if is_reorder p && group_eqb (p_group p) GRun then add_edge true i lastStatic st0 else st0 in
    let st2 := if negb (is_reorder p)
               then let s := add_edge true i (rs_lastNo st1) st1 in
                    mkRs (rs_strong s) (rs_weak s) (rs_down s) (rs_up s) (rs_counter s) (rs_cannot s ++ [i]) (Some i)
               else st1 in
    let st3 := fold_left (fun st tRaw =>
        match best_match te funcs availDown tRaw with
        | None => st
        | Some (t, _) =>
          let st' := match alookup t (rs_down st) with
                     | Some num => add_edge true i (Some num) st
                     | None =>
                       let c := rs_counter st in
                       let s := add_edge true i (Some c) st in
                       mkRs (rs_strong s) (rs_weak s) (rs_down s ++ [(t, c)]) (rs_up s) (S c) (rs_cannot s) (rs_lastNo s)
                     end in
          fold_left (fun s j => add_edge false i (Some j) s) (mget t provideByNotRequire) st'
        end) (no_no te (pflow p FIn)) st2 in
    fold_left (fun st tRaw =>
        match best_match te funcs availUp tRaw with
        | None => st
        | Some (t, _) =>
          let co := match s_consOpt (p_s p) with Some l => memb t l | None => false end in
          let st' := match alookup t (rs_up st) with
                     | Some num => add_edge (negb co) i (Some num) st
                     | None =>
                       let c := rs_counter st in
                       let s := add_edge (negb co) i (Some c) st in
                       mkRs (rs_strong s) (rs_weak s) (rs_down s) (rs_up s ++ [(t, c)]) (S c) (rs_cannot s) (rs_lastNo s)
                     end in
          fold_left (fun s j => add_edge false i (Some j) s) (mget t receivedNotReturned) st'
        end) (no_no te (pflow p FRet)) st3.
End Build.

(* priority queue: (priority, node), kept sorted by priority *)
Fixpoint pq_push (pr x : nat) (q : list (nat * nat)) : list (nat * nat) :=
  match q with
  | [] => [(pr, x)]
  | (p, y) :: r => if pr <=? p then (pr, x) :: q else (p, y) :: pq_push pr x r
  end.

Record topo := mkTopo {
  t_nodes : list rnode;
  t_cannot : list nat;
  t_unblocked : list (nat * nat);
  t_weak : list (nat * nat);
  t_done : list nat;
  t_out : list nat        (* positions in output order *)
}.

Section Topo.
  Variable te : tyenv.
  Variable funcs : list prov.
  Variable downTypes upTypes : list (nat * nat).
  Let n := length funcs.

  (* priority of node i: Reorder'd providers first (i - n), kept total by an offset of n *)
  Definition prio (i : nat) : nat :=
    if (i <? n) && flagp is_reorder funcs i then i else i + n.

  Definition push_un (i : nat) (x : topo) : topo :=
    mkTopo (t_nodes x) (t_cannot x) (pq_push (prio i) i (t_unblocked x)) (t_weak x) (t_done x) (t_out x).
  Definition push_weak (i : nat) (x : topo) : topo :=
    mkTopo (t_nodes x) (t_cannot x) (t_unblocked x) (pq_push (prio i) i (t_weak x)) (t_done x) (t_out x).
  Definition set_nodes (ns : list rnode) (x : topo) : topo :=
    mkTopo ns (t_cannot x) (t_unblocked x) (t_weak x) (t_done x) (t_out x).

  (* release(n, i) *)
  Definition release (m i : nat) (x : topo) : topo :=
    if n <=? m then push_un m x else
    let ns := upd_node m (fun nd => mkRnode (n_before nd) (sdel i (n_after nd)) (n_wbefore nd) (sdel i (n_wafter nd))) (t_nodes x) in
    let x1 := set_nodes ns x in
    let nd := nth_node m ns in
    match n_after nd with
    | [] => match n_wafter nd with [] => push_un m x1 | _ => push_weak m x1 end
    | _ => x1
    end.

  Definition release_node (i : nat) (x : topo) : topo :=
    let nd := nth_node i (t_nodes x) in
    let ns := fold_left (fun ns m => upd_node m (fun d => mkRnode (n_before d) (n_after d) (n_wbefore d) (sdel i (n_wafter d))) ns)
                        (n_wbefore nd) (t_nodes x) in
    fold_left (fun x' m => release m i x') (sort_nat (n_before nd)) (set_nodes ns x).

  Definition release_provider (i : nat) (p : prov) (x : topo) : topo :=
    let x1 := fold_left (fun x' t => match alookup t downTypes with Some num => release num i x' | None => x' end)
                        (no_no te (pflow p FOut)) x in
    fold_left (fun x' t => match alookup t upTypes with Some num => release num i x' | None => x' end)
              (no_no te (pflow p FRecv)) x1.

  Definition process_one (i : nat) (rel : bool) (x : topo) : topo :=
    if memb i (t_done x) then x else
    let x1 := mkTopo (t_nodes x) (t_cannot x) (t_unblocked x) (t_weak x) (i :: t_done x) (t_out x) in
    if n <? i then (if rel then release_node i x1 else x1) else
    match getp funcs i with
    | None => x1
    | Some p =>
      let x2 := mkTopo (t_nodes x1) (t_cannot x1) (t_unblocked x1) (t_weak x1) (t_done x1) (t_out x1 ++ [i]) in
      if negb rel then x2 else release_provider i p (release_node i x2)
    end.

  Fixpoint topo_run (fuel : nat) (x : topo) : topo :=
    match fuel with
    | 0 => x
    | S fuel' =>
      match t_unblocked x with
      | (_, i) :: q =>
        topo_run fuel' (process_one i true (mkTopo (t_nodes x) (t_cannot x) q (t_weak x) (t_done x) (t_out x)))
      | [] =>
        match t_weak x with
        | (_, i) :: q =>
          topo_run fuel' (process_one i true (mkTopo (t_nodes x) (t_cannot x) (t_unblocked x) q (t_done x) (t_out x)))
        | [] =>
          match t_cannot x with
          | i :: r =>
            let released := match n_after (nth_node i (t_nodes x)) with [] => true | _ => false end in
            topo_run fuel' (process_one i released (mkTopo (t_nodes x) r (t_unblocked x) (t_weak x) (t_done x) (t_out x)))
          | [] => x
          end
        end
      end
    end.
End Topo.

(* the types init supplies are available from the start *)
Definition init_push (te : tyenv) (funcs : list prov) (downTypes : list (nat * nat)) (x0 : topo) : topo :=
  match find_class ClInit funcs 0 with
  | Some ip => match getp funcs ip with
               | Some p => fold_left (fun x t => match alookup t downTypes with
                                                 | Some num => push_un funcs num x | None => x end)
                                     (no_no te (pflow p FOut)) x0
               | None => x0 end
  | None => x0
  end.

(* ---------- the fuel of the topological sort (proofs/TopoFuel.v) ----------
   reorder.go loops until its queues are empty; the model's sort runs on fuel.  Every node is processed
   at most once, processing node i queues at most one node per entry of its before-list and one per
   produced / received type, and every step takes one entry off a queue: with
      phi x = queued entries + sum over the nodes not yet done of (1 + what processing may queue)
   steps of fuel the run ends with all queues empty and more fuel changes nothing. *)
Definition befs (ns : list rnode) : list (list nat) := map n_before ns.
Definition qlen (x : topo) : nat := length (t_unblocked x) + length (t_weak x) + length (t_cannot x).

Section Potential.
  Variable te : tyenv.
  Variable funcs : list prov.
  (* what processing node i may add to the queues, plus one *)
  Definition cost (bs : list (list nat)) (i : nat) : nat :=
    1 + length (nth i bs []) +
    match getp funcs i with
    | Some p => length (no_no te (pflow p FOut)) + length (no_no te (pflow p FRecv))
    | None => 0
    end.
  Fixpoint pend_from (bs : list (list nat)) (done : list nat) (l : list nat) : nat :=
    match l with
    | [] => 0
    | i :: r => (if memb i done then 0 else cost bs i) + pend_from bs done r
    end.
  Definition pend (bs : list (list nat)) (done : list nat) : nat := pend_from bs done (seq 0 (length bs)).
  Definition phi (x : topo) : nat := qlen x + pend (befs (t_nodes x)) (t_done x).
End Potential.

Definition reorder_funcs (te : tyenv) (funcs : list prov) : res (list prov) :=
  if negb (existsb is_reorder funcs) then Ok funcs else
  let n := length funcs in
  let idx := seq_from 0 n in
  let initPos := find_class ClInit funcs 0 in
  (* availableDown / availableUp; init's parameters first, at layer 0 *)
  let availDown0 := match initPos with
                    | Some ip => match getp funcs ip with
                                 | Some p => fold_left (fun m t => im_add t 0 ip m) (no_no te (pflow p FOut)) []
                                 | None => [] end
                    | None => [] end in
  let availDown := fold_left (fun m i => match getp funcs i with
                      | Some p => fold_left (fun m' t => im_add t i i m') (no_no te (pflow p FOut)) m
                      | None => m end) idx availDown0 in
  let availUp := fold_left (fun m i => match getp funcs i with
                      | Some p => fold_left (fun m' t => im_add t i i m') (no_no te (pflow p FRet)) m
                      | None => m end) idx [] in
  let lastStatic := fold_left (fun acc i => if flagp (fun p => group_eqb (p_group p) GStatic && negb (is_reorder p)) funcs i
                                            then Some i else acc) idx None in
  let pbnr := fold_left (fun m i => match getp funcs i with
                      | Some p => fold_left (fun m' t => if memb t (no_no te (pflow p FIn)) then m' else madd t i m')
                                            (no_no te (pflow p FOut)) m
                      | None => m end) idx [] in
  let rnr := fold_left (fun m i => match getp funcs i with
                      | Some p => fold_left (fun m' t => if memb t (no_no te (pflow p FRet)) then m' else madd t i m')
                                            (no_no te (pflow p FRecv)) m
                      | None => m end) idx [] in
  let st := fold_left (fun st i => match getp funcs i with
                      | Some p => edges_for te funcs availDown availUp pbnr rnr lastStatic i p st
                      | None => st end) idx (mkRs [] [] [] [] (S n) [] None) in
  let counter := rs_counter st in
  let nodes0 := repeat empty_node counter in
  let nodes1 := fold_left (fun ns (pr : nat * nat) =>
                   upd_node (fst pr) (fun d => mkRnode (n_before d) (sadd (snd pr) (n_after d)) (n_wbefore d) (n_wafter d))
                     (upd_node (snd pr) (fun d => mkRnode (sadd (fst pr) (n_before d)) (n_after d) (n_wbefore d) (n_wafter d)) ns))
                 (rs_strong st) nodes0 in
  let nodes2 := fold_left (fun ns (pr : nat * nat) =>
                   upd_node (fst pr) (fun d => mkRnode (n_before d) (n_after d) (n_wbefore d) (sadd (snd pr) (n_wafter d)))
                     (upd_node (snd pr) (fun d => mkRnode (n_before d) (n_after d) (sadd (fst pr) (n_wbefore d)) (n_wafter d)) ns))
                 (rs_weak st) nodes1 in
  (* mutual weak edges are dropped *)
  let nodes3 := fold_left (fun ns (pr : nat * nat) =>
                   let a := fst pr in let b := snd pr in
                   if negb (memb b (n_wbefore (nth_node a ns))) then ns else
                   let ns1 := upd_node b (fun d => mkRnode (n_before d) (n_after d) (sdel a (n_wbefore d)) (n_wafter d)) ns in
                   let ns2 := upd_node a (fun d => mkRnode (n_before d) (n_after d) (sdel a (n_wbefore d)) (n_wafter d)) ns1 in
                   let ns3 := upd_node a (fun d => mkRnode (n_before d) (n_after d) (n_wbefore d) (sdel b (n_wafter d))) ns2 in
                   upd_node b (fun d => mkRnode (n_before d) (n_after d) (n_wbefore d) (sdel b (n_wafter d))) ns3)
                 (rs_weak st) nodes2 in
  let x0 := mkTopo nodes3 (rs_cannot st) [] [] [] [] in
  let x1 := init_push te funcs (rs_down st) x0 in
  let xf := topo_run te funcs (rs_down st) (rs_up st) (phi te funcs x1) x1 in
  let out := t_out xf in
  let missing := filter (fun i => negb (memb i (t_done xf))) idx in
  let pick i := match getp funcs i with Some p => [p] | None => [] end in
  let result := flat_map pick out ++ flat_map (fun i => map (set_cannot true) (pick i)) missing in
  if length result =? n then Ok result else Err EB_INTERNAL.

(* ---------- fuel of the topological sort (proofs/TopoFuel.v) ---------- *)
(* the graph and the initial queues, as reorder_funcs builds them *)
Definition reorder_prepare (te : tyenv) (funcs : list prov) : rstate * topo :=
  let n := length funcs in
  let idx := seq_from 0 n in
  let initPos := find_class ClInit funcs 0 in
  (* availableDown / availableUp; init's parameters first, at layer 0 *)
  let availDown0 := match initPos with
                    | Some ip => match getp funcs ip with
                                 | Some p => fold_left (fun m t => im_add t 0 ip m) (no_no te (pflow p FOut)) []
                                 | None => [] end
                    | None => [] end in
  let availDown := fold_left (fun m i => match getp funcs i with
                      | Some p => fold_left (fun m' t => im_add t i i m') (no_no te (pflow p FOut)) m
                      | None => m end) idx availDown0 in
  let availUp := fold_left (fun m i => match getp funcs i with
                      | Some p => fold_left (fun m' t => im_add t i i m') (no_no te (pflow p FRet)) m
                      | None => m end) idx [] in
  let lastStatic := fold_left (fun acc i => if flagp (fun p => group_eqb (p_group p) GStatic && negb (is_reorder p)) funcs i
                                            then Some i else acc) idx None in
  let pbnr := fold_left (fun m i => match getp funcs i with
                      | Some p => fold_left (fun m' t => if memb t (no_no te (pflow p FIn)) then m' else madd t i m')
                                            (no_no te (pflow p FOut)) m
                      | None => m end) idx [] in
  let rnr := fold_left (fun m i => match getp funcs i with
                      | Some p => fold_left (fun m' t => if memb t (no_no te (pflow p FRet)) then m' else madd t i m')
                                            (no_no te (pflow p FRecv)) m
                      | None => m end) idx [] in
  let st := fold_left (fun st i => match getp funcs i with
                      | Some p => edges_for te funcs availDown availUp pbnr rnr lastStatic i p st
                      | None => st end) idx (mkRs [] [] [] [] (S n) [] None) in
  let counter := rs_counter st in
  let nodes0 := repeat empty_node counter in
  let nodes1 := fold_left (fun ns (pr : nat * nat) =>
                   upd_node (fst pr) (fun d => mkRnode (n_before d) (sadd (snd pr) (n_after d)) (n_wbefore d) (n_wafter d))
                     (upd_node (snd pr) (fun d => mkRnode (sadd (fst pr) (n_before d)) (n_after d) (n_wbefore d) (n_wafter d)) ns))
                 (rs_strong st) nodes0 in
  let nodes2 := fold_left (fun ns (pr : nat * nat) =>
                   upd_node (fst pr) (fun d => mkRnode (n_before d) (n_after d) (n_wbefore d) (sadd (snd pr) (n_wafter d)))
                     (upd_node (snd pr) (fun d => mkRnode (n_before d) (n_after d) (sadd (fst pr) (n_wbefore d)) (n_wafter d)) ns))
                 (rs_weak st) nodes1 in
  (* mutual weak edges are dropped *)
  let nodes3 := fold_left (fun ns (pr : nat * nat) =>
                   let a := fst pr in let b := snd pr in
                   if negb (memb b (n_wbefore (nth_node a ns))) then ns else
                   let ns1 := upd_node b (fun d => mkRnode (n_before d) (n_after d) (sdel a (n_wbefore d)) (n_wafter d)) ns in
                   let ns2 := upd_node a (fun d => mkRnode (n_before d) (n_after d) (sdel a (n_wbefore d)) (n_wafter d)) ns1 in
                   let ns3 := upd_node a (fun d => mkRnode (n_before d) (n_after d) (n_wbefore d) (sdel b (n_wafter d))) ns2 in
                   upd_node b (fun d => mkRnode (n_before d) (n_after d) (n_wbefore d) (sdel b (n_wafter d))) ns3)
                 (rs_weak st) nodes2 in
  let x0 := mkTopo nodes3 (rs_cannot st) [] [] [] [] in
  let x1 := init_push te funcs (rs_down st) x0 in
  (st, x1).


