(* Reference semantics of the per-invocation part of a bound chain: immutable environments
   instead of slot arrays.  This is the formal reading of C01/C02/C05/C07:

   - a provider's arguments are lookups of its (remapped) parameter types in the down
     environment [d], which is the base environment extended, in order, by the invoke arguments,
     the results of the injectors that ran before it in this traversal and the arguments the
     enclosing wrappers passed to inner();
   - the rest of the chain returns an up environment: the final function's returns, overridden
     by each wrapper's own returns on the way up; a wrapper sees the up environment of each of its
     inner() calls; if it never calls inner(), or a fallible injector fails, the up environment
     below is all zero (plus the error);
   - providers run in list order, once per traversal, the remainder once per inner() call. *)
From Coq Require Import List Arith Bool.
Import ListNotations.
From NJ Require Import Base Registry Classify Select Machine.

Record rp := mkRp {
  r_pid : nat;
  r_class : classT;
  r_parallel : bool;
  r_ins : list nat;      (* parameter types after the down remap *)
  r_outs : list nat;     (* result types (injector) / inner() parameter types (wrapper) *)
  r_rets : list nat;     (* returned types *)
  r_recv : list nat;     (* types received from inner() after the up remap *)
  r_zero : list nat;     (* types zeroed when the remainder did not run *)
  r_tepos : nat
}.

(* the classes the per-invocation machine knows how to run *)
Definition well_classed (r : rp) : bool :=
  match r_class r with ClInjector | ClFallible | ClFinal | ClWrapper => true | _ => false end.

Notation env := (nat -> val) (only parsing).

Definition upd (e : nat -> val) (t : nat) (v : val) : nat -> val := fun x => if x =? t then v else e x.
Fixpoint upd_list (e : nat -> val) (tys : list nat) (vs : list val) : nat -> val :=
  match tys, vs with
  | t :: ts, v :: vs' => upd_list (upd e t (norm t v)) ts vs'
  | _, _ => e
  end.
Definition look (e : nat -> val) (tys : list nat) : list val := map (fun t => norm t (e t)) tys.
Definition zero_env : nat -> val := fun _ => VInvalid.

Section Sem.
  Variable W : Type.
  Variable beh_fn : nat -> W -> list val -> W * list val.
  Variable beh_wrap : nat -> W -> list val -> wtree W.
  Variable errT : nat.

  Fixpoint run_sem (r : rp) (sem_rest : W -> (nat -> val) -> W * (nat -> val) * bool) (d : nat -> val)
           (t : wtree W) (lastu : nat -> val) (count : nat) {struct t} : W * (nat -> val) * bool :=
    match t with
    | WRet w1 rets => (w1, upd_list (if count =? 0 then zero_env else lastu) (r_rets r) rets, true)
    | WInner w1 iargs k =>
      match sem_rest w1 (upd_list d (r_outs r) iargs) with
      | (w2, u2, ok) =>
        if negb ok then (w2, u2, false) else
        run_sem r sem_rest d (k w2 (look u2 (r_recv r))) (if r_parallel r then lastu else u2) (S count)
      end
    end.

  Fixpoint sem (prog : list rp) (w : W) (d : nat -> val) {struct prog} : W * (nat -> val) * bool :=
    match prog with
    | [] => (w, zero_env, true)
    | r :: rest =>
      let args := look d (r_ins r) in
      match r_class r with
      | ClInjector =>
        let (w1, outs) := beh_fn (r_pid r) w args in
        sem rest w1 (upd_list d (r_outs r) outs)
      | ClFallible =>
        let (w1, outs) := beh_fn (r_pid r) w args in
        let te := nth (r_tepos r) outs VInvalid in
        if negb (is_nil te) then (w1, upd zero_env errT te, true)
        else sem rest w1 (upd_list d (r_outs r) (remove_nth (r_tepos r) outs))
      | ClWrapper => run_sem r (sem rest) d (beh_wrap (r_pid r) w args) zero_env 0
      | ClFinal =>
        let (w1, rets) := beh_fn (r_pid r) w args in
        (w1, upd_list zero_env (r_rets r) rets, true)
      | _ => (w, zero_env, false)
      end
    end.
End Sem.

(* the slot-level program a reference program compiles to, for a slot assignment *)
Section Compile.
  Variable sd su : nat -> option nat.
  Variable errT : nat.

  Definition zlist (tys : list nat) : list (nat * nat) :=
    flat_map (fun t => match su t with Some i => [(i, t)] | None => [] end) tys.

  Definition cp_of (r : rp) : cp :=
    mkCp (r_pid r) (r_class r) (r_parallel r)
         (map (fun t => (sd t, t)) (r_ins r))
         (map (fun t => (sd t, t)) (r_outs r))
         (map (fun t => (su t, t)) (r_rets r))
         (map (fun t => (su t, t)) (r_recv r))
         (zlist (r_zero r)) (r_tepos r)
         (match r_class r with ClFallible => su errT | _ => None end).
End Compile.

(* ---------- the static part and whole sessions, environment style ---------- *)
Fixpoint zero_types (d : nat -> val) (tys : list nat) : nat -> val :=
  match tys with [] => d | t :: r => zero_types (upd d t (VZero t)) r end.

Section SemSession.
  Variable W : Type.
  Variable beh_fn : nat -> W -> list val -> W * list val.
  Variable beh_wrap : nat -> W -> list val -> wtree W.
  Variable errT : nat.

  (* literals and static injectors in listed order; after a failure only literals apply *)
  Fixpoint sem_static (prog : list rp) (failed : bool) (w : W) (d : nat -> val) : W * (nat -> val) * bool :=
    match prog with
    | [] => (w, d, true)
    | r :: rest =>
      match r_class r with
      | ClLiteral =>
        sem_static rest failed w (match r_outs r with t :: _ => upd d t (VTag t (r_pid r) 0) | [] => d end)
      | _ =>
        if failed then sem_static rest true w d else
        let (w1, outs) := beh_fn (r_pid r) w (look d (r_ins r)) in
        let d1 := upd_list d (r_outs r) outs in
        match r_class r with
        | ClFallibleStatic =>
          if negb (is_nil (nth (r_tepos r) outs VInvalid))
          then sem_static rest true w1 (upd_list (zero_types d1 (r_zero r)) (r_outs r) outs)
          else sem_static rest false w1 d1
        | _ => sem_static rest false w1 d1
        end
      end
    end.

  Record splan := mkSplan {
    sp_static : list rp;
    sp_run : list rp;
    sp_init : option rp;     (* r_outs: init parameter types, r_ins: types init returns (after remap) *)
    sp_invoke : rp           (* r_outs: invoke parameter types, r_recv: types invoke returns (after remap) *)
  }.

  Record ssess := mkSsess { sq_w : W; sq_base : nat -> val; sq_done : bool; sq_ok : bool }.

  Definition sem_step (p : splan) (s : ssess) (st : step) : ssess * sres :=
    if negb (sq_ok s) then (s, RPanic) else
    match st with
    | DoInit =>
      match sp_init p with
      | None => (s, RNoInit)
      | Some ir =>
        let (w0, args) := beh_fn (r_pid ir) (sq_w s) [] in
        let '(w1, base1, ok) :=
          if sq_done s then (w0, sq_base s, true)
          else sem_static (sp_static p) false w0 (upd_list (sq_base s) (r_outs ir) args) in
        (mkSsess w1 base1 true ok, if ok then RInit (look base1 (r_ins ir)) else RPanic)
      end
    | DoInvoke =>
      let (w0, args) := beh_fn (r_pid (sp_invoke p)) (sq_w s) [] in
      let '(w1, base1, ok, done) :=
        match sp_init p with
        | Some _ => (w0, sq_base s, true, sq_done s)
        | None =>
          if sq_done s then (w0, sq_base s, true, true)
          else match sem_static (sp_static p) false w0 (sq_base s) with
               | (w1, d1, ok) => (w1, d1, ok, true)
               end
        end in
      if negb ok then (mkSsess w1 base1 done false, RPanic) else
      match sem W beh_fn beh_wrap errT (sp_run p) w1 (upd_list base1 (r_outs (sp_invoke p)) args) with
      | (w2, u2, ok2) =>
        (mkSsess w2 base1 done ok2, if ok2 then RInvoke (look u2 (r_recv (sp_invoke p))) else RPanic)
      end
    end.

  Fixpoint sem_session (p : splan) (s : ssess) (steps : list step) : ssess * list sres :=
    match steps with
    | [] => (s, [])
    | st :: r =>
      let (s1, r1) := sem_step p s st in
      let (s2, rs) := sem_session p s1 r in
      (s2, r1 :: rs)
    end.
End SemSession.

Section CompileStatic.
  Variable sd su : nat -> option nat.
  Variable errT : nat.
  Definition zlist_d (tys : list nat) : list (nat * nat) :=
    flat_map (fun t => match sd t with Some i => [(i, t)] | None => [] end) tys.
  (* static providers zero down slots *)
  Definition cp_of_static (r : rp) : cp :=
    mkCp (r_pid r) (r_class r) (r_parallel r)
         (map (fun t => (sd t, t)) (r_ins r))
         (map (fun t => (sd t, t)) (r_outs r))
         [] [] (zlist_d (r_zero r)) (r_tepos r) None.
  (* init: reads its returns from the down slots; invoke: reads from the up slots *)
  Definition cp_of_init (r : rp) : cp :=
    mkCp (r_pid r) (r_class r) false (map (fun t => (sd t, t)) (r_ins r)) (map (fun t => (sd t, t)) (r_outs r)) [] [] [] 0 None.
  Definition cp_of_invoke (r : rp) : cp :=
    mkCp (r_pid r) (r_class r) false [] (map (fun t => (sd t, t)) (r_outs r)) [] (map (fun t => (su t, t)) (r_recv r)) [] 0 None.

  Definition bound_of (base0 : list val) (p : splan) : bound :=
    mkBound base0 (map cp_of_static (sp_static p)) (map (cp_of sd su errT) (sp_run p))
            (match sp_init p with Some i => Some (cp_of_init i) | None => None end)
            (cp_of_invoke (sp_invoke p)).
End CompileStatic.
