(* S1: named edits (ReplaceNamed / InsertBeforeNamed / InsertAfterNamed).
   List-level model of replace.go:handleReplaceByName.

   Nodes are identified by [eid] (their index in the original list).  The Go code
   walks a doubly linked list with a cursor; since unprocessed nodes never move,
   the cursor acts on the nodes in original order, skipping nodes that were
   marked processed — this model is that fold.  Each directive is a splice on the
   current list. *)
From Coq Require Import List Arith Bool.
Import ListNotations.

Record enode := mkEnode {
  eid : nat;       (* index in the original list *)
  eorigin : nat;   (* provider name, 0 = "" *)
  erep : nat;      (* replaceByName, 0 = "" *)
  ebef : nat;      (* insertBeforeName *)
  eaft : nat       (* insertAfterName *)
}.

Definition nz (n : nat) : nat := if n =? 0 then 0 else 1.
Definition ntags (n : enode) : nat := nz (erep n) + nz (ebef n) + nz (eaft n).
Definition tagged (n : enode) : bool := negb (ntags n =? 0).

(* error classes *)
Definition E_TWO_TAGS := 1.
Definition E_MISSING := 2.
Definition E_DUP := 3.
Definition E_SELF := 4.
Definition E_INTERNAL := 9.

Inductive eres (A : Type) : Type := EOk (a : A) | EErr (code : nat).
Arguments EOk {A} a.
Arguments EErr {A} code.

(* ---- name index, built once ---- *)
Record nent := mkNent { nname : nat; nfirst : nat; nlast : nat; ndup : bool }.

Fixpoint lookup_name (name : nat) (ns : list nent) : option nent :=
  match ns with
  | [] => None
  | e :: r => if nname e =? name then Some e else lookup_name name r
  end.

Fixpoint set_last (name last : nat) (ns : list nent) : list nent :=
  match ns with
  | [] => []
  | e :: r => if nname e =? name
              then mkNent (nname e) (nfirst e) last (ndup e) :: r
              else e :: set_last name last r
  end.

Fixpoint set_dup (name : nat) (ns : list nent) : list nent :=
  match ns with
  | [] => []
  | e :: r => if nname e =? name
              then mkNent (nname e) (nfirst e) (nlast e) true :: r
              else e :: set_dup name r
  end.

Fixpoint del_name (name : nat) (ns : list nent) : list nent :=
  match ns with
  | [] => []
  | e :: r => if nname e =? name then r else e :: del_name name r
  end.

(* lastName: name of the run we are in (0 none); stored: whether that run's
   firstLast object is the one stored in the index *)
Fixpoint build_names (l : list enode) (lastName : nat) (stored : bool) (ns : list nent) : list nent :=
  match l with
  | [] => ns
  | n :: r =>
    if eorigin n =? 0 then build_names r 0 false ns
    else if eorigin n =? lastName then
      build_names r lastName stored (if stored then set_last lastName (eid n) ns else ns)
    else match lookup_name (eorigin n) ns with
         | Some _ => build_names r (eorigin n) false (set_dup (eorigin n) ns)
         | None => build_names r (eorigin n) true (ns ++ [mkNent (eorigin n) (eid n) (eid n) false])
         end
  end.

(* ---- list splicing by id ---- *)
Fixpoint split_id (i : nat) (l : list enode) : list enode * list enode :=
  match l with
  | [] => ([], [])
  | x :: xs => if eid x =? i then ([], l)
               else let (a, b) := split_id i xs in (x :: a, b)
  end.

Fixpoint span (p : enode -> bool) (l : list enode) : list enode * list enode :=
  match l with
  | [] => ([], [])
  | x :: xs => if p x then let (a, b) := span p xs in (x :: a, b) else ([], l)
  end.

Definition mem_id (i : nat) (l : list enode) : bool := existsb (fun x => eid x =? i) l.

Definition head_id (l : list enode) : option nat :=
  match l with [] => None | x :: _ => Some (eid x) end.

(* insert blk before the node with id a; None (or a absent) = at the end *)
Definition insert_before (anchor : option nat) (blk l : list enode) : list enode :=
  match anchor with
  | None => l ++ blk
  | Some a => let (pre, post) := split_id a l in pre ++ blk ++ post
  end.

(* cut the block starting at node i: that node plus the following run satisfying p.
   Returns (before, block, after); block = [] when i is not in l. *)
Definition cut_block (i : nat) (p : enode -> bool) (l : list enode)
  : list enode * list enode * list enode :=
  let (pre, from) := split_id i l in
  match from with
  | [] => (pre, [], [])
  | f :: rest => let (run, after) := span p rest in (pre, f :: run, after)
  end.

Record estate := mkEstate {
  cur : list enode;
  processed : list nat;
  names : list nent
}.

Definition is_processed (i : nat) (st : estate) : bool := existsb (Nat.eqb i) (processed st).

Definition get_target (name : nat) (ns : list nent) : eres nent :=
  match lookup_name name ns with
  | None => EErr E_MISSING
  | Some e => if ndup e then EErr E_DUP else EOk e
  end.

Definition act_replace (n : enode) (st : estate) : eres estate :=
  let name := erep n in
  match get_target name (names st) with
  | EErr c => EErr c
  | EOk e =>
    match cut_block (nfirst e) (fun x => eorigin x =? name) (cur st) with
    | (_, [], _) => EErr E_INTERNAL
    | (pre, Sb, post) =>
      if mem_id (eid n) Sb then EErr E_SELF else
      let L1 := pre ++ post in
      let A := head_id post in
      match cut_block (eid n) (fun x => erep x =? name) L1 with
      | (_, [], _) => EErr E_INTERNAL
      | (pre1, M, after) =>
        let L2 := pre1 ++ after in
        let A' := match A with
                  | Some a => if mem_id a M then head_id after else A
                  | None => None
                  end in
        EOk (mkEstate (insert_before A' M L2)
                      (map eid Sb ++ map eid M ++ processed st)
                      (del_name name (names st)))
      end
    end
  end.

Definition act_before (n : enode) (st : estate) : eres estate :=
  let name := ebef n in
  match get_target name (names st) with
  | EErr c => EErr c
  | EOk e =>
    match cut_block (eid n) (fun x => ebef x =? name) (cur st) with
    | (_, [], _) => EErr E_INTERNAL
    | (pre, M, after) =>
      if mem_id (nfirst e) M then EErr E_SELF else
      EOk (mkEstate (insert_before (Some (nfirst e)) M (pre ++ after))
                    (map eid M ++ processed st) (names st))
    end
  end.

(* the node following id a in l (None if a is last or absent) *)
Definition next_id (a : nat) (l : list enode) : option nat :=
  match snd (split_id a l) with
  | _ :: y :: _ => Some (eid y)
  | _ => None
  end.

Definition act_after (n : enode) (st : estate) : eres estate :=
  let name := eaft n in
  match get_target name (names st) with
  | EErr c => EErr c
  | EOk e =>
    match cut_block (eid n) (fun x => eaft x =? name) (cur st) with
    | (_, [], _) => EErr E_INTERNAL
    | (pre, M, after) =>
      if mem_id (nlast e) M then EErr E_SELF else
      let L1 := pre ++ after in
      EOk (mkEstate (insert_before (next_id (nlast e) L1) M L1)
                    (map eid M ++ processed st) (names st))
    end
  end.

Definition act (n : enode) (st : estate) : eres estate :=
  if is_processed (eid n) st then EOk st
  else if negb (erep n =? 0) then act_replace n st
  else if negb (ebef n =? 0) then act_before n st
  else if negb (eaft n =? 0) then act_after n st
  else EOk st.

Fixpoint run_acts (todo : list enode) (st : estate) : eres estate :=
  match todo with
  | [] => EOk st
  | n :: r => match act n st with
              | EErr c => EErr c
              | EOk st' => run_acts r st'
              end
  end.

Definition edits (l : list enode) : eres (list enode) :=
  if negb (existsb tagged l) then EOk l
  else if existsb (fun n => 1 <? ntags n) l then EErr E_TWO_TAGS
  else match run_acts l (mkEstate l [] (build_names l 0 false [])) with
       | EErr c => EErr c
       | EOk st => EOk (cur st)
       end.

(* observation used by the correspondence check: ids in final order, or the error class *)
Definition edits_obs (l : list enode) : eres (list nat) :=
  match edits l with EOk r => EOk (map eid r) | EErr c => EErr c end.
