(* S4 + composition: doBind as a function from a case to a bound chain, the scripted provider
   behaviours used by the correspondence check, and the observation compared with the code. *)
From Coq Require Import List Arith Bool.
Import ListNotations.
From NJ Require Import Base Collections Edits Registry Classify Select Reorder Machine Spec.

(* ---------- synthetic providers ---------- *)
Definition PID_DEBUG := 90.
Definition PID_INIT := 91.
Definition PID_INVOKE := 92.
Definition PID_UNUSED_IN := 93.
Definition PID_UNUSED_RET := 94.

Definition mk_pd (pid : nat) (s : shape) : pdesc :=
  mkPdesc pid 0 0 0 0 s false false false false false false false false false false false false 0
          [] None None [] 0 [] false.

Definition debug_pd (te : tyenv) : pdesc :=
  let d := mk_pd PID_DEBUG (ShFn [] [te_debugT te]) in
  mkPdesc (d_pid d) 0 0 0 0 (d_shape d) false true true true false false false false false false false false 0
          [] None None [] 0 [] false.

Definition unused_in_pd (te : tyenv) : pdesc :=
  let d := mk_pd PID_UNUSED_IN (ShLit (te_unusedT te)) in
  mkPdesc (d_pid d) 0 0 0 0 (d_shape d) false true true true false false false false false false false false 0
          [] None (Some [te_unusedT te]) [] 0 [] false.

Definition unused_ret_pd (te : tyenv) : pdesc :=
  let d := mk_pd PID_UNUSED_RET (ShWrap [] [] [] [te_unusedT te]) in
  mkPdesc (d_pid d) 0 0 0 0 (d_shape d) false true false false false false false false false false false false 0
          [] None None [] 0 [1] false.

Definition as_synthetic (shun : bool) (req : bool) (co : option (list nat)) (s : sprov) : sprov :=
  mkSprov (s_d s) (s_class s) (s_group s) (s_flows s) (s_memoized s) req true shun co (s_mustConsume s).

(* ---------- the case ---------- *)
Record bcase := mkCase {
  bc_te : tyenv;
  bc_provs : list pdesc;
  bc_invoke : pdesc;
  bc_init : option pdesc;
  bc_session : list bool          (* true = invoke, false = init *)
}.

(* named edits on the provider list; names and directives play no part afterwards *)
Definition apply_edits (l : list pdesc) : res (list pdesc) :=
  let nodes := map (fun (ip : nat * pdesc) => mkEnode (fst ip) (d_origin (snd ip)) (d_rep (snd ip)) (d_bef (snd ip)) (d_aft (snd ip)))
                   (combine (seq_from 0 (length l)) l) in
  match edits nodes with
  | EErr _ => Err EB_EDIT
  | EOk r => Ok (map erase_names (flat_map (fun n => match nth_opt (eid n) l with Some d => [d] | None => [] end) r))
  end.

Fixpoint insert_at {A} (pos : nat) (x : A) (l : list A) : list A :=
  match pos, l with
  | 0, _ => x :: l
  | S n, y :: r => y :: insert_at n x r
  | S _, [] => [x]
  end.

Definition has_t (t : nat) (l : list nat) : bool := memb t l.

Notation "'do' x <- a ; b" := (bindr a (fun x => b)) (at level 200, x pattern, a at level 100, b at level 200).

Definition opt_res {A} (o : option A) (e : nat) : res A := match o with Some a => Ok a | None => Err e end.

Definition assemble (c : bcase) : res (list prov) :=
  let te := bc_te c in
  do invS <- opt_res (characterizeInitInvoke te (bc_invoke c) (mkCC false false)) EB_NOMATCH;
  do provs <- apply_edits (bc_provs c);
  do ba <- characterize_and_flatten te provs (fl (f_out (s_flows invS)));
  do dbg0 <- opt_res (characterizeFunc te (debug_pd te) (mkCC false true)) EB_INTERNAL;
  let dbg := as_synthetic false (s_required dbg0) (s_consOpt dbg0) dbg0 in
  do il <- match bc_init c with
           | None => Ok []
           | Some ipd => do s <- opt_res (characterizeInitInvoke te ipd (mkCC false true)) EB_NOMATCH; Ok [s]
           end;
  let funcs := [dbg] ++ il ++ fst ba ++ [invS] ++ snd ba in
  let consumesUnused := existsb (fun s => has_t (te_unusedT te) (fl (f_in (s_flows s)))
                                       || has_t (te_unusedT te) (fl (f_bypass (s_flows s)))) funcs in
  let receivesUnused := existsb (fun s => has_t (te_unusedT te) (fl (f_recv (s_flows s)))) funcs in
  do f1 <- (if consumesUnused then
              do u <- opt_res (characterizeFunc te (unused_in_pd te) (mkCC false true)) EB_INTERNAL;
              Ok (as_synthetic true (s_required u) (Some [te_unusedT te]) u :: funcs)
            else Ok funcs);
  do f2 <- (if receivesUnused then
              do u <- opt_res (characterizeFunc te (unused_ret_pd te) (mkCC false true)) EB_INTERNAL;
              Ok (insert_at (length f1 - 1) (as_synthetic true false (Some [te_unusedT te]) u) f1)
            else Ok f1);
  Ok (map mk_prov f2).

(* ---------- doBind ---------- *)
Record plan := mkPlan {
  pl_funcs : list prov;                 (* final working list *)
  pl_invokeIndex : nat;
  pl_slots : slotted
}.

Definition init_bypass_ok (funcs : list prov) (dn : list (nat * option nat)) : bool :=
  match find_class ClInit funcs 0 with
  | None => true
  | Some ip =>
    match getp funcs ip with
    | None => true
    | Some p => forallb (fun t => match alookup (remap (p_downR p) t) dn with
                                  | Some None => false | _ => true end) (pflow p FBypass)
    end
  end.

Definition plan_of (c : bcase) : res plan :=
  let te := bc_te c in
  do funcs0 <- assemble c;
  do funcs1 <- reorder_funcs te funcs0;
  do funcs <- select te funcs1;
  do ii <- opt_res (find_class ClInvoke funcs 0) EB_INTERNAL;
  if negb (check_shadowing te funcs) then Err EB_SHADOW else
  let sl := allocate_slots funcs ii in
  (* bind.go checks init's returned types between the two allocation passes, and through downRmap
     (not bypassRmap): a returned type that only a per-invocation consumer would give a slot, or
     that is matched loosely, is reported as not provided *)
  if negb (init_bypass_ok funcs (sl_down0 sl)) then Err EB_INITTYPE else
  Ok (mkPlan funcs ii sl).

Fixpoint compile_all (te : tyenv) (dn up : list (nat * option nat)) (l : list (prov * list nat))
  : option (list (prov * cp)) :=
  match l with
  | [] => Some []
  | pz :: r =>
    if p_include (fst pz) then
      match compile_one te dn up pz, compile_all te dn up r with
      | Some c, Some rest => Some ((fst pz, c) :: rest)
      | _, _ => None
      end
    else compile_all te dn up r
  end.

Definition of_group (g : groupT) (l : list (prov * cp)) : list cp :=
  map snd (filter (fun pc => group_eqb (p_group (fst pc)) g) l).
Definition of_class (c : classT) (l : list (prov * cp)) : list cp :=
  map snd (filter (fun pc => class_eqb (p_class (fst pc)) c) l).


Definition bind_chain (c : bcase) : res (plan * bound) :=
  let te := bc_te c in
  do pl <- plan_of c;
  let sl := pl_slots pl in
  do cps <- opt_res (compile_all te (sl_down sl) (sl_up sl) (sl_funcs sl)) EB_INTERNAL;
  match of_group GFinal cps, of_class ClInvoke cps with
  | [fin], [inv] =>
    let base := fold_left (fun a lc => apply_literal lc a)
                          (of_group GLiteral cps) (repeat VInvalid (sl_count sl)) in
    Ok (pl, mkBound base (map snd (filter (fun pc => group_eqb (p_group (fst pc)) GStatic
                                                     || group_eqb (p_group (fst pc)) GLiteral) cps))
                    (of_group GRun cps ++ [fin])
                    (match of_class ClInit cps with [i] => Some i | _ => None end) inv)
  | _, _ => Err EB_NOFINAL
  end.

(* ---------- scripted behaviours (what the harness providers do) ---------- *)
Inductive event :=
| ECall (pid : nat) (args outs : list val)
| EEnter (pid : nat) (args : list val)
| EInner (pid k : nat) (args : list val)
| EInnerRet (pid k : nat) (vals : list val)
| ELeave (pid : nat) (rets : list val).

Record sw := mkSw {
  sw_cnt : nat;                                      (* serial counter *)
  sw_cache : list (nat * list val * list val);       (* Memoize/Singleton caches: (pid, inputs, results) *)
  sw_log : list event                                (* newest first *)
}.

Definition sw_log_add (e : event) (w : sw) : sw := mkSw (sw_cnt w) (sw_cache w) (e :: sw_log w).
Definition sw_tick (w : sw) : sw := mkSw (S (sw_cnt w)) (sw_cache w) (sw_log w).

Fixpoint vals_eqb (a b : list val) : bool :=
  match a, b with
  | [], [] => true
  | x :: a', y :: b' => val_eqb x y && vals_eqb a' b'
  | _, _ => false
  end.

Fixpoint cache_find (pid : nat) (args : list val) (anyArgs : bool) (c : list (nat * list val * list val)) : option (list val) :=
  match c with
  | [] => None
  | (p, a, o) :: r => if (p =? pid) && (anyArgs || vals_eqb a args) then Some o else cache_find pid args anyArgs r
  end.

Fixpoint testbit (n k : nat) : bool :=
  match k with
  | 0 => Nat.odd n
  | S k' => testbit (Nat.div2 n) k'
  end.

(* the value a script makes for a result of type t *)
Definition mkval (te : tyenv) (failing : bool) (pid s t : nat) : val :=
  if t =? te_terminalT te then (if failing then VErr pid s else VZero t)
  else if t =? te_errorT te then VErr pid s
  else if t =? te_unusedT te then VTag t 0 0
  else if is_iface te t then VTag (prod_of te t) pid s
  else VTag t pid s.

Record script := mkScript {
  sc_pid : nat;
  sc_outs : list nat;        (* result types of a function / arguments of invoke, init *)
  sc_failmask : nat;
  sc_cached : nat;           (* 0 no, 1 memoized (per input tuple), 2 singleton *)
  sc_calls : list nat;
  sc_passthru : bool;
  sc_innerIns : list nat;
  sc_innerOuts : list nat
}.

Fixpoint find_script (pid : nat) (l : list script) : option script :=
  match l with [] => None | s :: r => if sc_pid s =? pid then Some s else find_script pid r end.

Section Scripts.
  Variable te : tyenv.
  Variable scripts : list script.

  Definition s_beh_fn (pid : nat) (w : sw) (args : list val) : sw * list val :=
    if pid =? PID_DEBUG then (w, [VTag (te_debugT te) 0 0]) else   (* nject's own provider: no script *)
    match find_script pid scripts with
    | None => (w, [])
    | Some sc =>
      let hit := match sc_cached sc with
                 | 0 => None
                 | 1 => cache_find pid args false (sw_cache w)
                 | _ => cache_find pid args true (sw_cache w)
                 end in
      match hit with
      | Some outs => (w, outs)
      | None =>
        let s := S (sw_cnt w) in
        let failing := testbit (sc_failmask sc) (Nat.modulo s 8) in
        let outs := map (mkval te failing pid s) (sc_outs sc) in
        let w1 := mkSw s (if sc_cached sc =? 0 then sw_cache w else (pid, args, outs) :: sw_cache w)
                       (if (pid =? PID_INIT) || (pid =? PID_INVOKE) then sw_log w
                        else ECall pid args outs :: sw_log w) in
        (w1, outs)
      end
    end.

  Fixpoint first_of (t : nat) (tys : list nat) (vs : list val) : option val :=
    match tys, vs with
    | ty :: tys', v :: vs' => if ty =? t then Some v else first_of t tys' vs'
    | _, _ => None
    end.

  (* what a wrapper's script returns for a result of type t at step s; errors are nil on even steps
     (a wrapper returning a nil error is the common case in real chains) *)
  Definition wrap_ret (pid s t : nat) : val :=
    if (t =? te_errorT te) && Nat.even s then VZero t else mkval te false pid s t.

  Fixpoint wrap_tree (sc : script) (n k : nat) (w : sw) (last : option (list val)) : wtree sw :=
    match n with
    | 0 =>
      let s := S (sw_cnt w) in
      let rets := map (fun t =>
                    match (if sc_passthru sc then last else None) with
                    | Some r => match first_of t (sc_innerOuts sc) r with
                                | Some v => v
                                | None => wrap_ret (sc_pid sc) s t
                                end
                    | None => wrap_ret (sc_pid sc) s t
                    end) (sc_outs sc) in
      WRet (mkSw s (sw_cache w) (ELeave (sc_pid sc) rets :: sw_log w)) rets
    | S n' =>
      let s := S (sw_cnt w) in
      let iargs := map (mkval te false (sc_pid sc) s) (sc_innerIns sc) in
      WInner (mkSw s (sw_cache w) (EInner (sc_pid sc) k iargs :: sw_log w)) iargs
             (fun w2 r => wrap_tree sc n' (S k) (sw_log_add (EInnerRet (sc_pid sc) k r) w2) (Some r))
    end.

  Definition s_beh_wrap (pid : nat) (w : sw) (args : list val) : wtree sw :=
    if pid =? PID_UNUSED_RET then   (* nject's own wrapper: func(inner func()) Unused { inner(); return Unused{} } *)
      WInner w [] (fun w2 _ => WRet w2 [VTag (te_unusedT te) 0 0]) else
    match find_script pid scripts with
    | None => WRet w []
    | Some sc =>
      let s := S (sw_cnt w) in
      let ncalls := match sc_calls sc with
                    | [] => 1
                    | l => nth (Nat.modulo s (length l)) l 1
                    end in
      wrap_tree sc ncalls 1 (mkSw s (sw_cache w) (EEnter pid args :: sw_log w)) None
    end.
End Scripts.

Definition script_of (d : pdesc) : script :=
  match d_shape d with
  | ShFn _ outs => mkScript (d_pid d) outs (d_failmask d) (if d_singleton d then 2 else if d_memoize d then 1 else 0) [] false [] []
  | ShWrap _ ii io outs => mkScript (d_pid d) outs 0 0 (d_calls d) (d_passthru d) ii io
  | ShFnPtr ins _ => mkScript (d_pid d) ins 0 0 [] false [] []
  | _ => mkScript (d_pid d) [] 0 0 [] false [] []
  end.

Definition scripts_of (c : bcase) : list script :=
  map script_of (bc_provs c) ++ [script_of (bc_invoke c)] ++
  (match bc_init c with Some i => [script_of i] | None => [] end) ++
  [script_of (debug_pd (bc_te c)); script_of (unused_ret_pd (bc_te c))].

(* memoized-ness as nject decided it (fm.memoized), not as annotated *)
Definition fix_cached (te : tyenv) (funcs : list prov) (s : script) : script :=
  match filter (fun p => p_pid p =? sc_pid s) funcs with
  | p :: _ =>
    (* inputs whose types can never be map keys are not cached: the function is called each time *)
    let cached := if s_memoized (p_s p) then (if forallb (mapkey_t te) (pflow p FIn) then 1 else 0)
                  else if d_singleton (s_d (p_s p)) && (class_eqb (p_class p) ClStatic || class_eqb (p_class p) ClFallibleStatic) then 2
                  else 0 in
    mkScript (sc_pid s) (sc_outs s) (sc_failmask s) cached (sc_calls s) (sc_passthru s) (sc_innerIns s) (sc_innerOuts s)
  | [] => s
  end.

(* ---------- link to the reference semantics (Spec.v) ---------- *)
(* The type-level wiring of a selected provider, as the reference semantics needs it. *)
Definition rp_of (te : tyenv) (p : prov) (zero : list nat) : rp :=
  let ins := filter (fun t => negb (t =? te_noT te)) (pflow p FIn) in
  let zero' := match p_class p with ClWrapper | ClFallible | ClFallibleStatic => zero | _ => [] end in
  mkRp (p_pid p) (p_class p) (d_parallel (s_d (p_s p)))
       (map (remap (p_downR p)) ins)
       (pflow p FOut)
       (match p_class p with ClFallible => [] | _ => pflow p FRet end)
       (map (remap (p_upR p)) (pflow p FRecv))
       zero'
       (match p_class p with
        | ClFallible | ClFallibleStatic =>
          match index_of (te_terminalT te) (orig_outs p) 0 with Some i => i | None => 0 end
        | _ => 0
        end).

Definition splan_of (te : tyenv) (pl : plan) : option splan :=
  let inc := filter (fun pz : prov * list nat => p_include (fst pz)) (sl_funcs (pl_slots pl)) in
  let rps g := map (fun pz : prov * list nat => rp_of te (fst pz) (snd pz)) (filter (fun pz => g (fst pz)) inc) in
  let statics := rps (fun p => group_eqb (p_group p) GStatic || group_eqb (p_group p) GLiteral) in
  let runs := rps (fun p => group_eqb (p_group p) GRun) ++ rps (fun p => group_eqb (p_group p) GFinal) in
  let inits := filter (fun pz : prov * list nat => class_eqb (p_class (fst pz)) ClInit) inc in
  let invs := filter (fun pz : prov * list nat => class_eqb (p_class (fst pz)) ClInvoke) inc in
  match invs with
  | [iv] =>
    let ivr := rp_of te (fst iv) [] in
    let mk (i : option rp) := mkSplan statics runs i ivr in
    match inits with
    | [] => Some (mk None)
    | [it] =>
      let p := fst it in
      (* init returns its bypass types, read through the bypass remap from the down slots *)
      Some (mk (Some (mkRp (p_pid p) ClInit false (map (remap (p_bypassR p)) (pflow p FBypass)) (pflow p FOut) [] [] [] 0)))
    | _ => None
    end
  | _ => None
  end.

Definition sd_of (sl : slotted) (t : nat) : option nat :=
  match alookup t (sl_down sl) with Some s => s | None => None end.
Definition su_of (sl : slotted) (t : nat) : option nat :=
  match alookup t (sl_up sl) with Some s => s | None => None end.

Definition slot_idx (vm : list (nat * option nat)) : list nat :=
  flat_map (fun e : nat * option nat => match snd e with Some i => [i] | None => [] end) vm.

Fixpoint nodup_b (l : list nat) : bool :=
  match l with [] => true | x :: r => negb (memb x r) && nodup_b r end.

Definition is_some {A} (o : option A) : bool := match o with Some _ => true | None => false end.

Definition slots_ok_b (sl : slotted) : bool :=
  nodup_b (map fst (sl_down sl)) && nodup_b (map fst (sl_up sl)) &&
  nodup_b (slot_idx (sl_down sl) ++ slot_idx (sl_up sl)) &&
  forallb (fun i => i <? sl_count sl) (slot_idx (sl_down sl) ++ slot_idx (sl_up sl)).

Definition covered_b (sl : slotted) (errT : nat) (r : rp) : bool :=
  forallb (fun t => is_some (sd_of sl t)) (r_ins r) && forallb (fun t => is_some (su_of sl t)) (r_recv r) &&
  (if class_eqb (r_class r) ClFallible then is_some (su_of sl errT) else true).
Definition covered_s_b (sl : slotted) (r : rp) : bool := forallb (fun t => is_some (sd_of sl t)) (r_ins r).

(* decidable equality of compiled providers *)
Definition on_eqb (a b : option nat) : bool :=
  match a, b with Some x, Some y => x =? y | None, None => true | _, _ => false end.
Fixpoint ps_eqb (a b : list (option nat * nat)) : bool :=
  match a, b with
  | [], [] => true
  | (s, t) :: a', (s', t') :: b' => on_eqb s s' && (t =? t') && ps_eqb a' b'
  | _, _ => false
  end.
Fixpoint zs_eqb (a b : list (nat * nat)) : bool :=
  match a, b with
  | [], [] => true
  | (s, t) :: a', (s', t') :: b' => (s =? s') && (t =? t') && zs_eqb a' b'
  | _, _ => false
  end.
Definition cp_eqb (a b : cp) : bool :=
  (cp_pid a =? cp_pid b) && class_eqb (cp_class a) (cp_class b) && Bool.eqb (cp_parallel a) (cp_parallel b) &&
  ps_eqb (cp_in a) (cp_in b) && ps_eqb (cp_out a) (cp_out b) && ps_eqb (cp_ret a) (cp_ret b) &&
  ps_eqb (cp_recv a) (cp_recv b) && zs_eqb (cp_zero a) (cp_zero b) && (cp_tepos a =? cp_tepos b) &&
  on_eqb (cp_errslot a) (cp_errslot b).
Fixpoint cps_eqb (a b : list cp) : bool :=
  match a, b with
  | [], [] => true
  | x :: a', y :: b' => cp_eqb x y && cps_eqb a' b'
  | _, _ => false
  end.

Definition bound_eqb (a b : bound) : bool :=
  cps_eqb (bd_static a) (bd_static b) && cps_eqb (bd_run a) (bd_run b) &&
  (match bd_init a, bd_init b with Some x, Some y => cp_eqb x y | None, None => true | _, _ => false end) &&
  cp_eqb (bd_invoke a) (bd_invoke b).

Definition is_invalid (v : val) : bool := match v with VInvalid => true | _ => false end.

(* Everything the refinement theorem assumes about a plan and its compiled form, as one
   decidable check.  It is evaluated on every case of the correspondence run. *)
Definition plan_wf (te : tyenv) (pl : plan) (b : bound) : bool :=
  let sl := pl_slots pl in
  match splan_of te pl with
  | None => false
  | Some sp =>
    slots_ok_b sl &&
    (length (bd_base0 b) =? sl_count sl) &&
    forallb (fun i => is_invalid (aget i (bd_base0 b))) (slot_idx (sl_up sl)) &&
    forallb well_classed (sp_run sp) &&
    forallb (covered_b sl (te_errorT te)) (sp_run sp) &&
    forallb (covered_s_b sl) (sp_static sp) &&
    (match sp_init sp with Some ir => forallb (fun t => is_some (sd_of sl t)) (r_ins ir) | None => true end) &&
    forallb (fun t => is_some (su_of sl t)) (r_recv (sp_invoke sp)) &&
    bound_eqb b (bound_of (sd_of sl) (su_of sl) (te_errorT te) (bd_base0 b) sp)
  end.

(* The positional condition under which plan_wf is a theorem (WfProofs.bind_plan_wf): no included
   per-invocation provider other than a plain injector is placed before the invoke function
   (always so without Reorder). *)
Definition runs_after_invoke (pl : plan) : bool :=
  forallb (fun p => negb (p_include p && (group_eqb (p_group p) GRun || group_eqb (p_group p) GFinal)
                          && negb (class_eqb (p_class p) ClInjector)))
          (firstn (pl_invokeIndex pl) (pl_funcs pl)).

(* ---------- observation ---------- *)
Record obs := mkObs {
  o_bind : res unit;
  o_order : list (nat * nat * nat * bool);        (* pid, class, group, include *)
  o_rmaps : list (nat * list (nat * nat) * list (nat * nat) * list (nat * nat));   (* included providers: pid, inputs>source, received>source, init returns>source *)
  o_results : list sres;
  o_log : list event;
  o_wf : bool;                                    (* plan_wf: hypotheses of the refinement theorem *)
  o_sc : bool                                     (* the side condition under which plan_wf is proved *)
}.

Definition rmap_view (m : list (nat * nat)) (tys : list nat) (noT : nat) : list (nat * nat) :=
  flat_map (fun t => if t =? noT then [] else
                     match alookup t m with Some t' => [(t, t')] | None => [(t, 0)] end) (dedup tys).

Definition model_run (c : bcase) : obs :=
  match bind_chain c with
  | Err e => mkObs (Err e) [] [] [] [] true true
  | Panic e => mkObs (Panic e) [] [] [] [] true true
  | Ok (pl, b) =>
    let te := bc_te c in
    let scripts := map (fix_cached te (pl_funcs pl)) (scripts_of c) in
    let steps := map (fun isInvoke : bool => if isInvoke then DoInvoke else DoInit) (bc_session c) in
    let '(s, results) := run_session sw (s_beh_fn te scripts) (s_beh_wrap te scripts) b
                                     (mkSess sw (mkSw 0 [] []) (bd_base0 b) false true) steps in
    mkObs (Ok tt)
          (map (fun p => (p_pid p, class_code (p_class p), group_code (p_group p), p_include p)) (pl_funcs pl))
          (flat_map (fun p => if p_include p then
                       [(p_pid p, rmap_view (p_downR p) (pflow p FIn) (te_noT te),
                                  rmap_view (p_upR p) (pflow p FRecv) (te_noT te),
                                  rmap_view (p_bypassR p) (pflow p FBypass) (te_noT te))] else []) (pl_funcs pl))
          results (rev (sw_log (ss_w sw s))) (plan_wf te pl b) (runs_after_invoke pl)
  end.

