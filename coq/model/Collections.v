(* S0: building collections (nject.go: newCollection, renameIfEmpty, modify; api.go: Sequence,
   Append, Provide and the annotation functions).  A Collection is a flat list of providers:
   Sequence and Append flatten at construction time, an annotation applied to a collection is
   mapped over its members.  Names (origins) only matter to the named edits (S1). *)
From Coq Require Import List Arith Bool.
Import ListNotations.
From NJ Require Import Base.

Definition set_origin (o : nat) (d : pdesc) : pdesc :=
  mkPdesc (d_pid d) o (d_rep d) (d_bef d) (d_aft d) (d_shape d) (d_reflective d) (d_nonFinal d) (d_cacheable d)
          (d_mustCache d) (d_required d) (d_memoize d) (d_reorder d) (d_desired d) (d_shun d) (d_notCacheable d)
          (d_singleton d) (d_parallel d) (d_cluster d) (d_loose d) (d_mustConsume d) (d_consumptionOptional d)
          (d_shadowingAllowed d) (d_failmask d) (d_calls d) (d_passthru d).
Definition erase_origin : pdesc -> pdesc := set_origin 0.

(* a provider supplied through the Reflective interfaces instead of as a Go function *)
Definition set_reflective (b : bool) (d : pdesc) : pdesc :=
  mkPdesc (d_pid d) (d_origin d) (d_rep d) (d_bef d) (d_aft d) (d_shape d) b (d_nonFinal d) (d_cacheable d)
          (d_mustCache d) (d_required d) (d_memoize d) (d_reorder d) (d_desired d) (d_shun d) (d_notCacheable d)
          (d_singleton d) (d_parallel d) (d_cluster d) (d_loose d) (d_mustConsume d) (d_consumptionOptional d)
          (d_shadowingAllowed d) (d_failmask d) (d_calls d) (d_passthru d).
(* how the provider is presented: its name and whether it is a function or a Reflective *)
Definition erase_presentation (d : pdesc) : pdesc := set_reflective false (set_origin 0 d).

(* what is left of a provider once the named edits have been applied: no names, no directives; and
   characterization reads a Reflective through the same reflectType interface as a function
   (reflective.go: wrappedReflective), so that distinction is gone as well *)
Definition erase_names (d : pdesc) : pdesc :=
  mkPdesc (d_pid d) 0 0 0 0 (d_shape d) false (d_nonFinal d) (d_cacheable d)
          (d_mustCache d) (d_required d) (d_memoize d) (d_reorder d) (d_desired d) (d_shun d) (d_notCacheable d)
          (d_singleton d) (d_parallel d) (d_cluster d) (d_loose d) (d_mustConsume d) (d_consumptionOptional d)
          (d_shadowingAllowed d) (d_failmask d) (d_calls d) (d_passthru d).

Definition no_directive (d : pdesc) : bool := (d_rep d =? 0) && (d_bef d =? 0) && (d_aft d =? 0).

(* an argument of Sequence / Append: a provider or a collection *)
Inductive thing := TProv (d : pdesc) | TColl (c : list pdesc).
Definition contents (t : thing) : list pdesc := match t with TProv d => [d] | TColl c => c end.

Definition rename_if_empty (name : nat) (d : pdesc) : pdesc :=
  if d_origin d =? 0 then set_origin name d else d.

(* newCollection: a provider argument takes the collection's name if it has none, the members
   of a collection argument are spliced in unchanged *)
Definition seq_item (name : nat) (t : thing) : list pdesc :=
  match t with TProv d => [rename_if_empty name d] | TColl c => c end.
Definition sequence (name : nat) (items : list thing) : thing := TColl (flat_map (seq_item name) items).
Definition append_to (base : thing) (name : nat) (items : list thing) : thing :=
  TColl (contents base ++ flat_map (seq_item name) items).
(* thing.modify: copy and apply to the provider / to every member *)
Definition modify (f : pdesc -> pdesc) (t : thing) : thing :=
  match t with TProv d => TProv (f d) | TColl c => TColl (map f c) end.

(* construction expressions *)
Inductive cexpr :=
| CProv (d : pdesc)                                     (* a function, literal or Provide(name, fn) *)
| CSeq (name : nat) (items : list cexpr)                (* Sequence(name, items...) *)
| CApp (base : cexpr) (name : nat) (items : list cexpr) (* base.Append(name, items...) *)
| CAnn (f : pdesc -> pdesc) (e : cexpr).                (* an annotation function applied to e *)

Fixpoint ev (e : cexpr) : thing :=
  match e with
  | CProv d => TProv d
  | CSeq n items => sequence n (map ev items)
  | CApp b n items => append_to (ev b) n (map ev items)
  | CAnn f x => modify f (ev x)
  end.

(* the flat list the expression denotes: its leaves in order, each with the annotations of the
   enclosing expressions applied innermost first *)
Fixpoint leaves (e : cexpr) : list pdesc :=
  match e with
  | CProv d => [d]
  | CSeq _ items => flat_map leaves items
  | CApp b _ items => leaves b ++ flat_map leaves items
  | CAnn f x => map f (leaves x)
  end.

(* annotation functions do not look at or change names *)
Definition name_blind (f : pdesc -> pdesc) : Prop := forall o d, f (set_origin o d) = set_origin o (f d).
Fixpoint anns_blind (e : cexpr) : Prop :=
  match e with
  | CProv _ => True
  | CSeq _ items => fold_right (fun x P => anns_blind x /\ P) True items
  | CApp b _ items => anns_blind b /\ fold_right (fun x P => anns_blind x /\ P) True items
  | CAnn f x => name_blind f /\ anns_blind x
  end.

(* some of the annotation functions *)
Definition with_flags (d : pdesc) (nonFinal cacheable mustCache required memoize reorder desired shun notCacheable singleton parallel : bool) : pdesc :=
  mkPdesc (d_pid d) (d_origin d) (d_rep d) (d_bef d) (d_aft d) (d_shape d) (d_reflective d) nonFinal cacheable
          mustCache required memoize reorder desired shun notCacheable
          singleton parallel (d_cluster d) (d_loose d) (d_mustConsume d) (d_consumptionOptional d)
          (d_shadowingAllowed d) (d_failmask d) (d_calls d) (d_passthru d).
Definition ann_required d := with_flags d (d_nonFinal d) (d_cacheable d) (d_mustCache d) true (d_memoize d) (d_reorder d) (d_desired d) (d_shun d) (d_notCacheable d) (d_singleton d) (d_parallel d).
Definition ann_desired d := with_flags d (d_nonFinal d) (d_cacheable d) (d_mustCache d) (d_required d) (d_memoize d) (d_reorder d) true (d_shun d) (d_notCacheable d) (d_singleton d) (d_parallel d).
Definition ann_shun d := with_flags d (d_nonFinal d) (d_cacheable d) (d_mustCache d) (d_required d) (d_memoize d) (d_reorder d) (d_desired d) true (d_notCacheable d) (d_singleton d) (d_parallel d).
Definition ann_cacheable d := with_flags d (d_nonFinal d) true (d_mustCache d) (d_required d) (d_memoize d) (d_reorder d) (d_desired d) (d_shun d) (d_notCacheable d) (d_singleton d) (d_parallel d).
Definition ann_nonFinal d := with_flags d true (d_cacheable d) (d_mustCache d) (d_required d) (d_memoize d) (d_reorder d) (d_desired d) (d_shun d) (d_notCacheable d) (d_singleton d) (d_parallel d).
Definition ann_reorder d := with_flags d (d_nonFinal d) (d_cacheable d) (d_mustCache d) (d_required d) (d_memoize d) true (d_desired d) (d_shun d) (d_notCacheable d) (d_singleton d) (d_parallel d).
Definition ann_memoize d := with_flags d (d_nonFinal d) (d_cacheable d) (d_mustCache d) (d_required d) true (d_reorder d) (d_desired d) (d_shun d) (d_notCacheable d) (d_singleton d) (d_parallel d).
