(* S13: the generated helpers of utils.go and filler.go, over abstract types (nat codes) and
   values: Curry's position maps, SaveTo, MakeStructBuilder's field mapping and post-actions. *)
From Coq Require Import List Arith Bool.
Import ListNotations.
From NJ Require Import Base.

(* ---------- Curry (utils.go) ---------- *)
(* where the i-th argument of the original function comes from *)
Inductive csrc := SInj (k : nat)     (* the k-th injected (curried away) value *)
                | SPass (cp : nat).   (* the argument at position cp of the curried function *)

Fixpoint positions (t : nat) (l : list nat) (i : nat) : list nat :=
  match l with
  | [] => []
  | x :: r => if x =? t then i :: positions t r (S i) else positions t r (S i)
  end.

Fixpoint count_of (t : nat) (used : list (nat * nat)) : nat :=
  match used with [] => 0 | (k, c) :: r => if k =? t then c else count_of t r end.
Fixpoint incr_of (t : nat) (used : list (nat * nat)) : list (nat * nat) :=
  match used with
  | [] => [(t, 1)]
  | (k, c) :: r => if k =? t then (k, S c) :: r else (k, c) :: incr_of t r
  end.

(* the loop over the original function's parameters *)
Fixpoint curry_loop (cur : list nat) (orig : list nat) (used : list (nat * nat))
         (curried : list nat) (srcs : list csrc) : option (list nat * list csrc * list (nat * nat)) :=
  match orig with
  | [] => Some (curried, srcs, used)
  | t :: r =>
    match positions t cur 0 with
    | [] => if memb t curried then None       (* cannot curry the same type more than once *)
            else curry_loop cur r used (curried ++ [t]) (srcs ++ [SInj (length curried)])
    | plist =>
      match nth_opt (count_of t used) plist with
      | Some cp => curry_loop cur r (incr_of t used) curried (srcs ++ [SPass cp])
      | None => None                          (* more arguments of this type than the curried function has *)
      end
    end
  end.

Record cplan := mkCplan { cp_curried : list nat; cp_srcs : list csrc }.

(* [is_func t]: the type is a function type (the first curried input may not be one) *)
Definition curry_plan (is_func : nat -> bool) (orig cur : list nat) : option cplan :=
  if length orig <=? length cur then None else
  match curry_loop cur orig [] [] [] with
  | None => None
  | Some (curried, srcs, used) =>
    if negb (forallb (fun t => count_of t used =? length (positions t cur 0)) cur) then None
    else match curried with
         | t :: _ => if is_func t then None else Some (mkCplan curried srcs)
         | [] => Some (mkCplan curried srcs)
         end
  end.

Section CurryArgs.
  Variable V : Type.
  Variable dflt : V.
  Definition curry_args (p : cplan) (passed injected : list V) : list V :=
    map (fun s => match s with SInj k => nth k injected dflt | SPass cp => nth cp passed dflt end) (cp_srcs p).
End CurryArgs.

(* ---------- SaveTo (utils.go) ---------- *)
(* the provider's inputs are the pointees' types; running it stores the chain's value for each *)
Definition saveto_plan (is_func : nat -> bool) (ptr_types : list nat) : option (list nat) :=
  match ptr_types with
  | t :: _ => if is_func t then None else Some ptr_types
  | [] => Some []
  end.

(* ---------- MakeStructBuilder (filler.go) ---------- *)
Inductive ftype := FLeaf (t : nat) | FStruct (tid : nat) (fields : list ffield)
with ffield := mkFfield (exported : bool) (name : nat) (tags : list nat) (ft : ftype).

Definition TAG_NOFILL := 1.
Definition TAG_FILL := 2.
Definition TAG_SKIP := 3.
Definition TAG_WHOLE := 4.
Definition TAG_FIELDS := 5.

Inductive akind := AByTag (tag : nat) | AByName (name : nat) | AByType.
Record action := mkAction {
  a_id : nat;
  a_kind : akind;
  a_params : list (nat * bool);   (* the function's parameters: (type code of T, the parameter is *T) *)
  a_fillSet : bool;
  a_fill : bool
}.

Definition type_code (ft : ftype) : nat := match ft with FLeaf t => t | FStruct tid _ => tid end.
Definition is_struct (ft : ftype) : bool := match ft with FStruct _ _ => true | _ => false end.

(* addFieldFiller: which parameter of a post-action function stands for the struct field.  Every
   candidate (parameter i, field | pointer to field) is scored, an exact type match scores best and a
   candidate that is not strictly better than the best so far is rejected: the first parameter whose
   type is the field's type (or a pointer to it) is the field, the others are injected from the chain.
   params: (type code of T, the parameter is *T). *)
Fixpoint field_param (t : nat) (params : list (nat * bool)) (i : nat) : option (nat * bool) :=
  match params with
  | [] => None
  | (ty, p) :: r => if ty =? t then Some (i, p) else field_param t r (S i)
  end.

Record fstate := mkFstate { fs_skip : bool; fs_noSkip : bool; fs_whole : bool; fs_hard : bool;
                            fs_acts : list (nat * list nat * bool) }.   (* action id, path, addressOf *)

(* handleFieldFiller; None = addFieldFiller found no match between the field and the function *)
Definition handle_action (path : list nat) (ft : ftype) (a : action) (st : fstate) : option fstate :=
  if fs_hard st then Some st else
  match field_param (type_code ft) (a_params a) 0 with
  | None => None
  | Some (_, ptr) =>
    let skip' := if a_fillSet a then (if fs_noSkip st then fs_skip st else negb (a_fill a))
                 else if ptr then (if fs_noSkip st then fs_skip st else true)
                 else fs_skip st in
    Some (mkFstate skip' (fs_noSkip st) (fs_whole st) (fs_hard st) (fs_acts st ++ [(a_id a, path, ptr)]))
  end.

Fixpoint handle_actions (path : list nat) (ft : ftype) (l : list action) (st : fstate) : option fstate :=
  match l with
  | [] => Some st
  | a :: r => match handle_action path ft a st with Some st1 => handle_actions path ft r st1 | None => None end
  end.

Definition is_tag (a : action) (tv : nat) : bool := match a_kind a with AByTag t => t =? tv | _ => false end.
Definition is_name (a : action) (nm : nat) : bool := match a_kind a with AByName n => n =? nm | _ => false end.
(* byType[typeCode of the function's first input]: for a pointer model *T actions come before T actions *)
Definition a_first (a : action) : nat * bool := match a_params a with p :: _ => p | [] => (0, false) end.
Definition by_type (acts : list action) (ptrModel : bool) (t : nat) : list action :=
  (if ptrModel then filter (fun a => match a_kind a with AByType => (fst (a_first a) =? t) && snd (a_first a) | _ => false end) acts else []) ++
  filter (fun a => match a_kind a with AByType => (fst (a_first a) =? t) && negb (snd (a_first a)) | _ => false end) acts.

Fixpoint tags_loop (acts : list action) (path : list nat) (ft : ftype) (tags : list nat) (st : fstate) : option fstate :=
  match tags with
  | [] => Some st
  | tv :: r =>
    let cont st1 := tags_loop acts path ft r st1 in
    if tv =? TAG_NOFILL then cont (mkFstate true (fs_noSkip st) (fs_whole st) (fs_hard st) (fs_acts st))
    else if tv =? TAG_FILL then cont (mkFstate false true (fs_whole st) (fs_hard st) (fs_acts st))
    else if tv =? TAG_SKIP then cont (mkFstate true (fs_noSkip st) (fs_whole st) true (fs_acts st))
    else if tv =? TAG_WHOLE then
      (if is_struct ft then cont (mkFstate (fs_skip st) (fs_noSkip st) true (fs_hard st) (fs_acts st)) else None)
    else if tv =? TAG_FIELDS then
      (if is_struct ft then cont (mkFstate (fs_skip st) (fs_noSkip st) false (fs_hard st) (fs_acts st)) else None)
    else match filter (fun a => is_tag a tv) acts with
         | a :: _ => match handle_action path ft a st with Some st1 => cont st1 | None => None end
         | [] => None                       (* invalid struct tag *)
         end
  end.

Record fplan := mkFplan { fp_inputs : list (nat * list nat);            (* type, path *)
                          fp_acts : list (nat * list nat * bool) }.

(* mapStruct; fuel = nesting depth bound *)
Fixpoint map_fields (fuel : nat) (acts : list action) (ptrModel : bool) (fields : list ffield) (i : nat) (path : list nat)
         (acc : fplan) {struct fuel} : option fplan :=
  match fuel with
  | 0 => None
  | S fuel' =>
    match fields with
    | [] => Some acc
    | mkFfield exported name tags ft :: r =>
      let np := path ++ [i] in
      if negb exported then map_fields fuel' acts ptrModel r (S i) path acc else
      match tags_loop acts np ft tags (mkFstate false false false false []) with
      | None => None
      | Some st1 =>
        match handle_actions np ft (filter (fun a => is_name a name) acts) st1 with
        | None => None
        | Some st2 =>
          match handle_actions np ft (by_type acts ptrModel (type_code ft)) st2 with
          | None => None
          | Some st3 =>
            let acc1 := mkFplan (fp_inputs acc) (fp_acts acc ++ fs_acts st3) in
            if fs_skip st3 then map_fields fuel' acts ptrModel r (S i) path acc1 else
            match ft with
            | FStruct _ sub =>
              if fs_whole st3
              then map_fields fuel' acts ptrModel r (S i) path (mkFplan (fp_inputs acc1 ++ [(type_code ft, np)]) (fp_acts acc1))
              else match map_fields fuel' acts ptrModel sub 0 np acc1 with
                   | Some acc2 => map_fields fuel' acts ptrModel r (S i) path acc2
                   | None => None
                   end
            | FLeaf t => map_fields fuel' acts ptrModel r (S i) path (mkFplan (fp_inputs acc1 ++ [(t, np)]) (fp_acts acc1))
            end
          end
        end
      end
    end
  end.

Fixpoint fsize (ft : ftype) : nat :=
  match ft with
  | FLeaf _ => 1
  | FStruct _ fields => S (fold_right (fun f n => match f with mkFfield _ _ _ t => fsize t end + n) 0 fields)
  end.

Definition struct_plan (acts : list action) (ptrModel : bool) (model : ftype) : option fplan :=
  match model with
  | FStruct _ fields => map_fields (2 * fsize model + 2) acts ptrModel fields 0 [] (mkFplan [] [])
  | FLeaf _ => None
  end.

(* value trees *)
Section Fill.
  Variable V : Type.
  Inductive vtree := VL (v : V) | VS (l : list vtree).

  Fixpoint vget (p : list nat) (t : vtree) : option vtree :=
    match p with
    | [] => Some t
    | i :: r => match t with VS l => match nth_opt i l with Some c => vget r c | None => None end | VL _ => None end
    end.

  Fixpoint vset (p : list nat) (x : vtree) (t : vtree) : vtree :=
    match p with
    | [] => x
    | i :: r => match t with
                | VS l => VS (upd_nth i (vset r x) l)
                | VL v => VL v
                end
    end.

  (* filler.Call: store each input at its path *)
  Definition fill (plan : fplan) (zero : vtree) (vals : list vtree) : vtree :=
    fold_left (fun t pv => vset (snd (fst pv)) (snd pv) t) (combine (fp_inputs plan) vals) zero.
End Fill.
