(* S9: flows.go (provider and collection DownFlows / UpFlows, netFlows) and the part of
   condense.go that sizes the condensed provider: its inputs are the collection's unresolved down
   inputs, its outputs the types the collection returns. *)
From Coq Require Import List Arith Bool.
Import ListNotations.
From NJ Require Import Base Collections Registry Classify Select.

Definition no_notype (te : tyenv) (l : list nat) : list nat := filter (fun t => negb (t =? te_noT te)) l.

(* flows of a characterized provider (flows.go: class set) *)
Definition sprov_down (te : tyenv) (s : sprov) : list nat * list nat :=
  (no_notype te (fl (f_in (s_flows s))), no_notype te (fl (f_out (s_flows s)))).
Definition sprov_up (te : tyenv) (s : sprov) : list nat * list nat :=
  (no_notype te (fl (f_recv (s_flows s))), no_notype te (fl (f_ret (s_flows s)))).

(* flows of a provider that has not been characterized: the last function is not known to be final *)
Definition raw_down (te : tyenv) (d : pdesc) : list nat * list nat :=
  match d_shape d with
  | ShLit t => ([], [t])
  | ShFn ins outs => (ins, filter (fun t => negb (t =? te_terminalT te)) outs)
  | ShWrap ins ii _ _ => (ins, ii)
  | _ => ([], [])
  end.
Definition raw_up (te : tyenv) (d : pdesc) : list nat * list nat :=
  match d_shape d with
  | ShFn _ outs => ([], if memb (te_terminalT te) outs then [te_errorT te] else [])
  | ShWrap _ _ io outs => (io, outs)
  | _ => ([], [])
  end.

(* netFlows: one provider.  [byT] collects the (resolved) input types of this provider. *)
Definition resolve_input (te : tyenv) (funcs : list prov) (avail : list imd) (input : nat) : nat :=
  match best_match te funcs avail input with Some (t, _) => t | None => input end.

Fixpoint nf_inputs (te : tyenv) (funcs : list prov) (avail : list imd) (ins : list nat)
         (byT uIn uOut : list nat) : list nat * list nat :=
  match ins with
  | [] => (byT, uIn)
  | input :: r =>
    let input' := resolve_input te funcs avail input in
    nf_inputs te funcs avail r (input' :: byT)
              (if memb input' uOut || memb input' uIn then uIn else uIn ++ [input']) uOut
  end.

Fixpoint nf_outputs (i : nat) (outs : list nat) (byT uIn : list nat) (avail : list imd) (uOut : list nat)
  : list imd * list nat :=
  match outs with
  | [] => (avail, uOut)
  | o :: r =>
    nf_outputs i r byT uIn (im_add o i i avail)
               (if memb o byT || memb o uIn || memb o uOut then uOut else uOut ++ [o])
  end.

(* what is available when the provider after [pre] is looked at *)
Fixpoint avail_after (pre : list (list nat * list nat)) (i : nat) (avail : list imd) : list imd :=
  match pre with
  | [] => avail
  | (_, outs) :: r => avail_after r (S i) (fold_left (fun av o => im_add o i i av) outs avail)
  end.

Fixpoint nf_loop (te : tyenv) (funcs : list prov) (items : list (list nat * list nat)) (i : nat)
         (avail : list imd) (uIn uOut : list nat) : list nat * list nat :=
  match items with
  | [] => (uIn, uOut)
  | (ins, outs) :: r =>
    let (byType, uIn1) := nf_inputs te funcs avail ins [] uIn uOut in
    let (avail1, uOut1) := nf_outputs i outs byType uIn1 avail uOut in
    nf_loop te funcs r (S i) avail1 uIn1 uOut1
  end.

(* [funcs] only says which provider (by position) is Loose for what *)
Definition net_flows (te : tyenv) (funcs : list prov) (items : list (list nat * list nat)) : list nat * list nat :=
  nf_loop te funcs items 0 [] [] [].

Definition coll_down_flows (te : tyenv) (l : list sprov) : list nat * list nat :=
  net_flows te (map mk_prov l) (map (sprov_down te) l).
Definition coll_up_flows (te : tyenv) (l : list sprov) : list nat * list nat :=
  net_flows te (rev (map mk_prov l)) (rev (map (sprov_up te) l)).

(* the public DownFlows / UpFlows of a collection that has not been bound *)
Definition raw_sprov (d : pdesc) : sprov :=
  mkSprov d ClUnset GRun (mkFlows None None None None None) false false false false None None.
Definition raw_down_flows (te : tyenv) (l : list pdesc) : list nat * list nat :=
  net_flows te (map (fun d => mk_prov (raw_sprov d)) l) (map (raw_down te) l).
Definition raw_up_flows (te : tyenv) (l : list pdesc) : list nat * list nat :=
  net_flows te (rev (map (fun d => mk_prov (raw_sprov d)) l)) (rev (map (raw_up te) l)).

(* Condense: the signature of the condensed provider *)
Definition set_required (d : pdesc) : pdesc := ann_required d.

Fixpoint mark_last_required (l : list pdesc) : list pdesc :=
  match l with
  | [] => []
  | [d] => [set_required d]
  | d :: r => d :: mark_last_required r
  end.

(* the two halves characterizeAndFlatten returns (static / per-invocation), put back in listed order *)
Fixpoint merge_by_pid (l : list pdesc) (bi ai : list sprov) : list sprov :=
  match l with
  | [] => []
  | d :: r =>
    match bi with
    | b :: bi' =>
      if d_pid (s_d b) =? d_pid d then b :: merge_by_pid r bi' ai
      else match ai with a :: ai' => a :: merge_by_pid r bi ai' | [] => [] end
    | [] => match ai with a :: ai' => a :: merge_by_pid r [] ai' | [] => [] end
    end
  end.

Definition is_wrap_shape (d : pdesc) : bool := match d_shape d with ShWrap _ _ _ _ => true | _ => false end.

Record csig := mkCsig { cs_in : list nat; cs_out : list nat; cs_list : list pdesc; cs_hoisted : list sprov }.

(* The statement about a reported list of unresolved inputs, evaluated directly (not by running
   netFlows): every parameter of every provider resolves to a reported input or to something a
   provider before it puts out (sufficient), and every reported input is what some parameter resolves
   to while no provider before that one puts it out (nothing but those). *)
Definition outs_before (items : list (list nat * list nat)) (k : nat) : list nat := flat_map snd (firstn k items).

Definition mon_inputs_exact (te : tyenv) (funcs : list prov) (items : list (list nat * list nat)) (reported : list nat) : bool :=
  let idx := seq_from 0 (length items) in
  let res k p := resolve_input te funcs (avail_after (firstn k items) 0 []) p in
  forallb (fun k => match nth_opt k items with
                    | Some (ins, _) => forallb (fun p => memb (res k p) reported || memb (res k p) (outs_before items k)) ins
                    | None => true end) idx &&
  forallb (fun t => existsb (fun k => match nth_opt k items with
                                      | Some (ins, _) => existsb (fun p => (res k p =? t) && negb (memb t (outs_before items k))) ins
                                      | None => false end) idx) reported.

(* reported outputs: only types some provider returns; and every returned type, unless a received type is unresolved *)
Definition mon_outputs_complete (items : list (list nat * list nat)) (unresolved reported : list nat) : bool :=
  forallb (fun x => existsb (fun it => memb x (snd it)) items) reported &&
  (negb (length unresolved =? 0) || forallb (fun it => forallb (fun o => memb o reported) (snd it)) items).

Definition mon_C19_sig (te : tyenv) (hoisted : list sprov) (real_in real_out : list nat) : bool :=
  mon_inputs_exact te (map mk_prov hoisted) (map (sprov_down te) hoisted) real_in &&
  (let up := rev (map (sprov_up te) hoisted) in
   mon_outputs_complete up (fst (net_flows te (rev (map mk_prov hoisted)) up)) real_out).

Definition condense_sig (te : tyenv) (l : list pdesc) : res csig :=
  let l1 := reorder_nonfinal l in     (* the last function is the one Bind will treat as final *)
  match rev l1 with
  | [] => Err EB_INTERNAL
  | lastd :: _ =>
    if is_wrap_shape lastd then Err EB_NOFINAL else
    match characterize_and_flatten te (mark_last_required l1) [] with
    | Err e => Err e
    | Panic e => Panic e
    | Ok (bi, ai) =>
      (* the flows are those of the hoisted list (literals and static providers first, as Bind runs
         them); what is bound is the list in listed order *)
      let hoisted := bi ++ ai in
      Ok (mkCsig (fst (coll_down_flows te hoisted)) (snd (coll_up_flows te hoisted))
                 (map s_d (merge_by_pid l1 bi ai)) hoisted)
    end
  end.
