(* C13 — Grouping, naming and Unused parameters are semantically neutral. *)
From Coq Require Import List Arith Bool.
Import ListNotations.
From NJ Require Import Base Collections Registry Classify Select Reorder Machine Spec Bind CollProofs.

(* Sequence, Append and annotations applied to whole collections flatten at construction time: the
   collection an expression builds holds exactly the expression's leaves, in order, each with the
   enclosing annotations applied (names aside: a provider without a name takes the name of the
   Sequence it is listed in).  For every construction expression. *)
Theorem C13_contents_are_leaves : forall e,
  anns_blind e -> map erase_origin (contents (ev e)) = map erase_origin (leaves e).
Proof. exact contents_are_leaves. Qed.
Print Assumptions C13_contents_are_leaves.

(* Names play no part in Bind unless a named edit (ReplaceNamed / InsertBeforeNamed /
   InsertAfterNamed) is present: two provider lists equal up to names give the same Bind result,
   plan, results and call log. *)
Theorem C13_names_irrelevant : forall te l1 l2 inv init sess,
  forallb no_directive l1 = true ->
  map erase_origin l1 = map erase_origin l2 ->
  model_run (mkCase te l1 inv init sess) = model_run (mkCase te l2 inv init sess).
Proof. exact names_irrelevant. Qed.
Print Assumptions C13_names_irrelevant.

(* Hence: any two ways of nesting, appending, naming and annotating with the same leaves yield
   chains with the same validity and the same behaviour. *)
Theorem C13_grouping_neutral : forall te e1 e2 inv init sess,
  anns_blind e1 -> anns_blind e2 ->
  map erase_origin (leaves e1) = map erase_origin (leaves e2) ->
  forallb no_directive (leaves e1) = true ->
  model_run (mkCase te (contents (ev e1)) inv init sess) = model_run (mkCase te (contents (ev e2)) inv init sess).
Proof. exact regroup_neutral. Qed.
Print Assumptions C13_grouping_neutral.

(* An added parameter of a type the chain does not otherwise read (Unused), which the provider's
   behaviour ignores (it carries no information), changes nothing in the per-invocation part:
   same world, same returned values, for every program, every set of extended providers and every
   behaviour.  [partial: that Bind selects the same providers for the variant is validated by
   the pair stream `unused`, not proved.] *)
Theorem C13_unused_param_neutral_partial :
  forall (W : Type) beh_fn beh_fn' beh_wrap beh_wrap' (errT u : nat) (ext : nat -> list nat),
    (forall pid w args extra, length extra = length (ext pid) -> beh_fn' pid w (args ++ extra) = beh_fn pid w args) ->
    (forall pid w args extra, length extra = length (ext pid) -> beh_wrap' pid w (args ++ extra) = beh_wrap pid w args) ->
    forall prog, (forall r, In r prog -> ~ In u (r_ins r)) ->
    forall w d v,
      sem W beh_fn' beh_wrap' errT (map (extend ext) prog) w (upd d u v) = sem W beh_fn beh_wrap errT prog w d.
Proof. exact unused_param_neutral. Qed.
Print Assumptions C13_unused_param_neutral_partial.

(* non-vacuity: Sequence("a", Required(Sequence("b", p1, p2)), p3) and
   Sequence("c", Required(p1)).Append("d", Required(p2), p3) have the same leaves *)
Definition ex_p (pid : nat) : pdesc :=
  mkPdesc pid 0 0 0 0 (ShFn [] []) false false false false false false false false false false false false 0
          [] None None [] 0 [] false.
Example C13_nonvacuous :
  let e1 := CSeq 1 [CAnn ann_required (CSeq 2 [CProv (ex_p 1); CProv (ex_p 2)]); CProv (ex_p 3)] in
  let e2 := CApp (CSeq 3 [CAnn ann_required (CProv (ex_p 1))]) 4 [CAnn ann_required (CProv (ex_p 2)); CProv (ex_p 3)] in
  map erase_origin (leaves e1) = map erase_origin (leaves e2) /\
  map d_origin (contents (ev e1)) = [2; 2; 1] /\ map d_origin (contents (ev e2)) = [3; 4; 4] /\
  map d_required (contents (ev e1)) = [true; true; false] /\
  forallb no_directive (leaves e1) = true.
Proof. vm_compute. repeat split; reflexivity. Qed.
Print Assumptions C13_nonvacuous.
