(* C08 — Invocations are isolated from each other, also when concurrent. *)
From Coq Require Import List Arith Bool.
Import ListNotations.
From NJ Require Import Base Registry Classify Select Reorder Machine Spec Bind Conc ConcProofs OnceLemmas Refine Chain.

(* Sequential isolation: an invocation never modifies the base values; nothing it wrote is visible
   to the next one (which starts from a copy of the same frozen base). *)
Theorem C08_invocation_leaves_base : forall W beh_fn beh_wrap b s st, ss_done W s = true ->
  ss_base W (fst (run_step W beh_fn beh_wrap b s st)) = ss_base W s.
Proof. exact base_frozen. Qed.
Print Assumptions C08_invocation_leaves_base.

(* An invocation's result is a function of the base values, its arguments and the behaviours: the
   reference semantics has no other state (chain_refines). *)
Theorem C08_result_function_of_base_and_args : forall c pl b,
  bind_chain c = Ok (pl, b) -> plan_wf (bc_te c) pl b = true ->
  exists sp, splan_of (bc_te c) pl = Some sp /\
  forall (W : Type) beh_fn beh_wrap steps (w0 : W),
    let m := run_session W beh_fn beh_wrap b (mkSess W w0 (bd_base0 b) false true) steps in
    let s := sem_session W beh_fn beh_wrap (te_errorT (bc_te c)) sp
                         (mkSsess W w0 (base_env (pl_slots pl) (bd_base0 b)) false true) steps in
    snd m = snd s /\ ss_w W (fst m) = sq_w W (fst s).
Proof. exact chain_refines. Qed.
Print Assumptions C08_result_function_of_base_and_args.

(* Concurrent invocations: each works on its own copy of the base collection, the base is only
   read.  For every interleaving, every number of invocations: what invocation u has computed is
   what it computes alone in as many steps, and the base is unchanged. *)
Theorem C08_concurrent_invocations_isolated : forall (V : Type) sched (s : istate V) u ops a,
  nth_opt u (is_todo V s) = Some ops -> nth_opt u (is_priv V s) = Some a ->
  exists k, k <= count_occ_nat u sched /\
    nth_opt u (is_priv V (run (istate V) (istep V) sched s)) = Some (solo V (is_base V s) ops k a) /\
    is_base V (run (istate V) (istep V) sched s) = is_base V s.
Proof. exact invocations_isolated. Qed.
Print Assumptions C08_concurrent_invocations_isolated.

(* First invocations racing on the lazy static initialisation: the static chain runs once. *)
Theorem C08_lazy_static_init_once : forall nthreads sched,
  let s := run mstate mstep sched (minit (repeat 0 nthreads)) in
  length (calls_for 0 s) <= 1 /\
  (forall t th, nth_opt t (ms_threads s) = Some th -> m_pc th = 3 -> exists r, m_res th = Some r /\ calls_for 0 s = [r]).
Proof. exact once_exactly_once. Qed.
Print Assumptions C08_lazy_static_init_once.
