(* C11 — Collections are immutable; behaviour is history-independent and deterministic. *)
From Coq Require Import List Arith Bool.
Import ListNotations.
From NJ Require Import Base Collections Edits Registry Classify Select Reorder Machine Spec Bind History HistoryProofs.

(* The specification the package is held to: over a pool of collections that share providers, no
   sequence of Sequence / Append / annotation / Bind+run / inspect operations changes the contents
   of a collection that already exists.  For every history. *)
Theorem C11_history_frame : forall ops st h,
  h < length st -> nth_opt h (fst (hrun st ops)) = nth_opt h st.
Proof. exact history_frame. Qed.
Print Assumptions C11_history_frame.

(* Binding a collection after an arbitrary history gives the observation (Bind result, plan,
   results, call log) of binding its original contents. *)
Theorem C11_bind_history_independent : forall st h c ops te inv init sess,
  nth_opt h st = Some c ->
  snd (hstep (fst (hrun st ops)) (HBind h te inv init sess)) = OBound (model_run (mkCase te c inv init sess)).
Proof. exact bind_history_independent. Qed.
Print Assumptions C11_bind_history_independent.

(* Binding the same description twice, whatever happens in between, yields chains that include the
   same providers and behave identically (the observation is a function of the description). *)
Theorem C11_bind_twice_same : forall st h c ops1 ops2 te inv init sess,
  nth_opt h st = Some c ->
  let st1 := fst (hrun st ops1) in
  let st2 := fst (hrun st1 ops2) in
  snd (hstep st1 (HBind h te inv init sess)) = snd (hstep st2 (HBind h te inv init sess)).
Proof. exact bind_twice_same. Qed.
Print Assumptions C11_bind_twice_same.

(* A collection derived with Append and the collection it was derived from do not affect each other. *)
Theorem C11_derived_independent : forall st h c name args ops,
  nth_opt h st = Some c ->
  let st1 := fst (hstep st (HAppend h name args)) in
  nth_opt (length st) (fst (hrun st1 ops)) = Some (c ++ flat_map (seq_item name) (map (arg_thing st) args)) /\
  nth_opt h (fst (hrun st1 ops)) = Some c.
Proof. exact derived_independent. Qed.
Print Assumptions C11_derived_independent.

Definition ex11 (pid : nat) : pdesc :=
  mkPdesc pid 0 0 0 0 (ShFn [] []) false false false false false false false false false false false false 0
          [] None None [] 0 [] false.
Example C11_nonvacuous :
  let st := [[ex11 1; ex11 2]] in
  let r := hrun st [HAppend 0 7 [AProv (ex11 3)]; HAnnotate ann_required 0; HAppend 0 8 [AColl 1]; HInspect 0] in
  map (map d_pid) (fst r) = [[1; 2]; [1; 2; 3]; [1; 2]; [1; 2; 1; 2; 3]] /\
  nth_opt 3 (snd r) = Some (OContents [ex11 1; ex11 2]).
Proof. vm_compute. split; reflexivity. Qed.
Print Assumptions C11_nonvacuous.
