(* C10 — Singleton runs once per process; the static chain once per bound chain. *)
From Coq Require Import List Arith Bool.
Import ListNotations.
From NJ Require Import Base Registry Classify Select Machine Conc ConcProofs OnceLemmas.

(* sync.Once users (the singleton closure shared through the registry, the per-chain initOnce): for
   any number of racing callers (chains x goroutines) and every schedule, at most one call, and
   every caller that returned observed that call's result. *)
Theorem C10_once_exactly_once : forall nthreads sched,
  let s := run mstate mstep sched (minit (repeat 0 nthreads)) in
  length (calls_for 0 s) <= 1 /\
  (forall t th, nth_opt t (ms_threads s) = Some th -> m_pc th = 3 -> exists r, m_res th = Some r /\ calls_for 0 s = [r]).
Proof. exact once_exactly_once. Qed.
Print Assumptions C10_once_exactly_once.

(* The static chain of a bound chain: run by the first init (or first invoke without an init
   function), never again; init is idempotent and ignores later arguments. *)
Theorem C10_static_chain_not_rerun : forall W beh_fn beh_wrap b s st, ss_done W s = true ->
  run_step W beh_fn beh_wrap b s st = run_step W beh_fn beh_wrap (no_static b) s st.
Proof. exact static_not_rerun. Qed.
Print Assumptions C10_static_chain_not_rerun.

Theorem C10_init_idempotent : forall W beh_fn beh_wrap b s ic,
  ss_done W s = true -> ss_ok W s = true -> bd_init b = Some ic ->
  snd (run_step W beh_fn beh_wrap b s DoInit) = RInit (read_params (cp_in ic) (ss_base W s)).
Proof. exact init_idempotent. Qed.
Print Assumptions C10_init_idempotent.

Theorem C10_first_run_sets_done : forall W beh_fn beh_wrap b s, ss_ok W s = true ->
  (bd_init b <> None -> ss_done W (fst (run_step W beh_fn beh_wrap b s DoInit)) = true) /\
  (bd_init b = None -> ss_done W (fst (run_step W beh_fn beh_wrap b s DoInvoke)) = true).
Proof. exact first_run_sets_done. Qed.
Print Assumptions C10_first_run_sets_done.

(* Racing first invocations never block each other for good: in every reachable state either every
   caller has returned or some caller can take a step (sync.Once / the Singleton's cache as the
   one-key instance of the cacher). *)
Theorem C10_once_never_deadlocks : forall nthreads sched,
  let s := run mstate mstep sched (minit (repeat 0 nthreads)) in
  (forall t th, nth_opt t (ms_threads s) = Some th -> m_pc th = 3) \/ exists t s', mstep t s = Some s'.
Proof. intros nthreads sched. exact (memo_no_deadlock (repeat 0 nthreads) sched). Qed.
Print Assumptions C10_once_never_deadlocks.
