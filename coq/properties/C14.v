(* C14 — Desired means Required-if-possible; MustConsume means run only if consumed. *)
From Coq Require Import List Arith Bool.
Import ListNotations.
From NJ Require Import Base Registry Classify Select SelectProofs.

(* During every trial elimination (validation with canRemoveDesired = false) a Desired or
   auto-desired provider that is not itself being tried behaves exactly like a Required one: the
   validation fails or it stays included.  It can only be dropped by the first validation, when it
   cannot be included at all. *)
Theorem C14_desired_kept_in_trials : forall te funcs funcs',
  validate_chain te false funcs = (funcs', None) ->
  forall k p, getp funcs' k = Some p -> kept_kind p = true -> p_include p = true.
Proof. exact desired_kept_in_trials. Qed.
Print Assumptions C14_desired_kept_in_trials.

(* ... and Required providers are always kept. *)
Theorem C14_required_kept : forall te crd funcs funcs',
  validate_chain te crd funcs = (funcs', None) ->
  forall k p, getp funcs' k = Some p -> p_required p = true -> p_include p = true.
Proof. exact validate_required. Qed.
Print Assumptions C14_required_kept.

(* MustConsume: an included provider annotated MustConsume for t has an included consumer of t
   (checks_ok contains that clause); if none can be included the provider is not included, and if
   it was Required selection fails. *)
Theorem C14_must_consume_sound : forall te funcs0 funcs,
  select te funcs0 = Ok funcs ->
  (forall k p, getp funcs k = Some p -> p_include p = true -> p_cannot p = false /\ checks_ok te funcs p = true) /\
  (forall k p, getp funcs k = Some p -> p_required p = true -> p_include p = true).
Proof. exact select_sound. Qed.
Print Assumptions C14_must_consume_sound.

(* what checks_ok says about MustConsume outputs, spelled out *)
Theorem C14_checks_ok_must_consume : forall te funcs p t,
  checks_ok te funcs p = true -> In t (mc_types te p FOut) ->
  any_included funcs (detail_get (flowk_code FOut) t (usedByDetail (p_deps p))) = true.
Proof.
  intros te funcs p t H Ht. unfold checks_ok in H.
  destruct (usesError (p_deps p)); [|discriminate].
  apply andb_true_iff in H. destruct H as [_ H]. rewrite forallb_forall in H. apply H. exact Ht.
Qed.
Print Assumptions C14_checks_ok_must_consume.
