(* C19 — Condense equals the sub-chain folded into one provider; flows are truthful. *)
From Coq Require Import List Arith Bool.
Import ListNotations.
From NJ Require Import Base Collections Registry Classify Select Flows Machine Spec FlowsProofs.

(* DownFlows is sufficient, at the level of types, for every provider list: each parameter of each
   provider - resolved against what the providers listed before it offer, exact type or best Loose
   match - is produced by one of them or is among the reported unresolved inputs.
   [partial: that Bind then succeeds (selection, MustConsume, shadowing) is validated by the
   condense stream, not proved.] *)
Theorem C19_down_inputs_sufficient_partial : forall te funcs items pre ins outs post,
  items = pre ++ (ins, outs) :: post ->
  forall t, In t ins ->
    let t' := resolve_input te funcs (avail_after pre 0 []) t in
    In t' (fst (net_flows te funcs items)) \/ exists it, In it pre /\ In t' (snd it).
Proof. exact down_inputs_sufficient. Qed.
Print Assumptions C19_down_inputs_sufficient_partial.

(* ... and nothing but those: every reported input is what some parameter resolves to while no provider
   listed before that one puts it out. *)
Theorem C19_down_inputs_necessary : forall te funcs items x,
  In x (fst (net_flows te funcs items)) ->
  exists pre ins outs post p, items = pre ++ (ins, outs) :: post /\ In p ins /\
    resolve_input te funcs (avail_after pre 0 []) p = x /\ ~ In x (flat_map snd pre).
Proof. exact down_inputs_necessary. Qed.
Print Assumptions C19_down_inputs_necessary.

(* The declarative monitor the check evaluates on the implementation's reported inputs accepts what
   netFlows computes (so a rejection is a deviation from netFlows' specification above). *)
Theorem C19_monitor_accepts_model : forall te funcs items,
  mon_inputs_exact te funcs items (fst (net_flows te funcs items)) = true.
Proof. exact mon_inputs_exact_model. Qed.
Print Assumptions C19_monitor_accepts_model.

(* UpFlows (netFlows over received/returned types, last provider first): every returned type is
   reported as produced when no received type is left unresolved, and nothing is reported that no
   provider returns.  For every provider list. *)
Theorem C19_up_flows_complete : forall te funcs items,
  fst (net_flows te funcs items) = [] ->
  forall it o, In it items -> In o (snd it) -> In o (snd (net_flows te funcs items)).
Proof. exact up_flows_complete. Qed.
Print Assumptions C19_up_flows_complete.

Theorem C19_produced_is_real : forall te funcs items x,
  In x (snd (net_flows te funcs items)) -> exists it, In it items /\ In x (snd it).
Proof. exact produced_is_real. Qed.
Print Assumptions C19_produced_is_real.

(* The condensed provider in the reference semantics: an injector whose behaviour is calling the
   bound sub-chain with the values of its unresolved inputs; downstream sees exactly what that
   call returns, a returned error included as a value ... *)
Theorem C19_condensed_value : forall (W : Type) beh_fn beh_wrap errT pin cin cout cpid rest w d,
  sem W (beh_value W beh_fn beh_wrap errT pin cin cout cpid) beh_wrap errT (node_value errT cin cout cpid :: rest) w d =
  let (w1, u) := call_inner W beh_fn beh_wrap errT pin cin w (look d cin) in
  sem W (beh_value W beh_fn beh_wrap errT pin cin cout cpid) beh_wrap errT rest w1
      (upd_list d (cout ++ [errT]) (look u (cout ++ [errT]))).
Proof. exact condensed_value. Qed.
Print Assumptions C19_condensed_value.

(* ... or, with treatErrorAsTerminal, stopping the outer chain when the error is not nil. *)
Theorem C19_condensed_terminal : forall (W : Type) beh_fn beh_wrap errT pin cin cout cpid rest w d,
  sem W (beh_terminal W beh_fn beh_wrap errT pin cin cout cpid) beh_wrap errT (node_terminal cin cout cpid :: rest) w d =
  let (w1, u) := call_inner W beh_fn beh_wrap errT pin cin w (look d cin) in
  if negb (is_nil (norm errT (u errT)))
  then (w1, upd zero_env errT (norm errT (u errT)), true)
  else sem W (beh_terminal W beh_fn beh_wrap errT pin cin cout cpid) beh_wrap errT rest w1 (upd_list d cout (look u cout)).
Proof. exact condensed_terminal. Qed.
Print Assumptions C19_condensed_terminal.

(* non-vacuity: [w(inner() 7) 7 taking 5; f(6) 7]: inputs 5 and 6, returns 7 (the D17 shape) *)
Definition te19 : tyenv := mkTyenv [] 1 2 3 4 9.
Example C19_nonvacuous :
  net_flows te19 [] [([5], []); ([6], [])] = ([5; 6], []) /\
  net_flows te19 [] [([], [7]); ([7], [7])] = ([], [7]) /\
  net_flows te19 [] [([7], [7]); ([], [7])] = ([7], []).
Proof. vm_compute. repeat split; reflexivity. Qed.
Print Assumptions C19_nonvacuous.
