(* C16 — Excluded providers are inert. *)
From Coq Require Import List Arith Bool.
Import ListNotations.
From NJ Require Import Base Registry Classify Select Reorder Machine Spec Bind SelectProofs Refine Chain PreserveProofs.

(* Run time: the behaviour of a bound chain is the reference semantics of its plan, and the plan
   (splan_of) is built from the included providers only.  Excluded providers have no run-time effect
   for any behaviour, world or session. *)
Theorem C16_excluded_inert_at_run_time : forall c pl b,
  bind_chain c = Ok (pl, b) -> plan_wf (bc_te c) pl b = true ->
  exists sp, splan_of (bc_te c) pl = Some sp /\
  forall (W : Type) beh_fn beh_wrap steps (w0 : W),
    let m := run_session W beh_fn beh_wrap b (mkSess W w0 (bd_base0 b) false true) steps in
    let s := sem_session W beh_fn beh_wrap (te_errorT (bc_te c)) sp
                         (mkSsess W w0 (base_env (pl_slots pl) (bd_base0 b)) false true) steps in
    snd m = snd s /\ ss_w W (fst m) = sq_w W (fst s).
Proof. exact chain_refines. Qed.
Print Assumptions C16_excluded_inert_at_run_time.

(* compile_all never looks at excluded providers *)
Lemma compile_all_skips_excluded te dn up : forall l,
  compile_all te dn up l = compile_all te dn up (filter (fun pz => p_include (fst pz)) l).
Proof.
  induction l as [|pz r IH]; simpl; [reflexivity|].
  destruct (p_include (fst pz)) eqn:E; simpl; rewrite ?E, <- IH; reflexivity.
Qed.
Print Assumptions compile_all_skips_excluded.

Theorem C16_compile_ignores_excluded : forall te dn up l,
  compile_all te dn up l = compile_all te dn up (filter (fun pz => p_include (fst pz)) l).
Proof. exact compile_all_skips_excluded. Qed.
Print Assumptions C16_compile_ignores_excluded.

(* Bind time (partial): the included set is a fixed point of validation — under the final marks
   every included provider passes its checks using included providers only, so the excluded ones
   are not needed as sources or consumers.  That deleting them makes selection reach the same set
   (idempotence of the heuristic) is validated by the differential stream, not proved; it is
   refuted on chains with Shun'd providers (known finding D6). *)
Theorem C16_included_self_sufficient_partial : forall te funcs0 funcs,
  select te funcs0 = Ok funcs ->
  forall k p, getp funcs k = Some p -> p_include p = true -> checks_ok te funcs p = true.
Proof. intros te funcs0 funcs H k p Hk Hi. destruct (select_sound te funcs0 funcs H) as [Hs _]. apply (Hs k p Hk Hi). Qed.
Print Assumptions C16_included_self_sufficient_partial.

(* Excluding is marking: the providers Bind leaves out stay in the working list (unchanged, not
   included); nothing is reordered around them. *)
Theorem C16_exclusion_is_a_mark : forall te funcs1 funcs,
  select te funcs1 = Ok funcs -> map p_s funcs = map p_s funcs1.
Proof. exact select_preserves. Qed.
Print Assumptions C16_exclusion_is_a_mark.
