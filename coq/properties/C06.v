(* C06 — Static injectors run once per bound chain; everything else runs per invocation.
   The classification theorems are about the table GENERATED from /repo/characterize.go. *)
From Coq Require Import List Arith Bool.
Import ListNotations.
From NJ Require Import Base Registry Classify Select Reorder Machine Spec Bind ClassifyProofs OnceLemmas SpecLemmas WfProofs EndToEnd TableSpec.

(* Only cacheable functions whose inputs are all static are hoisted; NotCacheable wins. *)
Theorem C06_static_requires : forall te d cc s,
  characterizeFunc te d cc = Some s -> s_group s = GStatic ->
  is_func_shape (d_shape d) = true /\ d_cacheable d = true /\ d_notCacheable d = false /\
  cc_inputsAreStatic cc = true /\ cc_isLast cc = false.
Proof. exact static_requires. Qed.
Print Assumptions C06_static_requires.

(* A provider one of whose inputs comes from invoke or from a per-invocation provider listed
   earlier is never hoisted: none of its input types is non-static, and no interface input can be
   satisfied, through a provider that is Loose for it, by a type that is non-static. *)
Theorem C06_tainted_never_hoisted : forall te d isLast looseFor nonStatic s,
  char_one te d isLast looseFor nonStatic = Some s -> s_group s = GStatic ->
  forall t, In t (fl (f_in (s_flows s))) ->
    memb t nonStatic = false /\ forall T, In (t, T) looseFor -> memb T nonStatic = false.
Proof. exact taint_sound. Qed.
Print Assumptions C06_tainted_never_hoisted.

(* MustCache / Singleton: hoisted, or Bind fails. *)
Theorem C06_must_cache_or_fail : forall te d cc s,
  characterizeFunc te d cc = Some s -> d_mustCache d = true -> is_func_shape (d_shape d) = true ->
  s_group s = GStatic.
Proof. exact must_cache_or_fail. Qed.
Print Assumptions C06_must_cache_or_fail.

(* Sufficiency: a cacheable, not NotCacheable, not Reorder'd plain function with hashable parameter
   types that produces a value or a TerminalError, in a static context, is hoisted (or no prototype
   matches and Bind fails), whatever else is annotated. *)
Theorem C06_hoist_sufficient : forall te d s,
  plain_fn te d -> d_cacheable d = true -> d_notCacheable d = false -> d_reorder d = false ->
  (negb (length (strip_unused te (typesOut (d_shape d))) =? 0) || memb (te_terminalT te) (typesOut (d_shape d))) = true ->
  characterizeFunc te d (mkCC false true) = Some s -> s_group s = GStatic.
Proof. exact hoist_sufficient. Qed.
Print Assumptions C06_hoist_sufficient.

(* Once per bound chain: after the static chain has run no step runs it again, the base values are
   frozen (every invocation sees the same static results), every init call returns the same values. *)
Theorem C06_static_chain_not_rerun : forall W beh_fn beh_wrap b s st, ss_done W s = true ->
  run_step W beh_fn beh_wrap b s st = run_step W beh_fn beh_wrap (no_static b) s st.
Proof. exact static_not_rerun. Qed.
Print Assumptions C06_static_chain_not_rerun.

Theorem C06_done_is_sticky : forall W beh_fn beh_wrap b s st, ss_done W s = true ->
  ss_done W (fst (run_step W beh_fn beh_wrap b s st)) = true.
Proof. exact done_sticky. Qed.
Print Assumptions C06_done_is_sticky.

Theorem C06_static_results_frozen : forall W beh_fn beh_wrap b s st, ss_done W s = true ->
  ss_base W (fst (run_step W beh_fn beh_wrap b s st)) = ss_base W s.
Proof. exact base_frozen. Qed.
Print Assumptions C06_static_results_frozen.

Theorem C06_first_run_sets_done : forall W beh_fn beh_wrap b s, ss_ok W s = true ->
  (bd_init b <> None -> ss_done W (fst (run_step W beh_fn beh_wrap b s DoInit)) = true) /\
  (bd_init b = None -> ss_done W (fst (run_step W beh_fn beh_wrap b s DoInvoke)) = true).
Proof. exact first_run_sets_done. Qed.
Print Assumptions C06_first_run_sets_done.

(* End to end (cases without Reorder annotation and init function, nothing validated on the case):
   in a session of k+1 invocations of a bound chain the included static injectors are logged once,
   in the first invocation, before any per-invocation provider; every later invocation logs the
   invoke function and the per-invocation providers only. *)
Theorem C06_static_part_runs_once_per_bound_chain : forall (c : bcase) (pl : plan) (b : bound),
  plain_case c = true -> bc_init c = None -> bind_chain c = Ok (pl, b) ->
  exists sp, splan_of (bc_te c) pl = Some sp /\
    forall (ncalls : nat -> nat) (k : nat) (w0 : list nat),
      ss_w (list nat) (fst (run_session (list nat) o_fn (o_wrap ncalls) b (mkSess (list nat) w0 (bd_base0 b) false true) (repeat DoInvoke (S k))))
      = w0 ++ [r_pid (sp_invoke sp)] ++ static_log (sp_static sp) ++ expected ncalls (sp_run sp) ++
        flat_map (fun _ => r_pid (sp_invoke sp) :: expected ncalls (sp_run sp)) (seq 0 k).
Proof. exact plain_chain_static_once. Qed.
Print Assumptions C06_static_part_runs_once_per_bound_chain.

(* The classification at full strength: for every provider, annotation set and context, the class,
   the group (static / per invocation / final / literal) and the memoized flag that the table
   generated from /repo/characterize.go yields are those of the decision list [spec] (TableSpec.v),
   written in the words of the documentation: a value is a literal; the last function is the final
   function and cannot be cached; otherwise a function is hoisted into the static set exactly when
   it is Cacheable, its inputs are static, it is not NotCacheable and not Reorder'd (plus: hashable
   parameters for Singleton and Memoize, and something to produce); Singleton that cannot be hoisted
   and MustCache that would run per invocation match nothing (Bind fails); a TerminalError result
   makes the injector fallible.  Checked by exhausting the 2^18 feature vectors. *)
Theorem C06_classification_is_the_specified_one : forall te d cc,
  match d_shape d with
  | ShNilFn _ _ => characterizeFunc te d cc = None
  | _ => option_map (fun s => (s_class s, s_group s, s_memoized s)) (characterizeFunc te d cc) = spec (features te d cc)
  end.
Proof. exact classify_is_spec. Qed.
Print Assumptions C06_classification_is_the_specified_one.

(* ... and each class is given the flows it is specified to have. *)
Theorem C06_flows_are_the_specified_ones : forall te d cc s,
  characterizeFunc te d cc = Some s -> exists e, flows_spec e = true /\ s = apply_entry te d e.
Proof. intros te d cc s. exact (classified_flows te handlerRegistry d cc s handler_flows_spec). Qed.
Print Assumptions C06_flows_are_the_specified_ones.
