(* C09 — Memoize: one call per distinct input tuple, results never altered. *)
From Coq Require Import List Arith Bool.
Import ListNotations.
From NJ Require Import Base Conc ConcProofs.

(* The cacher (mutex held across lookup, call and store): for every assignment of keys to any
   number of concurrent uses (goroutines, invocations, chains sharing the provider) and every
   schedule, the function is called at most once per key, and every use that returned observed
   exactly the result of that one call. *)
Theorem C09_one_call_per_key : forall keys sched,
  let s := run mstate mstep sched (minit keys) in
  (forall k, length (calls_for k s) <= 1) /\
  (forall t th, nth_opt t (ms_threads s) = Some th -> m_pc th = 3 ->
     exists r, m_res th = Some r /\ calls_for (m_key th) s = [r]).
Proof. exact memo_once_per_key. Qed.
Print Assumptions C09_one_call_per_key.

(* The invariant behind it holds in every reachable state. *)
Theorem C09_cache_invariant : forall keys sched, Minv (run mstate mstep sched (minit keys)).
Proof. intros keys sched. apply run_inv; [intros; eapply mstep_inv; eauto | apply minit_inv]. Qed.
Print Assumptions C09_cache_invariant.

(* ... and the cacher never deadlocks: in every reachable state either every use has returned or
   some use can take a step (the mutex is only ever held by a use that can go on to call the
   function, store the result and release it). *)
Theorem C09_cacher_never_deadlocks : forall keys sched,
  let s := run mstate mstep sched (minit keys) in
  (forall t th, nth_opt t (ms_threads s) = Some th -> m_pc th = 3) \/ exists t s', mstep t s = Some s'.
Proof. exact memo_no_deadlock. Qed.
Print Assumptions C09_cacher_never_deadlocks.

(* Input values that cannot serve as map keys: the cacher calls the function directly.  For any
   number of such uses and every schedule each use calls the function itself exactly once and
   observes the result of its own call, and a use that has not returned can always take its step:
   nothing fails and nothing waits. *)
Theorem C09_unkeyable_inputs_call_each_time : forall n sched,
  let s := run ustate ustep sched (uinit n) in
  NoDup (map fst (us_calls s)) /\
  (forall t th, nth_opt t (us_threads s) = Some th -> u_pc th = 3 ->
     exists r, u_res th = Some r /\ In (t, r) (us_calls s)) /\
  (forall t th, nth_opt t (us_threads s) = Some th -> u_pc th <> 3 -> exists s', ustep t s = Some s').
Proof. exact unkeyable_one_call_per_use. Qed.
Print Assumptions C09_unkeyable_inputs_call_each_time.

Example C09_unkeyable_nonvacuous :
  let s := run ustate ustep [2; 0; 2; 1] (uinit 3) in
  map fst (us_calls s) = [1; 0; 2] /\ map u_res (us_threads s) = [Some 1; Some 2; Some 0].
Proof. vm_compute. split; reflexivity. Qed.
Print Assumptions C09_unkeyable_nonvacuous.

Example C09_nonvacuous :
  let s := run mstate mstep [0; 1; 0; 2; 0; 1; 2; 1; 1; 2; 2] (minit [5; 5; 7]) in
  calls_for 5 s = [0] /\ calls_for 7 s = [1] /\ map m_res (ms_threads s) = [Some 0; Some 0; Some 1].
Proof. vm_compute. repeat split. Qed.
Print Assumptions C09_nonvacuous.
