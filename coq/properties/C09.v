(* C09 — Memoize: one call per distinct input tuple, results never altered. *)
From Coq Require Import List Arith Bool.
Import ListNotations.
From NJ Require Import Base Conc ConcProofs.

(* The cacher (mutex held across lookup, call and store): for every assignment of keys to any
   number of concurrent uses (goroutines, invocations, chains sharing the provider) and every
   schedule, the function is called at most once per key, and every use that returned observed
   exactly the result of that one call. *)
Theorem C09_one_call_per_key : forall keys sched,
  let s := run mstate mstep sched (minit keys) in
  (forall k, length (calls_for k s) <= 1) /\
  (forall t th, nth_opt t (ms_threads s) = Some th -> m_pc th = 3 ->
     exists r, m_res th = Some r /\ calls_for (m_key th) s = [r]).
Proof. exact memo_once_per_key. Qed.
Print Assumptions C09_one_call_per_key.

(* The invariant behind it holds in every reachable state. *)
Theorem C09_cache_invariant : forall keys sched, Minv (run mstate mstep sched (minit keys)).
Proof. intros keys sched. apply run_inv; [intros; eapply mstep_inv; eauto | apply minit_inv]. Qed.
Print Assumptions C09_cache_invariant.

Example C09_nonvacuous :
  let s := run mstate mstep [0; 1; 0; 2; 0; 1; 2; 1; 1; 2; 2] (minit [5; 5; 7]) in
  calls_for 5 s = [0] /\ calls_for 7 s = [1] /\ map m_res (ms_threads s) = [Some 0; Some 0; Some 1].
Proof. vm_compute. repeat split. Qed.
Print Assumptions C09_nonvacuous.
