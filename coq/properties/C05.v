(* C05 — Listed order, once per traversal; once per inner() call below a wrapper. *)
From Coq Require Import List Arith Bool.
Import ListNotations.
From NJ Require Import Base Registry Classify Select Reorder Machine Spec Bind Refine Chain SpecLemmas PreserveProofs WfProofs EndToEnd EndToEnd2 TableSpec.

(* In the reference semantics, with every provider logging its id and wrapper p calling inner()
   ncalls p times: the log is the list order, each provider once per traversal, everything below a
   wrapper once per inner() call (not at all for zero calls).  For all programs and all ncalls. *)
Theorem C05_order_and_multiplicity : forall (ncalls : nat -> nat) prog,
  forallb well_classed prog = true -> forall w d,
  fst (fst (sem (list nat) o_fn (o_wrap ncalls) 0 prog w d)) = w ++ expected ncalls prog /\
  snd (sem (list nat) o_fn (o_wrap ncalls) 0 prog w d) = true.
Proof. exact sem_order. Qed.
Print Assumptions C05_order_and_multiplicity.

(* ... and the slot machine has the same final world (hence the same log) for every behaviour. *)
Theorem C05_machine_same_world :
  forall (W : Type) beh_fn beh_wrap (sd su : nat -> option nat) (errT n : nat),
    (forall t t' i, sd t = Some i -> sd t' = Some i -> t = t') ->
    (forall t t' i, su t = Some i -> su t' = Some i -> t = t') ->
    (forall t t' i j, sd t = Some i -> su t' = Some j -> i <> j) ->
    (forall t i, sd t = Some i -> i < n) -> (forall t i, su t = Some i -> i < n) ->
    forall prog, Forall (covered sd su errT) prog -> forall w a d,
      length a = n -> Rd sd a d -> Ru su a zero_env ->
      post W su n (exec W beh_fn beh_wrap (map (cp_of sd su errT) prog) w a)
                  (sem W beh_fn beh_wrap errT prog w d).
Proof. exact exec_refines_sem. Qed.
Print Assumptions C05_machine_same_world.

(* Literals and static injectors take effect in listed order before any per-invocation provider:
   the static chain of the machine equals the reference fold over the listed order. *)
Theorem C05_static_in_listed_order :
  forall (W : Type) beh_fn (sd su : nat -> option nat) (n : nat),
    (forall t t' i, sd t = Some i -> sd t' = Some i -> t = t') ->
    (forall t t' i j, sd t = Some i -> su t' = Some j -> i <> j) ->
    (forall t i, sd t = Some i -> i < n) -> (forall t i, su t = Some i -> i < n) ->
    forall prog, Forall (covered_s sd) prog -> forall failed w a d,
      length a = n -> Rd sd a d -> Ru su a zero_env ->
      post_s W sd su n (exec_static W beh_fn (map (cp_of_static sd) prog) failed w a)
                       (sem_static W beh_fn prog failed w d).
Proof. exact static_refines. Qed.
Print Assumptions C05_static_in_listed_order.

Example C05_nonvacuous :
  expected (fun _ => 2) [mkRp 1 ClInjector false [] [] [] [] [] 0; mkRp 2 ClWrapper false [] [] [] [] [] 0;
                         mkRp 3 ClInjector false [] [] [] [] [] 0; mkRp 4 ClFinal false [] [] [] [] [] 0]
  = [1; 2; 3; 4; 3; 4].
Proof. reflexivity. Qed.
Print Assumptions C05_nonvacuous.

(* Selection only marks: the list Bind's selection returns is the list it was given, entry by entry
   (same provider, classification and flows); it never reorders, adds or drops an entry. *)
Theorem C05_selection_keeps_the_list : forall te funcs1 funcs,
  select te funcs1 = Ok funcs -> map p_s funcs = map p_s funcs1.
Proof. exact select_preserves. Qed.
Print Assumptions C05_selection_keeps_the_list.

(* Hence, for a chain without Reorder, the final working list - whose included providers the
   machine runs in that order - is the assembled list: static providers and literals in listed
   order, then the per-invocation providers in listed order. *)
Theorem C05_final_list_is_listed_order : forall c pl f0,
  assemble c = Ok f0 -> existsb is_reorder f0 = false -> plan_of c = Ok pl ->
  map p_s (pl_funcs pl) = map p_s f0.
Proof. exact plan_keeps_assembled_order. Qed.
Print Assumptions C05_final_list_is_listed_order.

(* End to end, with nothing validated on the case: for every case without Reorder annotations and
   init function, if the chain binds then - every provider logging its id, wrapper p calling inner()
   [ncalls p] times - a session of k invocations logs, per invocation, the invoke function, then (in
   the first invocation only) the included static injectors in working-list order, then the
   included per-invocation providers in working-list order, everything below a wrapper once per
   inner() call.  Only included providers appear; the working list is the assembled list
   (C05_final_list_is_listed_order). *)
Theorem C05_log_of_every_plain_chain : forall (c : bcase) (pl : plan) (b : bound),
  plain_case c = true -> bc_init c = None -> bind_chain c = Ok (pl, b) ->
  exists sp, splan_of (bc_te c) pl = Some sp /\
    forall (ncalls : nat -> nat) (k : nat) (w0 : list nat),
      ss_w (list nat) (fst (run_session (list nat) o_fn (o_wrap ncalls) b (mkSess (list nat) w0 (bd_base0 b) false true) (repeat DoInvoke k)))
      = w0 ++ session_log ncalls sp true k.
Proof. exact plain_chain_log. Qed.
Print Assumptions C05_log_of_every_plain_chain.

(* the providers of the reference plan are the included ones, by group, in working-list order *)
Theorem C05_plan_holds_the_included_providers : forall te pl sp,
  splan_of te pl = Some sp -> pl_slots pl = allocate_slots (pl_funcs pl) (pl_invokeIndex pl) ->
  let inc g := map p_pid (filter (fun p => p_include p && g p) (pl_funcs pl)) in
  map r_pid (sp_static sp) = inc (fun p => group_eqb (p_group p) GStatic || group_eqb (p_group p) GLiteral) /\
  map r_pid (sp_run sp) = inc (fun p => group_eqb (p_group p) GRun) ++ inc (fun p => group_eqb (p_group p) GFinal).
Proof. exact splan_pids. Qed.
Print Assumptions C05_plan_holds_the_included_providers.

(* non-vacuity: Cacheable static injector 1, wrapper 4 calling inner() twice, injectors 2 and 3 (the
   final function); two invocations.  The static injector runs once, the wrapper once per
   invocation, everything below it twice per invocation. *)
Definition ex5_ty (c : nat) : tyinfo := mkTy c false 1 0 true true false [] 0.
Definition ex5_te : tyenv := mkTyenv [ex5_ty 10; ex5_ty 11; ex5_ty 12] 1 2 3 4 5.
Definition ex5_pd (pid : nat) (s : shape) (cacheable : bool) : pdesc :=
  mkPdesc pid 0 0 0 0 s false false cacheable false false false false false false false false false 0 [] None None [] 0 [2] false.
Definition ex5_case : bcase :=
  mkCase ex5_te [ex5_pd 1 (ShFn [] [10]) true; ex5_pd 4 (ShWrap [] [] [12] [12]) false;
                 ex5_pd 2 (ShFn [10] [11]) false; ex5_pd 3 (ShFn [11] [12]) false]
         (ex5_pd 92 (ShFnPtr [] [12]) false) None [true; true].
Example C05_log_nonvacuous :
  plain_case ex5_case = true /\ bc_init ex5_case = None /\
  exists pl b sp, bind_chain ex5_case = Ok (pl, b) /\ splan_of ex5_te pl = Some sp /\
    session_log (fun _ => 2) sp true 2 = [92; 1; 4; 2; 3; 2; 3; 92; 4; 2; 3; 2; 3].
Proof.
  split; [reflexivity|]. split; [reflexivity|]. eexists. eexists. eexists.
  split; [vm_compute; reflexivity|]. split; [vm_compute; reflexivity|]. vm_compute. reflexivity.
Qed.
Print Assumptions C05_log_nonvacuous.

(* Which providers take effect "before any per-invocation provider" is decided by the
   classification; in particular a function that produces nothing (and returns no TerminalError)
   is never hoisted, whatever it is annotated with (Singleton excepted, which runs once per process
   by definition): it runs at its listed position on every invocation.  From the specification of the classification (TableSpec.v). *)
Theorem C05_nothing_to_produce_never_hoisted : forall te d cc s,
  characterizeFunc te d cc = Some s -> is_func_shape (d_shape d) = true -> d_singleton d = false ->
  pred_holds te d cc P_hasOutputs = false -> pred_holds te d cc P_returnsTerminalError = false ->
  s_group s <> GStatic.
Proof.
  intros te d cc s H Hf Hsi Ho Ht Hg. pose proof (static_function_produces te d cc s H Hf Hg Hsi) as Hp.
  rewrite Ho, Ht in Hp. discriminate Hp.
Qed.
Print Assumptions C05_nothing_to_produce_never_hoisted.

(* ... and for any session of init and invoke steps, with or without an init function: the static
   part is logged once - by the first init step when there is an init function, by the first invoke
   step otherwise. *)
Theorem C05_log_of_any_session : forall (c : bcase) (pl : plan) (b : bound),
  plain_case c = true -> bind_chain c = Ok (pl, b) ->
  exists sp, splan_of (bc_te c) pl = Some sp /\
    forall (ncalls : nat -> nat) (steps : list step) (w0 : list nat),
      ss_w (list nat) (fst (run_session (list nat) o_fn (o_wrap ncalls) b (mkSess (list nat) w0 (bd_base0 b) false true) steps))
      = w0 ++ steps_log ncalls sp false steps.
Proof. exact plain_chain_session_log. Qed.
Print Assumptions C05_log_of_any_session.

Definition ex5b_pd (pid : nat) (s : shape) (cacheable : bool) : pdesc :=
  mkPdesc pid 0 0 0 0 s false false cacheable false false false false false false false false false 0 [] None None [] 0 [1] false.
Definition ex5b_case : bcase :=
  mkCase ex5_te [ex5b_pd 1 (ShFn [] [10]) true; ex5b_pd 2 (ShFn [10] [11]) false; ex5b_pd 3 (ShFn [11] [12]) false]
         (ex5b_pd 92 (ShFnPtr [] [12]) false) (Some (ex5b_pd 91 (ShFnPtr [] [10]) false)) [false; true].
Example C05_session_log_nonvacuous :
  plain_case ex5b_case = true /\
  exists pl b sp, bind_chain ex5b_case = Ok (pl, b) /\ splan_of ex5_te pl = Some sp /\
    steps_log (fun _ => 1) sp false [DoInit; DoInvoke; DoInit; DoInvoke] = [91; 1; 92; 2; 3; 91; 92; 2; 3].
Proof.
  split; [reflexivity|]. eexists. eexists. eexists.
  split; [vm_compute; reflexivity|]. split; [vm_compute; reflexivity|]. vm_compute. reflexivity.
Qed.
Print Assumptions C05_session_log_nonvacuous.
