(* C05 — Listed order, once per traversal; once per inner() call below a wrapper. *)
From Coq Require Import List Arith Bool.
Import ListNotations.
From NJ Require Import Base Registry Classify Select Reorder Machine Spec Bind Refine Chain SpecLemmas PreserveProofs.

(* In the reference semantics, with every provider logging its id and wrapper p calling inner()
   ncalls p times: the log is the list order, each provider once per traversal, everything below a
   wrapper once per inner() call (not at all for zero calls).  For all programs and all ncalls. *)
Theorem C05_order_and_multiplicity : forall (ncalls : nat -> nat) prog,
  forallb well_classed prog = true -> forall w d,
  fst (fst (sem (list nat) o_fn (o_wrap ncalls) 0 prog w d)) = w ++ expected ncalls prog /\
  snd (sem (list nat) o_fn (o_wrap ncalls) 0 prog w d) = true.
Proof. exact sem_order. Qed.
Print Assumptions C05_order_and_multiplicity.

(* ... and the slot machine has the same final world (hence the same log) for every behaviour. *)
Theorem C05_machine_same_world :
  forall (W : Type) beh_fn beh_wrap (sd su : nat -> option nat) (errT n : nat),
    (forall t t' i, sd t = Some i -> sd t' = Some i -> t = t') ->
    (forall t t' i, su t = Some i -> su t' = Some i -> t = t') ->
    (forall t t' i j, sd t = Some i -> su t' = Some j -> i <> j) ->
    (forall t i, sd t = Some i -> i < n) -> (forall t i, su t = Some i -> i < n) ->
    forall prog, Forall (covered sd su errT) prog -> forall w a d,
      length a = n -> Rd sd a d -> Ru su a zero_env ->
      post W su n (exec W beh_fn beh_wrap (map (cp_of sd su errT) prog) w a)
                  (sem W beh_fn beh_wrap errT prog w d).
Proof. exact exec_refines_sem. Qed.
Print Assumptions C05_machine_same_world.

(* Literals and static injectors take effect in listed order before any per-invocation provider:
   the static chain of the machine equals the reference fold over the listed order. *)
Theorem C05_static_in_listed_order :
  forall (W : Type) beh_fn (sd su : nat -> option nat) (n : nat),
    (forall t t' i, sd t = Some i -> sd t' = Some i -> t = t') ->
    (forall t t' i j, sd t = Some i -> su t' = Some j -> i <> j) ->
    (forall t i, sd t = Some i -> i < n) -> (forall t i, su t = Some i -> i < n) ->
    forall prog, Forall (covered_s sd) prog -> forall failed w a d,
      length a = n -> Rd sd a d -> Ru su a zero_env ->
      post_s W sd su n (exec_static W beh_fn (map (cp_of_static sd) prog) failed w a)
                       (sem_static W beh_fn prog failed w d).
Proof. exact static_refines. Qed.
Print Assumptions C05_static_in_listed_order.

Example C05_nonvacuous :
  expected (fun _ => 2) [mkRp 1 ClInjector false [] [] [] [] [] 0; mkRp 2 ClWrapper false [] [] [] [] [] 0;
                         mkRp 3 ClInjector false [] [] [] [] [] 0; mkRp 4 ClFinal false [] [] [] [] [] 0]
  = [1; 2; 3; 4; 3; 4].
Proof. reflexivity. Qed.
Print Assumptions C05_nonvacuous.

(* Selection only marks: the list Bind's selection returns is the list it was given, entry by entry
   (same provider, classification and flows); it never reorders, adds or drops an entry. *)
Theorem C05_selection_keeps_the_list : forall te funcs1 funcs,
  select te funcs1 = Ok funcs -> map p_s funcs = map p_s funcs1.
Proof. exact select_preserves. Qed.
Print Assumptions C05_selection_keeps_the_list.

(* Hence, for a chain without Reorder, the final working list - whose included providers the
   machine runs in that order - is the assembled list: static providers and literals in listed
   order, then the per-invocation providers in listed order. *)
Theorem C05_final_list_is_listed_order : forall c pl f0,
  assemble c = Ok f0 -> existsb is_reorder f0 = false -> plan_of c = Ok pl ->
  map p_s (pl_funcs pl) = map p_s f0.
Proof. exact plan_keeps_assembled_order. Qed.
Print Assumptions C05_final_list_is_listed_order.
