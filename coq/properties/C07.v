(* C07 — A non-nil TerminalError stops the chain and surfaces as error. *)
From Coq Require Import List Arith Bool.
Import ListNotations.
From NJ Require Import Base Registry Classify Select Reorder Machine Spec Bind Refine Chain SpecLemmas TableProofs.

(* Failing fallible injector: nothing after it matters, its other results are not injected, and
   the up environment is zero everywhere except error, which holds the TerminalError value. *)
Theorem C07_cut_and_delivery : forall W beh_fn beh_wrap errT r rest rest' w d,
  r_class r = ClFallible ->
  is_nil (nth (r_tepos r) (snd (beh_fn (r_pid r) w (look d (r_ins r)))) VInvalid) = false ->
  sem W beh_fn beh_wrap errT (r :: rest) w d = sem W beh_fn beh_wrap errT (r :: rest') w d /\
  sem W beh_fn beh_wrap errT (r :: rest) w d =
    (fst (beh_fn (r_pid r) w (look d (r_ins r))),
     upd zero_env errT (nth (r_tepos r) (snd (beh_fn (r_pid r) w (look d (r_ins r)))) VInvalid), true).
Proof. exact sem_fallible_cut. Qed.
Print Assumptions C07_cut_and_delivery.

(* A nil TerminalError merely makes the injector's other results available. *)
Theorem C07_nil_is_transparent : forall W beh_fn beh_wrap errT r rest w d,
  r_class r = ClFallible ->
  is_nil (nth (r_tepos r) (snd (beh_fn (r_pid r) w (look d (r_ins r)))) VInvalid) = true ->
  sem W beh_fn beh_wrap errT (r :: rest) w d =
  sem W beh_fn beh_wrap errT rest (fst (beh_fn (r_pid r) w (look d (r_ins r))))
      (upd_list d (r_outs r) (remove_nth (r_tepos r) (snd (beh_fn (r_pid r) w (look d (r_ins r)))))).
Proof. exact sem_fallible_pass. Qed.
Print Assumptions C07_nil_is_transparent.

(* The machine implements exactly this (run part and static part, all behaviours). *)
Theorem C07_machine_refines :
  forall (W : Type) beh_fn beh_wrap (sd su : nat -> option nat) (errT n : nat),
    (forall t t' i, sd t = Some i -> sd t' = Some i -> t = t') ->
    (forall t t' i, su t = Some i -> su t' = Some i -> t = t') ->
    (forall t t' i j, sd t = Some i -> su t' = Some j -> i <> j) ->
    (forall t i, sd t = Some i -> i < n) -> (forall t i, su t = Some i -> i < n) ->
    forall prog, Forall (covered sd su errT) prog -> forall w a d,
      length a = n -> Rd sd a d -> Ru su a zero_env ->
      post W su n (exec W beh_fn beh_wrap (map (cp_of sd su errT) prog) w a)
                  (sem W beh_fn beh_wrap errT prog w d).
Proof. exact exec_refines_sem. Qed.
Print Assumptions C07_machine_refines.

(* Static part: after a failing fallible static injector the remaining static injectors are
   skipped (literals still apply) — the reference fold sem_static, which the machine refines. *)
Theorem C07_static_failure :
  forall (W : Type) beh_fn (sd su : nat -> option nat) (n : nat),
    (forall t t' i, sd t = Some i -> sd t' = Some i -> t = t') ->
    (forall t t' i j, sd t = Some i -> su t' = Some j -> i <> j) ->
    (forall t i, sd t = Some i -> i < n) -> (forall t i, su t = Some i -> i < n) ->
    forall prog, Forall (covered_s sd) prog -> forall failed w a d,
      length a = n -> Rd sd a d -> Ru su a zero_env ->
      post_s W sd su n (exec_static W beh_fn (map (cp_of_static sd) prog) failed w a)
                       (sem_static W beh_fn prog failed w d).
Proof. exact static_refines. Qed.
Print Assumptions C07_static_failure.

(* A function that returns a TerminalError is never treated as an ordinary injector (whose
   TerminalError would be just another output): whenever the table classifies it, it is a fallible
   injector (static or per-invocation), or a wrapper / final function that passes the value upward.
   A computation on the table generated from /repo/characterize.go; before the repair recorded as
   D33 it was false (Reorder + MustCache + Cacheable: classified as a plain static injector). *)
Theorem C07_terminal_error_is_never_an_ordinary_output : forall te d cc s,
  characterizeFunc te d cc = Some s -> memb (te_terminalT te) (typesOut (d_shape d)) = true ->
  s_class s <> ClInjector /\ s_class s <> ClStatic.
Proof.
  intros te d cc s H Hte. pose proof (terminal_error_never_plain te d cc s H Hte) as Hp.
  split; intros E; rewrite E in Hp; discriminate Hp.
Qed.
Print Assumptions C07_terminal_error_is_never_an_ordinary_output.
