(* C03 — Only needed providers run; the final function and Required providers always run. *)
From Coq Require Import List Arith Bool.
Import ListNotations.
From NJ Require Import Base Registry Classify Select Reorder Machine Spec Bind SelectProofs Refine Chain SpecLemmas WfProofs EndToEnd.

(* Whatever the elimination heuristics did: if selection succeeds then every included provider
   has, under the final include marks, an included source for every input / received / init-return
   type and an included consumer for every must-consume output and every returned type that is not
   ConsumptionOptional; and every Required provider (final function, invoke, init included) is
   included.  For all chains. *)
Theorem C03_selection_sound : forall te funcs0 funcs,
  select te funcs0 = Ok funcs ->
  (forall k p, getp funcs k = Some p -> p_include p = true -> p_cannot p = false /\ checks_ok te funcs p = true) /\
  (forall k p, getp funcs k = Some p -> p_required p = true -> p_include p = true).
Proof. exact select_sound. Qed.
Print Assumptions C03_selection_sound.

(* The worklist validation is sound for any dependency-closed list (the re-validation loop). *)
Theorem C03_validation_sound : forall te crd funcs funcs',
  closed te funcs -> validate_chain te crd funcs = (funcs', None) ->
  marks_rel funcs funcs' /\
  forall k p, getp funcs' k = Some p -> p_include p = true -> good te funcs' p.
Proof. exact validate_sound. Qed.
Print Assumptions C03_validation_sound.

(* The dependency lists that drive the re-validation are closed: whoever reads a provider's
   include mark is in that provider's usedBy list. *)
Theorem C03_dependencies_closed : forall te funcs, closed te (provides_returns te funcs).
Proof. exact provides_returns_closed. Qed.
Print Assumptions C03_dependencies_closed.

(* Only included providers are ever compiled into the machine: an excluded provider is not called. *)
Theorem C03_executed_are_included : forall c pl b,
  bind_chain c = Ok (pl, b) -> plan_wf (bc_te c) pl b = true ->
  exists sp, splan_of (bc_te c) pl = Some sp /\
  forall (W : Type) beh_fn beh_wrap steps (w0 : W),
    let m := run_session W beh_fn beh_wrap b (mkSess W w0 (bd_base0 b) false true) steps in
    let s := sem_session W beh_fn beh_wrap (te_errorT (bc_te c)) sp
                         (mkSsess W w0 (base_env (pl_slots pl) (bd_base0 b)) false true) steps in
    snd m = snd s /\ ss_w W (fst m) = sq_w W (fst s).
Proof. exact chain_refines. Qed.
Print Assumptions C03_executed_are_included.

(* End to end and with no hypothesis about the plan (cases without Reorder annotation and init
   function): whatever is logged during a session of a bound chain is the invoke function or an
   included provider of the working list - an excluded provider never runs. *)
Theorem C03_only_included_providers_run : forall (c : bcase) (pl : plan) (b : bound),
  plain_case c = true -> bc_init c = None -> bind_chain c = Ok (pl, b) ->
  forall (ncalls : nat -> nat) (k : nat) (x : nat),
    In x (ss_w (list nat) (fst (run_session (list nat) o_fn (o_wrap ncalls) b (mkSess (list nat) [] (bd_base0 b) false true) (repeat DoInvoke k)))) ->
    In x (map p_pid (filter p_include (pl_funcs pl))).
Proof.
  intros c pl b Hpc Hni Hb ncalls k x Hx.
  destruct (plain_chain_log c pl b Hpc Hni Hb) as (sp & Hsp & Hlog). rewrite (Hlog ncalls k []) in Hx. cbn [app] in Hx.
  destruct (plan_listq c pl (bind_chain_plan c pl b Hb)) as (_ & Hsl & _).
  destruct (splan_pids (bc_te c) pl sp Hsp Hsl) as [Hst Hrun]. cbv zeta in Hst, Hrun.
  assert (Hsub : forall g y, In y (map p_pid (filter (fun p => p_include p && g p) (pl_funcs pl))) -> In y (map p_pid (filter p_include (pl_funcs pl)))).
  { intros g y Hy. apply in_map_iff in Hy. destruct Hy as (p & <- & Hp). apply filter_In in Hp. destruct Hp as [Hp Hi].
    apply andb_true_iff in Hi. destruct Hi as [Hi _]. apply in_map. apply filter_In. split; assumption. }
  destruct (session_log_in ncalls sp x k true Hx) as [->|[H|H]].
  - (* the invoke function is one of the included providers *)
    unfold splan_of in Hsp. cbv zeta in Hsp.
    destruct (filter (fun pz : prov * list nat => class_eqb (p_class (fst pz)) ClInvoke) _) as [|iv [|? ?]] eqn:Ei; try discriminate Hsp.
    assert (Hiv : In iv (iv :: nil)) by (left; reflexivity). rewrite <- Ei in Hiv.
    apply filter_In in Hiv. destruct Hiv as [Hiv _]. apply filter_In in Hiv. destruct Hiv as [Hiv Hinc].
    assert (Hpid : r_pid (sp_invoke sp) = p_pid (fst iv)).
    { destruct (filter (fun pz : prov * list nat => class_eqb (p_class (fst pz)) ClInit) _) as [|it [|? ?]]; try discriminate Hsp;
        injection Hsp as <-; reflexivity. }
    rewrite Hpid. apply in_map. apply filter_In. split; [|exact Hinc].
    rewrite <- (allocate_slots_funcs (pl_funcs pl) (pl_invokeIndex pl)), <- Hsl. apply in_map, Hiv.
  - rewrite Hst in H. eapply Hsub, H.
  - rewrite Hrun in H. apply in_app_or in H. destruct H as [H|H]; eapply Hsub, H.
Qed.
Print Assumptions C03_only_included_providers_run.
