(* C03 — Only needed providers run; the final function and Required providers always run. *)
From Coq Require Import List Arith Bool.
Import ListNotations.
From NJ Require Import Base Registry Classify Select Reorder Machine Spec Bind SelectProofs Refine Chain.

(* Whatever the elimination heuristics did: if selection succeeds then every included provider
   has, under the final include marks, an included source for every input / received / init-return
   type and an included consumer for every must-consume output and every returned type that is not
   ConsumptionOptional; and every Required provider (final function, invoke, init included) is
   included.  For all chains. *)
Theorem C03_selection_sound : forall te funcs0 funcs,
  select te funcs0 = Ok funcs ->
  (forall k p, getp funcs k = Some p -> p_include p = true -> p_cannot p = false /\ checks_ok te funcs p = true) /\
  (forall k p, getp funcs k = Some p -> p_required p = true -> p_include p = true).
Proof. exact select_sound. Qed.
Print Assumptions C03_selection_sound.

(* The worklist validation is sound for any dependency-closed list (the re-validation loop). *)
Theorem C03_validation_sound : forall te crd funcs funcs',
  closed te funcs -> validate_chain te crd funcs = (funcs', None) ->
  marks_rel funcs funcs' /\
  forall k p, getp funcs' k = Some p -> p_include p = true -> good te funcs' p.
Proof. exact validate_sound. Qed.
Print Assumptions C03_validation_sound.

(* The dependency lists that drive the re-validation are closed: whoever reads a provider's
   include mark is in that provider's usedBy list. *)
Theorem C03_dependencies_closed : forall te funcs, closed te (provides_returns te funcs).
Proof. exact provides_returns_closed. Qed.
Print Assumptions C03_dependencies_closed.

(* Only included providers are ever compiled into the machine: an excluded provider is not called. *)
Theorem C03_executed_are_included : forall c pl b,
  bind_chain c = Ok (pl, b) -> plan_wf (bc_te c) pl b = true ->
  exists sp, splan_of (bc_te c) pl = Some sp /\
  forall (W : Type) beh_fn beh_wrap steps (w0 : W),
    let m := run_session W beh_fn beh_wrap b (mkSess W w0 (bd_base0 b) false true) steps in
    let s := sem_session W beh_fn beh_wrap (te_errorT (bc_te c)) sp
                         (mkSsess W w0 (base_env (pl_slots pl) (bd_base0 b)) false true) steps in
    snd m = snd s /\ ss_w W (fst m) = sq_w W (fst s).
Proof. exact chain_refines. Qed.
Print Assumptions C03_executed_are_included.
