(* C02 — Returned values reach the nearest receiver above; zero if nothing below ran. *)
From Coq Require Import List Arith Bool.
Import ListNotations.
From NJ Require Import Base Registry Classify Select Reorder Machine Spec Bind Refine Chain SpecLemmas CoverProofs.

(* The run part of any program: machine and reference semantics agree on the world, on completion
   and the final array represents the reference up environment (what invoke / the enclosing
   wrapper reads).  For all programs, behaviours, worlds. *)
Theorem C02_up_environment :
  forall (W : Type) beh_fn beh_wrap (sd su : nat -> option nat) (errT n : nat),
    (forall t t' i, sd t = Some i -> sd t' = Some i -> t = t') ->
    (forall t t' i, su t = Some i -> su t' = Some i -> t = t') ->
    (forall t t' i j, sd t = Some i -> su t' = Some j -> i <> j) ->
    (forall t i, sd t = Some i -> i < n) -> (forall t i, su t = Some i -> i < n) ->
    forall prog, Forall (covered sd su errT) prog -> forall w a d,
      length a = n -> Rd sd a d -> Ru su a zero_env ->
      post W su n (exec W beh_fn beh_wrap (map (cp_of sd su errT) prog) w a)
                  (sem W beh_fn beh_wrap errT prog w d).
Proof. exact exec_refines_sem. Qed.
Print Assumptions C02_up_environment.

(* A wrapper that never calls inner(): everything but its own returns is zero. *)
Theorem C02_no_inner_call_zero : forall W r srest d w1 rets lastu,
  run_sem W r srest d (WRet w1 rets) lastu 0 = (w1, upd_list zero_env (r_rets r) rets, true).
Proof. exact run_sem_no_call. Qed.
Print Assumptions C02_no_inner_call_zero.

(* What a wrapper returns is what its caller sees, however many times it called inner(). *)
Theorem C02_wrapper_returns_visible : forall W r srest d w1 rets lastu count t v pre post,
  r_rets r = pre ++ t :: post -> ~ In t post -> nth_error rets (length pre) = Some v ->
  length rets = length (r_rets r) ->
  match run_sem W r srest d (WRet w1 rets) lastu count with (_, u, _) => u t = norm t v end.
Proof. exact run_sem_returns. Qed.
Print Assumptions C02_wrapper_returns_visible.

(* Each inner() call hands the wrapper the lookups in the up environment produced by that call. *)
Theorem C02_inner_receives : forall W r srest d w1 iargs k lastu count,
  run_sem W r srest d (WInner w1 iargs k) lastu count =
  match srest w1 (upd_list d (r_outs r) iargs) with
  | (w2, u2, ok) =>
    if negb ok then (w2, u2, false)
    else run_sem W r srest d (k w2 (look u2 (r_recv r))) (if r_parallel r then lastu else u2) (S count)
  end.
Proof. exact run_sem_inner. Qed.
Print Assumptions C02_inner_receives.

(* Each value an included provider listed from the invoke function on receives from inner() (the
   invoke function's own results included) is read from an allocated up slot - the slot of the type
   its source below returns.  No hypothesis about the plan.  (Defect D30 was a failure of this.) *)
Theorem C02_no_unallocated_received_value : forall c pl,
  plan_of c = Ok pl ->
  forall k p t, pl_invokeIndex pl <= k -> getp (pl_funcs pl) k = Some p -> p_include p = true ->
    In t (pflow p FRecv) -> t <> te_noT (bc_te c) ->
    exists i, su_of (pl_slots pl) (remap (p_upR p) t) = Some i.
Proof. intros c pl H. exact (proj2 (plan_covers c pl H)). Qed.
Print Assumptions C02_no_unallocated_received_value.

(* ... and it comes from an included provider listed after the receiver that returns exactly that
   (remapped) type; for every selection Bind accepts. *)
Theorem C02_source_is_a_later_included_provider : forall te funcs1 funcs,
  select te funcs1 = Ok funcs ->
  forall k p t, getp funcs k = Some p -> p_include p = true -> In t (pflow p FRecv) -> t <> te_noT te ->
    exists d r, k < d /\ getp funcs d = Some r /\ p_include r = true /\ In (remap (p_upR p) t) (pflow r FRet).
Proof. intros te f1 f H. exact (proj2 (select_sources te f1 f H)). Qed.
Print Assumptions C02_source_is_a_later_included_provider.
