(* C17 — A Reorder'd injector may be listed anywhere. *)
From Coq Require Import List Arith Bool Permutation.
Import ListNotations.
From NJ Require Import Base Registry Classify Select Reorder Machine Spec Bind ReorderProofs SelectProofs Refine Chain.

(* Reordering never loses or duplicates a provider: the working list after reorder is a
   permutation of the list before (by provider id), for every list. *)
Theorem C17_reorder_is_permutation : forall te funcs funcs',
  reorder_funcs te funcs = Ok funcs' -> Permutation (map p_pid funcs') (map p_pid funcs).
Proof. exact reorder_perm. Qed.
Print Assumptions C17_reorder_is_permutation.

(* Without a Reorder'd provider nothing moves. *)
Theorem C17_no_reorder_identity : forall te funcs,
  existsb is_reorder funcs = false -> reorder_funcs te funcs = Ok funcs.
Proof. intros te funcs H. unfold reorder_funcs. rewrite H. reflexivity. Qed.
Print Assumptions C17_no_reorder_identity.

(* Whatever order reorder chooses, every executed provider still receives its inputs as in C01:
   the refinement theorem is about the final working list, however it was ordered. *)
Theorem C17_inputs_as_in_C01 : forall c pl b,
  bind_chain c = Ok (pl, b) -> plan_wf (bc_te c) pl b = true ->
  exists sp, splan_of (bc_te c) pl = Some sp /\
  forall (W : Type) beh_fn beh_wrap steps (w0 : W),
    let m := run_session W beh_fn beh_wrap b (mkSess W w0 (bd_base0 b) false true) steps in
    let s := sem_session W beh_fn beh_wrap (te_errorT (bc_te c)) sp
                         (mkSsess W w0 (base_env (pl_slots pl) (bd_base0 b)) false true) steps in
    snd m = snd s /\ ss_w W (fst m) = sq_w W (fst s).
Proof. exact chain_refines. Qed.
Print Assumptions C17_inputs_as_in_C01.

(* The selection that follows is sound for whatever order reorder produced. *)
Theorem C17_selection_after_reorder_sound : forall te funcs0 funcs,
  select te funcs0 = Ok funcs ->
  (forall k p, getp funcs k = Some p -> p_include p = true -> p_cannot p = false /\ checks_ok te funcs p = true) /\
  (forall k p, getp funcs k = Some p -> p_required p = true -> p_include p = true).
Proof. exact select_sound. Qed.
Print Assumptions C17_selection_after_reorder_sound.
