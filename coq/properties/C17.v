(* C17 — A Reorder'd injector may be listed anywhere. *)
From Coq Require Import List Arith Bool Permutation.
Import ListNotations.
From NJ Require Import Base Registry Classify Select Reorder Machine Spec Bind ReorderProofs SelectProofs Refine Chain OrderProofs WfProofs MildReorder.

(* Reordering never loses or duplicates a provider: the working list after reorder is a
   permutation of the list before (by provider id), for every list. *)
Theorem C17_reorder_is_permutation : forall te funcs funcs',
  reorder_funcs te funcs = Ok funcs' -> Permutation (map p_pid funcs') (map p_pid funcs).
Proof. exact reorder_perm. Qed.
Print Assumptions C17_reorder_is_permutation.

(* Without a Reorder'd provider nothing moves. *)
Theorem C17_no_reorder_identity : forall te funcs,
  existsb is_reorder funcs = false -> reorder_funcs te funcs = Ok funcs.
Proof. intros te funcs H. unfold reorder_funcs. rewrite H. reflexivity. Qed.
Print Assumptions C17_no_reorder_identity.

(* Whatever order reorder chooses, every executed provider still receives its inputs as in C01:
   the refinement theorem is about the final working list, however it was ordered. *)
Theorem C17_inputs_as_in_C01 : forall c pl b,
  bind_chain c = Ok (pl, b) -> plan_wf (bc_te c) pl b = true ->
  exists sp, splan_of (bc_te c) pl = Some sp /\
  forall (W : Type) beh_fn beh_wrap steps (w0 : W),
    let m := run_session W beh_fn beh_wrap b (mkSess W w0 (bd_base0 b) false true) steps in
    let s := sem_session W beh_fn beh_wrap (te_errorT (bc_te c)) sp
                         (mkSsess W w0 (base_env (pl_slots pl) (bd_base0 b)) false true) steps in
    snd m = snd s /\ ss_w W (fst m) = sq_w W (fst s).
Proof. exact chain_refines. Qed.
Print Assumptions C17_inputs_as_in_C01.

(* The selection that follows is sound for whatever order reorder produced. *)
Theorem C17_selection_after_reorder_sound : forall te funcs0 funcs,
  select te funcs0 = Ok funcs ->
  (forall k p, getp funcs k = Some p -> p_include p = true -> p_cannot p = false /\ checks_ok te funcs p = true) /\
  (forall k p, getp funcs k = Some p -> p_required p = true -> p_include p = true).
Proof. exact select_sound. Qed.
Print Assumptions C17_selection_after_reorder_sound.

(* In every chain containing Reorder'd providers, those not marked Reorder keep their listed
   relative order: the providers that are not marked Reorder appear in the reordered list in
   exactly the order they were listed (by provider id), for every list and whatever the
   topological sort does with the others - including when it leaves providers unplaced (it cannot
   run out of fuel: C04_reorder_sort_fuel_suffices). *)
Theorem C17_non_reorder_keep_listed_order : forall te funcs funcs',
  reorder_funcs te funcs = Ok funcs' ->
  map p_pid (filter (fun p => negb (is_reorder p)) funcs') = map p_pid (filter (fun p => negb (is_reorder p)) funcs).
Proof. exact reorder_keeps_listed_order. Qed.
Print Assumptions C17_non_reorder_keep_listed_order.

(* non-vacuity: A-producer, a Reorder'd C-from-B injector listed before its producer, B-from-A
   injector, final taking C.  Reorder moves provider 2 behind provider 3; 1, 3, 4 keep their order. *)
Definition ex_ty (c : nat) : tyinfo := mkTy c false 1 0 true true false [] 0.
Definition ex_te : tyenv := mkTyenv [ex_ty 10; ex_ty 11; ex_ty 12] 1 2 3 4 5.
Definition ex_prov (pid : nat) (cl : classT) (g : groupT) (reo : bool) (ins outs : list nat) : prov :=
  mk_prov (mkSprov (mkPdesc pid 0 0 0 0 (ShFn ins outs) false false false false false false reo false false false false false 0
                            [] None None [] 0 [] false)
                   cl g (mkFlows None (Some outs) (Some ins) None None) false false false false None None).
Definition ex_funcs : list prov :=
  [ex_prov 1 ClInjector GRun false [] [10]; ex_prov 2 ClInjector GRun true [11] [12];
   ex_prov 3 ClInjector GRun false [10] [11]; ex_prov 4 ClFinal GFinal false [12] []].
Example C17_nonvacuous :
  exists r, reorder_funcs ex_te ex_funcs = Ok r /\ map p_pid r = [1; 3; 2; 4] /\
            map p_pid (filter (fun p => negb (is_reorder p)) r) = [1; 3; 4].
Proof. eexists. split; [vm_compute; reflexivity|]. split; reflexivity. Qed.
Print Assumptions C17_nonvacuous.

(* C17_inputs_as_in_C01 with its hypothesis discharged: whatever order Reorder chose, a chain that
   binds refines the reference semantics of its plan, provided the sort left every included
   per-invocation provider other than plain injectors behind the invoke function. *)
Theorem C17_inputs_as_in_C01_bound : forall c pl b,
  bind_chain c = Ok (pl, b) -> runs_after_invoke pl = true ->
  exists sp, splan_of (bc_te c) pl = Some sp /\
  forall (W : Type) beh_fn beh_wrap steps (w0 : W),
    let m := run_session W beh_fn beh_wrap b (mkSess W w0 (bd_base0 b) false true) steps in
    let s := sem_session W beh_fn beh_wrap (te_errorT (bc_te c)) sp
                         (mkSsess W w0 (base_env (pl_slots pl) (bd_base0 b)) false true) steps in
    snd m = snd s /\ ss_w W (fst m) = sq_w W (fst s).
Proof. exact chain_refines_bound. Qed.
Print Assumptions C17_inputs_as_in_C01_bound.

(* The chains the first sentence of C17 speaks of - only plain injectors (or providers outside the
   per-invocation part) carry Reorder: the positional condition is then a theorem (the wrappers,
   fallible injectors and the final function are not Reorder'd, so they keep their listed place
   behind the invoke function), and the displaced chain refines the reference semantics of its
   plan with nothing validated on the case. *)
Theorem C17_refinement_when_only_injectors_are_reordered : forall c pl b f0,
  bind_chain c = Ok (pl, b) -> assemble c = Ok f0 -> reorder_mild f0 = true -> d_reorder (bc_invoke c) = false ->
  exists sp, splan_of (bc_te c) pl = Some sp /\
  forall (W : Type) beh_fn beh_wrap steps (w0 : W),
    let m := run_session W beh_fn beh_wrap b (mkSess W w0 (bd_base0 b) false true) steps in
    let s := sem_session W beh_fn beh_wrap (te_errorT (bc_te c)) sp
                         (mkSsess W w0 (base_env (pl_slots pl) (bd_base0 b)) false true) steps in
    snd m = snd s /\ ss_w W (fst m) = sq_w W (fst s).
Proof.
  intros c pl b f0 Hb Ha Hm Hi. apply (chain_refines_bound c pl b Hb). apply (runs_after_invoke_mild c pl b f0 Hb Ha Hm Hi).
Qed.
Print Assumptions C17_refinement_when_only_injectors_are_reordered.

Theorem C17_non_reorder_providers_keep_their_place : forall te funcs funcs',
  reorder_funcs te funcs = Ok funcs' ->
  map p_s (filter (fun p => negb (is_reorder p)) funcs') = map p_s (filter (fun p => negb (is_reorder p)) funcs).
Proof. exact reorder_keeps_listed_providers. Qed.
Print Assumptions C17_non_reorder_providers_keep_their_place.

Definition ex17_ty (c : nat) : tyinfo := mkTy c false 1 0 true true false [] 0.
Definition ex17_te : tyenv := mkTyenv [ex17_ty 10; ex17_ty 11; ex17_ty 12] 1 2 3 4 5.
Definition ex17_pd (pid : nat) (s : shape) (reo : bool) : pdesc :=
  mkPdesc pid 0 0 0 0 s false false false false false false reo false false false false false 0 [] None None [] 0 [1] false.
Definition ex17_case : bcase :=
  mkCase ex17_te [ex17_pd 1 (ShFn [] [10]) false; ex17_pd 2 (ShFn [11] [12]) true; ex17_pd 3 (ShFn [10] [11]) false; ex17_pd 4 (ShFn [12] []) false]
         (ex17_pd 92 (ShFnPtr [] []) false) None [true].
Example C17_mild_nonvacuous :
  exists f0 pl b, assemble ex17_case = Ok f0 /\ reorder_mild f0 = true /\ bind_chain ex17_case = Ok (pl, b) /\
    map p_pid (filter p_include (pl_funcs pl)) = [92; 1; 3; 2; 4].
Proof. eexists. eexists. eexists. split; [vm_compute; reflexivity|]. split; [vm_compute; reflexivity|]. split; [vm_compute; reflexivity|reflexivity]. Qed.
Print Assumptions C17_mild_nonvacuous.

