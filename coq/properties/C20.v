(* C20 — Reflective and generated providers are equivalent to plain functions. *)
From Coq Require Import List Arith Bool.
Import ListNotations.
From NJ Require Import Base Collections Registry Classify Select Reorder Machine Spec Bind Generated CollProofs GeneratedProofs.

(* Replacing any subset of the providers by Reflective equivalents (same signature, same body)
   changes nothing: same Bind result, classification, pruning, order, wiring, results and call log.
   (Characterization reads both through the same reflectType interface; the tie to /repo is the
   chain correspondence, in which a random subset of providers is Reflective, and the refltwin pairs.) *)
Theorem C20_reflective_irrelevant : forall te l (mask : pdesc -> bool) inv init sess,
  forallb no_directive l = true ->
  model_run (mkCase te (map (fun d => set_reflective (mask d) d) l) inv init sess) = model_run (mkCase te l inv init sess).
Proof. exact reflective_irrelevant. Qed.
Print Assumptions C20_reflective_irrelevant.

(* Curry: each parameter of the original function receives a value of its own type - the injected
   value of that type or an argument of the curried function ... *)
Theorem C20_curry_args_typed : forall (V : Type) (ty : V -> nat) (dflt : V) is_func orig cur p passed injected,
  curry_plan is_func orig cur = Some p ->
  map ty passed = cur -> map ty injected = cp_curried p ->
  map ty (curry_args V dflt p passed injected) = orig.
Proof. exact @curry_args_typed. Qed.
Print Assumptions C20_curry_args_typed.

(* ... the curried-away types are pairwise different and are not parameters of the curried function ... *)
Theorem C20_curry_curried_distinct : forall is_func orig cur p,
  curry_plan is_func orig cur = Some p ->
  NoDup (cp_curried p) /\ forall t, In t (cp_curried p) -> ~ In t cur.
Proof. exact curry_curried_distinct. Qed.
Print Assumptions C20_curry_curried_distinct.

(* ... and every argument of the curried function is used, the k-th of a type as the k-th parameter
   of that type of the original. *)
Theorem C20_curry_pass_order : forall is_func orig cur p,
  curry_plan is_func orig cur = Some p ->
  forall t, In t cur -> filter (has_type cur t) (passes (cp_srcs p)) = positions t cur 0.
Proof. exact curry_pass_order. Qed.
Print Assumptions C20_curry_pass_order.

(* SaveTo: the provider's inputs are the pointees' types, in order (running it stores each). *)
Theorem C20_saveto : forall is_func ptr_types ins, saveto_plan is_func ptr_types = Some ins -> ins = ptr_types.
Proof. exact saveto_spec. Qed.
Print Assumptions C20_saveto.

(* MakeStructBuilder, any tags and post-actions: the inputs are stored at pairwise independent
   places that exist in the struct ... *)
Theorem C20_struct_plan_paths : forall (V : Type) (zv : nat -> V) acts ptr model plan,
  struct_plan acts ptr model = Some plan ->
  pairwise (incomparable) (map snd (fp_inputs plan)) /\
  forall p, In p (map snd (fp_inputs plan)) -> exists y, vget V p (zero_of V zv model) = Some y.
Proof. exact struct_plan_paths. Qed.
Print Assumptions C20_struct_plan_paths.

(* ... so every input lands at its field and nothing else in the struct changes ... *)
Theorem C20_fill_spec : forall (V : Type) (inputs : list (nat * list nat)) (vals : list (vtree V)) (zero : vtree V),
  length vals = length inputs ->
  pairwise incomparable (map snd inputs) ->
  (forall p, In p (map snd inputs) -> exists y, vget V p zero = Some y) ->
  (forall k tp v, nth_opt k inputs = Some tp -> nth_opt k vals = Some v ->
     vget V (snd tp) (fill V (mkFplan inputs []) zero vals) = Some v) /\
  (forall q, Forall (fun p => incomparable p q) (map snd inputs) ->
     vget V q (fill V (mkFplan inputs []) zero vals) = vget V q zero).
Proof. exact fill_spec. Qed.
Print Assumptions C20_fill_spec.

(* ... and for a struct without tags, built without post-actions, the inputs are exactly the
   exported fields, recursively through nested structs, in declaration order. *)
Theorem C20_struct_plan_plain : forall ptr tid fields,
  plain (FStruct tid fields) = true ->
  struct_plan [] ptr (FStruct tid fields) = Some (mkFplan (eleaves (FStruct tid fields) []) []).
Proof. exact struct_plan_plain. Qed.
Print Assumptions C20_struct_plan_plain.

(* A post-action function's field parameter (addFieldFiller): the first parameter whose type is the
   field's type or a pointer to it; every other parameter is injected from the chain.  (The harness
   builds post-action functions with several parameters of the field's type; a function with no such
   parameter is refused.) *)
Theorem C20_post_action_field_parameter : forall t params k p,
  field_param t params 0 = Some (k, p) ->
  nth_error params k = Some (t, p) /\
  forall j, j < k -> forall ty q, nth_error params j = Some (ty, q) -> ty <> t.
Proof.
  intros t params k p H. destruct (field_param_spec t params 0 k p H) as [j [Hk [Hn Hb]]].
  cbn in Hk. subst k. split; [exact Hn|exact Hb].
Qed.
Print Assumptions C20_post_action_field_parameter.

Theorem C20_post_action_without_field_parameter : forall t params,
  field_param t params 0 = None <-> (forall ty q, In (ty, q) params -> ty <> t).
Proof. intros t params. exact (field_param_none t params 0). Qed.
Print Assumptions C20_post_action_without_field_parameter.

(* ... and that is the parameter the struct builder uses: a post-action that is taken up is recorded
   with the address-of flag of that parameter; with no such parameter the builder refuses. *)
Theorem C20_post_action_uses_field_parameter : forall path ft a st st',
  fs_hard st = false -> handle_action path ft a st = Some st' ->
  exists k ptr, field_param (type_code ft) (a_params a) 0 = Some (k, ptr) /\
                fs_acts st' = fs_acts st ++ [(a_id a, path, ptr)].
Proof.
  intros path ft a st st' Hh H. unfold handle_action in H. rewrite Hh in H.
  destruct (field_param (type_code ft) (a_params a) 0) as [[k ptr]|]; [|discriminate].
  inversion H; subst. exists k, ptr. split; reflexivity.
Qed.
Print Assumptions C20_post_action_uses_field_parameter.

Example C20_field_parameter_nonvacuous :
  (* func(x T1, f *T0, g T0): the pointer parameter is the field, the later T0 comes from the chain *)
  field_param 0 [(1, false); (0, true); (0, false)] 0 = Some (1, true).
Proof. reflexivity. Qed.
Print Assumptions C20_field_parameter_nonvacuous.

(* The traversal of the struct type is modelled with fuel; the fuel struct_plan gives it is enough:
   any larger amount yields the same plan (or the same refusal), for all tags and post-actions. *)
Theorem C20_struct_plan_fuel_suffices : forall acts ptr tid fields k,
  map_fields (2 * fsize (FStruct tid fields) + 2 + k) acts ptr fields 0 [] (mkFplan [] [])
  = struct_plan acts ptr (FStruct tid fields).
Proof. exact struct_plan_fuel. Qed.
Print Assumptions C20_struct_plan_fuel_suffices.

Example C20_nonvacuous :
  (* func(a T0, b T1, c T0, d T2) curried to func(c' T0, a' T0) : T1 and T2 injected *)
  match curry_plan (fun _ => false) [0; 1; 0; 2] [0; 0] with
  | Some p => cp_curried p = [1; 2] /\ curry_args nat 99 p [10; 11] [20; 21] = [10; 20; 11; 21]
  | None => False
  end /\
  struct_plan [] false (FStruct 100 [mkFfield true 1 [] (FLeaf 0); mkFfield false 2 [] (FLeaf 1);
                                     mkFfield true 3 [] (FStruct 101 [mkFfield true 4 [] (FLeaf 2)])])
  = Some (mkFplan [(0, [0]); (2, [2; 0])] []).
Proof. vm_compute. repeat split; reflexivity. Qed.
Print Assumptions C20_nonvacuous.
