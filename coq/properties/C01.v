(* C01 — Every parameter is the nearest upstream value of its type.
   Statements only; proofs in proofs/Refine.v, proofs/Chain.v, proofs/SpecLemmas.v.

   The reference semantics (model/Spec.v) passes immutable environments: a provider's
   arguments are the lookups of its parameter types in the environment built, in order, from the
   base values, the invoke arguments, the results of the injectors before it in this traversal and
   the arguments of the enclosing inner() calls.  The theorems say that the slot machine that
   mirrors generate.go/bind.go computes exactly that, for every chain, behaviour and session. *)
From Coq Require Import List Arith Bool.
Import ListNotations.
From NJ Require Import Base Registry Classify Select Reorder Machine Spec Bind Refine Chain SpecLemmas CoverProofs WfProofs.

(* Whole chains: for every case that binds (plan passing the decidable well-formedness check that
   the correspondence run evaluates on every case), every provider behaviour (wrappers as arbitrary
   interaction trees over any world), every sequence of init / invoke calls: the slot machine and
   the reference semantics produce the same results and the same final world. *)
Theorem C01_chain_refines_reference :
  forall (c : bcase) (pl : plan) (b : bound),
    bind_chain c = Ok (pl, b) -> plan_wf (bc_te c) pl b = true ->
    exists sp, splan_of (bc_te c) pl = Some sp /\
    forall (W : Type) (beh_fn : nat -> W -> list val -> W * list val)
           (beh_wrap : nat -> W -> list val -> wtree W) (steps : list step) (w0 : W),
      let m := run_session W beh_fn beh_wrap b (mkSess W w0 (bd_base0 b) false true) steps in
      let s := sem_session W beh_fn beh_wrap (te_errorT (bc_te c)) sp
                           (mkSsess W w0 (base_env (pl_slots pl) (bd_base0 b)) false true) steps in
      snd m = snd s /\ ss_w W (fst m) = sq_w W (fst s).
Proof. exact chain_refines. Qed.
Print Assumptions C01_chain_refines_reference.

(* "Most recently supplied": after results vs for types pre ++ t :: post (t not again in post) the
   environment holds the result at t's last position; other types are untouched. *)
Theorem C01_most_recent : forall d pre t post vs v,
  ~ In t post -> nth_error vs (length pre) = Some v -> length vs = length (pre ++ t :: post) ->
  upd_list d (pre ++ t :: post) vs t = norm t v.
Proof. exact upd_list_last. Qed.
Print Assumptions C01_most_recent.

Theorem C01_untouched : forall d tys vs t, ~ In t tys -> upd_list d tys vs t = d t.
Proof. exact upd_list_other. Qed.
Print Assumptions C01_untouched.

(* An interface parameter is satisfied by another type only through Loose: bestMatch returns either
   the requested type or a type implementing the requested interface all of whose chosen providers
   are marked Loose for it. *)
Theorem C01_loose_only : forall te funcs m wanted found deps,
  best_match te funcs m wanted = Some (found, deps) ->
  found = wanted \/
  (is_iface te wanted = true /\ implements te found wanted = true /\
   forall dep, In dep deps -> flagp (fun p => memb wanted (p_loose p)) funcs dep = true).
Proof. exact best_match_sound. Qed.
Print Assumptions C01_loose_only.

(* Never a zero value through the wiring: in every plan Bind arrives at (any chain, any annotations,
   Reorder included), each parameter of each included provider is read from an allocated slot -
   the slot of the type its source puts out.  No hypothesis about the plan.  (Defect D29 was a
   failure of this statement.) *)
Theorem C01_no_unallocated_parameter : forall c pl,
  plan_of c = Ok pl ->
  forall k p t, getp (pl_funcs pl) k = Some p -> p_include p = true -> In t (pflow p FIn) -> t <> te_noT (bc_te c) ->
    exists i, sd_of (pl_slots pl) (remap (p_downR p) t) = Some i.
Proof. intros c pl H. exact (proj1 (plan_covers c pl H)). Qed.
Print Assumptions C01_no_unallocated_parameter.

(* The slot tables of every working list are well formed: distinct keys, pairwise distinct indices
   across the down and the up table, all below the size of the collection. *)
Theorem C01_slot_tables_well_formed : forall funcs ii, slots_ok_b (allocate_slots funcs ii) = true.
Proof. exact AllocProofs.allocate_slots_ok. Qed.
Print Assumptions C01_slot_tables_well_formed.

(* ... and the value comes from an included provider listed before the consumer that puts out
   exactly that (remapped) type; for every selection Bind accepts. *)
Theorem C01_source_is_an_earlier_included_provider : forall te funcs1 funcs,
  select te funcs1 = Ok funcs ->
  forall k p t, getp funcs k = Some p -> p_include p = true -> In t (pflow p FIn) -> t <> te_noT te ->
    exists d r, d < k /\ getp funcs d = Some r /\ p_include r = true /\ In (remap (p_downR p) t) (pflow r FOut).
Proof. intros te f1 f H. exact (proj1 (select_sources te f1 f H)). Qed.
Print Assumptions C01_source_is_an_earlier_included_provider.

(* The well-formedness hypothesis of C01_chain_refines_reference is itself a theorem: every chain
   that binds has well-formed slot tables, a clean base array, slots for everything an included
   provider reads, and compiled closures that are exactly the reference projection of its plan -
   provided no included per-invocation provider other than a plain injector was placed before the
   invoke function (only Reorder can do that). *)
Theorem C01_bound_chain_is_well_formed : forall c pl b,
  bind_chain c = Ok (pl, b) -> runs_after_invoke pl = true ->
  plan_wf (bc_te c) pl b = true.
Proof. exact bind_plan_wf. Qed.
Print Assumptions C01_bound_chain_is_well_formed.

(* Hence, with nothing left to validate on the case: for every case without Reorder annotations,
   with or without an init function, a chain that binds runs - for every provider behaviour, world
   and session - exactly as the reference semantics of its plan. *)
Theorem C01_every_plain_chain_refines_reference :
  forall (c : bcase) (pl : plan) (b : bound),
    plain_case c = true -> bind_chain c = Ok (pl, b) ->
    exists sp, splan_of (bc_te c) pl = Some sp /\
    forall (W : Type) (beh_fn : nat -> W -> list val -> W * list val)
           (beh_wrap : nat -> W -> list val -> wtree W) (steps : list step) (w0 : W),
      let m := run_session W beh_fn beh_wrap b (mkSess W w0 (bd_base0 b) false true) steps in
      let s := sem_session W beh_fn beh_wrap (te_errorT (bc_te c)) sp
                           (mkSsess W w0 (base_env (pl_slots pl) (bd_base0 b)) false true) steps in
      snd m = snd s /\ ss_w W (fst m) = sq_w W (fst s).
Proof. exact chain_refines_plain. Qed.
Print Assumptions C01_every_plain_chain_refines_reference.

(* ... and for every other chain that binds under the positional condition. *)
Theorem C01_every_bound_chain_refines_reference :
  forall (c : bcase) (pl : plan) (b : bound),
    bind_chain c = Ok (pl, b) -> runs_after_invoke pl = true ->
    exists sp, splan_of (bc_te c) pl = Some sp /\
    forall (W : Type) (beh_fn : nat -> W -> list val -> W * list val)
           (beh_wrap : nat -> W -> list val -> wtree W) (steps : list step) (w0 : W),
      let m := run_session W beh_fn beh_wrap b (mkSess W w0 (bd_base0 b) false true) steps in
      let s := sem_session W beh_fn beh_wrap (te_errorT (bc_te c)) sp
                           (mkSsess W w0 (base_env (pl_slots pl) (bd_base0 b)) false true) steps in
      snd m = snd s /\ ss_w W (fst m) = sq_w W (fst s).
Proof. exact chain_refines_bound. Qed.
Print Assumptions C01_every_bound_chain_refines_reference.

(* non-vacuity: a plain case that binds (A-producer, B-from-A injector, final taking B and
   returning C to the invoke function) *)
Definition ex1_ty (c : nat) : tyinfo := mkTy c false 1 0 true true false [] 0.
Definition ex1_te : tyenv := mkTyenv [ex1_ty 10; ex1_ty 11; ex1_ty 12] 1 2 3 4 5.
Definition ex1_pd (pid : nat) (s : shape) : pdesc :=
  mkPdesc pid 0 0 0 0 s false false false false false false false false false false false false 0 [] None None [] 0 [1] false.
Definition ex1_case : bcase :=
  mkCase ex1_te [ex1_pd 1 (ShFn [] [10]); ex1_pd 2 (ShFn [10] [11]); ex1_pd 3 (ShFn [11] [12])]
         (ex1_pd 92 (ShFnPtr [] [12])) None [true].
(* the same with an init function that returns the value of a Cacheable static injector *)
Definition ex1_cacheable (pid : nat) (s : shape) : pdesc :=
  mkPdesc pid 0 0 0 0 s false false true false false false false false false false false false 0 [] None None [] 0 [1] false.
Definition ex2_case : bcase :=
  mkCase ex1_te [ex1_cacheable 1 (ShFn [] [10]); ex1_pd 2 (ShFn [10] [11]); ex1_pd 3 (ShFn [11] [12])]
         (ex1_pd 92 (ShFnPtr [] [12])) (Some (ex1_pd 91 (ShFnPtr [] [10]))) [false; true].
Example C01_plain_nonvacuous :
  plain_case ex1_case = true /\
  exists pl b, bind_chain ex1_case = Ok (pl, b) /\ map p_pid (filter p_include (pl_funcs pl)) = [92; 1; 2; 3].
Proof. split; [reflexivity|]. eexists. eexists. split; [vm_compute; reflexivity|reflexivity]. Qed.
Example C01_plain_with_init_nonvacuous :
  plain_case ex2_case = true /\
  exists pl b, bind_chain ex2_case = Ok (pl, b) /\ map p_pid (filter p_include (pl_funcs pl)) = [91; 1; 92; 2; 3].
Proof. split; [reflexivity|]. eexists. eexists. split; [vm_compute; reflexivity|reflexivity]. Qed.
Print Assumptions C01_plain_with_init_nonvacuous.
Print Assumptions C01_plain_nonvacuous.
