(* C15 — No returned value is silently dropped or overridden. *)
From Coq Require Import List Arith Bool.
Import ListNotations.
From NJ Require Import Base Registry Classify Select Machine SelectProofs ShadowProofs.

(* Returns are must-consume: in a chain that binds, every type returned by an included provider
   and not marked ConsumptionOptional (nor Unused) has an included receiver. *)
Theorem C15_returns_received : forall te funcs0 funcs k p t,
  select te funcs0 = Ok funcs -> getp funcs k = Some p -> p_include p = true ->
  In t (mc_types te p FRet) ->
  any_included funcs (detail_get (flowk_code FRet) t (usedByDetail (p_deps p))) = true.
Proof.
  intros te funcs0 funcs k p t Hs Hk Hi Ht.
  destruct (select_sound te funcs0 funcs Hs) as [H _]. destruct (H k p Hk Hi) as [_ Hc].
  unfold checks_ok in Hc. destruct (usesError (p_deps p)); [|discriminate].
  apply andb_true_iff in Hc. destruct Hc as [Hc _]. apply andb_true_iff in Hc. destruct Hc as [_ Hc].
  rewrite forallb_forall in Hc. apply Hc. exact Ht.
Qed.
Print Assumptions C15_returns_received.

(* the return flow of every provider is must-consume after the first marking (fixed defect D21) *)
Theorem C15_return_flow_is_must_consume : forall te p, p_mcRet (init_marks te p) = true.
Proof.
  intros te p. unfold init_marks.
  destruct (s_required (p_s p)); [reflexivity|]. destruct (d_desired (s_d (p_s p))); [reflexivity|].
  destruct (f_out (s_flows (p_s p))) as [outs|]; [|reflexivity].
  destruct (length (strip_unused te outs) =? 0); [|reflexivity].
  destruct (negb (d_cluster (s_d (p_s p)) =? 0)); reflexivity.
Qed.
Print Assumptions C15_return_flow_is_must_consume.

(* Shadowing: when the check passes, a provider that returns t without receiving it, and is not
   exempt (AllowReturnShadowing, or error of a fallible injector), has no provider below it that
   also returns t un-received. *)
Theorem C15_no_unannounced_shadowing : forall te funcs above p below t,
  check_shadowing te funcs = true -> funcs = above ++ p :: below ->
  returns_unreceived p t -> shadow_exempt te p t = false ->
  forall q, In q below -> ~ returns_unreceived q t.
Proof. exact check_shadowing_sound. Qed.
Print Assumptions C15_no_unannounced_shadowing.
