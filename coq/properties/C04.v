(* C04 — Invalid chains are reported as errors up front; nothing panics. *)
From Coq Require Import List Arith Bool Permutation.
Import ListNotations.
From NJ Require Import Base Edits Registry Classify Select Reorder Machine Spec Bind SpecLemmas ClassifyProofs ReorderProofs Refine Chain WfProofs FuelProofs.

(* Run time: a bound chain (plan passing the decidable check evaluated on every case) never hands
   reflect.Call an invalid Value — the only way the slot machine can fail — for any provider
   behaviour and any sequence of init / invoke calls. *)
Theorem C04_run_safe : forall c pl b,
  bind_chain c = Ok (pl, b) -> plan_wf (bc_te c) pl b = true ->
  forall (W : Type) beh_fn beh_wrap steps (w0 : W),
    ~ In RPanic (snd (run_session W beh_fn beh_wrap b (mkSess W w0 (bd_base0 b) false true) steps)).
Proof. exact run_safe. Qed.
Print Assumptions C04_run_safe.

(* The reference semantics is total on well-classed programs. *)
Theorem C04_reference_total : forall W beh_fn beh_wrap errT prog,
  forallb well_classed prog = true -> forall w d, snd (sem W beh_fn beh_wrap errT prog w d) = true.
Proof. exact sem_ok. Qed.
Print Assumptions C04_reference_total.

(* Bind time: every stage of the model is a total function (structural recursion or explicit
   fuel), so Bind as modelled always returns Ok or Err; a provider that matches no prototype, a nil
   function, a MustCache provider that cannot be hoisted are errors, never a crash. *)
Theorem C04_nil_function_rejected : forall te reg d cc ins outs,
  d_shape d = ShNilFn ins outs -> classify_in te reg d cc = None.
Proof. intros te reg d cc ins outs H. unfold classify_in. rewrite H. reflexivity. Qed.
Print Assumptions C04_nil_function_rejected.

Theorem C04_must_cache_or_error : forall te d cc s,
  characterizeFunc te d cc = Some s -> d_mustCache d = true -> is_func_shape (d_shape d) = true ->
  s_group s = GStatic.
Proof. exact must_cache_or_fail. Qed.
Print Assumptions C04_must_cache_or_error.

(* Reorder cannot lose providers (no index out of range, no dropped entry). *)
Theorem C04_reorder_total : forall te funcs funcs',
  reorder_funcs te funcs = Ok funcs' -> Permutation (map p_pid funcs') (map p_pid funcs).
Proof. exact reorder_perm. Qed.
Print Assumptions C04_reorder_total.

(* The same without the well-formedness hypothesis: a chain that binds never hands a call an
   invalid value, whatever the providers do - for every case without Reorder annotations outright,
   otherwise under the positional condition of WfProofs. *)
Theorem C04_run_safe_every_plain_chain : forall c pl b,
  plain_case c = true -> bind_chain c = Ok (pl, b) ->
  forall (W : Type) beh_fn beh_wrap steps (w0 : W),
    ~ In RPanic (snd (run_session W beh_fn beh_wrap b (mkSess W w0 (bd_base0 b) false true) steps)).
Proof. exact run_safe_plain. Qed.
Print Assumptions C04_run_safe_every_plain_chain.

Theorem C04_run_safe_every_bound_chain : forall c pl b,
  bind_chain c = Ok (pl, b) -> runs_after_invoke pl = true ->
  forall (W : Type) beh_fn beh_wrap steps (w0 : W),
    ~ In RPanic (snd (run_session W beh_fn beh_wrap b (mkSess W w0 (bd_base0 b) false true) steps)).
Proof. exact run_safe_bound. Qed.
Print Assumptions C04_run_safe_every_bound_chain.

(* Nothing hangs: the worklist loops of the selection terminate.  They are modelled with fuel; the
   fuel the model gives them is sufficient - the flow-checking passes never report the out-of-fuel
   error (each productive pass takes an include mark away or sets a cannotInclude mark, at most two
   per provider), and eliminateUnused and the keep-closures of proposeEliminations return the same
   result for any larger fuel. *)
Theorem C04_flow_checks_never_out_of_fuel : forall te crd funcs,
  snd (validate_chain te crd funcs) <> Some EB_INTERNAL.
Proof. exact validate_chain_fuel. Qed.
Print Assumptions C04_flow_checks_never_out_of_fuel.

Theorem C04_eliminate_unused_fuel_suffices : forall funcs k,
  elim_unused (length funcs + total_uses funcs + 1 + k) funcs (seq_from 0 (length funcs)) = eliminate_unused funcs.
Proof. exact eliminate_unused_fuel. Qed.
Print Assumptions C04_eliminate_unused_fuel_suffices.

Theorem C04_keep_closure_fuel_suffices : forall useLast groups funcs k,
  let n := length funcs in
  let idx := seq_from 0 n in
  let roots := filter (fun i => flagp (fun p => negb (p_excluded p) &&
                   (p_required p || p_desired p || (p_wanted p && negb (p_wic p)))) funcs i) idx in
  let fuel := (n + 1) * (total_details funcs + 2) + n + 1 in
  keep_closure (fuel + k) useLast groups funcs roots [] = keep_closure fuel useLast groups funcs roots [].
Proof. exact propose_keep_fuel. Qed.
Print Assumptions C04_keep_closure_fuel_suffices.
