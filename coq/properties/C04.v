(* C04 — Invalid chains are reported as errors up front; nothing panics. *)
From Coq Require Import List Arith Bool Permutation.
Import ListNotations.
From NJ Require Import Base Edits Registry Classify Select Reorder Machine Spec Bind SpecLemmas ClassifyProofs ReorderProofs Refine Chain WfProofs.

(* Run time: a bound chain (plan passing the decidable check evaluated on every case) never hands
   reflect.Call an invalid Value — the only way the slot machine can fail — for any provider
   behaviour and any sequence of init / invoke calls. *)
Theorem C04_run_safe : forall c pl b,
  bind_chain c = Ok (pl, b) -> plan_wf (bc_te c) pl b = true ->
  forall (W : Type) beh_fn beh_wrap steps (w0 : W),
    ~ In RPanic (snd (run_session W beh_fn beh_wrap b (mkSess W w0 (bd_base0 b) false true) steps)).
Proof. exact run_safe. Qed.
Print Assumptions C04_run_safe.

(* The reference semantics is total on well-classed programs. *)
Theorem C04_reference_total : forall W beh_fn beh_wrap errT prog,
  forallb well_classed prog = true -> forall w d, snd (sem W beh_fn beh_wrap errT prog w d) = true.
Proof. exact sem_ok. Qed.
Print Assumptions C04_reference_total.

(* Bind time: every stage of the model is a total function (structural recursion or explicit
   fuel), so Bind as modelled always returns Ok or Err; a provider that matches no prototype, a nil
   function, a MustCache provider that cannot be hoisted are errors, never a crash. *)
Theorem C04_nil_function_rejected : forall te reg d cc ins outs,
  d_shape d = ShNilFn ins outs -> classify_in te reg d cc = None.
Proof. intros te reg d cc ins outs H. unfold classify_in. rewrite H. reflexivity. Qed.
Print Assumptions C04_nil_function_rejected.

Theorem C04_must_cache_or_error : forall te d cc s,
  characterizeFunc te d cc = Some s -> d_mustCache d = true -> is_func_shape (d_shape d) = true ->
  s_group s = GStatic.
Proof. exact must_cache_or_fail. Qed.
Print Assumptions C04_must_cache_or_error.

(* Reorder cannot lose providers (no index out of range, no dropped entry). *)
Theorem C04_reorder_total : forall te funcs funcs',
  reorder_funcs te funcs = Ok funcs' -> Permutation (map p_pid funcs') (map p_pid funcs).
Proof. exact reorder_perm. Qed.
Print Assumptions C04_reorder_total.

(* The same without the well-formedness hypothesis: a chain that binds never hands a call an
   invalid value, whatever the providers do - for every case without Reorder annotations outright,
   otherwise under the positional condition of WfProofs. *)
Theorem C04_run_safe_every_plain_chain : forall c pl b,
  plain_case c = true -> bind_chain c = Ok (pl, b) ->
  forall (W : Type) beh_fn beh_wrap steps (w0 : W),
    ~ In RPanic (snd (run_session W beh_fn beh_wrap b (mkSess W w0 (bd_base0 b) false true) steps)).
Proof. exact run_safe_plain. Qed.
Print Assumptions C04_run_safe_every_plain_chain.

Theorem C04_run_safe_every_bound_chain : forall c pl b,
  bind_chain c = Ok (pl, b) -> runs_after_invoke pl = true ->
  forall (W : Type) beh_fn beh_wrap steps (w0 : W),
    ~ In RPanic (snd (run_session W beh_fn beh_wrap b (mkSess W w0 (bd_base0 b) false true) steps)).
Proof. exact run_safe_bound. Qed.
Print Assumptions C04_run_safe_every_bound_chain.
