(* C04 — Invalid chains are reported as errors up front; nothing panics. *)
From Coq Require Import List Arith Bool Permutation.
Import ListNotations.
From NJ Require Import Base Edits Registry Classify Select Reorder Machine Spec Bind SpecLemmas ClassifyProofs ReorderProofs Refine Chain WfProofs FuelProofs OrderProofs TopoFuel.

(* Run time: a bound chain (plan passing the decidable check evaluated on every case) never hands
   reflect.Call an invalid Value — the only way the slot machine can fail — for any provider
   behaviour and any sequence of init / invoke calls. *)
Theorem C04_run_safe : forall c pl b,
  bind_chain c = Ok (pl, b) -> plan_wf (bc_te c) pl b = true ->
  forall (W : Type) beh_fn beh_wrap steps (w0 : W),
    ~ In RPanic (snd (run_session W beh_fn beh_wrap b (mkSess W w0 (bd_base0 b) false true) steps)).
Proof. exact run_safe. Qed.
Print Assumptions C04_run_safe.

(* The reference semantics is total on well-classed programs. *)
Theorem C04_reference_total : forall W beh_fn beh_wrap errT prog,
  forallb well_classed prog = true -> forall w d, snd (sem W beh_fn beh_wrap errT prog w d) = true.
Proof. exact sem_ok. Qed.
Print Assumptions C04_reference_total.

(* Bind time: every stage of the model is a total function (structural recursion or explicit
   fuel), so Bind as modelled always returns Ok or Err; a provider that matches no prototype, a nil
   function, a MustCache provider that cannot be hoisted are errors, never a crash. *)
Theorem C04_nil_function_rejected : forall te reg d cc ins outs,
  d_shape d = ShNilFn ins outs -> classify_in te reg d cc = None.
Proof. intros te reg d cc ins outs H. unfold classify_in. rewrite H. reflexivity. Qed.
Print Assumptions C04_nil_function_rejected.

Theorem C04_must_cache_or_error : forall te d cc s,
  characterizeFunc te d cc = Some s -> d_mustCache d = true -> is_func_shape (d_shape d) = true ->
  s_group s = GStatic.
Proof. exact must_cache_or_fail. Qed.
Print Assumptions C04_must_cache_or_error.

(* Reorder cannot lose providers (no index out of range, no dropped entry). *)
Theorem C04_reorder_total : forall te funcs funcs',
  reorder_funcs te funcs = Ok funcs' -> Permutation (map p_pid funcs') (map p_pid funcs).
Proof. exact reorder_perm. Qed.
Print Assumptions C04_reorder_total.

(* The same without the well-formedness hypothesis: a chain that binds never hands a call an
   invalid value, whatever the providers do - for every case without Reorder annotations outright,
   otherwise under the positional condition of WfProofs. *)
Theorem C04_run_safe_every_plain_chain : forall c pl b,
  plain_case c = true -> bind_chain c = Ok (pl, b) ->
  forall (W : Type) beh_fn beh_wrap steps (w0 : W),
    ~ In RPanic (snd (run_session W beh_fn beh_wrap b (mkSess W w0 (bd_base0 b) false true) steps)).
Proof. exact run_safe_plain. Qed.
Print Assumptions C04_run_safe_every_plain_chain.

Theorem C04_run_safe_every_bound_chain : forall c pl b,
  bind_chain c = Ok (pl, b) -> runs_after_invoke pl = true ->
  forall (W : Type) beh_fn beh_wrap steps (w0 : W),
    ~ In RPanic (snd (run_session W beh_fn beh_wrap b (mkSess W w0 (bd_base0 b) false true) steps)).
Proof. exact run_safe_bound. Qed.
Print Assumptions C04_run_safe_every_bound_chain.

(* Nothing hangs: the worklist loops of the selection terminate.  They are modelled with fuel; the
   fuel the model gives them is sufficient - the flow-checking passes never report the out-of-fuel
   error (each productive pass takes an include mark away or sets a cannotInclude mark, at most two
   per provider), and eliminateUnused and the keep-closures of proposeEliminations return the same
   result for any larger fuel. *)
Theorem C04_flow_checks_never_out_of_fuel : forall te crd funcs,
  snd (validate_chain te crd funcs) <> Some EB_INTERNAL.
Proof. exact validate_chain_fuel. Qed.
Print Assumptions C04_flow_checks_never_out_of_fuel.

Theorem C04_eliminate_unused_fuel_suffices : forall funcs k,
  elim_unused (length funcs + total_uses funcs + 1 + k) funcs (seq_from 0 (length funcs)) = eliminate_unused funcs.
Proof. exact eliminate_unused_fuel. Qed.
Print Assumptions C04_eliminate_unused_fuel_suffices.

Theorem C04_keep_closure_fuel_suffices : forall useLast groups funcs k,
  let n := length funcs in
  let idx := seq_from 0 n in
  let roots := filter (fun i => flagp (fun p => negb (p_excluded p) &&
                   (p_required p || p_desired p || (p_wanted p && negb (p_wic p)))) funcs i) idx in
  let fuel := (n + 1) * (total_details funcs + 2) + n + 1 in
  keep_closure (fuel + k) useLast groups funcs roots [] = keep_closure fuel useLast groups funcs roots [].
Proof. exact propose_keep_fuel. Qed.
Print Assumptions C04_keep_closure_fuel_suffices.

(* Reorder's topological sort runs on fuel in the model and until its queues are empty in reorder.go.
   The fuel the model gives it is the potential of the start state (queued entries + for every node
   one step and one per before-edge and per produced / received type); with it the sort inside
   reorder_funcs ends with all queues empty and any larger amount of fuel gives the same run, for
   every list of providers: the model's Reorder is the unfuelled algorithm. *)
Theorem C04_reorder_sort_fuel_suffices : forall te funcs,
  let '(st, x1) := reorder_prepare te funcs in
  queues_empty (topo_run te funcs (rs_down st) (rs_up st) (phi te funcs x1) x1) /\
  forall extra, topo_run te funcs (rs_down st) (rs_up st) (phi te funcs x1 + extra) x1
                = topo_run te funcs (rs_down st) (rs_up st) (phi te funcs x1) x1.
Proof. exact reorder_fuel_sufficient. Qed.
Print Assumptions C04_reorder_sort_fuel_suffices.

Theorem C04_reorder_runs_that_sort : forall te funcs,
  reorder_funcs te funcs =
  if negb (existsb is_reorder funcs) then Ok funcs else
  let '(st, x1) := reorder_prepare te funcs in
  let n := length funcs in
  let idx := seq_from 0 n in
  let xf := topo_run te funcs (rs_down st) (rs_up st) (phi te funcs x1) x1 in
  let out := t_out xf in
  let missing := filter (fun i => negb (memb i (t_done xf))) idx in
  let pick i := match getp funcs i with Some p => [p] | None => [] end in
  let result := flat_map pick out ++ flat_map (fun i => map (set_cannot true) (pick i)) missing in
  if length result =? n then Ok result else Err EB_INTERNAL.
Proof. exact reorder_funcs_prepare. Qed.
Print Assumptions C04_reorder_runs_that_sort.

(* non-vacuity: a list with a Reorder'd injector listed before its producer; the start state has
   work queued and the run empties the queues *)
Definition fx_ty (c : nat) : tyinfo := mkTy c false 1 0 true true false [] 0.
Definition fx_te : tyenv := mkTyenv [fx_ty 10; fx_ty 11; fx_ty 12] 1 2 3 4 5.
Definition fx_prov (pid : nat) (cl : classT) (g : groupT) (reo : bool) (ins outs : list nat) : prov :=
  mk_prov (mkSprov (mkPdesc pid 0 0 0 0 (ShFn ins outs) false false false false false false reo false false false false false 0
                            [] None None [] 0 [] false)
                   cl g (mkFlows None (Some outs) (Some ins) None None) false false false false None None).
Definition fx_funcs : list prov :=
  [fx_prov 1 ClInjector GRun false [] [10]; fx_prov 2 ClInjector GRun true [11] [12];
   fx_prov 3 ClInjector GRun false [10] [11]; fx_prov 4 ClFinal GFinal false [12] []].
Example C04_reorder_fuel_nonvacuous :
  existsb is_reorder fx_funcs = true /\
  0 < qlen (snd (reorder_prepare fx_te fx_funcs)) /\
  exists r, reorder_funcs fx_te fx_funcs = Ok r /\ map p_pid r = [1; 3; 2; 4].
Proof. split; [reflexivity|]. split; [vm_compute; repeat constructor|]. eexists. split; [vm_compute; reflexivity|reflexivity]. Qed.
Print Assumptions C04_reorder_fuel_nonvacuous.
