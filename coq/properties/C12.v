(* C12 — Diagnostics describe the chain that actually runs. *)
From Coq Require Import List Arith Bool.
Import ListNotations.
From NJ Require Import Base Registry Classify Select Reorder Machine Spec Bind Conc ConcProofs Refine Chain SpecLemmas WfProofs EndToEnd C03.

(* The debug lock protocol (bindFast under the read lock; a failed Bind replayed under the write
   lock with debugging on): for any mix of failing and succeeding Binds and every schedule, as long
   as some Bind has not returned some Bind can take a step (no deadlock), and every line captured
   while debugging was on was written by the Bind holding the write lock (no cross-talk). *)
Theorem C12_debug_lock : forall fails sched,
  let s := run dstate dstep sched (dinit fails) in
  (dfinished s = false -> exists t s', dstep t s = Some s') /\
  (forall a w, In (a, w) (ds_log s) -> a = w).
Proof. exact debug_lock_no_deadlock_no_crosstalk. Qed.
Print Assumptions C12_debug_lock.

(* What runs is what is marked included: the machine is compiled from the included providers of
   the final working list, in that order — the list the Debugging value is filled from. *)
Theorem C12_included_is_what_runs : forall c pl b,
  bind_chain c = Ok (pl, b) -> plan_wf (bc_te c) pl b = true ->
  exists sp, splan_of (bc_te c) pl = Some sp /\
  forall (W : Type) beh_fn beh_wrap steps (w0 : W),
    let m := run_session W beh_fn beh_wrap b (mkSess W w0 (bd_base0 b) false true) steps in
    let s := sem_session W beh_fn beh_wrap (te_errorT (bc_te c)) sp
                         (mkSsess W w0 (base_env (pl_slots pl) (bd_base0 b)) false true) steps in
    snd m = snd s /\ ss_w W (fst m) = sq_w W (fst s).
Proof. exact chain_refines. Qed.
Print Assumptions C12_included_is_what_runs.

(* End to end, with no hypothesis about the plan (cases without Reorder annotation and init
   function): whatever is logged during any number of invocations of a bound chain, for any number
   of inner() calls by its wrappers, is a provider carrying the include mark in the final working
   list - the marks the Debugging value is filled from.  A provider the report lists as excluded
   never runs. *)
Theorem C12_whatever_runs_is_listed_as_included : forall (c : bcase) (pl : plan) (b : bound),
  plain_case c = true -> bc_init c = None -> bind_chain c = Ok (pl, b) ->
  forall (ncalls : nat -> nat) (k : nat) (x : nat),
    In x (ss_w (list nat) (fst (run_session (list nat) o_fn (o_wrap ncalls) b (mkSess (list nat) [] (bd_base0 b) false true) (repeat DoInvoke k)))) ->
    In x (map p_pid (filter p_include (pl_funcs pl))).
Proof. exact C03_only_included_providers_run. Qed.
Print Assumptions C12_whatever_runs_is_listed_as_included.

Example C12_nonvacuous :
  let s := run dstate dstep [0;1;0;1;0;1;0;0;0;1;1;1;1;1] (dinit [true; false]) in
  dfinished s = true /\ ds_log s = [(0, 0)].
Proof. vm_compute. split; reflexivity. Qed.
Print Assumptions C12_nonvacuous.
