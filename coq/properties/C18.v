(* C18 — Named edits produce exactly the edited list.
   Only statements here; proofs live in proofs/EditsProofs.v. *)
From Coq Require Import List Arith Bool Permutation.
Import ListNotations.
From NJ Require Import Edits Monitors EditsProofs.

(* Every provider of the edited list comes from the input; nothing is lost or duplicated except
   the target blocks named by a ReplaceNamed directive; providers without an edit tag keep their
   relative order.  For all lists, any number of directives and targets. *)
Theorem C18_edited_list : forall l l',
  NoDup (map eid l) -> edits l = EOk l' ->
  (exists removed, Permutation (l' ++ removed) l /\ Forall (replaced_in l) removed) /\
  Sublist (filter untagged l') (filter untagged l).
Proof. exact edits_result. Qed.
Print Assumptions C18_edited_list.

(* A carried-out InsertBeforeNamed leaves the moved block (headed by the tagged provider)
   immediately before the first provider of its target. *)
Theorem C18_insert_before_adjacent : forall n st st' e,
  get_target (ebef n) (names st) = EOk e ->
  mem_id (nfirst e) (cur st) = true ->
  act_before n st = EOk st' ->
  exists p M f q, cur st' = p ++ M ++ f :: q /\ eid f = nfirst e /\
                  match M with [] => False | m :: _ => eid m = eid n end.
Proof. exact act_before_placement. Qed.
Print Assumptions C18_insert_before_adjacent.

(* Without directives the list is untouched. *)
Theorem C18_identity : forall l, existsb tagged l = false -> edits l = EOk l.
Proof. exact edits_identity. Qed.
Print Assumptions C18_identity.

(* Two edit tags on one provider make the edit (hence Bind) fail. *)
Theorem C18_two_tags_fail : forall l n, In n l -> 1 < ntags n -> exists c, edits l = EErr c.
Proof. exact edits_two_tags. Qed.
Print Assumptions C18_two_tags_fail.

(* A directive that is acted upon and whose target name is missing or duplicated fails. *)
Theorem C18_bad_target_fails : forall n st,
  is_processed (eid n) st = false -> tagged n = true -> ntags n <= 1 ->
  (forall name, (name = erep n \/ name = ebef n \/ name = eaft n) -> name <> 0 ->
     match lookup_name name (names st) with None => True | Some e => ndup e = true end) ->
  exists c, act n st = EErr c.
Proof. exact act_missing_target. Qed.
Print Assumptions C18_bad_target_fails.

(* The monitor used on the implementation's observations holds of the model. *)
Theorem C18_monitor_holds_on_model : forall l, mon_C18 l (edits_obs l) = true.
Proof. exact mon_C18_model. Qed.
Print Assumptions C18_monitor_holds_on_model.

(* Non-vacuity: a concrete list with all three directive kinds meets the hypotheses. *)
Example C18_nonvacuous : edits_obs ex_list = EOk [3; 1; 4; 0; 5] /\ NoDup (map eid ex_list).
Proof. exact ex_edits. Qed.
Print Assumptions C18_nonvacuous.
