(* Driver for the extracted Coq model.  Parsing and printing only.

     driver                      reads case lines, prints the model's canonical observation
     driver -monitor Cnn         reads "case<TAB>observation" lines (the observation is the
                                 implementation's), prints PASS / FAIL <why> from mon_Cnn *)
open Model

let rec nat_of_int n = if n <= 0 then O else S (nat_of_int (n - 1))
let rec int_of_nat = function O -> 0 | S n -> 1 + int_of_nat n

let split_ws s = List.filter (fun x -> x <> "") (String.split_on_char ' ' s)
let ints_to_string l = String.concat "" (List.map (fun i -> " " ^ string_of_int (int_of_nat i)) l)

(* ---------- stream "edits" ---------- *)
let parse_edits toks =
  match toks with
  | coll :: n :: rest ->
    let coll = int_of_string coll and n = int_of_string n in
    let a = Array.of_list (List.map int_of_string rest) in
    List.init n (fun i ->
      let o = a.(4*i) in
      let o = if o = 0 then coll else o in
      { eid = nat_of_int i; eorigin = nat_of_int o; erep = nat_of_int a.(4*i+1);
        ebef = nat_of_int a.(4*i+2); eaft = nat_of_int a.(4*i+3) })
  | _ -> failwith "bad edits case"

let show_edits_obs = function
  | EOk ids -> "OK" ^ ints_to_string ids
  | EErr c -> "ERR " ^ string_of_int (int_of_nat c)

(* None = an observation the model can never produce (PANIC, HANG, garbage) *)
let parse_edits_obs s =
  match split_ws s with
  | "OK" :: ids -> Some (EOk (List.map (fun x -> nat_of_int (int_of_string x)) ids))
  | ["ERR"; c] -> Some (EErr (nat_of_int (int_of_string c)))
  | _ -> None

(* ---------- stream "chain": whole pipeline cases ---------- *)
(* K noT unusedT errorT teT debugT | nT (tc iface pkg nmeth mappable mapkey anon nimpl impl.. prod)* | nP provider* |
   invoke: nIns ins.. nOuts outs.. | init: present nIns ins.. nOuts outs.. | nSteps step..     ('|' tokens are separators) *)
let n = nat_of_int
let parse_chain toks =
  let a = Array.of_list (List.filter (fun t -> t <> "|") toks) in
  let pos = ref 0 in
  let next () = let v = int_of_string a.(!pos) in incr pos; v in
  let nexts k = List.init k (fun _ -> n (next ())) in
  let counted () = let k = next () in nexts k in
  let opt_counted () = let k = next () in if k < 0 then None else Some (nexts k) in
  let noT = next () in let unusedT = next () in let errorT = next () in let teT = next () in let debugT = next () in
  let nT = next () in
  let types = List.init nT (fun _ ->
    let tc = next () in let iface = next () in let pkg = next () in let nmeth = next () in
    let mappable = next () in let mapkey = next () in let anon = next () in
    let impl = counted () in let prod = next () in
    { ty_code = n tc; ty_iface = iface <> 0; ty_pkg = n pkg; ty_nmeth = n nmeth; ty_mappable = mappable <> 0;
      ty_mapkey = mapkey <> 0; ty_anonfunc = anon <> 0; ty_impl = impl; ty_prod = n prod }) in
  let te = { te_types = types; te_noT = n noT; te_unusedT = n unusedT; te_errorT = n errorT;
             te_terminalT = n teT; te_debugT = n debugT } in
  let shape () =
    match next () with
    | 0 -> ShNil
    | 1 -> ShLit (n (next ()))
    | 2 -> let i = counted () in let o = counted () in ShFn (i, o)
    | 3 -> let i = counted () in let ii = counted () in let io = counted () in let o = counted () in ShWrap (i, ii, io, o)
    | 4 -> let i = counted () in let o = counted () in ShFnPtr (i, o)
    | 5 -> let i = counted () in let o = counted () in ShNilFn (i, o)
    | _ -> failwith "bad shape" in
  let provider () =
    let pid = next () in let origin = next () in let rep = next () in let bef = next () in let aft = next () in
    let sh = shape () in
    let fl = next () in
    let bit k = (fl lsr k) land 1 = 1 in
    let cluster = next () in
    let loose = counted () in let mc = opt_counted () in let co = opt_counted () in let sa = counted () in
    let failmask = next () in let calls = counted () in let passthru = next () in
    (* annotation bits -> provider flags, as api.go composes them *)
    let a_cacheable = bit 2 and a_mustCache = bit 3 and a_memoize = bit 5 and a_singleton = bit 10 in
    { d_pid = n pid; d_origin = n origin; d_rep = n rep; d_bef = n bef; d_aft = n aft; d_shape = sh;
      d_reflective = bit 0; d_nonFinal = bit 1;
      d_cacheable = a_cacheable || a_mustCache || a_memoize || a_singleton;
      d_mustCache = a_mustCache || a_singleton;
      d_required = bit 4; d_memoize = a_memoize; d_reorder = bit 6; d_desired = bit 7; d_shun = bit 8;
      d_notCacheable = bit 9; d_singleton = a_singleton; d_parallel = bit 11; d_cluster = n cluster;
      d_loose = loose; d_mustConsume = mc; d_consumptionOptional = co; d_shadowingAllowed = sa;
      d_failmask = n failmask; d_calls = calls; d_passthru = passthru <> 0 } in
  let nP = next () in
  let provs = List.init nP (fun _ -> provider ()) in
  let plain pid sh = { d_pid = n pid; d_origin = O; d_rep = O; d_bef = O; d_aft = O; d_shape = sh;
      d_reflective = false; d_nonFinal = false; d_cacheable = false; d_mustCache = false; d_required = false;
      d_memoize = false; d_reorder = false; d_desired = false; d_shun = false; d_notCacheable = false;
      d_singleton = false; d_parallel = false; d_cluster = O; d_loose = []; d_mustConsume = None;
      d_consumptionOptional = None; d_shadowingAllowed = []; d_failmask = O; d_calls = []; d_passthru = false } in
  let inv = (let i = counted () in let o = counted () in plain 92 (ShFnPtr (i, o))) in
  let init = (let present = next () in let i = counted () in let o = counted () in
              if present <> 0 then Some (plain 91 (ShFnPtr (i, o))) else None) in
  let nS = next () in
  let sess = List.init nS (fun _ -> next () <> 0) in
  (* optional: how invoke / init are passed to Bind: 0 pointer to func, 1 plain func, 2 nil, 3 pointer to a non-func *)
  let kind () = if !pos < Array.length a then next () else 0 in
  let invKind = kind () in let initKind = kind () in
  let _regroup = kind () in
  let rekind k (d : pdesc) = match k, d.d_shape with
    | 1, ShFnPtr (i, o) -> { d with d_shape = ShFn (i, o) }
    | 2, _ -> { d with d_shape = ShNil }
    | 3, _ -> { d with d_shape = ShLit (n 0) }
    | _, _ -> d in
  let inv = rekind invKind inv in
  let init = (match init with Some d -> Some (rekind initKind d) | None -> None) in
  (te, { bc_te = te; bc_provs = provs; bc_invoke = inv; bc_init = init; bc_session = sess })

let show_val te v =
  let special t = if t = te.te_unusedT then Some "u" else if t = te.te_debugT then Some "d" else None in
  match v with
  | VTag (t, p, s) -> (match special t with Some x -> x | None ->
      Printf.sprintf "%d.%d.%d" (int_of_nat t) (int_of_nat p) (int_of_nat s))
  | VErr (p, s) -> Printf.sprintf "e.%d.%d" (int_of_nat p) (int_of_nat s)
  | VZero t ->
    if t = te.te_unusedT then "u"
    else if is_iface te t || t = te.te_errorT || t = te.te_terminalT || t = te.te_debugT then "nil"
    else Printf.sprintf "%d.0.0" (int_of_nat t)
  | VInvalid -> "!"
let show_vals te l = "(" ^ String.concat "," (List.map (show_val te) l) ^ ")"

let show_obs te (o : obs) =
  match o.o_bind with
  | Err c -> "BIND err " ^ string_of_int (int_of_nat c) ^ " ; UNTOUCHED 1"
  | Panic c -> "BIND panic " ^ string_of_int (int_of_nat c)
  | Ok _ ->
    let b = Buffer.create 256 in
    Buffer.add_string b "BIND ok ; ORDER";
    List.iter (fun (((pid, cl), gr), inc) ->
      Buffer.add_string b (Printf.sprintf " %d:%d:%d:%d" (int_of_nat pid) (int_of_nat cl) (int_of_nat gr) (if inc then 1 else 0)))
      o.o_order;
    Buffer.add_string b " ; RMAP";
    List.iter (fun (((pid, d), u), bp) ->
      if d <> [] || u <> [] || bp <> [] then begin
        Buffer.add_string b (Printf.sprintf " %d" (int_of_nat pid));
        List.iter (fun (x, y) -> Buffer.add_string b (Printf.sprintf ":d%d>%d" (int_of_nat x) (int_of_nat y))) d;
        List.iter (fun (x, y) -> Buffer.add_string b (Printf.sprintf ":u%d>%d" (int_of_nat x) (int_of_nat y))) u;
        List.iter (fun (x, y) -> Buffer.add_string b (Printf.sprintf ":b%d>%d" (int_of_nat x) (int_of_nat y))) bp
      end) o.o_rmaps;
    Buffer.add_string b " ; RES";
    List.iter (fun r -> Buffer.add_string b (match r with
      | RInit vs -> " i" ^ show_vals te vs
      | RInvoke vs -> " x" ^ show_vals te vs
      | RPanic -> " P"
      | RNoInit -> " N")) o.o_results;
    Buffer.add_string b " ; LOG";
    List.iter (fun e -> Buffer.add_string b (match e with
      | ECall (p, a, r) -> Printf.sprintf " C%d%s>%s" (int_of_nat p) (show_vals te a) (show_vals te r)
      | EEnter (p, a) -> Printf.sprintf " E%d%s" (int_of_nat p) (show_vals te a)
      | EInner (p, k, a) -> Printf.sprintf " I%d.%d%s" (int_of_nat p) (int_of_nat k) (show_vals te a)
      | EInnerRet (p, k, a) -> Printf.sprintf " J%d.%d%s" (int_of_nat p) (int_of_nat k) (show_vals te a)
      | ELeave (p, a) -> Printf.sprintf " L%d%s" (int_of_nat p) (show_vals te a))) o.o_log;
    Buffer.add_string b (if not o.o_wf then " ; WF 0" else if o.o_sc then " ; WF 1" else " ; WF 2");
    Buffer.contents b

(* ---------- concurrency scenarios: run the interleaving model (Conc.v) on a round-robin schedule;
   by the theorems of ConcProofs.v the canonical summary is the same for every schedule ---------- *)
let round_robin nthreads rounds =
  List.concat (List.init rounds (fun _ -> List.init nthreads (fun t -> nat_of_int t)))

let model_conc toks =
  match toks with
  | "M" :: _seed :: mode :: nchains :: ng :: nuses :: keys ->
    let mode = int_of_string mode and nchains = int_of_string nchains and ng = int_of_string ng and nuses = int_of_string nuses in
    let keys = Array.of_list (List.map int_of_string keys) in
    let chain_key i = keys.(i mod Array.length keys) in
    (* one model thread per use; its key as the harness computes it *)
    if mode = 4 then begin
      (* inputs that cannot be map keys: the model of direct calls (ustep), one thread per use *)
      let nu = ng * nuses in
      let s = run ustep (round_robin nu 2) (uinit (nat_of_int nu)) in
      let returned = List.length (List.filter (fun th -> int_of_nat th.u_pc = 3) s.us_threads) in
      if returned = nu then Printf.sprintf "MEMO-UNHASHABLE uses=%d calls=%d" nu (List.length s.us_calls)
      else "MODEL-UNEXPECTED"
    end else
    let uses = List.concat (List.init ng (fun g -> List.init nuses (fun u ->
      let k = if mode = 2 then chain_key ((g + u) mod nchains) else keys.(g * nuses + u) in
      if mode = 3 then min k 4 else k))) in
    let s = run mstep (round_robin (List.length uses) (4 * List.length uses + 4)) (minit (List.map nat_of_int uses)) in
    let distinct = List.sort_uniq compare uses in
    let ok = List.for_all (fun k -> List.length (calls_for (nat_of_int k) s) = 1) distinct in
    if ok then Printf.sprintf "MEMO keys=%d one_call_per_key same_result" (List.length s.ms_cache)
    else "MODEL-UNEXPECTED"
  | ["O"; _seed; nchains; ng] ->
    let nchains = int_of_string nchains and ng = int_of_string ng in
    (* the singleton across all chains, and the static chain of each chain: one-key instances *)
    let s = run mstep (round_robin (ng * nchains) (4 * ng * nchains + 4)) (minit (List.init (ng * nchains) (fun _ -> O))) in
    Printf.sprintf "ONCE chains=%d singleton=%d static_once init_same" nchains (List.length (calls_for O s))
  | "S" :: _ -> "ISOLATED same_as_alone static_once"
  | ["D"; _seed; ng; fails] ->
    let ng = int_of_string ng and fails = int_of_string fails in
    let fl = List.init ng (fun g -> (fails lsr g) land 1 = 1) in
    let s = run dstep (round_robin ng (8 * ng + 8)) (dinit fl) in
    if dfinished s && List.for_all (fun (a, w) -> a = w) s.ds_log
    then Printf.sprintf "DEBUGLOCK binds=%d failing=%d all_returned prefix_ok no_crosstalk" ng (List.length (List.filter (fun b -> b) fl))
    else "MODEL-UNEXPECTED"
  | _ -> "UNKNOWN-CASE"

(* ---------- dispatch ---------- *)
let split_on_sep s =   (* split on " ## " *)
  let rec go acc cur i =
    if i >= String.length s then List.rev (Buffer.contents cur :: acc)
    else if i + 3 < String.length s && String.sub s i 4 = " ## " then begin
      let piece = Buffer.contents cur in Buffer.clear cur; go (piece :: acc) cur (i + 4) end
    else begin Buffer.add_char cur s.[i]; go acc cur (i + 1) end in
  go [] (Buffer.create 256) 0

let model_k kline =
  match split_ws kline with
  | "K" :: rest -> let (te, c) = parse_chain rest in show_obs te (model_run c)
  | _ -> "UNKNOWN-CASE"

let model_line line =
  match split_ws line with
  | "E" :: rest -> show_edits_obs (edits_obs (parse_edits rest))
  | "K" :: rest -> let (te, c) = parse_chain rest in show_obs te (model_run c)
  | ("M" | "O" | "S" | "D") :: _ as toks -> model_conc toks
  | "PAIR" :: _ ->
    (match split_on_sep line with
     | [_; a; b] -> model_k a ^ " ## " ^ model_k b
     | _ -> "UNKNOWN-CASE")
  | "Y" :: rest ->
    (* Curry: the original function is called with the passed arguments and the injected values in place *)
    let a = Array.of_list (List.map int_of_string rest) in
    let pos = ref 0 in
    let next () = let v = a.(!pos) in incr pos; v in
    let counted () = let k = next () in List.init k (fun _ -> next ()) in
    let orig = counted () in let cur = counted () in let outs = counted () in let steps = next () in
    (match curry_plan (fun t -> int_of_nat t = 20) (List.map n orig) (List.map n cur) with
     | None -> "CURRY err"
     | Some plan ->
       let show (t, p, s) = if t = 20 then "f" else Printf.sprintf "%d.%d.%d" t p s in
       let log = List.concat (List.init steps (fun j ->
           let j = j + 1 in
           let passed = List.mapi (fun cp t -> (t, 70 + cp, j)) cur in
           let injected = List.map (fun t -> (int_of_nat t, 10, j)) plan.cp_curried in
           let args = curry_args (0, 0, 0) plan passed injected in
           ["O(" ^ String.concat "," (List.map show args) ^ ")";
            "R(" ^ String.concat "," (List.map (fun t -> show (t, 60, j)) outs) ^ ")"])) in
       "CURRY ok ; LOG " ^ String.concat " " log)
  | "V" :: rest ->
    let a = Array.of_list (List.map int_of_string rest) in
    let pos = ref 0 in
    let next () = let v = a.(!pos) in incr pos; v in
    let counted () = let k = next () in List.init k (fun _ -> next ()) in
    let tys = counted () in let steps = next () in
    (match saveto_plan (fun t -> int_of_nat t = 20) (List.map n tys) with
     | None -> "SAVETO err"
     | Some ins ->
       let log = List.init steps (fun j ->
           "S(" ^ String.concat "," (List.map (fun t -> Printf.sprintf "%d.10.%d" (int_of_nat t) (j + 1)) ins) ^ ")") in
       "SAVETO ok ; LOG " ^ String.concat " " log)
  | "F" :: rest ->
    let a = Array.of_list (List.map int_of_string rest) in
    let pos = ref 0 in
    let next () = let v = a.(!pos) in incr pos; v in
    let counted () = let k = next () in List.init k (fun _ -> next ()) in
    let ptr = next () <> 0 in
    let nacts = next () in
    let act_params : (int, (nat * bool) list * int) Hashtbl.t = Hashtbl.create 8 in
    let acts = List.init nacts (fun _ ->
        let id = next () in let kind = next () in let karg = next () in let typ = next () in
        let p = next () <> 0 in let fs = next () <> 0 in let fl = next () <> 0 in
        let extras = counted () in let fpos = next () in
        (* the function's parameters; the one that stands for the field is the model's field_param *)
        let params = List.concat (List.init (List.length extras + 1) (fun i ->
            (if i = fpos then [(n typ, p)] else []) @
            (if i < List.length extras then [(n (List.nth extras i), false)] else []))) in
        let idx = (match field_param (n typ) params (n 0) with
            | Some (k, _) -> int_of_nat k | None -> 0) in
        Hashtbl.replace act_params id (params, idx);
        { a_id = n id; a_kind = (match kind with 0 -> AByTag (n karg) | 1 -> AByName (n karg) | _ -> AByType);
          a_params = params; a_fillSet = fs; a_fill = fl }) in
    let tid = ref 1000 in
    let rec shape () =
      if next () = 0 then FLeaf (n (next ()))
      else begin
        let _static = next () in
        incr tid; let my = !tid in
        let nf = next () in
        let fields = List.init nf (fun _ ->
            let ex = next () <> 0 in let name = next () in let tags = counted () in
            let sh = shape () in MkFfield (ex, n name, List.map n tags, sh)) in
        FStruct (n my, fields)
      end in
    let model = shape () in
    let steps = next () in
    (match struct_plan acts ptr model with
     | None -> "FILL err"
     | Some plan ->
       (* value trees: leaves are (type, producer, step) *)
       let rec zero ft = (match ft with
           | FLeaf t -> VL (int_of_nat t, 0, 0)
           | FStruct (_, fields) -> VS (List.map (fun (MkFfield (_, _, _, sh)) -> zero sh) fields)) in
       let rec whole j ft = (match ft with
           | FLeaf t -> VL (int_of_nat t, 50, j)
           | FStruct (_, fields) -> VS (List.map (fun (MkFfield (ex, _, _, sh)) -> if ex then whole j sh else zero sh) fields)) in
       let rec type_at path ft = (match path, ft with
           | [], _ -> ft
           | i :: r, FStruct (_, fields) -> (match List.nth fields (int_of_nat i) with MkFfield (_, _, _, sh) -> type_at r sh)
           | _, _ -> ft) in
       let rec leaves v = (match v with VL x -> [x] | VS l -> List.concat_map leaves l) in
       let show (t, p, s) = Printf.sprintf "%d.%d.%d" t p s in
       let out = List.init steps (fun j ->
           let j = j + 1 in
           let vals = List.map (fun (_, path) -> (match type_at path model with
               | FLeaf t -> VL (int_of_nat t, 10, j)
               | st -> whole j st)) plan.fp_inputs in
           let tree = fill plan (zero model) vals in
           let log = List.map (fun ((aid, path), addr) ->
               let (params, idx) = Hashtbl.find act_params (int_of_nat aid) in
               let fieldv = (match vget path tree with
                   | Some (VL x) -> (if addr then "&" else "") ^ show x
                   | _ -> "?") in
               let args = List.mapi (fun i (t, _) -> if i = idx then fieldv else show (int_of_nat t, 10, j)) params in
               Printf.sprintf "A%d(%s)" (int_of_nat aid) (String.concat "," args)) plan.fp_acts in
           "LOG " ^ String.concat " " log ^ " ; V " ^ String.concat " " (List.map show (leaves tree))) in
       "FILL ok ; " ^ String.concat " ; " out)
  | "N" :: _ ->
    (* Condense: the condensed provider's signature, the public flows of the raw collection, and the
       collection bound directly with that signature *)
    (match split_on_sep line with
     | [hdr; k] ->
       let _treat = (match split_ws hdr with [_; t] -> t = "1" | _ -> false) in
       (match split_ws k with
        | "K" :: rest ->
          let (te, c) = parse_chain rest in
          let ints l = String.concat "," (List.map (fun x -> string_of_int (int_of_nat x)) l) in
          let (rdi, rdo) = raw_down_flows te c.bc_provs and (rui, ruo) = raw_up_flows te c.bc_provs in
          let flows = Printf.sprintf "RAWDOWN %s>%s ; RAWUP %s>%s" (ints rdi) (ints rdo) (ints rui) (ints ruo) in
          (match condense_sig te c.bc_provs with
           | Ok cs ->
             let has_err = List.mem te.te_errorT cs.cs_out in
             let outs = List.filter (fun t -> t <> te.te_errorT) cs.cs_out in
             let inv_outs = outs @ (if has_err then [te.te_errorT] else []) in
             let c' = { c with bc_invoke = { c.bc_invoke with d_shape = ShFnPtr (cs.cs_in, inv_outs) } } in
             let o = model_run c' in
             (match o.o_bind with
              | Ok _ -> Printf.sprintf "CONDENSE ok ; SIG %s>%s e%d ; %s ## %s ## -" (ints cs.cs_in) (ints outs) (if has_err then 1 else 0) flows (show_obs te o)
              | _ -> "CONDENSE err ; " ^ flows)
           | _ -> "CONDENSE err ; " ^ flows)
        | _ -> "UNKNOWN-CASE")
     | _ -> "UNKNOWN-CASE")
  | "H" :: _ ->
    (* history-independence: whatever happened before, the collection behaves like its flat list *)
    (match split_on_sep line with
     | [_; a; e3; l] ->
       let oa = model_k a and oe = model_k e3 and ol = model_k l in
       String.concat " ## " [oa; oa; oa; oa; oa; oe; ol; oa]
     | _ -> "UNKNOWN-CASE")
  | _ -> "UNKNOWN-CASE"

let verdict b why = if b then "PASS" else "FAIL " ^ why

(* ---------- monitors for whole-chain cases: the property's projection of the implementation's
   observation must equal the same projection of the (proved) model's observation ---------- *)
let split_sections s =
  List.map (fun sec -> match split_ws sec with h :: t -> (h, t) | [] -> ("", []))
    (String.split_on_char ';' s)
let sec name secs = try List.assoc name secs with Not_found -> []
let starts_with c t = String.length t > 0 && t.[0] = c
let before ch t = match String.index_opt t ch with Some i -> String.sub t 0 i | None -> t
let strip_wf s =
  let n = String.length s in
  if n >= 7 && String.sub s (n - 7) 5 = " ; WF" then String.sub s 0 (n - 7) else s

let rmap_part c tok =   (* keep pid and the :d.. or :u.. entries *)
  match String.split_on_char ':' tok with
  | pid :: es -> pid ^ String.concat "" (List.filter_map (fun e -> if starts_with c e then Some (":" ^ e) else None) es)
  | [] -> tok

let has_class secs cls =
  List.exists (fun t -> match String.split_on_char ':' t with
    | [_; c; _; "1"] -> List.mem c cls | _ -> false) (sec "ORDER" secs)

let projection prop secs =
  let bind = sec "BIND" secs in
  let status = match bind with st :: _ -> [st] | [] -> ["?"] in
  let log = sec "LOG" secs and res = sec "RES" secs and order = sec "ORDER" secs and rmap = sec "RMAP" secs in
  match prop with
  | "C01" -> status @ List.map (rmap_part 'd') rmap
             @ List.filter_map (fun t -> if starts_with 'C' t || starts_with 'E' t then Some (before '>' t) else None) log
  | "C02" -> status @ List.map (rmap_part 'u') rmap
             @ List.filter (starts_with 'J') log @ List.filter (starts_with 'x') res
  | "C05" -> status @ order @ List.map (before '(') log
  | "C07" -> if has_class secs ["1"; "2"] then status @ log @ res else status
  | "C03" | "C03strict" -> status @ order @ List.sort_uniq compare (List.filter_map (fun t ->
               if starts_with 'C' t || starts_with 'E' t then Some (before '(' t) else None) log)
  | "C04" -> status @ sec "UNTOUCHED" secs @ List.map (fun t -> if t = "P" then "P" else "-") res
  | "C06" -> status @ order @ List.filter (starts_with 'C') (List.map (before '(') log) @ List.filter (starts_with 'i') res
  | "C17" -> status @ order @ List.map (rmap_part 'd') rmap
             @ List.filter_map (fun t -> if starts_with 'C' t || starts_with 'E' t then Some (before '>' t) else None) log
  | "C15" | "C14" | "C16" -> status @ order
  | _ -> status @ order @ rmap @ res @ log

let first_diff a b =
  let rec go i a b = match a, b with
    | [], [] -> "-"
    | x :: a', y :: b' -> if x = y then go (i + 1) a' b' else Printf.sprintf "item %d: implementation %s, reference %s" i x y
    | x :: _, [] -> Printf.sprintf "item %d: implementation has extra %s" i x
    | [], y :: _ -> Printf.sprintf "item %d: implementation lacks %s" i y in
  go 0 a b

(* the implementation's plan (ORDER + RMAP) as a list of oprov *)
let parse_plan secs =
  let rm = List.map (fun tok -> match String.split_on_char ':' tok with
      | pid :: es -> (int_of_string pid, es) | [] -> (0, [])) (sec "RMAP" secs) in
  let pairs c es = List.filter_map (fun e ->
      if starts_with c e then
        (match String.split_on_char '>' (String.sub e 1 (String.length e - 1)) with
         | [a; b] -> Some (n (int_of_string a), n (int_of_string b)) | _ -> None)
      else None) es in
  List.map (fun tok -> match String.split_on_char ':' tok with
      | [pid; cl; gr; inc] ->
        let pid = int_of_string pid in
        let es = try List.assoc pid rm with Not_found -> [] in
        { op_pid = n pid; op_class = n (int_of_string cl); op_group = n (int_of_string gr); op_inc = (inc = "1");
          op_down = pairs 'd' es; op_up = pairs 'u' es; op_bypass = pairs 'b' es }
      | _ -> failwith "bad ORDER token") (sec "ORDER" secs)

let monitor_chain prop case_toks impl =
  let (te, c) = parse_chain case_toks in
  let model = strip_wf (show_obs te (model_run c)) in
  let impl_secs = split_sections impl and model_secs = split_sections model in
  if not (starts_with 'B' impl) then "FAIL implementation did not return an observation: " ^ impl
  else
    let pi = projection prop impl_secs and pm = projection prop model_secs in
    (* a Bind error class is informational: err matches err *)
    if pi <> pm then "FAIL " ^ prop ^ " projection differs at " ^ first_diff pi pm
    else if sec "BIND" impl_secs <> [] && List.hd (sec "BIND" impl_secs) = "ok" then begin
      (* independent plan-level monitors, evaluated on what the implementation decided *)
      match prop with
      | "C03" -> verdict (mon_C03_plan c (parse_plan model_secs) (parse_plan impl_secs))
                   "a Required provider is excluded, or an included provider is neither Required/Desired/auto-desired/clustered nor has anything it produces actually received"
      | "C03strict" -> verdict (mon_C03_plan_strict c (parse_plan impl_secs))
                   "an included provider is neither Required/Desired/auto-desired/clustered nor has anything it produces actually received"
      | "C17" ->
        (* providers not marked Reorder keep their listed relative order (within the static and
           within the per-invocation part; edits are absent from this stream) *)
        let provs = c.bc_provs in
        let listed =   (* NonFinal adjustment: the last provider not marked NonFinal goes to the end *)
          let rec split_last = function
            | [] -> None
            | x :: r -> (match split_last r with
                | Some (pre, f, post) -> Some (x :: pre, f, post)
                | None -> if x.d_nonFinal then None else Some ([], x, r)) in
          (match split_last provs with Some (pre, f, post) -> pre @ post @ [f] | None -> provs) in
        let fixed = List.filter_map (fun d -> if d.d_reorder then None else Some (int_of_nat d.d_pid)) listed in
        let side g = List.filter_map (fun t -> match String.split_on_char ':' t with
            | [p; _; gr; _] when List.mem gr g && List.mem (int_of_string p) fixed -> Some (int_of_string p)
            | _ -> None) (sec "ORDER" impl_secs) in
        let keep l = List.filter (fun p -> List.mem p l) fixed in
        let st = side ["1"; "2"] and rn = side ["3"; "4"] in
        verdict (st = keep st && rn = keep rn) "a provider that is not marked Reorder changed its position relative to another one"
      | "C12" ->
        (* what the Debugging value says must be the chain actually built: the included providers'
           names in the order of the final working list, and one INCLUDED/EXCLUDED line each *)
        (match sec "DBG" impl_secs with
         | [] -> "PASS (no provider received a Debugging value)"
         | names :: rest ->
           let name_of pid = match pid with
             | 90 -> "Debugging" | 91 -> "_initialization_func" | 92 -> "_invoke_func"
             | 93 -> "provide_unused" | 94 -> "return_unused" | p -> "n" ^ string_of_int (100 + p) in
           let ents = List.filter_map (fun t -> match String.split_on_char ':' t with
               | [p; _; _; inc] -> Some (int_of_string p, inc = "1") | _ -> None) (sec "ORDER" impl_secs) in
           let expect = String.concat "," (List.map (fun (p, _) -> name_of p) (List.filter snd ents)) in
           let ninc = List.length (List.filter snd ents) and nexc = List.length (List.filter (fun (_, i) -> not i) ents) in
           let want = [Printf.sprintf "inc=%d" ninc; Printf.sprintf "exc=%d" nexc; Printf.sprintf "n=%d" ninc] in
           if names <> expect then "FAIL Debugging.NamesIncluded is " ^ names ^ " but the chain built runs " ^ expect
           else if rest <> want then "FAIL Debugging counts " ^ String.concat " " rest ^ " but the chain built has " ^ String.concat " " want
           else "PASS")
      | "C15" -> verdict (mon_C15_plan c (parse_plan impl_secs))
                   "a returned type is received by nobody above (and not ConsumptionOptional), or a wrapper overrides an un-received return from below without AllowReturnShadowing"
      | _ -> "PASS"
    end else "PASS"

let user_included secs =
  List.sort compare (List.filter_map (fun t -> match String.split_on_char ':' t with
    | [pid; _; _; "1"] when int_of_string pid < 90 -> Some (int_of_string pid) | _ -> None) (sec "ORDER" secs))

(* drop the argument [a] (a whole value: "d" or "u") from the argument lists of a LOG/RES token *)
let strip_arg a tok =
  let b = Buffer.create 32 in
  let n = String.length tok in
  let i = ref 0 in
  while !i < n do
    let ch = tok.[!i] in
    if ch = '(' then begin
      let j = ref (!i + 1) in
      while !j < n && tok.[!j] <> ')' do incr j done;
      let inner = String.sub tok (!i + 1) (!j - !i - 1) in
      let vals = if inner = "" then [] else String.split_on_char ',' inner in
      Buffer.add_char b '(';
      Buffer.add_string b (String.concat "," (List.filter (fun v -> v <> a) vals));
      i := !j
    end else begin Buffer.add_char b ch; incr i end
  done;
  Buffer.contents b

let monitor_pair prop case obs =
  match split_on_sep case, split_on_sep obs with
  | [hdr; ka; _kb], [oa; ob] ->
    if not (starts_with 'B' oa && starts_with 'B' ob) then "FAIL implementation did not return an observation: " ^ obs else
    let sa = split_sections oa and sb = split_sections ob in
    let ok secs = (match sec "BIND" secs with "ok" :: _ -> true | _ -> false) in
    (match split_ws hdr with
     | ["PAIR"; "desired"; pid] when prop = "C14" ->
       if not (ok sa) then "PASS" else
       let inc = List.exists (fun t -> match String.split_on_char ':' t with
           | [p; _; _; "1"] -> p = pid | _ -> false) (sec "ORDER" sa) in
       if inc <> ok sb then
         Printf.sprintf "FAIL Desired provider %s is %s but the chain with it Required %s" pid
           (if inc then "included" else "excluded") (if ok sb then "binds" else "does not bind")
       else if inc && (sec "ORDER" sa <> sec "ORDER" sb || sec "RES" sa <> sec "RES" sb || sec "LOG" sa <> sec "LOG" sb)
       then "FAIL the chain with the provider Desired and the chain with it Required behave differently"
       else "PASS"
     | ["PAIR"; "prune"; _] when prop = "C16" || prop = "C16strict" ->
       if not (ok sa) then "PASS" else
       (* known finding D6: claimed where the faithful model's plan is justified *)
       let (_, c) = (match split_ws ka with "K" :: rest -> parse_chain rest | _ -> failwith "bad K") in
       (* D6 (the keep-set is never pruned again) shows in the full chain as an included provider that
          nothing receives anything from; only such a chain can lose a further provider when the
          excluded ones are deleted *)
       let d6 = not (mon_C03_plan_strict c (parse_plan sa)) in
       (* ... and the trial eliminations depend on the Shun'd providers tried first, nject's own
          Shun'd Unused providers (93, 94) among them: with one present the order of the trials, hence
          the fixed point reached, differs from that of the pruned chain (D6b, D6e) *)
       let shun = List.exists (fun d -> d.d_shun) c.bc_provs
                  || List.exists (fun t -> match String.split_on_char ':' t with
                                   | p :: _ -> p = "93" || p = "94" | [] -> false) (sec "ORDER" sa) in
       if (d6 || shun) && prop = "C16" then "PASS (D6 region: the full chain keeps a provider that nothing receives anything from, or a Shun'd provider / nject's own Shun'd Unused provider is present)" else
       if not (ok sb) then "FAIL the chain no longer binds once its excluded providers are deleted"
       else if user_included sa <> user_included sb then "FAIL deleting the excluded providers changes which providers are included"
       else if sec "RES" sa <> sec "RES" sb || sec "LOG" sa <> sec "LOG" sb then "FAIL deleting the excluded providers changes the behaviour"
       else "PASS"
     | ["PAIR"; "displace"; pid] when prop = "C17" || prop = "C17strict" ->
       let pidn = int_of_string pid in
       let (te, c) = (match split_ws ka with "K" :: rest -> parse_chain rest | _ -> failwith "bad K") in
       let noT = te.te_noT and teT = te.te_terminalT in
       let down_outs (d : pdesc) = match d.d_shape with
         | ShLit t -> [t] | ShFn (_, o) -> List.filter (fun t -> t <> teT) o | ShWrap (_, ii, _, _) -> ii
         | ShFnPtr (i, _) -> i | _ -> [] in
       let ins (d : pdesc) = match d.d_shape with ShFn (i, _) -> i | ShWrap (i, _, _, _) -> i | _ -> [] in
       let all = c.bc_provs @ [c.bc_invoke] @ (match c.bc_init with Some i -> [i] | None -> []) in
       let moved = List.find (fun d -> int_of_nat d.d_pid = pidn) c.bc_provs in
       let producers t = List.length (List.filter (fun d -> List.mem t (down_outs d)) all) in
       ignore noT;
       let unique_out = List.for_all (fun t -> producers t = 1) (down_outs moved) in
       (* nject's own Unused provider is one more source of Unused *)
       let single_src = List.for_all (fun t -> producers t = 1 && t <> te.te_unusedT) (ins moved) in
       (* the displaced injector may itself be Cacheable (static in the base, per invocation once it is
          Reorder'd: "functions marked Reorder are ineligible for the static set"); then whatever must
          be static (MustCache, Singleton) downstream of it may legitimately stop binding *)
       let moved_static = moved.d_cacheable in
       let must_static = List.exists (fun d -> d.d_mustCache || d.d_singleton) c.bc_provs in
       if not (ok sa) then "PASS" else
       let all_inc = List.for_all (fun t -> match String.split_on_char ':' t with
           | [p; _; _; inc] -> int_of_string p >= 90 || inc = "1" | _ -> true) (sec "ORDER" sa) in
       if not (all_inc && unique_out && single_src) then "PASS (outside the scope of the statement)" else
       if moved_static && must_static then "PASS (outside the scope: a provider that must be static may depend on the displaced one)" else
       (* what the init function returns must come from the static part: a Cacheable injector that feeds
          it cannot be made per-invocation (observation O5: Bind accepts that and init returns zero) *)
       let init_rets = (match c.bc_init with Some { d_shape = ShFnPtr (_, o); _ } -> o | _ -> []) in
       if moved_static && List.exists (fun t -> List.mem t init_rets) (down_outs moved) then
         "PASS (outside the scope: the init function returns a value of the displaced Cacheable injector)" else
       (* with an init function the static part runs when init is called; a session that invokes first
          sees no static values in the base chain, but per-invocation ones in the variant *)
       if moved_static && c.bc_init <> None && (match c.bc_session with true :: _ -> true | _ -> false) then
         "PASS (outside the scope: the session invokes before it calls init, so the static injector has not run in the base chain)" else
       let strip tok =    (* drop serials: t.p.s -> t.p *)
         let b = Buffer.create 32 in
         let parts = String.split_on_char '.' tok in
         ignore parts;
         (* a value is digits.digits.digits inside parentheses; rewrite with a small scanner *)
         let n = String.length tok in
         let i = ref 0 in
         while !i < n do
           let ch = tok.[!i] in
           if (ch = '(' || ch = ',') then begin
             Buffer.add_char b ch; incr i;
             (* read value up to , or ) *)
             let j = ref !i in
             while !j < n && tok.[!j] <> ',' && tok.[!j] <> ')' do incr j done;
             let v = String.sub tok !i (!j - !i) in
             (match String.split_on_char '.' v with
              | [t; p; _] -> Buffer.add_string b (t ^ "." ^ p)
              | _ -> Buffer.add_string b v);
             i := !j
           end else begin Buffer.add_char b ch; incr i end
         done;
         Buffer.contents b in
       (* a Cacheable injector that was static runs per invocation once Reorder'd, and so do its static
          consumers: compare which calls occur (with which producers), not how often *)
       let proj secs =
         let l = List.sort compare (List.map strip (sec "LOG" secs)) in
         (if moved_static then List.sort_uniq compare l else l) @ List.map strip (sec "RES" secs) in
       if not (ok sb) then "FAIL the chain no longer binds with the injector marked Reorder and listed elsewhere"
       else if user_included sa <> user_included sb then "FAIL displacing the Reorder'd injector changes which providers are included"
       else if proj sa <> proj sb then "FAIL after displacing the Reorder'd injector some value comes from a different producer: " ^ first_diff (proj sb) (proj sa)
       else "PASS"
     | ["PAIR"; "dbgneutral"; pid] when prop = "C12" ->
       (* the variant's provider [pid] has one more (last) parameter: drop it from its call records *)
       let drop_last tok =
         if not (tok = "" ) && (tok.[0] = 'C' || tok.[0] = 'E')
            && (before '(' tok = "C" ^ pid || before '(' tok = "E" ^ pid) then begin
           match String.index_opt tok '(', String.index_opt tok ')' with
           | Some i, Some j ->
             let inner = String.sub tok (i + 1) (j - i - 1) in
             let vals = String.split_on_char ',' inner in
             let vals = List.rev (match List.rev vals with _ :: r -> r | [] -> []) in
             String.sub tok 0 (i + 1) ^ String.concat "," vals ^ String.sub tok j (String.length tok - j)
           | _ -> tok
         end else tok in
       let no_d secs name = if secs == sb then List.map drop_last (sec name secs) else sec name secs in
       let others secs = List.filter (fun p -> p <> int_of_string pid) (user_included secs) in
       let asker secs = List.mem (int_of_string pid) (user_included secs) in
       if ok sa <> ok sb then "FAIL asking for *Debugging changes whether the chain binds"
       else if not (ok sa) then "PASS"
       else if others sa <> others sb then "FAIL asking for *Debugging changes which other providers are included"
       else if asker sa <> asker sb then "PASS (the asking provider itself is no longer included; the others are unchanged)"
       else if no_d sa "RES" <> no_d sb "RES" || no_d sa "LOG" <> no_d sb "LOG" then "FAIL asking for *Debugging changes the behaviour"
       else "PASS"
     | ["PAIR"; "cacheperm"; pid] when prop = "C06" ->
       (* sa: with the Cacheable mark, sb: without it *)
       if ok sb then begin
         (* the clause at stake: a provider whose inputs depend on a per-invocation value is never hoisted.
            In the chain without the mark, did the provider receive a value produced per invocation? *)
         let group_of p = List.fold_left (fun acc t -> match String.split_on_char ':' t with
             | [q; cl; g; _] when q = p -> if cl = "8" then "init" else g | _ -> acc) "?" (sec "ORDER" sb) in
         let args tok = (match String.index_opt tok '(', String.index_opt tok ')' with
             | Some i, Some j when j > i + 1 -> String.split_on_char ',' (String.sub tok (i + 1) (j - i - 1))
             | _ -> []) in
         let per_invocation v = (match String.split_on_char '.' v with
             | [_; prod; _] -> (match group_of prod with "0" | "3" | "4" -> true | _ -> false)
             | _ -> false) in
         let dep = List.exists (fun tok -> before '(' tok = "C" ^ pid && List.exists per_invocation (args tok)) (sec "LOG" sb) in
         if dep && not (ok sa) then
           "FAIL the chain binds without the Cacheable mark on provider " ^ pid ^ " but not with it, although the provider's inputs are per-invocation values (it must simply not be hoisted)"
         else if dep && oa <> ob then
           "FAIL provider " ^ pid ^ " receives per-invocation values, yet marking it Cacheable changes the chain: " ^ first_diff (split_ws oa) (split_ws ob)
         else if dep then "PASS"
         else "PASS (the marked provider takes only static inputs: hoisting it is what the mark asks for)"
       end else "PASS"
     | ["PAIR"; "refltwin"; _] when prop = "C20" ->
       if oa = ob then "PASS"
       else if ok sa <> ok sb then "FAIL supplying providers through the Reflective interfaces changes whether the chain binds"
       else "FAIL the chain with Reflective providers differs from the chain of functions: " ^ first_diff (split_ws ob) (split_ws oa)
     | ["PAIR"; "unused"; _] when prop = "C13" ->
       let no_u secs name = List.map (strip_arg "u") (sec name secs) in
       if ok sa <> ok sb then "FAIL adding an Unused parameter changes whether the chain binds"
       else if not (ok sa) then "PASS"
       else if user_included sa <> user_included sb then "FAIL adding an Unused parameter changes which providers are included"
       else if no_u sa "RES" <> no_u sb "RES" || no_u sa "LOG" <> no_u sb "LOG" then "FAIL adding an Unused parameter changes the behaviour: " ^ first_diff (no_u sb "LOG") (no_u sa "LOG")
       else "PASS"
     | _ -> "PASS (no pair monitor)")
  | _ -> "FAIL malformed pair"

let monitor_line prop line =
  match String.split_on_char '\t' line with
  | [case; obs] ->
    (match prop, split_ws case with
     | ("C18" | "C05"), "E" :: rest ->
       (match parse_edits_obs obs with
        | None -> "FAIL implementation did not return: " ^ obs
        | Some o -> verdict (mon_C18 (parse_edits rest) o) "execution order is not the edited list (or an invalid directive was accepted / a valid one rejected)")
     | "C04", _ when String.length obs >= 4 && (String.sub obs 0 4 = "HANG" || String.sub obs 0 4 = "PANI") ->
       "FAIL the call did not return an error or a result: " ^ obs
     | _, "K" :: rest -> monitor_chain prop rest obs
     | _, "PAIR" :: _ -> monitor_pair prop case obs
     | ("C19" | "C01" | "C05"), "N" :: _ ->
       (* the condensed provider embedded in an outer chain (B) against the collection bound directly
          with the same inputs (A), both on the implementation *)
       (match split_on_sep case, split_on_sep obs with
        | [hdr; k], [head; oa; ob] when String.length head >= 11 && String.sub head 0 11 = "CONDENSE ok" ->
          let treat = (match split_ws hdr with [_; t] -> t = "1" | _ -> false) in
          let te = (match split_ws k with "K" :: rest -> fst (parse_chain rest) | _ -> failwith "bad K") in
          let sa = split_sections oa in
          if not (match sec "BIND" sa with "ok" :: _ -> true | _ -> false) then
            "FAIL the collection condenses but does not bind directly with the condensed provider's inputs and outputs: " ^ oa
          else if String.length ob >= 10 && String.sub ob 0 10 = "B BIND err" then
            "FAIL a chain that supplies the condensed provider's inputs does not bind: " ^ ob
          else begin
            let sb = split_sections (String.sub ob 2 (String.length ob - 2)) in
            let sigsec = List.find (fun (h, _) -> h = "SIG") (split_sections head) in
            let outs = (match snd sigsec with
                | io :: _ -> (match String.split_on_char '>' io with
                    | [_; o] -> if o = "" then [] else List.map int_of_string (String.split_on_char ',' o)
                    | _ -> [])
                | [] -> []) in
            let vals tok =   (* x(a,b,c) -> [a;b;c] *)
              (match String.index_opt tok '(' with
               | Some i -> let inner = String.sub tok (i + 1) (String.length tok - i - 2) in
                 if inner = "" then [] else String.split_on_char ',' inner
               | None -> []) in
            let zero t = show_val te (VZero (n t)) in
            let nouts = List.length outs in
            let ra = sec "RES" sa and rb = sec "RES" sb in
            let failed tok = treat && (match List.rev (vals tok) with e :: _ -> List.length (vals tok) > nouts && e <> "nil" | [] -> false) in
            let expect_b tok =
              if failed tok then
                "x(" ^ String.concat "," (List.map zero outs @ [List.nth (vals tok) nouts]) ^ ")"
              else tok in
            let exp_rb = List.map expect_b ra in
            let c99 tok = "C99(" ^ String.concat "," (vals tok) ^ ")>(" ^ String.concat "," (vals tok) ^ ")" in
            let drop_err tok = if treat && List.length (vals tok) > nouts then
                "x(" ^ String.concat "," (List.filteri (fun i _ -> i < nouts) (vals tok)) ^ ")" else tok in
            let is99 t = String.length t >= 4 && String.sub t 0 4 = "C99(" in
            let lb = sec "LOG" sb in
            let lb_inner = List.filter (fun t -> not (is99 t)) lb and lb99 = List.filter is99 lb in
            let exp99 = List.filter_map (fun tok -> if failed tok then None else Some (c99 (drop_err tok))) ra in
            (* the reported inputs / outputs against the statement itself (extracted Coq monitor) *)
            let sig_ins = (match snd sigsec with
                | io :: _ -> (match String.split_on_char '>' io with
                    | i :: _ -> if i = "" then [] else List.map int_of_string (String.split_on_char ',' i)
                    | [] -> [])
                | [] -> []) in
            let has_err = List.exists (fun t -> t = "e1") (snd sigsec) in
            let c0 = (match split_ws k with "K" :: rest -> snd (parse_chain rest) | _ -> failwith "bad K") in
            let sig_ok = (match condense_sig te c0.bc_provs with
                | Ok cs -> mon_C19_sig te cs.cs_hoisted (List.map n sig_ins) (List.map n outs @ (if has_err then [te.te_errorT] else []))
                | _ -> true) in
            if not sig_ok then
              "FAIL the condensed provider's inputs are not exactly the collection's unresolved inputs (a parameter is neither supplied inside nor asked for, or a type is asked for that no parameter needs), or its outputs are not the types the collection returns"
            else
            if rb <> exp_rb then "FAIL the outer chain returns " ^ String.concat " " rb ^ " but the collection called directly returns " ^ String.concat " " ra
            else if lb_inner <> sec "LOG" sa then "FAIL inside the condensed provider the providers are called differently: " ^ first_diff lb_inner (sec "LOG" sa)
            else if lb99 <> exp99 then "FAIL downstream of the condensed provider the consumer receives " ^ String.concat " " lb99 ^ ", expected " ^ String.concat " " exp99
            else "PASS"
          end
        | _, [_] -> "PASS (Condense refused the collection)"
        | _ -> "PASS (Condense refused the collection)")
     | "C20", (("Y" | "V" | "F") :: _) ->
       (* the model is the direct computation the helper is specified by *)
       let m = model_line case in
       if obs = m then "PASS" else "FAIL the generated helper differs from direct computation: " ^ first_diff (split_ws obs) (split_ws m)
     | ("C11" | "C01" | "C03" | "C14" | "C12" | "C08" | "C15" | "C06"), "H" :: _ ->
       (* the property itself, on the implementation's observations alone: a never-used copy of the
          description (0), the collection after the history (1, 2, 7) and collections derived from it
          before the history (3, 4) behave identically; the derivation with one more provider (5) and the
          one made after the history (6) behave like the model of their own flat lists *)
       let strip_dbg o =
         let n = String.length o in
         let rec find i = if i + 7 > n then None else if String.sub o i 7 = " ; DBG " then Some i else find (i + 1) in
         (match find 0 with Some i -> String.sub o 0 i | None -> o) in
       (match List.map strip_dbg (split_on_sep obs), split_on_sep (model_line case) with
        | ([o0; o1; o2; o3; o4; o5; o6; o7] as os), [_; _; _; _; _; m5; m6; _] ->
          if List.exists (fun o -> not (starts_with 'B' o)) os then "FAIL implementation did not return an observation: " ^ obs
          else if o1 <> o0 then "FAIL after the history the collection no longer behaves like a never-used copy of the same description: " ^ first_diff (split_ws o1) (split_ws o0)
          else if o2 <> o1 then "FAIL binding the same collection twice gives different chains: " ^ first_diff (split_ws o2) (split_ws o1)
          else if o3 <> o0 || o4 <> o0 then "FAIL a collection derived before the history (same providers) behaves differently from the original description"
          else if o7 <> o0 then "FAIL the collection behaves differently once collections derived from it have been bound"
          else
            let same o m = (let m = strip_wf m in o = m || (starts_with 'B' o && String.length o > 8 && String.sub o 0 8 = "BIND err" && String.length m > 8 && String.sub m 0 8 = "BIND err")) in
            if not (same o5 m5) then "FAIL a collection derived by Append before the history lost or changed its own providers: " ^ first_diff (split_ws o5) (split_ws (strip_wf m5))
            else if not (same o6 m6) then "FAIL a collection derived after the history does not behave like its description (an earlier Bind left its mark): " ^ first_diff (split_ws o6) (split_ws (strip_wf m6))
            else "PASS"
        | _ -> "FAIL malformed history observation")
     | _, (("M" | "O" | "S" | "D") :: _ as toks) ->
       if obs = model_conc toks then "PASS" else "FAIL " ^ obs
     | _ -> "PASS (no monitor for this stream)")
  | _ -> "FAIL malformed monitor input"

let () =
  let f =
    if Array.length Sys.argv >= 3 && Sys.argv.(1) = "-monitor" then monitor_line Sys.argv.(2)
    else model_line in
  try
    while true do
      let line = input_line stdin in
      let t = String.trim line in
      if t <> "" && t.[0] <> '#' then print_endline (f line)
    done
  with End_of_file -> ()
