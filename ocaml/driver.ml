(* Driver for the extracted Coq model.  Parsing and printing only.

     driver                      reads case lines, prints the model's canonical observation
     driver -monitor Cnn         reads "case<TAB>observation" lines (the observation is the
                                 implementation's), prints PASS / FAIL <why> from mon_Cnn *)
open Model

let rec nat_of_int n = if n <= 0 then O else S (nat_of_int (n - 1))
let rec int_of_nat = function O -> 0 | S n -> 1 + int_of_nat n

let split_ws s = List.filter (fun x -> x <> "") (String.split_on_char ' ' s)
let ints_to_string l = String.concat "" (List.map (fun i -> " " ^ string_of_int (int_of_nat i)) l)

(* ---------- stream "edits" ---------- *)
let parse_edits toks =
  match toks with
  | coll :: n :: rest ->
    let coll = int_of_string coll and n = int_of_string n in
    let a = Array.of_list (List.map int_of_string rest) in
    List.init n (fun i ->
      let o = a.(4*i) in
      let o = if o = 0 then coll else o in
      { eid = nat_of_int i; eorigin = nat_of_int o; erep = nat_of_int a.(4*i+1);
        ebef = nat_of_int a.(4*i+2); eaft = nat_of_int a.(4*i+3) })
  | _ -> failwith "bad edits case"

let show_edits_obs = function
  | EOk ids -> "OK" ^ ints_to_string ids
  | EErr c -> "ERR " ^ string_of_int (int_of_nat c)

(* None = an observation the model can never produce (PANIC, HANG, garbage) *)
let parse_edits_obs s =
  match split_ws s with
  | "OK" :: ids -> Some (EOk (List.map (fun x -> nat_of_int (int_of_string x)) ids))
  | ["ERR"; c] -> Some (EErr (nat_of_int (int_of_string c)))
  | _ -> None

(* ---------- dispatch ---------- *)
let model_line line =
  match split_ws line with
  | "E" :: rest -> show_edits_obs (edits_obs (parse_edits rest))
  | _ -> "UNKNOWN-CASE"

let verdict b why = if b then "PASS" else "FAIL " ^ why

let monitor_line prop line =
  match String.split_on_char '\t' line with
  | [case; obs] ->
    (match prop, split_ws case with
     | "C18", "E" :: rest ->
       (match parse_edits_obs obs with
        | None -> "FAIL implementation did not return: " ^ obs
        | Some o -> verdict (mon_C18 (parse_edits rest) o) "execution order is not the edited list (or an invalid directive was accepted / a valid one rejected)")
     | _ -> "PASS (no monitor for this stream)")
  | _ -> "FAIL malformed monitor input"

let () =
  let f =
    if Array.length Sys.argv >= 3 && Sys.argv.(1) = "-monitor" then monitor_line Sys.argv.(2)
    else model_line in
  try
    while true do
      let line = input_line stdin in
      let t = String.trim line in
      if t <> "" && t.[0] <> '#' then print_endline (f line)
    done
  with End_of_file -> ()
