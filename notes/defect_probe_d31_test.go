package probe

import (
	"fmt"
	"testing"

	"github.com/muir/nject/v2"
)

type mOut string

// D31: a Cacheable consumer of an interface that a per-invocation provider satisfies (Loose) was hoisted
// to the static set, in front of its only source: Bind failed ("no match for its input parameter").
func TestHoistThroughLoose(t *testing.T) {
	var invoke func(int) mOut
	calls := 0
	err := nject.Sequence("s",
		nject.Loose[gI](func(x int) gT { return gT{n: fmt.Sprint("v", x)} }),
		nject.Cacheable(func(i gI) mOut { calls++; return mOut("S(" + i.Name() + ")") }),
		func(o mOut) mOut { return o },
	).Bind(&invoke, nil)
	fmt.Println("bind:", err)
	if err != nil {
		return
	}
	func() {
		defer func() {
			if p := recover(); p != nil {
				fmt.Println("PANIC", p)
			}
		}()
		fmt.Println(invoke(1), invoke(2), "calls", calls)
	}()
}
