package nject_test

import (
	"testing"

	"github.com/muir/nject/v2"
)

type d25A int

func TestD25(t *testing.T) {
	var inv func() d25A
	err := nject.Sequence("s",
		nject.Reorder(func() int { return 1 }),
		nject.ConsumptionOptional[d25A](func(int) d25A { return 1 }),
	).Bind(&inv, nil)
	if err != nil {
		t.Fatal(err)
	}
	_ = inv()
}
