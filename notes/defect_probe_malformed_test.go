package probe

import (
	"fmt"
	"testing"

	"github.com/muir/nject/v2"
)

type A int
type B int

func try(name string, f func() error) (res string) {
	defer func() {
		if r := recover(); r != nil {
			res = fmt.Sprintf("%-40s PANIC %v", name, r)
		}
	}()
	err := f()
	if err != nil {
		return fmt.Sprintf("%-40s err", name)
	}
	return fmt.Sprintf("%-40s ok", name)
}

func TestMalformed(t *testing.T) {
	var inv func()
	var invA func() A
	var nilFuncPtr *func()
	var typedNil func() A
	cases := []struct {
		n string
		f func() error
	}{
		{"bind nil invoke", func() error { return nject.Sequence("s", func() {}).Bind(nil, nil) }},
		{"bind non-pointer invoke", func() error { return nject.Sequence("s", func() {}).Bind(func() {}, nil) }},
		{"bind nil func pointer invoke", func() error { return nject.Sequence("s", func() {}).Bind(nilFuncPtr, nil) }},
		{"bind pointer to int invoke", func() error { x := 3; return nject.Sequence("s", func() {}).Bind(&x, nil) }},
		{"empty sequence", func() error { return nject.Sequence("s").Bind(&inv, nil) }},
		{"nil provider entries", func() error { return nject.Sequence("s", nil, func() {}, nil).Bind(&inv, nil) }},
		{"typed nil func provider last", func() error { return nject.Sequence("s", typedNil).Bind(&invA, nil) }},
		{"typed nil func provider middle", func() error { return nject.Sequence("s", typedNil, func(a A) A { return a }).Bind(&invA, nil) }},
		{"literal last", func() error { return nject.Sequence("s", func() {}, A(3)).Bind(&inv, nil) }},
		{"wrapper last", func() error { return nject.Sequence("s", func(inner func()) { inner() }).Bind(&inv, nil) }},
		{"anon func param", func() error { return nject.Sequence("s", func(a A, f func()) {}, func() {}).Bind(&inv, nil) }},
		{"anon func output", func() error { return nject.Sequence("s", func() func() { return nil }, func() {}).Bind(&inv, nil) }},
		{"init non pointer", func() error { return nject.Sequence("s", func() {}).Bind(&inv, func() {}) }},
		{"init same as invoke ptr", func() error { return nject.Sequence("s", func() {}).Bind(&inv, &inv) }},
		{"memoize + singleton", func() error { return nject.Sequence("s", nject.Memoize(nject.Singleton(func() A { return 1 })), func(A) {}).Bind(&inv, nil) }},
		{"collection as provider func", func() error { return nject.Sequence("s", nject.Required(nject.Sequence("x", func() {}, func() {})), func() {}).Bind(&inv, nil) }},
		{"Run with nil", func() error { return nject.Run("r", nil) }},
		{"Run empty", func() error { return nject.Run("r") }},
		{"SetCallback non-func", func() error { return nject.Sequence("s", func() {}).SetCallback(3) }},
		{"SetCallback nil", func() error { return nject.Sequence("s", func() {}).SetCallback(nil) }},
		{"SetCallback variadic", func() error { return nject.Sequence("s", func() {}).SetCallback(func(f ...func()) {}) }},
		{"Condense empty", func() error { _, err := nject.Sequence("s").Condense(false); return err }},
		{"Condense literal last", func() error { _, err := nject.Sequence("s", A(1)).Condense(false); return err }},
		{"Condense wrapper last", func() error { _, err := nject.Sequence("s", func(inner func()) {}).Condense(false); return err }},
		{"Condense nil fn last (Provide nil)", func() error { _, err := nject.Sequence("s", typedNil).Condense(false); return err }},
		{"memoize slice input run", func() error {
			var i2 func([]int) B
			err := nject.Sequence("s", nject.Memoize(func(x []int) B { return B(len(x)) }), func(b B) B { return b }).Bind(&i2, nil)
			if err != nil {
				return err
			}
			i2([]int{1})
			i2([]int{1})
			return nil
		}},
		{"variadic provider", func() error { return nject.Sequence("s", func(a ...A) {}).Bind(&inv, nil) }},
		{"variadic invoke", func() error { var v func(a ...A); return nject.Sequence("s", func() {}).Bind(&v, nil) }},
	}
	for _, c := range cases {
		fmt.Println(try(c.n, c.f))
	}
}
