package probe

import (
	"fmt"
	"testing"

	"github.com/muir/nject/v2"
)

type gI interface{ Name() string }
type gT struct{ n string }

func (t gT) Name() string { return t.n }

type gOut string

// D29: a static (Cacheable) decorator func(I) I whose input is satisfied loosely by a T: the slot of
// its output was allocated under T (the input remap was applied to the output), so a static
// consumer of I read an unallocated slot: invoke panicked "reflect: Call using zero Value argument".
func TestStaticDecorator(t *testing.T) {
	for _, static := range []bool{false, true} {
		var dec any = func(i gI) gI { return gT{n: "decorated(" + i.Name() + ")"} }
		var src any = nject.Loose[gI](func() gT { return gT{n: "src"} })
		var use any = func(i gI) gOut { return gOut(i.Name()) }
		if static {
			dec = nject.Cacheable(dec)
			src = nject.Cacheable(src)
			use = nject.Cacheable(use)
		}
		var invoke func() gOut
		err := nject.Sequence("s", src, dec, use, func(o gOut) gOut { return o }).Bind(&invoke, nil)
		if err != nil {
			fmt.Println("static", static, "bind error:", err)
			continue
		}
		func() {
			defer func() {
				if p := recover(); p != nil {
					t.Errorf("D29: static %v: panic %v", static, p)
				}
			}()
			if got := invoke(); got != "decorated(src)" {
				t.Errorf("D29: static %v: got %q", static, got)
			}
		}()
	}
}
