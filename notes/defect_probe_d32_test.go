package probe

import (
	"fmt"
	"testing"

	"github.com/muir/nject/v2"
)

// the Loose source of I is a literal T, but T is also an argument of the invoke function:
// the consumer of I sees the argument; marking it Cacheable must not change that
func TestHoistShadowedLoose(t *testing.T) {
	for _, mark := range []bool{false, true} {
		var consumer any = func(i gI) mOut { return mOut("S(" + i.Name() + ")") }
		if mark {
			consumer = nject.Cacheable(consumer)
		}
		var invoke func(gT) mOut
		err := nject.Sequence("s",
			nject.Loose[gI](gT{n: "lit"}),
			consumer,
			func(o mOut) mOut { return o },
		).Bind(&invoke, nil)
		if err != nil {
			fmt.Println("marked", mark, "bind:", err)
			continue
		}
		fmt.Println("marked", mark, invoke(gT{n: "arg1"}), invoke(gT{n: "arg2"}))
	}
}
