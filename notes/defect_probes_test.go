package probe

import (
	"fmt"
	"testing"

	"github.com/muir/nject/v2"
)

type A int
type B int
type C int

// D1: wrapper calls inner twice then returns a value: caller must see the wrapper's value
func TestD1(t *testing.T) {
	var invoke func() C
	n := 0
	err := nject.Sequence("s",
		func(inner func() C) C { inner(); inner(); return 100 },
		func() C { n++; return C(n) },
	).Bind(&invoke, nil)
	if err != nil { t.Fatal(err) }
	if got := invoke(); got != 100 { t.Fatalf("D1: got %d want 100", got) }
}

// D2: memoized fallible run injector: second invoke with same key
func TestD2(t *testing.T) {
	var invoke func(A) (B, error)
	err := nject.Sequence("s",
		nject.Memoize(func(a A) (nject.TerminalError, B) { return nil, B(a) + 1 }),
		func(b B) (B, error) { return b, nil },
	).Bind(&invoke, nil)
	if err != nil { t.Fatal(err) }
	for i := 0; i < 3; i++ {
		b, e := invoke(5)
		if b != 6 || e != nil { t.Fatalf("D2: round %d got %v %v", i, b, e) }
	}
}

// D3: Condense must not make the collection's last provider Required for later uses
func TestD3(t *testing.T) {
	c := nject.Sequence("c", func() A { return 1 }, func(a A) B { return B(a) })
	var i1 func() string
	mk := func() error {
		return nject.Sequence("outer", c, func() string { return "x" }).Bind(&i1, nil)
	}
	if err := mk(); err != nil { t.Fatal(err) }
	if _, err := c.Condense(false); err != nil { t.Fatal(err) }
	// after Condense, c's last provider (A)->B must still be optional in an outer chain where B is unused
	var dbg *nject.Debugging
	var i2 func() string
	err := nject.Sequence("outer", c, func(d *nject.Debugging) string { dbg = d; return "x" }).Bind(&i2, nil)
	if err != nil { t.Fatalf("D3: %v", err) }
	i2()
	for _, n := range dbg.NamesIncluded {
		if n == "c(1)" { t.Fatalf("D3: c(1) included after Condense: %v", dbg.NamesIncluded) }
	}
}

// D4: binding a collection with NonFinal must not permute it
func TestD4(t *testing.T) {
	var order []string
	c := nject.Sequence("c",
		func() { order = append(order, "a") },
		func() { order = append(order, "f") },
		nject.NonFinal(func() { order = append(order, "b") }),
	)
	c2before := c.Append("x", func() { order = append(order, "z") })
	var inv func()
	if err := c.Bind(&inv, nil); err != nil { t.Fatal(err) }
	c2after := c.Append("x", func() { order = append(order, "z") })
	run := func(c *nject.Collection) string {
		order = nil
		var inv func()
		if err := c.Bind(&inv, nil); err != nil { t.Fatal(err) }
		inv()
		return fmt.Sprint(order)
	}
	b, a := run(c2before), run(c2after)
	if a != b { t.Fatalf("D4: before %s after %s", b, a) }
}

// D5: Cluster must not turn the members of an existing collection into cluster members
func TestD5(t *testing.T) {
	seq := nject.Sequence("seq", func() A { return 1 }, func(a A) B { return B(a) })
	var dbg *nject.Debugging
	fin := func(d *nject.Debugging, a A) string { dbg = d; return "x" }
	names := func() string {
		var inv func() string
		if err := nject.Sequence("o", seq, fin).Bind(&inv, nil); err != nil { t.Fatal(err) }
		inv()
		return fmt.Sprint(dbg.NamesIncluded)
	}
	before := names()
	_ = nject.Cluster("cl", seq, func(b B) C { return C(b) })
	after := names()
	if before != after { t.Fatalf("D5: before %s after %s", before, after) }
}

// D7: Unused parameter on final + init returning last static value
func TestD7(t *testing.T) {
	mk := func(final any) error {
		var inv func() string
		var init func() B
		return nject.Sequence("s",
			nject.Cacheable(func() A { return 1 }),
			nject.Cacheable(func(a A) B { return B(a) }),
			final,
		).Bind(&inv, &init)
	}
	if err := mk(func(b B) string { return "x" }); err != nil { t.Fatal(err) }
	if err := mk(func(b B, _ nject.Unused) string { return "x" }); err != nil { t.Fatalf("D7: %v", err) }
}
