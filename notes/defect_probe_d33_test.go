package probe

// D33 (fixed in /repo d81760d): on the tree before the fix the "cacheable-reorder" variant fails to
// bind ("no provider for int ... x(1) has no match for its input parameter X2"), the other two bind;
// Reorder(MustCache(func() (X, TerminalError))) was classified "static-injector".
// Run from a scratch module with `replace github.com/muir/nject/v2 => /repo`.

import (
	"fmt"
	"testing"

	"github.com/muir/nject/v2"
)

type X2 string

func TestReorderedCacheable(t *testing.T) {
	for _, variant := range []string{"cacheable-reorder", "cacheable", "plain-reorder"} {
		var invoke func() string
		var p any
		switch variant {
		case "cacheable-reorder":
			p = nject.Reorder(nject.Cacheable(func() X2 { return "x" }))
		case "cacheable":
			p = nject.Cacheable(func() X2 { return "x" })
		case "plain-reorder":
			p = nject.Reorder(func() X2 { return "x" })
		}
		err := nject.Sequence("x",
			p,
			nject.Cacheable(func(x X2) int { return len(x) }),
			func(i int) string { return fmt.Sprint("final ", i) },
		).Bind(&invoke, nil)
		if err != nil {
			t.Errorf("%s: bind err = %v", variant, err)
			continue
		}
		t.Logf("%s: invoke: %q", variant, invoke())
	}
}

func TestMustCacheReorderTerminalError(t *testing.T) {
	var invoke func() string
	err := nject.Sequence("x",
		nject.Reorder(nject.MustCache(func() (X2, nject.TerminalError) { return "x", fmt.Errorf("boom") })),
		nject.Cacheable(func(x X2) int { return len(x) }),
		func(i int) string { return fmt.Sprint("final ", i) },
	).Bind(&invoke, nil)
	if err == nil {
		t.Errorf("a MustCache provider that cannot be static must not bind")
	} else {
		t.Logf("bind err (expected: could not match any prototype): %v", err)
	}
}
