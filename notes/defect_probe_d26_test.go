package probe

import (
	"testing"

	"github.com/muir/nject/v2"
)

// D26: asking for *Debugging changed which providers are included.  The cluster member below
// is included (clusters go in or out together) -- unless it also asks for *Debugging: the trial
// elimination of the Debugging provider then succeeded because the member is neither Required
// nor Desired, and took the member with it.
func TestD26(t *testing.T) {
	type X int
	type Y int
	for _, ask := range []bool{false, true} {
		called := false
		var member any = func(x X) Y { called = true; return 0 }
		if ask {
			member = func(x X, _ *nject.Debugging) Y { called = true; return 0 }
		}
		var invoke func(X) X
		err := nject.Cluster("c",
			func() {},
			member,
			func(x X) X { return x },
		).Bind(&invoke, nil)
		if err != nil {
			t.Fatal(err)
		}
		invoke(1)
		if !called {
			t.Errorf("D26: cluster member not called (asks for *Debugging: %v)", ask)
		}
	}
}
