package probe

import (
	"fmt"
	"testing"

	"github.com/muir/nject/v2"
)

// D30: the up-side twin of D29.  X receives (T, I) from below (I loosely from the final's T) and returns I; Y above receives I.
func TestUpRemapOnReturns(t *testing.T) {
	var invoke func() string
	err := nject.Sequence("s",
		func(inner func() gI) string {
			i := inner()
			if i == nil {
				return "Y got nil"
			}
			return "Y(" + i.Name() + ")"
		},
		func(inner func() (gT, gI)) gI {
			a, b := inner()
			fmt.Printf("X received a=%v b=%v\n", a, b)
			if b == nil {
				return gT{n: "X(" + a.Name() + ",nil)"}
			}
			return gT{n: "X(" + a.Name() + "," + b.Name() + ")"}
		},
		nject.Loose[gI](func() gT { return gT{n: "final"} }),
	).Bind(&invoke, nil)
	fmt.Println("bind:", err)
	if err == nil {
		func() {
			defer func() {
				if p := recover(); p != nil {
					fmt.Println("PANIC", p)
				}
			}()
			fmt.Println(invoke())
		}()
	}
}
