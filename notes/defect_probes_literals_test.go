package probe

import (
	"fmt"
	"testing"

	"github.com/muir/nject/v2"
)

type A int
type B int

// D8: a literal listed in the chain is nearer than an init argument of the same type
func TestD8(t *testing.T) {
	var inv func() A
	var init func(A)
	if err := nject.Sequence("s", A(7), func(a A) A { return a }).Bind(&inv, &init); err != nil { t.Fatal(err) }
	init(99)
	if got := inv(); got != 7 { t.Fatalf("D8: got %d want 7", got) }
}

// D9: literal listed after a static injector of the same type
func TestD9(t *testing.T) {
	var inv func() A
	if err := nject.Sequence("s", nject.Cacheable(func() A { return 1 }), A(7), func(a A) A { return a }).Bind(&inv, nil); err != nil { t.Fatal(err) }
	if got := inv(); got != 7 { t.Fatalf("D9: got %d want 7", got) }
}

// D9b: earlier literal read by a static injector in between, later literal of the same type
func TestD9b(t *testing.T) {
	var inv func() (A, B)
	if err := nject.Sequence("s", A(1), nject.Cacheable(func(a A) B { return B(a) }), A(7), func(a A, b B) (A, B) { return a, b }).Bind(&inv, nil); err != nil { t.Fatal(err) }
	a, b := inv()
	if a != 7 || b != 1 { t.Fatalf("D9b: got %d %d want 7 1", a, b) }
}

// D10: literal listed after a failing fallible static injector
func TestD10(t *testing.T) {
	var inv func() (A, error)
	err := nject.Sequence("s",
		nject.Cacheable(func() (B, nject.TerminalError) { return 0, fmt.Errorf("x") }),
		A(7),
		func(a A, e error) (A, error) { return a, e }).Bind(&inv, nil)
	if err != nil { t.Fatal(err) }
	a, e := inv()
	if a != 7 || e == nil { t.Fatalf("D10: got %d %v want 7 x", a, e) }
}

// D20: two fallible static injectors, the first fails: error must stay visible and be returned by init
func TestD20(t *testing.T) {
	var inv func() error
	var init func() error
	err := nject.Sequence("s",
		nject.Cacheable(func() (A, nject.TerminalError) { return 0, fmt.Errorf("first") }),
		nject.Cacheable(func(a A) (B, nject.TerminalError) { return 0, nil }),
		func(b B, e error) error { return e }).Bind(&inv, &init)
	if err != nil { t.Fatal(err) }
	if e := init(); e == nil { t.Fatalf("D20: init returned nil") }
	if e := inv(); e == nil { t.Fatalf("D20: invoke saw nil error") }
}
