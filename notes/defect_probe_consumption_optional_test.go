package probe

import (
	"testing"

	"github.com/muir/nject/v2"
)

type A int
type B int

// D21: ConsumptionOptional[A] must not make the provider's other return types optional
func TestD21(t *testing.T) {
	var inv func() A
	err := nject.Sequence("s", nject.ConsumptionOptional[A](func() (A, B) { return 1, 2 })).Bind(&inv, nil)
	if err == nil {
		t.Fatalf("D21: chain binds although B, returned by the final function, is received by nobody")
	}
	var inv2 func() B
	err = nject.Sequence("s", nject.ConsumptionOptional[A](func() (A, B) { return 1, 2 })).Bind(&inv2, nil)
	if err != nil {
		t.Fatalf("D21: A is optional, B is received: %v", err)
	}
}
