package probe

import (
	"testing"

	"github.com/muir/nject/v2"
)

type (
	cA int
	cC int
	cX int
	cY int
	cZ int
	cW int
)

// D17: UpFlows folded top-down: [w(inner() C) C, f() C] reported nothing produced and Condense failed.
// D18: the inner() placeholder leaked into the condensed invoke signature ("internal error #14").
func TestD17D18(t *testing.T) {
	coll := nject.Sequence("s",
		func(inner func() cC, a cA) cC { return inner() + cC(a) },
		func() cC { return 1 },
	)
	p, err := coll.Condense(false)
	if err != nil {
		t.Fatalf("D17/D18: Condense: %v", err)
	}
	var f func(cA) cC
	if err := nject.Sequence("o", p, func(c cC) cC { return c }).Bind(&f, nil); err != nil {
		t.Fatal(err)
	}
	if got := f(7); got != 8 {
		t.Fatalf("got %d want 8", got)
	}
}

// D27: Condense took the NonFinal provider listed last for the final function (made it Required).
func TestD27(t *testing.T) {
	coll := nject.Sequence("s",
		func(a cA) cC { return cC(a) },
		nject.NonFinal(nject.MustConsume[cX](func() cX { return 1 })), // optional, cannot be used
	)
	var f func(cA) cC
	if err := coll.Bind(&f, nil); err != nil {
		t.Fatalf("direct bind: %v", err)
	}
	if _, err := coll.Condense(false); err != nil {
		t.Errorf("D27: binds directly but Condense fails: %v", err)
	}
}

// D28: Condense moved providers that take their input from the surroundings in front of the
// providers listed before them.
func TestD28(t *testing.T) {
	calledFirst, calledSecond := 0, 0
	mk := func() *nject.Collection {
		return nject.Sequence("s",
			func() cY { calledFirst++; return 1 },
			nject.Cacheable(func(x cX) cY { calledSecond++; return cY(x) + 10 }),
			func(y cY) cZ { return cZ(y) },
		)
	}
	var direct func(cX) cZ
	if err := mk().Bind(&direct, nil); err != nil {
		t.Fatal(err)
	}
	want := direct(5)
	p, err := mk().Condense(false)
	if err != nil {
		t.Fatal(err)
	}
	var f func(cX) cZ
	if err := nject.Sequence("o", p, func(z cZ) cZ { return z }).Bind(&f, nil); err != nil {
		t.Fatal(err)
	}
	if got := f(5); got != want {
		t.Errorf("D28: condensed gives %d, bound directly gives %d", got, want)
	}
}
