package probe

import (
	"testing"

	"github.com/muir/nject/v2"
)

type A int
type B int
type X int

// D16: a Reorder'd injector listed after a Cacheable consumer of its output
func TestD16(t *testing.T) {
	run := func(items ...any) (B, error) {
		var inv func(X) B
		if err := nject.Sequence("s", items...).Bind(&inv, nil); err != nil {
			return 0, err
		}
		return inv(5), nil
	}
	prod := func(x X) A { return A(x) + 1 }
	cons := nject.Cacheable(func(a A) B { return B(a) * 2 })
	fin := func(b B) B { return b }
	b1, err := run(nject.Reorder(prod), cons, fin)
	if err != nil { t.Fatal("listed before:", err) }
	b2, err := run(cons, nject.Reorder(prod), fin)
	if err != nil { t.Fatal("listed after:", err) }
	if b1 != b2 { t.Fatalf("D16: %d vs %d", b1, b2) }
}
