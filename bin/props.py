"""Per-property configuration for bin/check: streams (generators of the Go harness), case counts
per tier, non-triviality rules, shrinkers."""


def _edits_nontrivial(case, obs):
    f = case.split()
    n = int(f[2])
    tags = sum(1 for i in range(n) for k in (1, 2, 3) if f[3 + 4 * i + k] != '0')
    return tags > 0 and obs.startswith('OK')


def _edits_shrink(case):
    f = case.split()
    coll, n = f[1], int(f[2])
    rows = [f[3 + 4 * i: 7 + 4 * i] for i in range(n)]
    out = []

    def emit(rs):
        out.append('E %s %d %s' % (coll, len(rs), ' '.join(' '.join(r) for r in rs)))
    for i in range(n):
        if n > 1:
            emit(rows[:i] + rows[i + 1:])
    for i in range(n):
        for k in (1, 2, 3):
            if rows[i][k] != '0':
                r = [list(x) for x in rows]
                r[i][k] = '0'
                emit(r)
    if coll != '0':
        out.append('E 0 %d %s' % (n, ' '.join(' '.join(r) for r in rows)))
    return out


HOOK_COMMITS = ['ae5437e']

PROPS = {
    'C18': dict(
        monitor=True,
        streams=[dict(name='edits', n_quick=4000, n_thorough=150000, nontrivial=_edits_nontrivial)],
        rule='stream edits: lists of 1-14 named no-op providers with 0-5 ReplaceNamed/InsertBeforeNamed/InsertAfterNamed '
             'directives (runs, duplicated/missing/self targets, double tags), drawn from one splitmix64 state; '
             'a case is non-trivial when it has at least one directive and binds; distinct = distinct case lines',
        level_text='Theorems (Coq, no axioms) about the list-level model of handleReplaceByName: the edited list is a permutation of the input minus replaced target blocks, untagged providers keep their relative order, a carried-out insertion is adjacent to its target, bad targets and double tags fail; for all lists and directives. The model is tied to /repo by running the extracted model and the real Bind on the same generated lists and comparing execution order / error class.',
        level_note='Trusted: Coq kernel, extraction (ExtrOcamlBasic), OCaml driver, Go harness; the Go code itself is modelled, not verified; the tie is differential testing bounded by the generator (lists <=14, <=5 directives).',
        design_ref='DESIGN.md section 8 (C18)',
        assumptions=['execution order of no-op injectors is the observable for the edited order',
                     'a directive whose target block contains the edited provider is an error (fixed in /repo, see known-findings.txt)'],
    ),
}

SHRINKERS = {
    'edits': _edits_shrink,
}
